package vm

// C13 NeoVM integer opcodes compute exact integer results within bounds.
//
// Oracle: an independent reference over math/big (truncated division built from unsigned
// division, floor shift, bitwise ops through fixed-width two's complement). The VM's integer bound
// is the one IntValFromBigInt defines: magnitude of at most 32 bytes, |v| <= 2^256-1.
//   * all operands and the exact result inside the bound  => the op succeeds and the top of the
//     stack is the exact result;
//   * otherwise (operand or result outside, division by zero, negative shift count) => FAULT;
//   * every operand is materialised in several representations (integer value, minimal byte
//     array, sign-extended byte array, bool for 0/1, PUSHn/PUSHBYTES in a real script): the
//     outcome must be the same for all of them.
// Don't-cares (not asserted, counted as class "dontcare"):
//   * LT GT LTE GTE NUMEQUAL NUMNOTEQUAL with an operand outside the bound (executor.go: "pop as
//     bytes to avoid hard-fork because previous version missing check"; AsBigInt "urgly hack: only
//     used in cmp opcode to lift the 32byte limit"): only exactness on in-range operands;
//   * shift counts outside the VM's shift-count rule 0..256 where mathematics and the rule
//     disagree: SHL of zero by more than 256 (the VM faults on the count, the exact result 0
//     fits) and SHR by a count that does not fit uint64 (the VM faults, the exact result is 0/-1).

import (
	"fmt"
	"math/big"
	"strings"
	"testing"

	"github.com/ontio/ontology/vm/neovm"
	"github.com/ontio/ontology/vm/neovm/types"
	"pgregory.net/rapid"

	"verifharness/internal/harn"
)

type opKind int

const (
	okArith   opKind = iota // result bound applies, operands must be in bound
	okShift                 // second operand is a shift count
	okCmpHard               // comparison that pops integers (faults on over-long operands)
	okCmpSoft               // comparison that deliberately accepts over-long operands
)

type intOp struct {
	name  string
	code  neovm.OpCode
	arity int
	kind  opKind
}

var (
	opsArith = []intOp{
		{"ADD", neovm.ADD, 2, okArith}, {"SUB", neovm.SUB, 2, okArith}, {"MUL", neovm.MUL, 2, okArith},
		{"DIV", neovm.DIV, 2, okArith}, {"MOD", neovm.MOD, 2, okArith}, {"MIN", neovm.MIN, 2, okArith},
		{"MAX", neovm.MAX, 2, okArith}, {"INC", neovm.INC, 1, okArith}, {"DEC", neovm.DEC, 1, okArith},
		{"NEGATE", neovm.NEGATE, 1, okArith}, {"ABS", neovm.ABS, 1, okArith}, {"SIGN", neovm.SIGN, 1, okArith},
		{"DIV", neovm.DIV, 2, okArith}, {"MOD", neovm.MOD, 2, okArith}, {"MUL", neovm.MUL, 2, okArith},
	}
	opsBit = []intOp{
		{"AND", neovm.AND, 2, okArith}, {"OR", neovm.OR, 2, okArith}, {"XOR", neovm.XOR, 2, okArith},
		{"INVERT", neovm.INVERT, 1, okArith}, {"SHL", neovm.SHL, 2, okShift}, {"SHR", neovm.SHR, 2, okShift},
		{"SHL", neovm.SHL, 2, okShift}, {"SHR", neovm.SHR, 2, okShift},
	}
	opsCmp = []intOp{
		{"LT", neovm.LT, 2, okCmpSoft}, {"GT", neovm.GT, 2, okCmpSoft}, {"LTE", neovm.LTE, 2, okCmpSoft},
		{"GTE", neovm.GTE, 2, okCmpSoft}, {"NUMEQUAL", neovm.NUMEQUAL, 2, okCmpSoft},
		{"NUMNOTEQUAL", neovm.NUMNOTEQUAL, 2, okCmpSoft}, {"NZ", neovm.NZ, 1, okCmpHard},
		{"WITHIN", neovm.WITHIN, 3, okCmpHard}, {"WITHIN", neovm.WITHIN, 3, okCmpHard},
	}
)

var (
	bMinI64  = big.NewInt(-1 << 63)
	bMaxI64  = big.NewInt(1<<63 - 1)
	bTwo63   = pow2(63)
	bMinus1  = big.NewInt(-1)
	bOne     = big.NewInt(1)
	twoW     = pow2(320) // width of the fixed two's complement used for the bitwise reference
	twoWhalf = pow2(319)
)

func inBound(v *big.Int) bool { return v.CmpAbs(maxVmInt) <= 0 }

// ---- reference ------------------------------------------------------------------------------

// truncDivMod: quotient rounded toward zero and remainder with the dividend's sign, built from
// division of magnitudes.
func truncDivMod(a, b *big.Int) (q, r *big.Int) {
	ma, mb := new(big.Int).Abs(a), new(big.Int).Abs(b)
	q = new(big.Int).Div(ma, mb) // both non-negative: floor == truncation
	if a.Sign()*b.Sign() < 0 {
		q.Neg(q)
	}
	r = new(big.Int).Sub(a, new(big.Int).Mul(q, b))
	return
}

func toTwos(v *big.Int) []byte {
	u := new(big.Int).Mod(v, twoW) // Euclidean: 0 <= u < 2^320
	return u.FillBytes(make([]byte, 40))
}

func fromTwos(b []byte) *big.Int {
	u := new(big.Int).SetBytes(b)
	if u.Cmp(twoWhalf) >= 0 {
		u.Sub(u, twoW)
	}
	return u
}

func bitwise(a, b *big.Int, f func(x, y byte) byte) *big.Int {
	x, y := toTwos(a), toTwos(b)
	z := make([]byte, len(x))
	for i := range x {
		z[i] = f(x[i], y[i])
	}
	return fromTwos(z)
}

type expectation struct {
	val      *big.Int // exact result (nil when a fault is expected or don't-care)
	fault    bool
	dontCare bool
	why      string
}

func b2i(b bool) *big.Int {
	if b {
		return big.NewInt(1)
	}
	return big.NewInt(0)
}

// reference computes what the property demands for op(operands...). Operands are pushed in the
// given order (a first, so b is on top).
func reference(op intOp, v []*big.Int) expectation {
	allIn := true
	for _, x := range v {
		if !inBound(x) {
			allIn = false
		}
	}
	if !allIn {
		if op.kind == okCmpSoft {
			return expectation{dontCare: true, why: "comparison opcode with over-long operand (kept lenient to avoid a hard fork)"}
		}
		return expectation{fault: true, why: "operand exceeds the 32-byte bound"}
	}
	var r *big.Int
	a := v[0]
	var b *big.Int
	if len(v) > 1 {
		b = v[1]
	}
	switch op.code {
	case neovm.ADD:
		r = new(big.Int).Add(a, b)
	case neovm.SUB:
		r = new(big.Int).Sub(a, b)
	case neovm.MUL:
		r = new(big.Int).Mul(a, b)
	case neovm.DIV, neovm.MOD:
		if b.Sign() == 0 {
			return expectation{fault: true, why: "division by zero"}
		}
		q, m := truncDivMod(a, b)
		if op.code == neovm.DIV {
			r = q
		} else {
			r = m
		}
	case neovm.MIN:
		r = a
		if b.Cmp(a) < 0 {
			r = b
		}
	case neovm.MAX:
		r = a
		if b.Cmp(a) > 0 {
			r = b
		}
	case neovm.INC:
		r = new(big.Int).Add(a, bOne)
	case neovm.DEC:
		r = new(big.Int).Sub(a, bOne)
	case neovm.NEGATE:
		r = new(big.Int).Neg(a)
	case neovm.ABS:
		r = new(big.Int).Abs(a)
	case neovm.SIGN:
		r = big.NewInt(int64(a.Sign()))
	case neovm.AND:
		r = bitwise(a, b, func(x, y byte) byte { return x & y })
	case neovm.OR:
		r = bitwise(a, b, func(x, y byte) byte { return x | y })
	case neovm.XOR:
		r = bitwise(a, b, func(x, y byte) byte { return x ^ y })
	case neovm.INVERT:
		r = new(big.Int).Sub(new(big.Int).Neg(a), bOne) // ^a = -a-1
	case neovm.SHL:
		if b.Sign() < 0 {
			return expectation{fault: true, why: "negative shift count"}
		}
		if b.Cmp(big.NewInt(256)) > 0 {
			if a.Sign() == 0 {
				return expectation{dontCare: true, why: "0 SHL count>256: VM shift-count rule faults, exact result fits"}
			}
			return expectation{fault: true, why: "shift result exceeds the bound"}
		}
		r = new(big.Int).Mul(a, pow2(uint(b.Int64())))
	case neovm.SHR:
		if b.Sign() < 0 {
			return expectation{fault: true, why: "negative shift count"}
		}
		if !b.IsUint64() {
			return expectation{dontCare: true, why: "SHR count beyond uint64: VM shift-count rule faults, exact result fits"}
		}
		if b.Cmp(big.NewInt(400)) > 0 {
			r = big.NewInt(0)
			if a.Sign() < 0 {
				r = big.NewInt(-1)
			}
		} else {
			r = new(big.Int).Div(a, pow2(uint(b.Int64()))) // Euclidean with positive divisor == floor
		}
	case neovm.LT:
		r = b2i(a.Cmp(b) < 0)
	case neovm.GT:
		r = b2i(a.Cmp(b) > 0)
	case neovm.LTE:
		r = b2i(a.Cmp(b) <= 0)
	case neovm.GTE:
		r = b2i(a.Cmp(b) >= 0)
	case neovm.NUMEQUAL:
		r = b2i(a.Cmp(b) == 0)
	case neovm.NUMNOTEQUAL:
		r = b2i(a.Cmp(b) != 0)
	case neovm.NZ:
		r = b2i(a.Sign() != 0)
	case neovm.WITHIN: // x a b  ->  a <= x < b
		r = b2i(v[0].Cmp(v[1]) >= 0 && v[0].Cmp(v[2]) < 0)
	default:
		panic("harness: no reference for " + op.name)
	}
	if !inBound(r) {
		return expectation{fault: true, why: "exact result " + r.String() + " exceeds the 32-byte bound"}
	}
	return expectation{val: r}
}

// ---- operand generation ---------------------------------------------------------------------

var edge64Pool, boundPool, shiftPool []*big.Int

func init() {
	add := func(p *[]*big.Int, vs ...*big.Int) { *p = append(*p, vs...) }
	for _, d := range []int64{-1, 0, 1} {
		add(&edge64Pool, new(big.Int).Add(bMinI64, big.NewInt(d)), new(big.Int).Add(bMaxI64, big.NewInt(d)))
	}
	for _, x := range []int64{-2, -1, 0, 1, 2, 3, -3, 1 << 31, -1 << 31, 1<<32 - 1, 1 << 32, 1 << 62, -1 << 62, 3037000500, -3037000500, 4611686018427387904} {
		add(&edge64Pool, big.NewInt(x))
	}
	add(&edge64Pool, pow2(64), new(big.Int).Neg(pow2(64)), new(big.Int).Sub(pow2(64), bOne))
	for _, d := range []int64{-2, -1, 0, 1} {
		m := new(big.Int).Add(two256, big.NewInt(d)) // 2^256-2 .. 2^256+1
		add(&boundPool, m, new(big.Int).Neg(m))
	}
	for _, k := range []uint{127, 128, 129, 192, 255, 254, 264, 248} {
		add(&boundPool, pow2(k), new(big.Int).Neg(pow2(k)), new(big.Int).Sub(pow2(k), bOne), new(big.Int).Neg(new(big.Int).Sub(pow2(k), bOne)))
	}
	for _, x := range []int64{0, 1, 2, 7, 8, 9, 31, 32, 62, 63, 64, 65, 127, 128, 191, 192, 193, 247, 248, 254, 255, 256, 257, 258, 300, 1024, -1, -2, -256, 1 << 31, 1<<63 - 1, -1 << 63} {
		add(&shiftPool, big.NewInt(x))
	}
	add(&shiftPool, pow2(63), pow2(64), new(big.Int).Sub(pow2(64), bOne), new(big.Int).Neg(pow2(64)), maxVmInt, two256)
}

func genOperand(t *rapid.T, label string) *big.Int {
	var v *big.Int
	switch k := rapid.IntRange(0, 19).Draw(t, label+"kind"); {
	case k < 7:
		v = rapid.SampledFrom(edge64Pool).Draw(t, label+"e64")
	case k < 11:
		v = rapid.SampledFrom(boundPool).Draw(t, label+"bound")
	case k < 13:
		v = big.NewInt(int64(rapid.IntRange(-20, 20).Draw(t, label+"small")))
	case k < 16:
		v = pow2(uint(rapid.IntRange(0, 264).Draw(t, label+"pow")))
		v.Add(v, big.NewInt(int64(rapid.IntRange(-2, 2).Draw(t, label+"d"))))
		if rapid.Bool().Draw(t, label+"neg") {
			v.Neg(v)
		}
	default:
		n := rapid.IntRange(1, 33).Draw(t, label+"len")
		b := rapid.SliceOfN(rapid.Byte(), n, n).Draw(t, label+"bytes")
		v = new(big.Int).SetBytes(b)
		if rapid.Bool().Draw(t, label+"neg") {
			v.Neg(v)
		}
	}
	return new(big.Int).Set(v)
}

func genShiftCount(t *rapid.T) *big.Int {
	switch k := rapid.IntRange(0, 9).Draw(t, "skind"); {
	case k < 5:
		return new(big.Int).Set(rapid.SampledFrom(shiftPool).Draw(t, "spool"))
	case k < 9:
		return big.NewInt(int64(rapid.IntRange(0, 260).Draw(t, "scount")))
	default:
		return genOperand(t, "sc")
	}
}

// ---- representations ------------------------------------------------------------------------

const (
	repInt      = iota // integer VmValue (machine word or big, whatever the VM chooses)
	repBytesMin        // byte array, shortest two's complement
	repBytesExt        // byte array, sign-extended by 1..9 bytes
	repBool            // bool VmValue (only 0/1)
)

var repNames = []string{"int", "bytes", "bytes+ext", "bool"}

func extend(v *big.Int, k int) []byte {
	b := append([]byte{}, neoBytes(v)...)
	pad := byte(0)
	if v.Sign() < 0 {
		pad = 0xff
	}
	for i := 0; i < k; i++ {
		b = append(b, pad)
	}
	return b
}

// materialise: rep falls back to the minimal byte array when it cannot express v.
func materialise(v *big.Int, rep, ext int) (types.VmValue, int) {
	switch rep {
	case repInt:
		if inBound(v) {
			if x, err := types.VmValueFromBigInt(new(big.Int).Set(v)); err == nil {
				return x, repInt
			}
		}
	case repBool:
		if v.Sign() == 0 || v.Cmp(bOne) == 0 {
			return types.VmValueFromBool(v.Sign() != 0), repBool
		}
	case repBytesExt:
		x, err := types.VmValueFromBytes(extend(v, ext))
		if err != nil {
			panic("harness: " + err.Error())
		}
		return x, repBytesExt
	}
	x, err := types.VmValueFromBytes(neoBytes(v))
	if err != nil {
		panic("harness: " + err.Error())
	}
	return x, repBytesMin
}

func pushScript(v *big.Int, rep, ext int) []byte {
	if rep == repInt && v.IsInt64() && v.Int64() >= -1 && v.Int64() <= 16 {
		if v.Int64() == 0 {
			return []byte{byte(neovm.PUSH0)}
		}
		return []byte{byte(int64(neovm.PUSH1) - 1 + v.Int64())}
	}
	var b []byte
	if rep == repBytesExt {
		b = extend(v, ext)
	} else {
		b = neoBytes(v)
	}
	switch {
	case len(b) == 0:
		return []byte{byte(neovm.PUSHDATA1), 0}
	case len(b) <= 75:
		return append([]byte{byte(len(b))}, b...)
	default:
		return append([]byte{byte(neovm.PUSHDATA1), byte(len(b))}, b...)
	}
}

type outcome struct {
	fault bool
	val   *big.Int
	info  string
}

func (o outcome) String() string {
	if o.fault {
		return "FAULT(" + o.info + ")"
	}
	return o.val.String()
}

// execDirect pushes the operands and executes the single opcode with Executor.ExecuteOp.
func execDirect(t *rapid.T, op intOp, vals []types.VmValue, desc string) (o outcome) {
	defer func() {
		if r := recover(); r != nil {
			t.Fatalf("%s: panic in ExecuteOp: %v", desc, r)
		}
	}()
	e := neovm.NewExecutor([]byte{byte(op.code)}, neovm.VmFeatureFlag{})
	for _, v := range vals {
		if err := e.EvalStack.Push(v); err != nil {
			t.Fatalf("harness: push: %v", err)
		}
	}
	state, err := e.ExecuteOp(op.code, e.Context)
	if state == neovm.FAULT || err != nil {
		return outcome{fault: true, info: fmt.Sprint(err)}
	}
	return readTop(t, e, desc)
}

// execScript runs a real script PUSH.. PUSH.. OP through Executor.Execute.
func execScript(t *rapid.T, op intOp, code []byte, desc string) (o outcome) {
	defer func() {
		if r := recover(); r != nil {
			t.Fatalf("%s: panic in Execute (script %x): %v", desc, code, r)
		}
	}()
	e := neovm.NewExecutor(code, neovm.VmFeatureFlag{})
	err := e.Execute()
	if err != nil || e.State == neovm.FAULT {
		return outcome{fault: true, info: fmt.Sprint(err)}
	}
	return readTop(t, e, desc)
}

func readTop(t *rapid.T, e *neovm.Executor, desc string) outcome {
	if e.EvalStack.Count() != 1 {
		t.Fatalf("%s: %d values on the stack after the opcode, want exactly the result", desc, e.EvalStack.Count())
	}
	top, err := e.EvalStack.Peek(0)
	if err != nil {
		t.Fatalf("%s: peek: %v", desc, err)
	}
	if ty := top.GetType(); ty != types.IntegerType && ty != types.BooleanType {
		t.Fatalf("%s: result has type %x, want an integer or bool", desc, ty)
	}
	x, err := top.AsBigInt()
	if err != nil {
		t.Fatalf("%s: result is not an integer: %v", desc, err)
	}
	return outcome{val: new(big.Int).Set(x)}
}

// ---- the property ---------------------------------------------------------------------------

func nearEdge(v *big.Int) bool {
	m := new(big.Int).Abs(v)
	d := new(big.Int).Sub(m, bTwo63)
	if d.CmpAbs(bOne) <= 0 {
		return true
	}
	d.Sub(m, maxVmInt)
	return d.CmpAbs(bOne) <= 0
}

// witness of the recorded finding: MinInt64 DIV -1 must be 2^63.
func divWitnessStillFails() bool {
	e := neovm.NewExecutor([]byte{byte(neovm.DIV)}, neovm.VmFeatureFlag{})
	_ = e.EvalStack.Push(types.VmValueFromInt64(-1 << 63))
	_ = e.EvalStack.Push(types.VmValueFromInt64(-1))
	state, err := e.ExecuteOp(neovm.DIV, e.Context)
	if state == neovm.FAULT || err != nil {
		return true // a fault is not the exact result either (2^63 fits the bound)
	}
	top, err := e.EvalStack.Peek(0)
	if err != nil {
		return true
	}
	x, err := top.AsBigInt()
	return err != nil || x.Cmp(bTwo63) != 0
}

// witness of the second finding: INVERT(2^256-1) = -2^256 does not fit the bound, so it must fault.
func invertWitnessStillFails() bool {
	e := neovm.NewExecutor([]byte{byte(neovm.INVERT)}, neovm.VmFeatureFlag{})
	v, err := types.VmValueFromBigInt(new(big.Int).Set(maxVmInt))
	if err != nil {
		return false
	}
	_ = e.EvalStack.Push(v)
	state, err := e.ExecuteOp(neovm.INVERT, e.Context)
	return !(state == neovm.FAULT || err != nil)
}

const c13Rule = "operands from an int64-edge pool (Min/MaxInt64±1, ±1, 0, ±2^31, ±2^32, ±2^62, ±2^64), a 32-byte-bound pool (±(2^256-2..2^256+1), ±2^k, ±(2^k-1)), small values, 2^k±d and uniform 1–33-byte values; each case executes one opcode on one operand tuple in 3–4 representation assignments (integer value / minimal bytes / sign-extended bytes / bool / real script) against a math/big reference; non-trivial = an operand or the exact result lies within 1 of ±2^63 or of ±(2^256-1); distinct = different (opcode, operand tuple)"

func checkIntOps(t *testing.T, ops []intOp, quick, thorough int, faultFloor float64) {
	ev := harn.For("C13").Rule(c13Rule)
	ev.Assume("math/big Add/Sub/Mul/unsigned Div/Cmp are correct (reference trusted base)")
	ev.Floor("outcome:exact", "", 0.30)
	ev.Floor("outcome:fault", "", faultFloor)
	ev.Floor("edge:int64", "", 0.10)
	ev.Floor("edge:bound", "", 0.05)
	knownDiv := harn.Known("C13", "minint64-div-minus1", divWitnessStillFails())
	knownInvert := harn.Known("C13", "invert-max-magnitude", invertWitnessStillFails())

	harn.Check(t, quick, thorough, func(t *rapid.T) {
		op := ops[rapid.IntRange(0, len(ops)-1).Draw(t, "op")]
		vals := make([]*big.Int, op.arity)
		for i := range vals {
			if op.kind == okShift && i == 1 {
				vals[i] = genShiftCount(t)
			} else {
				vals[i] = genOperand(t, fmt.Sprintf("v%d", i))
			}
		}
		// second operand sometimes derived from the first (equal, negated, off by one): comparisons, SUB, DIV
		if op.arity >= 2 && op.kind != okShift {
			switch rapid.IntRange(0, 11).Draw(t, "rel") {
			case 0:
				vals[1] = new(big.Int).Set(vals[0])
			case 1:
				vals[1] = new(big.Int).Neg(vals[0])
			case 2:
				vals[1] = new(big.Int).Add(vals[0], bOne)
			}
		}
		strs := make([]string, len(vals))
		for i, v := range vals {
			strs[i] = v.String()
		}
		desc := op.name + "(" + strings.Join(strs, ", ") + ")"
		want := reference(op, vals)

		if knownDiv && op.code == neovm.DIV && vals[0].Cmp(bMinI64) == 0 && vals[1].Cmp(bMinus1) == 0 ||
			knownInvert && op.code == neovm.INVERT && vals[0].Cmp(maxVmInt) == 0 {
			ev.Excluded()
			ev.Case(false, desc)
			return
		}

		nreps := 3
		var first outcome
		var firstHow string
		for r := 0; r <= nreps; r++ {
			reps := make([]int, len(vals))
			exts := make([]int, len(vals))
			script := false
			if r > 0 {
				for i := range vals {
					reps[i] = rapid.IntRange(0, 3).Draw(t, fmt.Sprintf("rep%d_%d", r, i))
					exts[i] = rapid.IntRange(1, 9).Draw(t, fmt.Sprintf("ext%d_%d", r, i))
				}
				script = r == nreps
			}
			var got outcome
			how := ""
			if script {
				var code []byte
				for i, v := range vals {
					rp := reps[i]
					if rp == repBool {
						rp = repBytesMin
					}
					code = append(code, pushScript(v, rp, exts[i])...)
					how += repNames[rp] + " "
				}
				code = append(code, byte(op.code))
				how = "script " + how
				got = execScript(t, op, code, desc)
			} else {
				vv := make([]types.VmValue, len(vals))
				for i, v := range vals {
					var used int
					vv[i], used = materialise(v, reps[i], exts[i])
					how += repNames[used] + " "
				}
				got = execDirect(t, op, vv, desc)
			}
			ev.Class("exec")
			// exactness / fault against the reference
			switch {
			case want.dontCare:
			case want.fault:
				if !got.fault {
					t.Fatalf("%s [%s]: got %s, want FAULT (%s)", desc, how, got, want.why)
				}
			default:
				if got.fault {
					t.Fatalf("%s [%s]: got %s, want exact result %s (operands and result fit the 32-byte bound)", desc, how, got, want.val)
				}
				if got.val.Cmp(want.val) != 0 {
					t.Fatalf("%s [%s]: got %s, want exact result %s", desc, how, got, want.val)
				}
			}
			// independence of the representation (also inside the don't-care region of the arithmetic ops;
			// for the lenient comparisons with over-long operands nothing is required)
			if r == 0 {
				first, firstHow = got, how
			} else if !(want.dontCare && op.kind == okCmpSoft) {
				if got.fault != first.fault || (!got.fault && got.val.Cmp(first.val) != 0) {
					t.Fatalf("%s: result depends on the operand representation: [%s] -> %s but [%s] -> %s", desc, firstHow, first, how, got)
				}
			}
		}

		e64, ebound := false, false
		check := append([]*big.Int{}, vals...)
		if want.val != nil {
			check = append(check, want.val)
		}
		for _, v := range check {
			if nearEdge(v) {
				if v.CmpAbs(pow2(65)) < 0 {
					e64 = true
				} else {
					ebound = true
				}
			}
		}
		ev.Class("op:" + op.name)
		switch {
		case want.dontCare:
			ev.Class("outcome:dontcare")
		case want.fault:
			ev.Class("outcome:fault")
		default:
			ev.Class("outcome:exact")
			if !want.val.IsInt64() {
				ev.Class("result:big")
			} else {
				big_ := false
				for _, v := range vals {
					if !v.IsInt64() {
						big_ = true
					}
				}
				if big_ {
					ev.Class("result:int64-from-big-operand")
				}
			}
		}
		if e64 {
			ev.Class("edge:int64")
		}
		if ebound {
			ev.Class("edge:bound")
		}
		ev.Case(e64 || ebound, desc)
	})
}

func TestC13_Arith(t *testing.T)    { checkIntOps(t, opsArith, 40000, 1800000, 0.05) }
func TestC13_BitShift(t *testing.T) { checkIntOps(t, opsBit, 30000, 1200000, 0.05) }
func TestC13_Compare(t *testing.T)  { checkIntOps(t, opsCmp, 30000, 1200000, 0.015) }
