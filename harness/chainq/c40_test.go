package chainq

// C40 Chain queries agree with each other for every stored block.
//
// A generated chain (native ONT/ONG transfers incl. failing ones, NeoVM deploy/invoke, EIP-155
// transfers and creations) is committed block by block on a real solo ledger, with restarts at
// generated points. The oracle is the harness's own record of what it committed (bytes of
// block.ToArray(), header bytes, transaction bytes and hashes per height). At every checkpoint
// (before each restart, after each restart, at the end) EVERY height is queried through every
// getter named by the property and compared with the record; unknown hashes/heights must not be
// found.

import (
	"fmt"
	"math"
	"math/big"
	"os"
	"strings"
	"testing"

	ethcommon "github.com/ethereum/go-ethereum/common"
	"github.com/ontio/ontology/common"
	"github.com/ontio/ontology/core/payload"
	"github.com/ontio/ontology/core/store"
	"github.com/ontio/ontology/core/store/ledgerstore"
	"github.com/ontio/ontology/core/types"
	cutils "github.com/ontio/ontology/core/utils"
	nutils "github.com/ontio/ontology/smartcontract/service/native/utils"
	"pgregory.net/rapid"

	"verifharness/internal/fix"
	"verifharness/internal/harn"
)

// c40Rec is the harness's record of one committed block.
type c40Rec struct {
	Height  uint32
	Hash    common.Uint256
	Raw     []byte // block.ToArray() taken before the block was handed to the ledger
	HdrRaw  []byte // header.ToArray()
	TxHash  []common.Uint256
	TxRaw   [][]byte
	TxTypes []types.TransactionType
}

func c40Record(b *types.Block) c40Rec {
	r := c40Rec{Height: b.Header.Height, Hash: b.Hash(), Raw: b.ToArray(), HdrRaw: b.Header.ToArray()}
	for _, tx := range b.Transactions {
		r.TxHash = append(r.TxHash, tx.Hash())
		r.TxRaw = append(r.TxRaw, append([]byte{}, tx.ToArray()...))
		r.TxTypes = append(r.TxTypes, tx.TxType)
	}
	return r
}

// c40VerifyHeight compares every getter of the property for one committed height with the record.
func c40VerifyHeight(ls *ledgerstore.LedgerStoreImp, r *c40Rec) error {
	h := r.Height
	if got := ls.GetBlockHash(h); got != r.Hash {
		return fmt.Errorf("GetBlockHash(%d) = %s, committed block hash is %s", h, got.ToHexString(), r.Hash.ToHexString())
	}
	b, err := ls.GetBlockByHeight(h)
	if err != nil || b == nil {
		return fmt.Errorf("GetBlockByHeight(%d): block=%v err=%v, a block was committed at this height", h, b != nil, err)
	}
	if !sameBytes(b.ToArray(), r.Raw) {
		return fmt.Errorf("GetBlockByHeight(%d) differs from the committed block:\n got %s\nwant %s", h, harn.Hex(b.ToArray()), harn.Hex(r.Raw))
	}
	if b.Hash() != r.Hash {
		return fmt.Errorf("GetBlockByHeight(%d).Hash() = %s, committed %s", h, b.Hash().ToHexString(), r.Hash.ToHexString())
	}
	b2, err := ls.GetBlockByHash(r.Hash)
	if err != nil || b2 == nil {
		return fmt.Errorf("GetBlockByHash(hash of height %d): block=%v err=%v", h, b2 != nil, err)
	}
	if !sameBytes(b2.ToArray(), r.Raw) {
		return fmt.Errorf("GetBlockByHash(hash of height %d) differs from the committed block:\n got %s\nwant %s", h, harn.Hex(b2.ToArray()), harn.Hex(r.Raw))
	}
	hd, err := ls.GetHeaderByHash(r.Hash)
	if err != nil || hd == nil {
		return fmt.Errorf("GetHeaderByHash(hash of height %d): header=%v err=%v", h, hd != nil, err)
	}
	if !sameBytes(hd.ToArray(), r.HdrRaw) || hd.Height != h {
		return fmt.Errorf("GetHeaderByHash(hash of height %d) differs from the committed header (height %d):\n got %x\nwant %x", h, hd.Height, hd.ToArray(), r.HdrRaw)
	}
	hd2, err := ls.GetHeaderByHeight(h)
	if err != nil || hd2 == nil {
		return fmt.Errorf("GetHeaderByHeight(%d): header=%v err=%v", h, hd2 != nil, err)
	}
	if !sameBytes(hd2.ToArray(), r.HdrRaw) {
		return fmt.Errorf("GetHeaderByHeight(%d) differs from the committed header:\n got %x\nwant %x", h, hd2.ToArray(), r.HdrRaw)
	}
	rh, err := ls.GetRawHeaderByHash(r.Hash)
	if err != nil || rh == nil {
		return fmt.Errorf("GetRawHeaderByHash(hash of height %d): header=%v err=%v", h, rh != nil, err)
	}
	if rh.Height != h || !sameBytes(rh.Payload, r.HdrRaw) {
		return fmt.Errorf("GetRawHeaderByHash(hash of height %d): height %d payload %x, committed header %x", h, rh.Height, rh.Payload, r.HdrRaw)
	}
	if ok, err := ls.IsContainBlock(r.Hash); err != nil || !ok {
		return fmt.Errorf("IsContainBlock(hash of height %d) = %v, %v", h, ok, err)
	}
	if len(b.Transactions) != len(r.TxHash) {
		return fmt.Errorf("GetBlockByHeight(%d) has %d transactions, committed %d", h, len(b.Transactions), len(r.TxHash))
	}
	for i, th := range r.TxHash {
		if b.Transactions[i].Hash() != th {
			return fmt.Errorf("GetBlockByHeight(%d) transaction %d has hash %s, committed %s", h, i, b.Transactions[i].Hash().ToHexString(), th.ToHexString())
		}
		tx, th2, err := ls.GetTransaction(th)
		if err != nil || tx == nil {
			return fmt.Errorf("GetTransaction(tx %d of height %d, %s): tx=%v err=%v", i, h, th.ToHexString(), tx != nil, err)
		}
		if th2 != h {
			return fmt.Errorf("GetTransaction(tx %d of height %d, %s) reports height %d", i, h, th.ToHexString(), th2)
		}
		if tx.Hash() != th || !sameBytes(tx.ToArray(), r.TxRaw[i]) {
			return fmt.Errorf("GetTransaction(tx %d of height %d) differs from the committed transaction:\n got %x\nwant %x", i, h, tx.ToArray(), r.TxRaw[i])
		}
		if ok, err := ls.IsContainTransaction(th); err != nil || !ok {
			return fmt.Errorf("IsContainTransaction(tx %d of height %d) = %v, %v", i, h, ok, err)
		}
		// a transaction hash is not a block hash
		if ok, _ := ls.IsContainBlock(th); ok {
			return fmt.Errorf("IsContainBlock(transaction hash %s) = true", th.ToHexString())
		}
	}
	// a block hash is not a transaction hash
	if ok, _ := ls.IsContainTransaction(r.Hash); ok {
		return fmt.Errorf("IsContainTransaction(block hash of height %d) = true", h)
	}
	return nil
}

// c40VerifyUnknown checks that heights above the tip and hashes that were never committed are not found.
func c40VerifyUnknown(ls *ledgerstore.LedgerStoreImp, top uint32, unknown []common.Uint256, above []uint32) error {
	for _, d := range above {
		h := top + d
		if h <= top { // overflow guard
			continue
		}
		if got := ls.GetBlockHash(h); got != common.UINT256_EMPTY {
			return fmt.Errorf("GetBlockHash(%d) = %s above the tip %d", h, got.ToHexString(), top)
		}
		if b, err := ls.GetBlockByHeight(h); b != nil {
			return fmt.Errorf("GetBlockByHeight(%d) returned a block (height %d, err %v) above the tip %d", h, b.Header.Height, err, top)
		}
		if hd, err := ls.GetHeaderByHeight(h); err == nil && hd != nil {
			return fmt.Errorf("GetHeaderByHeight(%d) returned a header (height %d) above the tip %d", h, hd.Height, top)
		}
	}
	for _, u := range unknown {
		if b, err := ls.GetBlockByHash(u); err == nil && b != nil {
			return fmt.Errorf("GetBlockByHash(never committed %s) returned a block of height %d", u.ToHexString(), b.Header.Height)
		}
		if hd, err := ls.GetHeaderByHash(u); err == nil && hd != nil {
			return fmt.Errorf("GetHeaderByHash(never committed %s) returned a header of height %d", u.ToHexString(), hd.Height)
		}
		if rh, err := ls.GetRawHeaderByHash(u); err == nil && rh != nil {
			return fmt.Errorf("GetRawHeaderByHash(never committed %s) returned a header of height %d", u.ToHexString(), rh.Height)
		}
		if tx, h, err := ls.GetTransaction(u); err == nil && tx != nil {
			return fmt.Errorf("GetTransaction(never committed %s) returned a transaction at height %d", u.ToHexString(), h)
		}
		if ok, err := ls.IsContainBlock(u); ok || err != nil {
			return fmt.Errorf("IsContainBlock(never committed %s) = %v, %v", u.ToHexString(), ok, err)
		}
		if ok, err := ls.IsContainTransaction(u); ok || err != nil {
			return fmt.Errorf("IsContainTransaction(never committed %s) = %v, %v", u.ToHexString(), ok, err)
		}
	}
	return nil
}

func c40VerifyAll(ls *ledgerstore.LedgerStoreImp, recs []c40Rec, unknown []common.Uint256) error {
	top := uint32(len(recs) - 1)
	if h := ls.GetCurrentBlockHeight(); h != top {
		return fmt.Errorf("GetCurrentBlockHeight() = %d, %d blocks committed above genesis", h, top)
	}
	if hh := ls.GetCurrentBlockHash(); hh != recs[top].Hash {
		return fmt.Errorf("GetCurrentBlockHash() = %s, committed tip %s", hh.ToHexString(), recs[top].Hash.ToHexString())
	}
	for i := range recs {
		if err := c40VerifyHeight(ls, &recs[i]); err != nil {
			return err
		}
	}
	// no header is announced beyond the tip at a checkpoint, so the header chain ends at the tip
	if h := ls.GetCurrentHeaderHeight(); h != top {
		return fmt.Errorf("GetCurrentHeaderHeight() = %d with tip %d and no header announced above it", h, top)
	}
	if hh := ls.GetCurrentHeaderHash(); hh != recs[top].Hash {
		return fmt.Errorf("GetCurrentHeaderHash() = %s, committed tip %s (no header announced above it)", hh.ToHexString(), recs[top].Hash.ToHexString())
	}
	return c40VerifyUnknown(ls, top, unknown, []uint32{1, 2, 7, 2000, math.MaxUint32 - top})
}

// ---------------------------------------------------------------------------------------------
// delivery modes

// c40Mode is how a generated block reaches the ledger.
//
//	apply:      ExecuteBlock + SubmitBlock (a consensus member)
//	header:     header-first sync: AddHeaders([header of the block]) then the block itself
//	header-alt: header sync announced a DIFFERENT valid block at this height (same parent, later
//	            timestamp, possibly other transactions, signed by the bookkeeper); then the
//	            generated block is committed. The committed block is the oracle's record.
type c40Mode struct {
	Kind     string // "apply" | "header" | "header-alt"
	AltDelta uint32 // header-alt: timestamp offset of the alternative (>= 1)
	AltTxs   int    // header-alt: the alternative carries the first AltTxs transactions of the block
	AddBlock bool   // header modes: commit through AddBlock (decoded copy, as block sync does) instead of ExecuteBlock+SubmitBlock
}

func c40DrawMode(t *rapid.T, ntx int) c40Mode {
	m := c40Mode{Kind: rapid.SampledFrom([]string{"apply", "header", "header-alt", "header-alt", "header", "apply"}).Draw(t, "delivery")}
	if m.Kind != "apply" {
		m.AddBlock = rapid.Bool().Draw(t, "viaAddBlock")
	}
	if m.Kind == "header-alt" {
		m.AltDelta = uint32(rapid.IntRange(1, 3).Draw(t, "altdelta"))
		m.AltTxs = rapid.IntRange(0, ntx).Draw(t, "alttxs")
	}
	return m
}

func (m c40Mode) String() string {
	switch m.Kind {
	case "apply":
		return ""
	case "header":
		if m.AddBlock {
			return "~hA"
		}
		return "~hS"
	default:
		s := fmt.Sprintf("~alt+%d/%d", m.AltDelta, m.AltTxs)
		if m.AddBlock {
			return s + "A"
		}
		return s + "S"
	}
}

// c40Deliver hands the block to the ledger in the given mode. Every error is a rejection of an
// input the ledger must accept (the headers and the block are valid and correctly signed).
func c40Deliver(ch *fix.Chain, blk *types.Block, m c40Mode) (store.ExecuteResult, error) {
	ls := ch.LS
	if m.Kind == "apply" {
		return ch.Apply(blk)
	}
	h := blk.Header.Height
	announced := blk.Header
	if m.Kind == "header-alt" {
		alt, err := ch.MakeBlockAt(h, blk.Header.PrevBlockHash, blk.Transactions[:m.AltTxs], blk.Header.Timestamp+m.AltDelta)
		if err != nil {
			return store.ExecuteResult{}, fmt.Errorf("harness: building the alternative block: %v", err)
		}
		if alt.Hash() == blk.Hash() {
			return store.ExecuteResult{}, fmt.Errorf("harness: alternative block equals the block")
		}
		announced = alt.Header
	}
	// as received from the network: a decoded copy
	hdr, err := types.HeaderFromRawBytes(announced.ToArray())
	if err != nil {
		return store.ExecuteResult{}, fmt.Errorf("harness: header does not decode: %v", err)
	}
	if err := ls.AddHeaders([]*types.Header{hdr}); err != nil {
		return store.ExecuteResult{}, fmt.Errorf("AddHeaders(valid header of height %d on tip %d): %v", h, ls.GetCurrentBlockHeight(), err)
	}
	if got := ls.GetCurrentHeaderHeight(); got != h {
		return store.ExecuteResult{}, fmt.Errorf("after AddHeaders(header of height %d) GetCurrentHeaderHeight() = %d", h, got)
	}
	if got := ls.GetCurrentHeaderHash(); got != hdr.Hash() {
		return store.ExecuteResult{}, fmt.Errorf("after AddHeaders(header %s of height %d) GetCurrentHeaderHash() = %s", hdr.Hash().ToHexString(), h, got.ToHexString())
	}
	res, err := ls.ExecuteBlock(blk)
	if err != nil {
		return res, err
	}
	if m.AddBlock {
		cp, err := types.BlockFromRawBytes(blk.ToArray())
		if err != nil {
			return res, fmt.Errorf("harness: block does not decode: %v", err)
		}
		return res, ls.AddBlock(cp, nil, res.MerkleRoot)
	}
	return res, ls.SubmitBlock(blk, nil, res)
}

// ---------------------------------------------------------------------------------------------
// chain generator

type c40Env struct {
	ch     *fix.Chain
	bk     *fix.ZooKey
	nat    []*fix.ZooKey // native accounts: 0 bookkeeper (owns everything), 1,2 funded in block 1, 3 never funded by the harness
	eth    []*fix.ZooKey // secp256k1 accounts: 0,1 funded in block 1, 2 unfunded
	nonce  []uint64      // next EVM nonce per eth account (every INCLUDED EIP-155 tx bumps it)
	deploy int
}

func c40NewEnv(ch *fix.Chain, bk *fix.ZooKey) *c40Env {
	return &c40Env{ch: ch, bk: bk,
		nat:   []*fix.ZooKey{bk, fix.Key(fix.KP256, 1), fix.Key(fix.KSM2, 0), fix.Key(fix.KEd25519, 0)},
		eth:   []*fix.ZooKey{fix.Key(fix.KEth, 0), fix.Key(fix.KEth, 1), fix.Key(fix.KEth, 2)},
		nonce: make([]uint64, 3)}
}

// fundingTxs is the forced content of block 1: ONG to two native users and two EVM accounts, ONT to user 1.
func (e *c40Env) fundingTxs() ([]*types.Transaction, error) {
	var out []*types.Transaction
	add := func(tok common.Address, to common.Address, amt uint64) error {
		tx, err := e.ch.Transfer(tok, e.bk, to, amt, 0, 20000)
		if err == nil {
			out = append(out, tx)
		}
		return err
	}
	for _, s := range []struct {
		tok common.Address
		to  common.Address
		amt uint64
	}{{nutils.OngContractAddress, e.nat[1].Address, 1000_000000000}, {nutils.OngContractAddress, e.nat[2].Address, 1000_000000000},
		{nutils.OntContractAddress, e.nat[1].Address, 100000}, {nutils.OngContractAddress, e.eth[0].Address, 1000_000000000},
		{nutils.OngContractAddress, e.eth[1].Address, 1000_000000000}} {
		if err := add(s.tok, s.to, s.amt); err != nil {
			return nil, err
		}
	}
	return out, nil
}

// genTx draws one transaction; desc is its canonical short description.
func (e *c40Env) genTx(t *rapid.T) (*types.Transaction, string, error) {
	kind := rapid.SampledFrom([]string{"T", "T", "T", "E", "E", "C", "D", "I"}).Draw(t, "kind")
	switch kind {
	case "T":
		tok, tn := nutils.OntContractAddress, "ont"
		if rapid.Bool().Draw(t, "ong") {
			tok, tn = nutils.OngContractAddress, "ong"
		}
		from := rapid.SampledFrom([]int{0, 0, 0, 1, 1, 2, 3}).Draw(t, "from")
		to := rapid.IntRange(0, 3).Draw(t, "to")
		amt := rapid.OneOf(rapid.Uint64Range(0, 3), rapid.Uint64Range(1, 5000), rapid.Just(uint64(1)<<62)).Draw(t, "amt")
		gp := rapid.SampledFrom([]uint64{0, 0, 2500}).Draw(t, "gp")
		tx, err := e.ch.Transfer(tok, e.nat[from], e.nat[to].Address, amt, gp, 20000)
		return tx, fmt.Sprintf("T%s:%d>%d:%d@%d", tn, from, to, amt, gp), err
	case "E":
		from := rapid.SampledFrom([]int{0, 0, 1, 1, 2}).Draw(t, "efrom")
		to := ethAddr(e.eth[rapid.IntRange(0, 2).Draw(t, "eto")])
		val := rapid.OneOf(rapid.Uint64Range(0, 2), rapid.Uint64Range(1, 1_000_000), rapid.Just(uint64(1)<<60)).Draw(t, "val")
		gl := rapid.SampledFrom([]uint64{21000, 30000, 20000}).Draw(t, "gl") // 20000 < intrinsic gas: fails, still included
		wei := new(big.Int).Mul(new(big.Int).SetUint64(val), big.NewInt(1_000_000_000))
		tx, _, err := signEIP155(e.eth[from], e.nonce[from], &to, wei, gl, 500, nil)
		if err == nil {
			e.nonce[from]++
		}
		return tx, fmt.Sprintf("E%d>%x:%d/gl%d", from, to[:2], val, gl), err
	case "C":
		from := rapid.SampledFrom([]int{0, 1, 2}).Draw(t, "cfrom")
		n := rapid.IntRange(0, 3).Draw(t, "nlogs")
		var logs []evmLog
		for i := 0; i < n; i++ {
			nt := rapid.IntRange(0, 4).Draw(t, "ntopics")
			l := evmLog{Data: rapid.SliceOfN(rapid.Byte(), 0, 40).Draw(t, "data")}
			for j := 0; j < nt; j++ {
				var h ethcommon.Hash
				copy(h[:], rapid.SliceOfN(rapid.Byte(), 32, 32).Draw(t, "topic"))
				l.Topics = append(l.Topics, h)
			}
			logs = append(logs, l)
		}
		end := initEnd(rapid.IntRange(0, 3).Draw(t, "end"))
		code := asmInitCode(logs, nil, end)
		tx, _, err := signEIP155(e.eth[from], e.nonce[from], nil, big.NewInt(0), 300000, 500, code)
		if err == nil {
			e.nonce[from]++
		}
		return tx, fmt.Sprintf("C%d:logs%d/end%d/%x", from, n, end, harnShort(code)), err
	case "D":
		e.deploy++
		code := rapid.SliceOfN(rapid.Byte(), 1, 40).Draw(t, "dcode")
		if len(code) >= 8 && code[0] == 0 && code[1] == 0x61 && code[2] == 0x73 && code[3] == 0x6d {
			code[0] = 1 // never the wasm magic
		}
		mtx, err := cutils.NewDeployTransaction(code, "n", "v", "a", "e", "d", payload.NEOVM_TYPE)
		if err != nil {
			return nil, "", err
		}
		e.ch.NonceCt++
		mtx.Nonce = e.ch.NonceCt
		mtx.GasLimit = 20000000
		signer := e.nat[rapid.IntRange(0, 3).Draw(t, "dsigner")]
		tx, err := fix.Sign(mtx, signer)
		return tx, fmt.Sprintf("D%x", harnShort(code)), err
	default: // "I": tiny NeoVM programs, succeed or fault
		code := rapid.SampledFrom([][]byte{{0x51}, {0x00, 0xf0}, {0x51, 0x52, 0x93}, {0x61}}).Draw(t, "icode")
		mtx := e.ch.RawInvoke(code, 0, 20000)
		signer := e.nat[rapid.IntRange(0, 3).Draw(t, "isigner")]
		tx, err := fix.Sign(mtx, signer)
		return tx, fmt.Sprintf("I%x", code), err
	}
}

func harnShort(b []byte) []byte {
	if len(b) > 6 {
		return b[:6]
	}
	return b
}

func TestC40_QueriesAgree(t *testing.T) {
	ev := harn.For("C40")
	ev.Rule("chains of 5-40 blocks on a solo ledger; block 1 funds two native and two EVM accounts, every other block carries 0-6 generated txs (ONT/ONG transfers by 4 accounts of 3 key types incl. zero/over-balance/unfunded-payer ones, NeoVM deploy and invoke, EIP-155 transfers incl. below-intrinsic-gas and over-balance ones, EIP-155 creations emitting 0-3 logs that return/revert/fault); every block is delivered in a generated mode: ExecuteBlock+SubmitBlock, header-first sync (AddHeaders of its header, then AddBlock of a decoded copy or Execute+Submit), or after header sync announced a DIFFERENT valid block of that height (same parent, later timestamp, a prefix of the txs, bookkeeper-signed) - the committed block stays the oracle; the ledger is closed and reopened after generated heights; at each checkpoint (before and after each restart, and before/after a final restart) every height is read through GetBlockHash, GetBlockByHeight, GetBlockByHash, GetHeaderByHash, GetHeaderByHeight, GetRawHeaderByHash, GetTransaction(+height), IsContainBlock/Transaction and compared with the harness's record of the committed bytes; never-committed hashes and heights above the tip must not be found. GetCurrentHeaderHeight/Hash equal the announced header right after AddHeaders and the tip at checkpoints. Non-trivial = chain with a block of >= 2 txs, a failing tx, an EIP-155 tx, a header-first block, a block committed over an announced alternative, and a restart followed by further blocks; distinct by the full plan")
	bk := fix.Key(fix.KP256, 0)
	harn.Check(t, 40, 600, func(t *rapid.T) {
		nBlocks := rapid.IntRange(5, 40).Draw(t, "blocks")
		base, err := os.MkdirTemp("", "c40-")
		if err != nil {
			t.Fatal(err)
		}
		defer os.RemoveAll(base)
		ch, err := fix.NewSolo(base+"/ledger", bk)
		if err != nil {
			t.Fatal(err)
		}
		defer func() { ch.Close() }()
		env := c40NewEnv(ch, bk)
		recs := []c40Rec{c40Record(ch.Genesis)}
		var unknown []common.Uint256
		for i := 0; i < 3; i++ {
			var u common.Uint256
			copy(u[:], rapid.SliceOfN(rapid.Byte(), 32, 32).Draw(t, "unknown"))
			unknown = append(unknown, u)
		}
		unknown = append(unknown, common.UINT256_EMPTY)
		var plan []string
		var multi, failing, evm, restartMid, altSeen, hdrSeen bool
		restarts := 0
		checkpoint := func(stage string) {
			// hashes derived from committed ones that were never committed themselves
			u := append([]common.Uint256{}, unknown...)
			tip := recs[len(recs)-1].Hash
			tip[31] ^= 1
			u = append(u, tip)
			if err := c40VerifyAll(ch.LS, recs, u); err != nil {
				t.Fatalf("%s (chain %s): %v", stage, strings.Join(plan, "|"), err)
			}
			ev.Class("checkpoint:" + stage)
		}
		for b := 1; b <= nBlocks; b++ {
			var txs []*types.Transaction
			var descs []string
			if b == 1 {
				txs, err = env.fundingTxs()
				if err != nil {
					t.Fatal(err)
				}
				descs = []string{"fund"}
			} else {
				n := rapid.SampledFrom([]int{0, 0, 1, 1, 2, 3, 4, 5, 6}).Draw(t, "ntx")
				for j := 0; j < n; j++ {
					tx, d, err := env.genTx(t)
					if err != nil {
						t.Fatalf("building tx %s: %v", d, err)
					}
					txs = append(txs, tx)
					descs = append(descs, d)
				}
			}
			blk, err := ch.MakeBlock(txs, 0)
			if err != nil {
				t.Fatal(err)
			}
			rec := c40Record(blk)
			mode := c40DrawMode(t, len(txs))
			res, err := c40Deliver(ch, blk, mode)
			if err != nil {
				t.Fatalf("ledger rejected generated block %d [%s] delivered as %+v after %s: %v", b, strings.Join(descs, ","), mode, strings.Join(plan, "|"), err)
			}
			recs = append(recs, rec)
			plan = append(plan, fmt.Sprintf("%d%s:[%s]", b, mode, strings.Join(descs, ",")))
			ev.Class("delivery:" + mode.Kind)
			ev.Class("block")
			if mode.Kind == "header-alt" {
				altSeen = true
			}
			if mode.Kind == "header" {
				hdrSeen = true
			}
			ev.Class(fmt.Sprintf("block:ntx=%d", len(txs)))
			if len(txs) >= 2 && b > 1 {
				multi = true
			}
			for i, n := range res.Notify {
				k := "native"
				switch txs[i].TxType {
				case types.EIP155:
					k, evm = "eip155", true
				case types.Deploy:
					k = "deploy"
				}
				if n.State == 1 {
					ev.Class("tx:" + k + ":ok")
				} else {
					ev.Class("tx:" + k + ":failed")
					failing = true
				}
				ev.Class("tx:" + k)
			}
			if b < nBlocks && rapid.IntRange(0, 9).Draw(t, "restart") == 0 {
				checkpoint("before-restart")
				if err := ch.Reopen(); err != nil {
					t.Fatalf("reopen after block %d (chain %s): %v", b, strings.Join(plan, "|"), err)
				}
				checkpoint("after-restart")
				plan = append(plan, "R")
				restarts++
				restartMid = true
			}
		}
		checkpoint("final-before-restart")
		if err := ch.Reopen(); err != nil {
			t.Fatalf("final reopen (chain %s): %v", strings.Join(plan, "|"), err)
		}
		checkpoint("final-after-restart")
		if restarts > 3 {
			restarts = 3
		}
		ev.Class(fmt.Sprintf("restarts-mid-chain=%d", restarts))
		ev.Class("chain")
		if restartMid {
			ev.Class("chain:restart-mid")
		}
		d := strings.Join(plan, "|")
		if len(d) > 560 {
			d = d[:400] + fmt.Sprintf("…#%x", recs[len(recs)-1].Hash[:6])
		}
		ev.Case(multi && failing && evm && restartMid && altSeen && hdrSeen, d)
	})
	ev.Floor("chain:restart-mid", "chain", 0.3)
	ev.Floor("delivery:header", "block", 0.15)
	ev.Floor("delivery:header-alt", "block", 0.15)
	ev.Floor("delivery:apply", "block", 0.15)
	ev.Floor("tx:eip155:ok", "tx:eip155", 0.2)
	ev.Floor("tx:native:failed", "tx:native", 0.1)
}

// TestC40_HeaderIndexWindow commits a chain longer than HEADER_INDEX_MAX_SIZE (mostly empty blocks)
// so that the in-memory height->hash window slides and old heights are served from the block store,
// restarts once the window has slid (the reload path computes the window from the tip), continues,
// and reads every height.
func TestC40_HeaderIndexWindow(t *testing.T) {
	ev := harn.For("C40")
	ev.Rule("long chains: HEADER_INDEX_MAX_SIZE + 20..400 blocks (some carrying 1-3 generated txs, some delivered header-first or over an announced alternative header), a restart at a generated height past the window size, 1..60 further blocks; all heights verified before the restart, after it and at the end (same getters and record as above). Non-trivial = always (the window has slid at every checkpoint); distinct by lengths and restart height")
	bk := fix.Key(fix.KP256, 0)
	harn.Check(t, 1, 16, func(t *rapid.T) {
		W := int(ledgerstore.HEADER_INDEX_MAX_SIZE)
		first := W + rapid.IntRange(20, 400).Draw(t, "first")
		more := rapid.IntRange(1, 60).Draw(t, "more")
		base, err := os.MkdirTemp("", "c40w-")
		if err != nil {
			t.Fatal(err)
		}
		defer os.RemoveAll(base)
		ch, err := fix.NewSolo(base+"/ledger", bk)
		if err != nil {
			t.Fatal(err)
		}
		defer func() { ch.Close() }()
		env := c40NewEnv(ch, bk)
		recs := []c40Rec{c40Record(ch.Genesis)}
		unknown := []common.Uint256{common.UINT256_EMPTY, u256(0xaa, 1, 2, 3)}
		withTx := 0
		add := func(b int) {
			var txs []*types.Transaction
			if b == 1 {
				txs, err = env.fundingTxs()
				if err != nil {
					t.Fatal(err)
				}
			} else if rapid.IntRange(0, 39).Draw(t, "hastx") == 0 {
				n := rapid.IntRange(1, 3).Draw(t, "ntx")
				for j := 0; j < n; j++ {
					tx, d, err := env.genTx(t)
					if err != nil {
						t.Fatalf("building tx %s: %v", d, err)
					}
					txs = append(txs, tx)
				}
				withTx++
			}
			blk, err := ch.MakeBlock(txs, 0)
			if err != nil {
				t.Fatal(err)
			}
			rec := c40Record(blk)
			mode := c40Mode{Kind: "apply"}
			if rapid.IntRange(0, 7).Draw(t, "special") == 7 {
				mode = c40DrawMode(t, len(txs))
			}
			if _, err := c40Deliver(ch, blk, mode); err != nil {
				t.Fatalf("ledger rejected generated block %d delivered as %+v: %v", b, mode, err)
			}
			ev.Class("longchain:delivery:" + mode.Kind)
			recs = append(recs, rec)
		}
		for b := 1; b <= first; b++ {
			add(b)
		}
		if err := c40VerifyAll(ch.LS, recs, unknown); err != nil {
			t.Fatalf("chain of %d blocks, before restart: %v", first, err)
		}
		if err := ch.Reopen(); err != nil {
			t.Fatalf("reopen at height %d: %v", first, err)
		}
		if err := c40VerifyAll(ch.LS, recs, unknown); err != nil {
			t.Fatalf("chain of %d blocks, after restart: %v", first, err)
		}
		for b := first + 1; b <= first+more; b++ {
			add(b)
		}
		if err := c40VerifyAll(ch.LS, recs, unknown); err != nil {
			t.Fatalf("chain of %d blocks restarted at %d, at the end: %v", first+more, first, err)
		}
		if err := ch.Reopen(); err != nil {
			t.Fatalf("reopen at height %d: %v", first+more, err)
		}
		if err := c40VerifyAll(ch.LS, recs, unknown); err != nil {
			t.Fatalf("chain of %d blocks restarted at %d and at the end, after the last restart: %v", first+more, first, err)
		}
		ev.Class("longchain")
		ev.ClassN("longchain:blocks-with-txs", int64(withTx))
		ev.Case(true, fmt.Sprintf("long chain first=%d restart@%d more=%d txblocks=%d tip=%s", first, first, more, withTx, recs[len(recs)-1].Hash.ToHexString()))
	})
}
