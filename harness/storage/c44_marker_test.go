package storage

// C44(c) Destroyed-contract marker life cycle — CacheDB level.
//
// Besides self-destruction and migration, the marker is set by the global-params operator
// (AddDestroyedContracts -> CacheDB.SetContractDestroyed) on an address whose contract record may
// still be present, and removed again by RemoveDestroyedContracts (UnsetContractDestroyed). The clause
// "once tracking is active, a destroyed address can never be deployed or written to again" rests on
// CacheDB.GetContract reporting (nil, destroyed=true) whenever a marker is visible, whatever the
// layers hold for the record. Model: per address a record flag and a marker flag, both layered.

import (
	"fmt"
	"strings"
	"testing"

	"github.com/ontio/ontology/common"
	"github.com/ontio/ontology/common/config"
	"github.com/ontio/ontology/core/payload"
	"github.com/ontio/ontology/core/store/overlaydb"
	"github.com/ontio/ontology/smartcontract/storage"
	"pgregory.net/rapid"

	"verifharness/internal/harn"
)

func TestC44_DestroyedMarkerLifeCycle(t *testing.T) {
	ev := harn.For("C44").Rule("(c) marker life cycle at CacheDB level: two contracts at adjacent addresses; histories of 3-12 steps of PutContract / DeleteContract (self-destroy) / SetContractDestroyed (operator marks an address, record present or not) / UnsetContractDestroyed / cache Commit / cache Reset / new cache / overlay flush to the persistent store, at heights around the tracking height of network id 3 (0) or main net; after every step GetContract and IsContractDestroyed of both addresses are compared with a two-flag model. Non-trivial = history in which a marker is set on an address whose record is live in some layer; distinct by history text")
	ev.Floor("c:marker-over-live-record", "c:case", 0.2)
	savedNet := config.DefConfig.P2PNode.NetworkId
	defer func() { config.DefConfig.P2PNode.NetworkId = savedNet }()
	harn.CheckSteps(t, 10, 1200, 40000, func(t *rapid.T) {
		mainNet := rapid.IntRange(0, 3).Draw(t, "mainnet") == 0
		if mainNet {
			config.DefConfig.P2PNode.NetworkId = config.NETWORK_ID_MAIN_NET
		} else {
			config.DefConfig.P2PNode.NetworkId = config.NETWORK_ID_SOLO_NET
		}
		trackH := config.GetTrackDestroyedContractHeight()
		var deps [2]*payload.DeployCode
		var addrs [2]common.Address
		code := rapid.SliceOfN(rapid.Byte(), 1, 8).Draw(t, "code")
		for i := range deps {
			d, err := payload.NewDeployCode(append(append([]byte{}, code...), byte(i)), payload.NEOVM_TYPE, "n", "v", "a", "e", "d")
			if err != nil {
				t.Fatal(err)
			}
			deps[i], addrs[i] = d, d.Address()
		}
		store := freshStore()
		overlay := overlaydb.NewOverlayDB(store)
		cache := storage.NewCacheDB(overlay)
		// model: committed (overlay+store) and pending (cache) views; nil pointer = no pending write
		type st struct{ rec, mark bool }
		var committed [2]st
		var pending [2]struct{ rec, mark *bool }
		view := func(i int) st {
			v := committed[i]
			if pending[i].rec != nil {
				v.rec = *pending[i].rec
			}
			if pending[i].mark != nil {
				v.mark = *pending[i].mark
			}
			return v
		}
		bp := func(b bool) *bool { return &b }
		var log []string
		nontriv := false
		check := func() {
			for i := range addrs {
				want := view(i)
				c, destroyed, err := cache.GetContract(addrs[i])
				isD, err2 := cache.IsContractDestroyed(addrs[i])
				if err != nil || err2 != nil {
					t.Fatalf("GetContract/IsContractDestroyed error %v %v; history %s", err, err2, strings.Join(log, ";"))
				}
				if isD != want.mark {
					t.Fatalf("IsContractDestroyed(contract %d) = %v, model %v; history %s", i, isD, want.mark, strings.Join(log, ";"))
				}
				switch {
				case want.mark:
					if c != nil || !destroyed {
						t.Fatalf("contract %d carries a destroyed marker (record present=%v) but GetContract = (contract=%v, destroyed=%v): a marked address must read as destroyed so that it can be neither invoked nor redeployed; history %s",
							i, want.rec, c != nil, destroyed, strings.Join(log, ";"))
					}
				case want.rec:
					if c == nil || destroyed || c.Address() != addrs[i] {
						t.Fatalf("contract %d is deployed and unmarked but GetContract = (contract=%v, destroyed=%v); history %s", i, c != nil, destroyed, strings.Join(log, ";"))
					}
				default:
					if c != nil || destroyed {
						t.Fatalf("contract %d is neither deployed nor marked but GetContract = (contract=%v, destroyed=%v); history %s", i, c != nil, destroyed, strings.Join(log, ";"))
					}
				}
			}
		}
		t.Repeat(map[string]func(*rapid.T){
			"step": func(t *rapid.T) {
				i := rapid.IntRange(0, 1).Draw(t, "who")
				h := uint32(0)
				switch rapid.IntRange(0, 3).Draw(t, "hk") {
				case 0:
					if trackH > 0 {
						h = trackH - 1
					}
				case 1:
					h = trackH
				case 2:
					h = trackH + uint32(rapid.IntRange(1, 1000).Draw(t, "dh"))
				default:
					h = uint32(rapid.IntRange(0, 100).Draw(t, "hsmall"))
				}
				tracking := h >= trackH
				act := rapid.SampledFrom([]string{"deploy", "deploy", "selfdestroy", "mark", "mark", "mark", "unmark", "commit", "commit", "reset", "newcache", "flush"}).Draw(t, "act")
				switch act {
				case "deploy":
					// the deploy path refuses a destroyed address (checked through GetContract); only a clean address is deployed
					if v := view(i); v.rec || v.mark {
						act = "deploy-refused" // nothing is written
					} else {
						cache.PutContract(deps[i])
						pending[i].rec = bp(true)
					}
				case "selfdestroy":
					if !view(i).rec {
						act = "selfdestroy-nothing"
					} else {
						cache.DeleteContract(addrs[i], h)
						pending[i].rec = bp(false)
						if tracking {
							pending[i].mark = bp(true)
						}
					}
				case "mark":
					if view(i).rec && tracking {
						nontriv = true
						ev.Class("c:marker-set-on-live-record")
					}
					cache.SetContractDestroyed(addrs[i], h)
					if tracking {
						pending[i].mark = bp(true)
					}
				case "unmark":
					cache.UnsetContractDestroyed(addrs[i], h)
					if tracking {
						pending[i].mark = bp(false)
					}
				case "commit":
					cache.Commit()
					for j := range committed {
						committed[j] = view(j)
						pending[j].rec, pending[j].mark = nil, nil
					}
				case "reset":
					cache.Reset()
					for j := range pending {
						pending[j].rec, pending[j].mark = nil, nil
					}
				case "newcache":
					cache = storage.NewCacheDB(overlay)
					for j := range pending {
						pending[j].rec, pending[j].mark = nil, nil
					}
				case "flush":
					store.NewBatch()
					overlay.CommitTo()
					if err := store.BatchCommit(); err != nil {
						t.Fatal(err)
					}
					overlay = overlaydb.NewOverlayDB(store)
					cache = storage.NewCacheDB(overlay)
					for j := range pending {
						pending[j].rec, pending[j].mark = nil, nil
					}
				}
				log = append(log, fmt.Sprintf("%s%d@%+d", act, i, int64(h)-int64(trackH)))
				ev.Class("c:step:" + act)
			},
			"": func(t *rapid.T) { check() },
		})
		ev.Class("c:case")
		if nontriv {
			ev.Class("c:marker-over-live-record")
		}
		ev.Case(nontriv, fmt.Sprintf("mainnet=%v %s", mainNet, strings.Join(log, ";")))
	})
}
