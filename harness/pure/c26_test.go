package pure

// C26 Block-root merkle tree gives verifiable inclusion and consistency proofs.
// Oracles: an independent recursive RFC 6962 reference (MTH, PATH, PROOF) for roots and generated proofs; the RFC 9162
// verification algorithms as differential oracle for mutated (leaf, index, size, root, proof) tuples; "every
// hash-valued alteration is rejected"; persistence round trip (file store close/reopen, Marshal/UnMarshal).

import (
	"crypto/sha256"
	"encoding/binary"
	"fmt"
	"os"
	"path/filepath"
	"testing"

	"github.com/ontio/ontology/common"
	"github.com/ontio/ontology/merkle"
	"pgregory.net/rapid"

	"verifharness/internal/harn"
)

// ---------------------------------------------------------------------------------------------
// RFC 6962 reference over a fixed leaf-hash list, memoised on (lo,hi)

type c26Ref struct {
	leaves []common.Uint256
	memo   map[[2]int]common.Uint256
}

func newC26Ref(leaves []common.Uint256) *c26Ref {
	return &c26Ref{leaves: leaves, memo: map[[2]int]common.Uint256{}}
}

func refNode(l, r common.Uint256) common.Uint256 {
	var buf [65]byte
	buf[0] = 1
	copy(buf[1:], l[:])
	copy(buf[33:], r[:])
	return sha256.Sum256(buf[:])
}

// largest power of two strictly smaller than n (n >= 2)
func refSplit(n int) int {
	k := 1
	for k*2 < n {
		k *= 2
	}
	return k
}

// mth = MTH(D[lo:hi])
func (r *c26Ref) mth(lo, hi int) common.Uint256 {
	if hi == lo {
		return sha256.Sum256(nil)
	}
	if hi-lo == 1 {
		return r.leaves[lo]
	}
	key := [2]int{lo, hi}
	if h, ok := r.memo[key]; ok {
		return h
	}
	k := refSplit(hi - lo)
	h := refNode(r.mth(lo, lo+k), r.mth(lo+k, hi))
	r.memo[key] = h
	return h
}

// path = PATH(m, D[lo:hi]) with m relative to lo
func (r *c26Ref) path(m, lo, hi int) []common.Uint256 {
	if hi-lo == 1 {
		return nil
	}
	k := refSplit(hi - lo)
	if m < k {
		return append(r.path(m, lo, lo+k), r.mth(lo+k, hi))
	}
	return append(r.path(m-k, lo+k, hi), r.mth(lo, lo+k))
}

// proof = SUBPROOF(m, D[lo:hi], b)
func (r *c26Ref) subproof(m, lo, hi int, b bool) []common.Uint256 {
	n := hi - lo
	if m == n {
		if b {
			return nil
		}
		return []common.Uint256{r.mth(lo, hi)}
	}
	k := refSplit(n)
	if m <= k {
		return append(r.subproof(m, lo, lo+k, b), r.mth(lo+k, hi))
	}
	return append(r.subproof(m-k, lo+k, hi, false), r.mth(lo, lo+k))
}

// RFC 9162 2.1.3.2: verify an inclusion proof.
func refVerifyInclusion(leaf common.Uint256, index, size uint32, proof []common.Uint256, root common.Uint256) bool {
	if index >= size {
		return false
	}
	fn, sn := index, size-1
	r := leaf
	for _, p := range proof {
		if sn == 0 {
			return false
		}
		if fn&1 == 1 || fn == sn {
			r = refNode(p, r)
			if fn&1 == 0 {
				for fn&1 == 0 && fn != 0 {
					fn >>= 1
					sn >>= 1
				}
			}
		} else {
			r = refNode(r, p)
		}
		fn >>= 1
		sn >>= 1
	}
	return sn == 0 && r == root
}

// RFC 9162 2.1.4.2: verify a consistency proof, 0 < first < second.
func refVerifyConsistency(first, second uint32, firstHash, secondHash common.Uint256, proof []common.Uint256) bool {
	if len(proof) == 0 {
		return false
	}
	if first&(first-1) == 0 {
		proof = append([]common.Uint256{firstHash}, proof...)
	}
	fn, sn := first-1, second-1
	for fn&1 == 1 {
		fn >>= 1
		sn >>= 1
	}
	fr, sr := proof[0], proof[0]
	for _, c := range proof[1:] {
		if sn == 0 {
			return false
		}
		if fn&1 == 1 || fn == sn {
			fr = refNode(c, fr)
			sr = refNode(c, sr)
			for fn&1 == 0 && fn != 0 {
				fn >>= 1
				sn >>= 1
			}
		} else {
			sr = refNode(sr, c)
		}
		fn >>= 1
		sn >>= 1
	}
	return fr == firstHash && sr == secondHash && sn == 0
}

func c26Leaves(seed uint64, n int) []common.Uint256 {
	out := make([]common.Uint256, n)
	var b [16]byte
	binary.LittleEndian.PutUint64(b[:8], seed)
	for i := range out {
		binary.LittleEndian.PutUint64(b[8:], uint64(i))
		out[i] = sha256.Sum256(b[:])
	}
	return out
}

func eqHashes(a, b []common.Uint256) bool {
	if len(a) != len(b) {
		return false
	}
	for i := range a {
		if a[i] != b[i] {
			return false
		}
	}
	return true
}

func notPow2(n int) bool { return n&(n-1) != 0 }

const c26EqualRootsKey = "consistency-equal-roots-ignores-sizes"

const c26Rule = "leaf hashes = sha256(seed,index); tree sizes exhaustive 1..96 (quick) / 1..600 (thorough) plus generated sizes up to 5000; every (leaf, size) and (old size, new size) pair for the small sizes; " +
	"file-backed trees closed/reopened at generated sizes; generated single mutations of leaf hash / index / size / root / proof element / proof length; " +
	"snapshot histories (store none/memory/file): appends (fresh or replayed leaves, Root() read after them or not), Marshal blobs saved at generated points with the reference root of that state, " +
	"UnMarshal of any saved blob (same / older / newer state, abandoned branch) into the CURRENT used tree object with or without a cached root, into fresh objects (NewTree+UnMarshal, zero value, NewTree(size,hashes), another used object) " +
	"and after reopening the hash file at the restored size, each followed by TreeSize / Root / GetRootWithNewLeaves(nil, k) / GetRootWithNewLeaf / proofs in a generated order before any append, judged against the reference of the restored state; " +
	"non-trivial = tree size not a power of two, or a mutated tuple, or a history with a reload of another state or into another object; distinct = different (store kind, seed, sizes, index, mutation, operation sequence)"

func c26Fail(t *testing.T, c interface{}, format string, args ...interface{}) {
	t.Helper()
	harn.Violation(t, "C26", c, format, args...)
}

// c26CheckProofsAt checks, on a tree of size n, inclusion proofs for the (m,sz) pairs selected by pick and the
// consistency proofs (sz,n) for every sz <= n, against the reference and through the verifier.
func c26CheckProofsAt(t *testing.T, ev *harn.Collector, tag string, tree *merkle.CompactMerkleTree, ref *c26Ref, n int, allSizes bool) {
	ver := merkle.NewMerkleVerifier()
	sizes := []int{n}
	if allSizes {
		sizes = sizes[:0]
		for sz := 1; sz <= n; sz++ {
			sizes = append(sizes, sz)
		}
	}
	for _, sz := range sizes {
		root := ref.mth(0, sz)
		for m := 0; m < sz; m++ {
			p, err := tree.InclusionProof(uint32(m), uint32(sz))
			if err != nil {
				c26Fail(t, map[string]int{"n": n, "size": sz, "leaf": m}, "%s: InclusionProof(%d,%d) on a tree of %d leaves: %v", tag, m, sz, n, err)
			}
			if want := ref.path(m, 0, sz); !eqHashes(p, want) {
				c26Fail(t, map[string]int{"n": n, "size": sz, "leaf": m}, "%s: InclusionProof(%d,%d) on a tree of %d leaves differs from RFC 6962 PATH (len %d vs %d)", tag, m, sz, n, len(p), len(want))
			}
			if err := ver.VerifyLeafHashInclusion(ref.leaves[m], uint32(m), p, root, uint32(sz)); err != nil {
				c26Fail(t, map[string]int{"n": n, "size": sz, "leaf": m}, "%s: genuine inclusion proof of leaf %d in size %d rejected: %v", tag, m, sz, err)
			}
			ev.Class("inclusion:verified")
		}
	}
	for sz := 1; sz <= n; sz++ {
		cp := tree.ConsistencyProof(uint32(sz), uint32(n))
		if want := ref.subproof(sz, 0, n, true); !eqHashes(cp, want) {
			c26Fail(t, map[string]int{"n": n, "old": sz}, "%s: ConsistencyProof(%d,%d) differs from RFC 6962 PROOF (len %d vs %d)", tag, sz, n, len(cp), len(want))
		}
		if err := ver.VerifyConsistency(uint32(sz), uint32(n), ref.mth(0, sz), ref.mth(0, n), cp); err != nil {
			c26Fail(t, map[string]int{"n": n, "old": sz}, "%s: genuine consistency proof %d -> %d rejected: %v", tag, sz, n, err)
		}
		ev.Class("consistency:verified")
	}
}

// Exhaustive small sizes, in-memory hash store: after every append the root, the root-with-new-leaves previews,
// every inclusion proof (m, sz<=n) for n <= 64 (then all m for sz == n) and every consistency proof (sz, n).
func TestC26_ExhaustiveMem(t *testing.T) {
	ev := harn.For("C26").Rule(c26Rule)
	N := 96
	if harn.Thorough() {
		N = 600
	}
	seed := harn.Seed()
	leaves := c26Leaves(seed, N+8)
	ref := newC26Ref(leaves)
	tree := merkle.NewTree(0, nil, merkle.NewMemHashStore())
	if tree.Root() != ref.mth(0, 0) {
		c26Fail(t, "empty", "root of the empty tree is not sha256(\"\")")
	}
	for n := 1; n <= N; n++ {
		if tree.GetRootWithNewLeaf(leaves[n-1]) != ref.mth(0, n) {
			c26Fail(t, map[string]int{"n": n}, "GetRootWithNewLeaf on size %d differs from MTH of %d leaves", n-1, n)
		}
		for k := 0; k <= 7; k++ {
			if tree.GetRootWithNewLeaves(leaves[n-1:n-1+k]) != ref.mth(0, n-1+k) {
				c26Fail(t, map[string]int{"n": n - 1, "k": k}, "GetRootWithNewLeaves(%d leaves) on size %d differs from MTH of %d leaves", k, n-1, n-1+k)
			}
		}
		if tree.TreeSize() != uint32(n-1) || tree.Root() != ref.mth(0, n-1) {
			c26Fail(t, map[string]int{"n": n}, "root preview changed the tree of size %d", n-1)
		}
		tree.AppendHash(leaves[n-1])
		if tree.TreeSize() != uint32(n) {
			c26Fail(t, map[string]int{"n": n}, "TreeSize %d after %d appends", tree.TreeSize(), n)
		}
		if tree.Root() != ref.mth(0, n) {
			c26Fail(t, map[string]int{"n": n}, "Root after %d appends differs from MTH", n)
		}
		if n%harn.Shards() == harn.Shard() {
			c26CheckProofsAt(t, ev, "mem", tree, ref, n, n <= 64 || n == N || (harn.Thorough() && n%50 == 0))
		}
		ev.Case(notPow2(n), fmt.Sprintf("mem seed=%d n=%d", seed, n))
	}
}

// File-backed store: generated size, reopen points and reopen style; a memory-backed twin and the reference must agree
// before and after every reopen; proofs are checked at the reopen points and at the end.
func TestC26_FileStoreReopen(t *testing.T) {
	ev := harn.For("C26").Rule(c26Rule)
	ev.Floor("file:reopen", "file:cases", 0.5)
	dir, err := os.MkdirTemp("", "verif-c26-")
	if err != nil {
		t.Fatal(err)
	}
	defer os.RemoveAll(dir)
	caseNo := 0
	maxN := 2500 // every append fsyncs the hash file (~1 ms): sizes bound the quick budget
	if harn.Thorough() {
		maxN = 5000
	}
	harn.Check(t, 20, 360, func(t *rapid.T) {
		caseNo++
		var n int
		switch rapid.IntRange(0, 3).Draw(t, "sizekind") {
		case 0:
			n = rapid.IntRange(1, 40).Draw(t, "n")
		case 1:
			e := rapid.IntRange(1, 10).Draw(t, "exp")
			n = (1 << uint(e)) + rapid.IntRange(-2, 2).Draw(t, "d")
		case 2:
			n = rapid.IntRange(1, 700).Draw(t, "n")
		default:
			if rapid.IntRange(0, 1).Draw(t, "big") == 0 {
				n = rapid.IntRange(1, 40).Draw(t, "n")
			} else {
				n = rapid.IntRange(700, maxN).Draw(t, "n")
			}
		}
		if n < 1 {
			n = 1
		}
		seed := rapid.Uint64().Draw(t, "seed")
		reopens := rapid.SliceOfNDistinct(rapid.IntRange(0, n), 1, 4, rapid.ID[int]).Draw(t, "reopenAt")
		reopenAt := map[int]bool{}
		for _, r := range reopens {
			reopenAt[r] = true
		}
		leaves := c26Leaves(seed, n+4)
		ref := newC26Ref(leaves)
		path := filepath.Join(dir, fmt.Sprintf("m%d.db", caseNo))
		defer os.Remove(path)
		fs, err := merkle.NewFileHashStore(path, 0)
		if err != nil {
			t.Fatalf("NewFileHashStore: %v", err)
		}
		defer func() { fs.Close() }()
		tree := merkle.NewTree(0, nil, fs)
		twin := merkle.NewTree(0, nil, merkle.NewMemHashStore())
		ver := merkle.NewMerkleVerifier()

		sampleProofs := func(tag string, size int) {
			if size == 0 {
				return
			}
			if size <= 48 {
				// small: everything
				for sz := 1; sz <= size; sz++ {
					for m := 0; m < sz; m++ {
						p, err := tree.InclusionProof(uint32(m), uint32(sz))
						if err != nil || !eqHashes(p, ref.path(m, 0, sz)) {
							t.Fatalf("%s: file-backed InclusionProof(%d,%d) at tree size %d wrong (err %v)", tag, m, sz, size, err)
						}
					}
					if cp := tree.ConsistencyProof(uint32(sz), uint32(size)); !eqHashes(cp, ref.subproof(sz, 0, size, true)) {
						t.Fatalf("%s: file-backed ConsistencyProof(%d,%d) wrong", tag, sz, size)
					}
				}
				return
			}
			for i := 0; i < 24; i++ {
				sz := rapid.IntRange(1, size).Draw(t, "proofSize")
				m := rapid.IntRange(0, sz-1).Draw(t, "proofLeaf")
				p, err := tree.InclusionProof(uint32(m), uint32(sz))
				if err != nil {
					t.Fatalf("%s: InclusionProof(%d,%d) at tree size %d: %v", tag, m, sz, size, err)
				}
				q, _ := twin.InclusionProof(uint32(m), uint32(sz))
				if !eqHashes(p, ref.path(m, 0, sz)) || !eqHashes(p, q) {
					t.Fatalf("%s: file-backed InclusionProof(%d,%d) at tree size %d differs from reference/memory twin", tag, m, sz, size)
				}
				if err := ver.VerifyLeafHashInclusion(leaves[m], uint32(m), p, ref.mth(0, sz), uint32(sz)); err != nil {
					t.Fatalf("%s: inclusion proof (%d,%d) from the file store rejected: %v", tag, m, sz, err)
				}
				cp := tree.ConsistencyProof(uint32(sz), uint32(size))
				if !eqHashes(cp, ref.subproof(sz, 0, size, true)) {
					t.Fatalf("%s: file-backed ConsistencyProof(%d,%d) differs from reference", tag, sz, size)
				}
				if err := ver.VerifyConsistency(uint32(sz), uint32(size), ref.mth(0, sz), ref.mth(0, size), cp); err != nil {
					t.Fatalf("%s: consistency proof (%d,%d) from the file store rejected: %v", tag, sz, size, err)
				}
			}
		}

		reopen := func(size int) {
			style := rapid.IntRange(0, 1).Draw(t, "reopenStyle")
			rootBefore := tree.Root()
			hashes := append([]common.Uint256{}, tree.Hashes()...)
			buf, _ := tree.Marshal()
			fs.Close()
			fs, err = merkle.NewFileHashStore(path, uint32(size))
			if err != nil {
				t.Fatalf("reopening the hash file at tree size %d: %v", size, err)
			}
			if style == 0 {
				tree = merkle.NewTree(uint32(size), hashes, fs)
				ev.Class("file:reopen-newtree")
			} else {
				tree = merkle.NewTree(0, nil, fs)
				if err := tree.UnMarshal(buf); err != nil {
					t.Fatalf("UnMarshal(Marshal()) at size %d: %v", size, err)
				}
				ev.Class("file:reopen-unmarshal")
			}
			ev.Class("file:reopen")
			if tree.TreeSize() != uint32(size) || tree.Root() != rootBefore || tree.Root() != ref.mth(0, size) {
				t.Fatalf("reloaded tree at size %d: size %d, root equal to before=%v, equal to reference=%v", size, tree.TreeSize(), tree.Root() == rootBefore, tree.Root() == ref.mth(0, size))
			}
			sampleProofs("after reopen", size)
		}

		for i := 0; i <= n; i++ {
			if reopenAt[i] {
				reopen(i)
			}
			if i == n {
				break
			}
			tree.AppendHash(leaves[i])
			twin.AppendHash(leaves[i])
			if tree.Root() != twin.Root() {
				t.Fatalf("file-backed and memory-backed trees disagree on the root after %d appends (seed %d)", i+1, seed)
			}
			if i+1 <= 64 || (i+1)%97 == 0 || i+1 == n {
				if tree.Root() != ref.mth(0, i+1) {
					t.Fatalf("file-backed root after %d appends differs from MTH (seed %d)", i+1, seed)
				}
			}
		}
		if tree.GetRootWithNewLeaves(leaves[n:n+3]) != ref.mth(0, n+3) {
			t.Fatalf("GetRootWithNewLeaves(3) on file-backed tree of size %d differs from MTH", n)
		}
		sampleProofs("final", n)
		ev.Class("file:cases")
		ev.Case(notPow2(n), fmt.Sprintf("file seed=%d n=%d reopen=%v", seed, n, reopens))
	})
}

// ---------------------------------------------------------------------------------------------
// mutations

func c26FlipBit(t *rapid.T, h common.Uint256) common.Uint256 {
	i := rapid.IntRange(0, 255).Draw(t, "bit")
	h[i/8] ^= 1 << uint(i%8)
	return h
}

// c26OtherHash draws a replacement for a hash: a bit flip, a fresh random hash, or another hash of the same case.
func c26OtherHash(t *rapid.T, orig common.Uint256, context []common.Uint256) (common.Uint256, string) {
	switch rapid.IntRange(0, 3).Draw(t, "hashmut") {
	case 0:
		return c26FlipBit(t, orig), "bitflip"
	case 1:
		var h common.Uint256
		copy(h[:], rapid.SliceOfN(rapid.Byte(), 32, 32).Draw(t, "randhash"))
		if h == orig {
			h[0] ^= 1
		}
		return h, "random"
	default:
		var cands []common.Uint256
		for _, c := range context {
			if c != orig {
				cands = append(cands, c)
			}
		}
		if len(cands) == 0 {
			return c26FlipBit(t, orig), "bitflip"
		}
		return rapid.SampledFrom(cands).Draw(t, "ctxhash"), "context"
	}
}

type c26Setup struct {
	n      int
	leaves []common.Uint256
	ref    *c26Ref
	tree   *merkle.CompactMerkleTree
}

// shared trees for the mutation tests (building a tree per case would dominate the cost)
func c26BuildSetups(seed uint64, sizes []int) []*c26Setup {
	var out []*c26Setup
	for i, n := range sizes {
		leaves := c26Leaves(seed+uint64(i)*7919, n)
		tree := merkle.NewTree(0, nil, merkle.NewMemHashStore())
		for _, l := range leaves {
			tree.AppendHash(l)
		}
		out = append(out, &c26Setup{n: n, leaves: leaves, ref: newC26Ref(leaves), tree: tree})
	}
	return out
}

var c26MutSizes = []int{1, 2, 3, 4, 5, 6, 7, 8, 9, 11, 13, 16, 17, 23, 31, 32, 33, 47, 64, 65, 100, 127, 128, 129, 200, 255, 256, 257, 300}

func TestC26_MutatedInclusion(t *testing.T) {
	ev := harn.For("C26").Rule(c26Rule)
	setups := c26BuildSetups(harn.Seed(), c26MutSizes)
	ver := merkle.NewMerkleVerifier()
	harn.Check(t, 50000, 2400000, func(t *rapid.T) {
		s := setups[rapid.IntRange(0, len(setups)-1).Draw(t, "tree")]
		sz := rapid.IntRange(1, s.n).Draw(t, "size")
		if rapid.Bool().Draw(t, "fullsize") {
			sz = s.n
		}
		m := rapid.IntRange(0, sz-1).Draw(t, "leaf")
		proof, err := s.tree.InclusionProof(uint32(m), uint32(sz))
		if err != nil {
			t.Fatalf("InclusionProof(%d,%d) on %d leaves: %v", m, sz, s.n, err)
		}
		root := s.ref.mth(0, sz)
		leaf := s.leaves[m]
		index, size := uint32(m), uint32(sz)
		p := append([]common.Uint256{}, proof...)
		ctx := append(append([]common.Uint256{root, leaf}, proof...), s.leaves[(m+1)%s.n])
		hashValued := false
		kind := ""
		switch k := rapid.IntRange(0, 8).Draw(t, "mutation"); k {
		case 0:
			var how string
			leaf, how = c26OtherHash(t, leaf, ctx)
			kind, hashValued = "leaf:"+how, true
		case 1:
			var how string
			root, how = c26OtherHash(t, root, ctx)
			kind, hashValued = "root:"+how, true
		case 2:
			if len(p) == 0 {
				kind = "none"
				break
			}
			i := rapid.IntRange(0, len(p)-1).Draw(t, "elem")
			var how string
			p[i], how = c26OtherHash(t, p[i], ctx)
			kind, hashValued = "element:"+how, true
		case 3: // other index
			index = uint32(rapid.IntRange(0, sz+2).Draw(t, "index"))
			kind = "index"
			if index == uint32(m) {
				kind = "none"
			}
		case 4: // other size
			size = uint32(rapid.IntRange(1, 2*sz+2).Draw(t, "newsize"))
			kind = "size"
			if size == uint32(sz) {
				kind = "none"
			}
		case 5: // truncate
			if len(p) == 0 {
				kind = "none"
				break
			}
			cut := rapid.IntRange(0, len(p)-1).Draw(t, "cut")
			p = append(p[:cut:cut], p[cut+1:]...)
			kind = "length:drop"
		case 6: // extend
			at := rapid.IntRange(0, len(p)).Draw(t, "at")
			extra, _ := c26OtherHash(t, root, ctx)
			p = append(p[:at:at], append([]common.Uint256{extra}, p[at:]...)...)
			kind = "length:insert"
		case 7: // swap two proof elements
			if len(p) < 2 {
				kind = "none"
				break
			}
			i := rapid.IntRange(0, len(p)-2).Draw(t, "swap")
			p[i], p[i+1] = p[i+1], p[i]
			kind, hashValued = "element:swap", p[i] != p[i+1]
		default:
			kind = "none"
		}
		var sutErr error
		func() {
			defer func() {
				if r := recover(); r != nil {
					t.Fatalf("VerifyLeafHashInclusion panicked: %v (index %d size %d proof len %d)", r, index, size, len(p))
				}
			}()
			sutErr = ver.VerifyLeafHashInclusion(leaf, index, p, root, size)
		}()
		want := refVerifyInclusion(leaf, index, size, p, root)
		desc := fmt.Sprintf("inclusion n=%d size=%d leaf=%d mutation=%s index'=%d size'=%d len'=%d", s.n, sz, m, kind, index, size, len(p))
		if (sutErr == nil) != want {
			t.Fatalf("%s: verifier says %v, RFC 9162 reference verifier accepts=%v", desc, sutErr, want)
		}
		if kind == "none" && sutErr != nil {
			t.Fatalf("%s: genuine proof rejected: %v", desc, sutErr)
		}
		if hashValued && sutErr == nil {
			t.Fatalf("%s: altered hash accepted", desc)
		}
		ev.Class("inclusion-mutation:" + kind)
		if sutErr == nil {
			ev.Class("inclusion-mutation:accepted")
		}
		ev.Case(kind != "none", desc+fmt.Sprintf(" seed=%d", harn.Seed()))
	})
}

func TestC26_MutatedConsistency(t *testing.T) {
	ev := harn.For("C26").Rule(c26Rule)
	ev.Assume("VerifyConsistency with old size 0 (anything is consistent with the empty tree) and same-size tuples with equal roots and a non-empty proof (proof ignored) are outside the RFC 6962/9162 domain and not judged")
	setups := c26BuildSetups(harn.Seed()+1, c26MutSizes)
	ver := merkle.NewMerkleVerifier()
	// recorded finding: VerifyConsistency returns nil whenever old_root == new_root, whatever the sizes and the proof.
	// Witness: two leaves, claim "the tree of size 1 had the root of the tree of size 2".
	w := c26BuildSetups(42, []int{2})[0]
	r2 := w.ref.mth(0, 2)
	still := ver.VerifyConsistency(1, 2, r2, r2, w.tree.ConsistencyProof(1, 2)) == nil
	if still {
		t.Logf("witness %s: VerifyConsistency(1, 2, MTH(D[0:2]), MTH(D[0:2]), proof) = nil although MTH(D[0:1]) != MTH(D[0:2])", c26EqualRootsKey)
	}
	excl := harn.Known("C26", c26EqualRootsKey, still)
	harn.Check(t, 50000, 2400000, func(t *rapid.T) {
		s := setups[rapid.IntRange(0, len(setups)-1).Draw(t, "tree")]
		n := rapid.IntRange(1, s.n).Draw(t, "new")
		if rapid.Bool().Draw(t, "fullsize") {
			n = s.n
		}
		m := rapid.IntRange(1, n).Draw(t, "old")
		proof := s.tree.ConsistencyProof(uint32(m), uint32(n))
		oldRoot, newRoot := s.ref.mth(0, m), s.ref.mth(0, n)
		first, second := uint32(m), uint32(n)
		p := append([]common.Uint256{}, proof...)
		ctx := append([]common.Uint256{oldRoot, newRoot, s.leaves[m-1]}, proof...)
		hashValued := false
		kind := ""
		switch k := rapid.IntRange(0, 8).Draw(t, "mutation"); k {
		case 0:
			var how string
			oldRoot, how = c26OtherHash(t, oldRoot, ctx)
			kind, hashValued = "oldroot:"+how, true
		case 1:
			var how string
			newRoot, how = c26OtherHash(t, newRoot, ctx)
			kind, hashValued = "newroot:"+how, true
		case 2:
			if len(p) == 0 {
				kind = "none"
				break
			}
			i := rapid.IntRange(0, len(p)-1).Draw(t, "elem")
			var how string
			p[i], how = c26OtherHash(t, p[i], ctx)
			kind, hashValued = "element:"+how, true
		case 3:
			first = uint32(rapid.IntRange(1, n+2).Draw(t, "first"))
			kind = "oldsize"
			if first == uint32(m) {
				kind = "none"
			}
		case 4:
			second = uint32(rapid.IntRange(1, 2*n+2).Draw(t, "second"))
			kind = "newsize"
			if second == uint32(n) {
				kind = "none"
			}
		case 5:
			if len(p) == 0 {
				kind = "none"
				break
			}
			cut := rapid.IntRange(0, len(p)-1).Draw(t, "cut")
			p = append(p[:cut:cut], p[cut+1:]...)
			kind = "length:drop"
		case 6:
			at := rapid.IntRange(0, len(p)).Draw(t, "at")
			extra, _ := c26OtherHash(t, newRoot, ctx)
			p = append(p[:at:at], append([]common.Uint256{extra}, p[at:]...)...)
			kind = "length:insert"
		case 7:
			if len(p) < 2 {
				kind = "none"
				break
			}
			i := rapid.IntRange(0, len(p)-2).Draw(t, "swap")
			p[i], p[i+1] = p[i+1], p[i]
			kind, hashValued = "element:swap", p[i] != p[i+1]
		default:
			kind = "none"
		}
		if first < second && oldRoot == newRoot {
			ev.Class("consistency-mutation:equal-roots-different-sizes")
			if excl {
				ev.Excluded()
				return
			}
		}
		var sutErr error
		func() {
			defer func() {
				if r := recover(); r != nil {
					t.Fatalf("VerifyConsistency panicked: %v (old %d new %d proof len %d)", r, first, second, len(p))
				}
			}()
			sutErr = ver.VerifyConsistency(first, second, oldRoot, newRoot, p)
		}()
		desc := fmt.Sprintf("consistency n=%d old=%d new=%d mutation=%s old'=%d new'=%d len'=%d", s.n, m, n, kind, first, second, len(p))
		// expected verdict
		judged, want := true, false
		switch {
		case first > second:
			want = false
		case first == second:
			if oldRoot != newRoot {
				want = false // same size, different roots: inconsistent whatever the proof says
			} else if len(p) == 0 {
				want = true
			} else {
				judged = false
				ev.Class("consistency-mutation:unjudged-same-size-extra-proof")
			}
		default:
			want = refVerifyConsistency(first, second, oldRoot, newRoot, p)
		}
		if judged && (sutErr == nil) != want {
			t.Fatalf("%s: verifier says %v, reference verdict accept=%v (old root == new root: %v)", desc, sutErr, want, oldRoot == newRoot)
		}
		if kind == "none" && sutErr != nil {
			t.Fatalf("%s: genuine proof rejected: %v", desc, sutErr)
		}
		if hashValued && sutErr == nil {
			t.Fatalf("%s: altered hash accepted (old root == new root: %v)", desc, oldRoot == newRoot)
		}
		ev.Class("consistency-mutation:" + kind)
		if sutErr == nil {
			ev.Class("consistency-mutation:accepted")
		}
		ev.Case(kind != "none", desc+fmt.Sprintf(" seed=%d", harn.Seed()))
	})
}
