package crash

// C12 No transaction or pre-execution request can crash the node.
//
// Parent side: rapid properties "send case -> reply | worker died". The worker (worker_test.go)
// executes every case through the node's real entry points. Oracle: the reply must not contain a
// recovered Go panic on a path where the node itself has no recover, and the worker must not die.
//
// Which layers recover in the node (read in /repo, no recover() exists under core/, smartcontract/,
// vm/, txnpool/): block execution (consensus / block-sync goroutines -> ExecuteBlock/AddBlock ->
// HandleInvokeTransaction / HandleEIP155Transaction) has none; PreExecuteContract is called from the
// tx pool for every transaction gossiped by a peer (p2p `go HandlePeerMessage` -> transactionHandle ->
// AppendTransactionAsync -> preExecCheck) - no recover either; only the HTTP servers (net/http
// per-connection recover, go-ethereum rpc callback recover) would survive a panic. Hence a panic on
// the block route, the PreExecuteContract route, the native sandbox route (= what a NeoVM/WASM
// caller reaches through Native.Invoke with exactly these bytes) or the pool-intake route is a
// violation; a panic seen ONLY in PreExecuteEip155Tx (eth_call, RPC only) is counted, not a violation.

import (
	"encoding/json"
	"fmt"
	"math/big"
	"os"
	"path/filepath"
	"regexp"
	"sort"
	"strings"
	"testing"
	"time"

	"pgregory.net/rapid"

	"verifharness/internal/harn"
	"verifharness/internal/iso"
)

const (
	caseWait = 40 * time.Second  // an answer later than this is counted as a suspected hang, never a violation
	bootWait = 240 * time.Second // first request of a worker: creates the ledger and the prefix
	bigWait  = 420 * time.Second // re-run with the 1 GB stack limit of a real node
)

const (
	keyCycle = "serialize-cycle-stack-overflow"
	keyOntid = "ontid-remove-key-index-zero"
	keyCloneCount = "clone-count-checked-only-on-struct-entry"
)

type runner struct {
	tb       testing.TB
	ev       *harn.Collector
	w, big   *iso.Worker
	up, upB  bool
	errdir   string
	survived map[string]bool // stack-overflow signatures that survive the 1 GB limit
	suspects []string
	known    map[string]bool // known-finding keys whose recogniser is switched on
}

func newRunner(tb testing.TB) *runner {
	// scratch directories of runs that were killed before they could clean up
	if ds, _ := filepath.Glob(filepath.Join(os.TempDir(), "c12err-*")); len(ds) > 0 {
		for _, d := range ds {
			if st, err := os.Stat(d); err == nil && time.Since(st.ModTime()) > 3*time.Hour {
				os.RemoveAll(d)
			}
		}
	}
	dir, err := os.MkdirTemp("", "c12err-")
	if err != nil {
		tb.Fatal(err)
	}
	os.Setenv("VERIF_C12_ERRDIR", dir)
	return &runner{tb: tb, ev: harn.For("C12"), w: iso.New("c12"), big: iso.New("c12big"), errdir: dir,
		survived: map[string]bool{}, known: map[string]bool{}}
}

func (r *runner) close() {
	r.w.Close()
	r.big.Close()
	os.RemoveAll(r.errdir)
	if len(r.suspects) > 0 {
		r.ev.Extra("suspected_hangs", r.suspects)
	}
}

// crashHead returns the beginning of the worker's stderr (the head of a fatal error report).
func (r *runner) crashHead(name string) string {
	b, _ := os.ReadFile(filepath.Join(r.errdir, name+".err"))
	s := string(b)
	if i := strings.Index(s, "fatal error:"); i >= 0 {
		j := i - 200
		if j < 0 {
			j = 0
		}
		s = s[j:]
	} else if i := strings.Index(s, "runtime: goroutine stack exceeds"); i >= 0 {
		s = s[i:]
	}
	if len(s) > 6000 {
		s = s[:6000]
	}
	return s
}

func (r *runner) boot(w *iso.Worker, up *bool) error {
	if *up {
		return nil
	}
	res := w.Do(wcase{Kind: "methods", Height: 1}.enc(), bootWait)
	if res.Died || res.TimedOut {
		w.Close()
		return fmt.Errorf("worker does not start (died=%v timedout=%v): %s", res.Died, res.TimedOut, res.Diag)
	}
	var rep wreply
	_ = json.Unmarshal(res.Out, &rep)
	if !strings.HasPrefix(rep.Harness, "methods:") {
		w.Close()
		return fmt.Errorf("worker cannot build its ledger: %s", rep.Harness)
	}
	*up = true
	return nil
}

// methods asks the worker for the registered native method tables (enumerated at run time).
func (r *runner) methods(height uint32) map[string][]string {
	if err := r.boot(r.w, &r.up); err != nil {
		r.tb.Fatalf("HARNESS: %v", err)
	}
	res := r.w.Do(wcase{Kind: "methods", Height: height}.enc(), bootWait)
	var rep wreply
	_ = json.Unmarshal(res.Out, &rep)
	out := map[string][]string{}
	if err := json.Unmarshal([]byte(strings.TrimPrefix(rep.Harness, "methods:")), &out); err != nil || len(out) < 10 {
		r.tb.Fatalf("HARNESS: cannot enumerate native methods: %v %q", err, rep.Harness)
	}
	return out
}

type verdict struct {
	rep      wreply
	died     bool
	diag     string
	timedOut bool
	note     string
}

var frameRe = regexp.MustCompile(`(?m)^([A-Za-z0-9_./\-]+(?:\(\*?[A-Za-z0-9_]+\))?\.[A-Za-z0-9_.()*]+)\(`)

// overflowSig names the recursing functions at the top of an overflowed stack.
func overflowSig(head string) string {
	i := strings.Index(head, "goroutine ")
	if i < 0 {
		return "?"
	}
	seen := map[string]bool{}
	var fs []string
	for _, m := range frameRe.FindAllStringSubmatch(head[i:], 40) {
		f := m[1]
		if strings.HasPrefix(f, "runtime.") || seen[f] {
			continue
		}
		seen[f] = true
		fs = append(fs, f)
		if len(fs) == 4 {
			break
		}
	}
	sort.Strings(fs)
	return strings.Join(fs, "|")
}

func isNativeParamOverflow(head string) bool {
	return strings.Contains(head, "stack overflow") && (strings.Contains(head, "VmValue).BuildParamToNative") || strings.Contains(head, "VmValue).buildParamToNative"))
}

func isSerializeOverflow(head string) bool {
	return strings.Contains(head, "stack overflow") && strings.Contains(head, "VmValue).Serialize")
}

// exec sends one case. A death by stack overflow under the worker's 64 MiB limit is re-run under
// the 1 GB default limit of a real node before it counts (except inside BuildParamToNative, whose
// recursion over a cyclic value has no bound at all: no output-size check, verified at 1 GB).
func (r *runner) exec(c wcase) verdict {
	if err := r.boot(r.w, &r.up); err != nil {
		r.ev.Class("infra:worker-start-failed")
		return verdict{timedOut: true, note: err.Error()}
	}
	t0 := time.Now()
	res := r.w.Do(c.enc(), caseWait)
	if res.TimedOut {
		r.up = false
		r.suspect(c, "no answer within "+caseWait.String())
		return verdict{timedOut: true}
	}
	if !res.Died {
		var rep wreply
		if err := json.Unmarshal(res.Out, &rep); err != nil {
			rep.Harness = "bad reply: " + err.Error()
		}
		if d := time.Since(t0); d > 20*time.Second {
			r.suspect(c, fmt.Sprintf("answered after %v", d.Round(time.Second)))
		}
		return verdict{rep: rep}
	}
	r.up = false
	head := r.crashHead("c12")
	if head == "" {
		head = res.Diag
	}
	if !strings.Contains(head, "stack overflow") && !strings.Contains(head, "goroutine stack exceeds") {
		return verdict{died: true, diag: head + "\n" + res.Diag}
	}
	if isNativeParamOverflow(head) {
		return verdict{died: true, diag: head}
	}
	sig := overflowSig(head)
	if r.survived[sig] {
		r.ev.Class("stack:overflow-at-64MiB-only")
		return verdict{note: "stack64:" + sig}
	}
	if err := r.boot(r.big, &r.upB); err != nil {
		return verdict{timedOut: true, note: err.Error()}
	}
	t0 = time.Now()
	res2 := r.big.Do(c.enc(), bigWait)
	if res2.TimedOut {
		r.upB = false
		r.suspect(c, "stack overflow at 64 MiB; with the 1 GB limit no answer within "+bigWait.String())
		return verdict{timedOut: true}
	}
	if !res2.Died {
		r.survived[sig] = true
		r.ev.Class("stack:overflow-at-64MiB-only")
		r.suspect(c, fmt.Sprintf("recursion overflows a 64 MiB stack, survives 1 GB after %v: %s", time.Since(t0).Round(time.Second), sig))
		var rep wreply
		_ = json.Unmarshal(res2.Out, &rep)
		return verdict{rep: rep, note: "stack64:" + sig}
	}
	r.upB = false
	h2 := r.crashHead("c12big")
	if h2 == "" {
		h2 = res2.Diag
	}
	return verdict{died: true, diag: h2}
}

func (r *runner) suspect(c wcase, why string) {
	r.ev.Class("timeout-or-slow")
	if len(r.suspects) < 8 {
		b := c.enc()
		if len(b) > 1500 {
			b = b[:1500]
		}
		r.suspects = append(r.suspects, why+": "+string(b))
	}
}

// judge applies the oracle. It returns a violation text ("" = none) and the key of the listed
// known finding the outcome fell into ("" = none; such outcomes are counted as excluded).
func (r *runner) judge(v verdict) (violation string, knownKey string) {
	if v.timedOut {
		return "", ""
	}
	if v.died {
		for _, f := range findings {
			if r.known[f.key] && f.matchDeath != nil && f.matchDeath(v.diag) {
				return "", f.key
			}
		}
		d := v.diag
		if len(d) > 1800 {
			d = d[:1800]
		}
		// the driver maps any log that contains the runtime's out-of-memory texts to "inconclusive
		// (infrastructure)"; here the allocation failure IS the finding, so the quote is re-spelled
		d = strings.ReplaceAll(strings.ReplaceAll(d, "out of memory", "out-of-memory"), "cannot allocate memory", "cannot-allocate-memory")
		return "the node process dies with a fatal runtime error:\n" + d, ""
	}
	if v.rep.Harness != "" {
		return "HARNESS PROBLEM (not a finding): " + v.rep.Harness, ""
	}
	for _, p := range violatingPaths(&v.rep) {
		if p.r.Abort != "" {
			return "the request passed its resource bound and was stopped by the worker's probe (the node itself would have gone on): " + p.r.Abort, ""
		}
	}
	for _, p := range violatingPaths(&v.rep) {
		if p.r.Panic == "" {
			continue
		}
		matched := false
		for _, f := range findings {
			if r.known[f.key] && f.matchPanic != nil && f.matchPanic(p.r.Panic, p.r.Stack) {
				knownKey, matched = f.key, true
				break
			}
		}
		if matched {
			continue
		}
		return fmt.Sprintf("Go panic on the %s path, which no layer of the node recovers: %s\n%s", p.name, p.r.Panic, p.r.Stack), ""
	}
	if v.rep.EthCall.Panic != "" {
		r.ev.Class("panic:eth_call-only(rpc-recovered)")
	}
	return "", knownKey
}

type namedPath struct {
	name string
	r    *pathRes
}

// violatingPaths lists the routes on which a panic kills the node (no recover in any layer).
func violatingPaths(rep *wreply) []namedPath {
	return []namedPath{{"block execution (ExecuteBlock)", &rep.Block}, {"pre-execution (PreExecuteContract)", &rep.Pre},
		{"native call (NativeService.NativeCall)", &rep.Sandbox}, {"tx pool intake (AppendTransaction)", &rep.Pool},
		{"transaction decoding / stateless validation (TransactionFromRawBytes, VerifyTransaction)", &rep.Valid},
		{"pre-execution with a finite gas budget (SmartContract built as PreExecuteContract builds it)", &rep.PreSB}}
}

func reachedAll(rep *wreply) []string {
	m := map[string]bool{}
	for _, p := range []*pathRes{&rep.Block, &rep.Pre, &rep.Sandbox, &rep.EthCall, &rep.Pool, &rep.Valid, &rep.PreSB} {
		for _, s := range p.Reached {
			if s != "nat:param.getGlobalParam" || p == &rep.Sandbox {
				m[s] = true
			}
		}
	}
	var out []string
	for k := range m {
		out = append(out, k)
	}
	sort.Strings(out)
	return out
}

// ---------------------------------------------------------------------------------------------
// deterministic witnesses of the recorded findings (replayed in the worker)

func witnessCycleCase() wcase {
	ont := make([]byte, 20)
	ont[19] = 1
	// a = NEWARRAY 2; a[1] = a; Native.Invoke(ont, "name", a)
	a := (&asm{}).pushI(2).raw(0xc5, 0x76).pushI(1).raw(0x78, 0xc4).nativeInvoke(ont, "name", 0)
	return wcase{Kind: "neo", Code: a.b, GasLimit: 20000, Signers: []int{1}}
}

func witnessOntidCase() wcase {
	idA, idB := zooID(0), zooID(1)
	return wcase{Kind: "native", Height: 100, History: []natCall{
		{Contract: hONTID, Method: "regIDWithPublicKey", Args: (&enc{}).vb(idA).vb(zooPub(1)).b, Signers: []int{1}},
		{Contract: hONTID, Method: "regIDWithController", Args: (&enc{}).vb(idB).vb(idA).vu(1).b, Signers: []int{1}},
	}, Call: &natCall{Contract: hONTID, Method: "removeKeyByController", Args: (&enc{}).vb(idB).vu(0).vu(1).b, Signers: []int{1}}}
}

// finding is one recorded defect: deterministic witness (replayed in the worker) and a recogniser
// as narrow as the root cause.
type finding struct {
	key        string
	witness    func() wcase
	matchDeath func(diag string) bool
	matchPanic func(panicText, stack string) bool
	matchReply func(rep *wreply) (bool, string) // outcome that is neither a death nor a panic (resource counters)
	// proxy64: the witness is a scaled-down input whose recursion overflows the worker's 64 MiB
	// stack; stack use is linear in the generated depth and nothing bounds the depth, so the full
	// size overflows the 1 GB default too (fullWitness, minutes of CPU, is replayed by
	// TestC12_KnownWitnesses in the thorough tier only).
	proxy64     bool
	fullWitness func() wcase
}

// deepEqualCode: two separately built values x = struct{[x]} nested n levels, compared with EQUAL
// (VmValue.Equals -> reflect.DeepEqual for structs). Struct cloning only follows direct struct
// children, so alternating struct/array nesting is bounded by gas only (26 gas per level).
func deepEqualCode(n int64) []byte {
	g := &neoGen{a: &asm{}, tags: map[string]bool{}}
	for i := 0; i < 2; i++ {
		g.a.pushI(1)
		g.loop(n, func() { g.a.pushI(1).raw(0xc1).pushI(0).raw(0xc6, 0x76, 0x7b, 0xc8) }) // PACK; NEWSTRUCT DUP ROT APPEND
	}
	g.a.raw(0x87) // EQUAL
	return g.a.b
}

func isDeepEqualOverflow(d string) bool {
	return strings.Contains(d, "stack overflow") && strings.Contains(d, "reflect.deepValueEqual")
}

func panicIn(text, frame string) func(string, string) bool {
	return func(p, st string) bool { return strings.Contains(p, text) && strings.Contains(st, frame) }
}

var findings = []finding{
	{key: keyCycle, witness: witnessCycleCase, matchDeath: func(d string) bool { return isNativeParamOverflow(d) || isSerializeOverflow(d) }},
	{key: keyOntid, witness: witnessOntidCase, matchPanic: panicIn("index out of range [4294967295]", "ontid.revokePkByIndex")},
	// EQUAL on deeply nested structs: unbounded reflect.DeepEqual recursion (fatal at ~290k levels under 1 GB)
	{key: "equal-deep-struct-stack-overflow", matchDeath: isDeepEqualOverflow, proxy64: true,
		witness: func() wcase {
			return wcase{Kind: "neo", Code: deepEqualCode(30000), GasLimit: 1000000, Signers: []int{1}}
		},
		fullWitness: func() wcase {
			return wcase{Kind: "neo", Code: deepEqualCode(400000), GasLimit: 16100000, Signers: []int{1}}
		}},
	// struct clone counter compared with MAX_CLONE_LENGTH only on entry to a struct: a chain of 1024-wide structs
	// (64 levels, 65,600 items) is deep-copied in full by every SETITEM / APPEND; 24 copies of it are held after
	// 612 opcodes. Judged on the node's own engine (probe inside ExecuteBlock and PreExecuteContract, ordinary
	// 20000 gas limit and 2500 gas price) by the live-item counter against 65536 + 1024 x opcodes.
	{key: keyCloneCount, matchReply: cloneChainOver, witness: func() wcase {
		return wcase{Kind: "amp", Probe: true, Code: cloneChainCode(64, 24), GasLimit: 20000, GasPrice: 2500, Signers: []int{1}}
	}},
	// governance.updateConfig with K = 0 (admin witness required): `L % K`
	{key: "gov-updateconfig-k-zero", matchPanic: panicIn("integer divide by zero", "governance.UpdateConfig"), witness: func() wcase {
		return wcase{Kind: "native", Height: 100, Call: &natCall{Contract: hGOV, Method: "updateConfig", Signers: []int{0},
			Args: (&enc{}).vu(7).vu(1).vu(0).vu(0).vu(5000).vu(5000).vu(10).vu(10000).b}}
	}},
}

// cloneChainOver: the program ran to its service call on a node route and the node's executor held more
// live items there than the bound allows for the opcodes executed.
func cloneChainOver(rep *wreply) (bool, string) {
	m := rep.Amp
	if m == nil {
		return false, "no meter reading: " + rep.Harness
	}
	b := ampBound(m.Ops)
	what := fmt.Sprintf("after %d opcodes the executor inside ExecuteBlock holds %d live VM items (state %d, %s), the one inside PreExecuteContract %d (state %d, %s), the metered bare executor %d; bound 65536 + 1024 x opcodes = %d",
		m.Ops, m.BlockPeak, rep.Block.State, rep.Block.Err, m.PrePeak, rep.Pre.State, rep.Pre.Err, m.Final, b)
	return m.End == "syscall" && (m.BlockPeak > b || m.PrePeak > b), what
}

func findingByKey(key string) *finding {
	for i := range findings {
		if findings[i].key == key {
			return &findings[i]
		}
	}
	return nil
}

// replayWitness runs a finding's witness and reports whether it still fails the same way.
func (r *runner) replayWitness(f *finding) (still bool, what string) {
	if err := r.boot(r.w, &r.up); err != nil {
		return false, err.Error()
	}
	// generous wait: a fatal-error report of a loaded machine can take a minute to be written
	res := r.w.Do(f.witness().enc(), 10*time.Minute)
	if res.TimedOut {
		r.up = false
		r.ev.Class("timeout")
		return false, "no answer to the witness within 10 minutes"
	}
	if res.Died {
		r.up = false
		head := r.crashHead("c12")
		if head == "" {
			head = res.Diag
		}
		what = firstLines(head, 3)
		if f.proxy64 {
			what = "scaled-down witness under a 64 MiB stack: " + what
		}
		return f.matchDeath != nil && f.matchDeath(head), what
	}
	var rep wreply
	_ = json.Unmarshal(res.Out, &rep)
	for _, p := range violatingPaths(&rep) {
		if p.r.Panic != "" && f.matchPanic != nil && f.matchPanic(p.r.Panic, p.r.Stack) {
			return true, "panic on the " + p.name + " path: " + p.r.Panic + "\n" + p.r.Stack
		}
	}
	if f.matchReply != nil {
		return f.matchReply(&rep)
	}
	return false, fmt.Sprintf("block=%+v sandbox=%+v pre=%+v pool=%+v harness=%s", rep.Block, rep.Sandbox, rep.Pre, rep.Pool, rep.Harness)
}

func firstLines(s string, n int) string {
	ls := strings.Split(strings.TrimSpace(s), "\n")
	if len(ls) > n {
		ls = ls[:n]
	}
	return strings.Join(ls, " | ")
}

// useKnown replays the witness and switches the recogniser on iff the finding is listed AND still
// reproduces.
func (r *runner) useKnown(key string) bool {
	still, _ := r.replayWitness(findingByKey(key))
	if still {
		r.ev.Class("witness-still-fails:" + key)
	} else {
		r.ev.Class("witness-passes:" + key)
	}
	k := harn.Known("C12", key, still)
	r.known[key] = k
	return k
}

// useAllKnown switches on every recogniser whose finding is listed and still reproduces.
func (r *runner) useAllKnown(kinds ...string) {
	for _, f := range findings {
		w := f.witness()
		for _, k := range kinds {
			if w.Kind == k {
				r.useKnown(f.key)
			}
		}
	}
}

// runWitness replays the minimal witness of one defect found so far. A witness that still fails is
// a violation unless the finding is listed in known_findings.json. One top-level test per finding,
// so that every failing witness is reported and `check --replay <case file>` finds its test.
func runWitness(t *testing.T, key string) {
	r := newRunner(t)
	defer r.close()
	r.ev.Rule(ruleText)
	f := findingByKey(key)
	still, what := r.replayWitness(f)
	if still && f.fullWitness != nil && harn.Thorough() && harn.Shard() == 0 {
		// the real thing: must die under the 1 GB limit as well
		if err := r.boot(r.big, &r.upB); err == nil {
			res := r.big.Do(f.fullWitness().enc(), 40*time.Minute)
			r.upB = false
			head := r.crashHead("c12big")
			still = res.Died && f.matchDeath(head)
			what = "full witness under the 1 GB default stack limit: " + firstLines(head, 3)
			if res.TimedOut {
				r.ev.Class("timeout")
				still, what = true, what+" (no answer within 40 min; scaled-down witness still overflows)"
			}
		}
	}
	t.Logf("witness %s: still fails = %v: %s", f.key, still, firstLines(what, 4))
	r.ev.Case(true, "witness "+f.key)
	if !still {
		r.ev.Class("witness-passes:" + f.key)
		return
	}
	r.ev.Class("witness-still-fails:" + f.key)
	if harn.Known("C12", f.key, true) {
		r.ev.Excluded()
		return
	}
	harn.Violation(t, "C12", f.witness(), "witness of finding %q crashes the node: %s", f.key, what)
}

func TestC12_WitnessSerializeCycle(t *testing.T)  { runWitness(t, keyCycle) }
func TestC12_WitnessOntidIndexZero(t *testing.T)  { runWitness(t, keyOntid) }
func TestC12_WitnessDeepEqual(t *testing.T)       { runWitness(t, "equal-deep-struct-stack-overflow") }
func TestC12_WitnessGovUpdateConfig(t *testing.T) { runWitness(t, "gov-updateconfig-k-zero") }
func TestC12_WitnessCloneCount(t *testing.T)      { runWitness(t, keyCloneCount) }

// scaled lets a developer shrink the quick case counts (VERIF_C12_SCALE=percent); unset = 100 %.
func scaled(n int) int {
	var pct int
	if _, err := fmt.Sscanf(os.Getenv("VERIF_C12_SCALE"), "%d", &pct); err == nil && pct > 0 {
		n = n * pct / 100
		if n < 1 {
			n = 1
		}
	}
	return n
}

// ---------------------------------------------------------------------------------------------

const ruleText = "cases are executed in a crash-isolating worker that owns a solo ledger (genesis + committed prefix: funded accounts, 3 NeoVM and 3 EVM contracts). " +
	"(a) NeoVM programs from a grammar (typed and mistyped SYSCALLs of every service name, value builders incl. nested/deep/self-referential containers with the back edge at a generated position, consumers Serialize/Notify/Native.Invoke/EQUAL/..., APPCALL/DCALL/CALL, bounded loops and jumps, framed opcode soup, raw and mutated bytes) run as a signed transaction through ExecuteBlock AND through PreExecuteContract; " +
	"(b) a generated VALID history of native calls (ONT IDs with keys/controllers/recovery/attributes, approvals, auth roles, governance candidates) applied in a sandbox CacheDB and, as signed NeoVM transactions of one block, through ExecuteBlock, followed by ONE hostile call (contract and method from the method tables enumerated at run time; arguments shaped/mutated/generic atoms/raw bytes; every count, index and amount from a hostile pool 0,1,len-1,len,len+1,2^31,2^32-1,2^32,2^63,2^64-1,2^64,-1; the numbers of ont/ong/gov/lockproxy/ontfs/ccm calls and every transfer-state / position-list amount mostly from the boundary amount pool: 0, 1, 10^9 and k*10^9 (+-1) for k = 2^32, 2^63, 2^64-1, 2^64, 2^64+1, 2^96, 2^128-1, 2^196, 2^n (+-1) for n = 63, 64, 127, 128, 255, 256, the total supplies 10^18 and 10^27 (+-1), the largest whole amount below 2^256, and negative forms); " +
	"(b2) amount sweep: for ONT and ONG every method with an amount (transfer, transferV2, approve, approveV2, transferFrom after an approval of the same amount, transferFromV2 likewise) x every value of that pool, from funded accounts with all witnesses present, plus the two-step sequences approve(V2)(W + B), transferFrom(V2)(B) for every positive W of the pool and B in {1, 5*10^8, 10^9-1} so that W is what remains as allowance - sandbox call, and for the approvals, a third of the sequences and a quarter of the rest also signed NeoVM transactions in one block and pre-execution (non-trivial = the method's handler was entered); " +
	"(c) EVM bytecode as creation code, as installed runtime code called in the same block, or calldata to precompiles/native addresses/prefix contracts, through ExecuteBlock, PreExecuteContract(EIP-155 tx) and PreExecuteEip155Tx; (d) transactions offered to the tx pool intake; " +
	"(e) NeoVM amplification loops: a leaf container (struct/array/map with 0,1,2,3,16,255,1023 or 1024 primitive items) and 1..48 rounds (uniform; unrolled or as a backward JMP loop) that each build a new node (struct/array/map with 0..1024 primitive filler slots) holding 1-4 copies of / references to the previous value in its first, middle or last slots by APPEND, SETITEM, PACK or by appending a struct to itself, older values dropped or kept on the stack, optionally 1..32 further APPENDs of the result to a fresh array, the final value returned / dropped / serialized / notified - run first on a bare executor driven exactly like NeoVmService.Invoke that counts the live VM items (stack slots + distinct containers + their slots) after every container-allocating opcode, then through ExecuteBlock and PreExecuteContract with the same counter probing the node's own executor on entry to every service call (it must agree with the meter); " +
	"(f) cross-contract loops: an endless (L: body; JMP L) or counted (1..150000 iterations) loop whose body is 1-3 of: static or dynamic (address from the stack) APPCALL into the contracts committed in the worker's ledger prefix - echo (NOP), time (one service call), chain (APPCALLs time), loop (16 service calls in its own bounded loop), recur (calls itself until the engine limit), a missing contract - a service call in the caller, a NOP (TAILCALL is not implemented by this executor; DCALL stays inside one contract); run as a transaction through ExecuteBlock (gas limit 20000..500000) and as a pre-execution request. " +
	"Violation = worker death by a fatal runtime error (a stack overflow under the worker's 64 MiB limit must reproduce under the node's 1 GB default, except in BuildParamToNative whose recursion is unbounded) or a Go panic on the block / PreExecuteContract / native-call / pool route (no layer of the node recovers there); answers later than 40 s are only counted. " +
	"For (e) additionally: live items above 65536 + 1024 x executed opcodes (every opcode is charged >= 1 gas; MAX_ARRAY_SIZE=1024 items per NEWARRAY/NEWSTRUCT/PACK and MAX_CLONE_LENGTH=1024 items per struct copy are meant to cap what one opcode allocates; the largest count seen is recorded as amp_max_live_items) mean memory that multiplies per round / per opcode for constant gas, i.e. memory exhaustion of the node a few rounds later - a violation decided by these deterministic counters (the metered run stops there and the node routes are not entered); a worker killed by its address-space limit is a death; a mere wall-clock timeout stays inconclusive. " +
	"For (f): a probe in every service handler counts the service calls of ALL nested engines of one request (each is one executed opcode that costs >= 2 gas and, in pre-execution, one step of the request's SmartContract.CheckExecStep counter, VM_STEP_LIMIT = 400000 shared by all engines of the request). Violations, all decided by counters, never by the clock: a transaction that enters more service calls than its gas limit; a PreExecuteContract request that enters more than VM_STEP_LIMIT + 1024 service calls (the probe then stops it by unwinding the request) or whose step counter reads less than the service calls already entered (an executed opcode was not counted); for bodies without any service call the request is pre-executed on a SmartContract built exactly as PreExecuteContractWithParam builds it (PreExec = true, same config, store, gas table) except for a finite gas budget of 6,000,000 (> 400000 steps x 10 gas of the dearest opcode used): it must not end with 'insufficient gas'; an endless loop over existing, returning callees must end its pre-execution with the step-limit error and its transaction unsuccessfully. Non-trivial (f) = at least one call into a deployed contract per iteration and the block route ran. " +
	"Known finding clone-count-checked-only-on-struct-entry: its witness (64-level chain of 1024-wide structs nested through slot 0, appended 24 times; 612 opcodes) is replayed through ExecuteBlock and PreExecuteContract with a 20000 gas limit and judged by the probe's count on the node's executor against the same bound; while it is listed and reproduces, an over-bound outcome of exactly the shape it explains (deep-copied struct node with more than 3 filler slots whose nested struct is not in the last slot) is counted as excluded - arrays, maps, narrow structs, nested-last structs and container-only trees over the bound stay violations. " +
	"Non-trivial (e) = the metered run executed at least one full round and built a container value (live items >= 3); distinct = different code. " +
	"Non-trivial (other kinds) = the case entered at least one syscall or native handler (measured by counters wrapped around every registered handler) or executed EVM code (gas used above the intrinsic gas); distinct = different case bytes."

func TestC12_NeoVM(t *testing.T) {
	r := newRunner(t)
	defer r.close()
	ev := r.ev
	ev.Rule(ruleText)
	ev.Assume("a native call made directly on NativeService.NativeCall (sandbox) is what the node executes when a NeoVM or WASM contract invokes the native contract with the same bytes; WASM callers can pass arbitrary bytes")
	methods := r.methods(1)
	r.useAllKnown("neo")
	noCycleEnc := r.known[keyCycle]
	ev.Floor("neo:reached-handler", "neo:cases", 0.30)
	ev.Floor("gen:index-hostile-only", "neo:cases", 0.08)
	ev.Floor("gen:index-hostile:wrap-pair", "neo:cases", 0.004)
	harn.Check(t, scaled(1200), 20000, neoProp(r, methods, noCycleEnc, r.known["equal-deep-struct-stack-overflow"]))
}

// neoProp is the property of kind (a).
func neoProp(r *runner, methods map[string][]string, noCycleEnc, noDeepEq bool) func(*rapid.T) {
	ev := r.ev
	return func(t *rapid.T) {
		code, tags, excl := genProgram(t, methods, noCycleEnc, noDeepEq)
		for i := 0; i < excl; i++ {
			ev.Excluded()
		}
		heavy := false
		for _, tg := range tags {
			heavy = heavy || strings.HasPrefix(tg, "deep") || tg == "loop"
		}
		gl := uint64(pick(t, []int{20000, 20000, 50000, 200000, 1000000}, "gaslimit"))
		if heavy {
			gl = uint64(pick(t, []int{200000, 1000000, 3000000}, "gaslimitHeavy"))
		}
		c := wcase{Kind: "neo", Code: code, GasLimit: gl, GasPrice: uint64(pick(t, []int{0, 0, 0, 1, 2500}, "gasprice")),
			Signers: pick(t, [][]int{{1}, {1, 2}, {0}, {3, 1, 2}, {}}, "signers")}
		v := r.exec(c)
		viol, kk := r.judge(v)
		desc := fmt.Sprintf("neo code=%x gl=%d gp=%d sg=%v", clip(code, 250), c.GasLimit, c.GasPrice, c.Signers)
		reached := reachedAll(&v.rep)
		ev.Case(len(reached) > 0, desc)
		ev.Class("neo:cases")
		if len(reached) > 0 {
			ev.Class("neo:reached-handler")
		}
		for _, s := range reached {
			ev.Class("reach:" + s)
		}
		for _, tg := range tags {
			ev.Class("gen:" + tg)
		}
		switch {
		case v.timedOut:
			ev.Class("timeout")
		case v.died:
			ev.Class("neo:died")
		default:
			ev.Class("neo:block:" + shortOutcome(&v.rep.Block))
			ev.Class("neo:pre:" + shortOutcome(&v.rep.Pre))
		}
		if kk != "" {
			ev.Excluded()
		}
		if viol != "" {
			t.Fatalf("C12 violated by NeoVM program %x (gas limit %d, gas price %d, signers %v, generator tags %v): %s", code, c.GasLimit, c.GasPrice, c.Signers, tags, viol)
		}
	}
}

// TestC12_Amplify: kind (e). The growth of the value is judged by counters (live items vs executed
// opcodes) that the worker reports from a metered run, so that "memory doubles per round" is a
// deterministic VIOLATION long before a machine-dependent out-of-memory kill or timeout.
func TestC12_Amplify(t *testing.T) {
	r := newRunner(t)
	defer r.close()
	ev := r.ev
	ev.Rule(ruleText)
	ev.Assume("the metered run (bare vm.Executor, one ExecuteOp per opcode, feature flags of the next block height) allocates what NeoVmService.Invoke allocates for the same code up to its first SYSCALL")
	// only the recogniser of the clone-counter finding can apply: the family builds no cycles, compares nothing
	// with EQUAL and calls no native contract. It is switched on iff the finding is listed AND its witness still
	// exceeds the bound on the node routes; then - and only then - an over-bound outcome of the shape that root
	// cause explains (ampSpec.wideNonLast) is counted as excluded instead of reported.
	r.useAllKnown("amp")
	wideKnown := r.known[keyCloneCount]
	ev.Floor("amp:nontrivial", "amp:cases", 0.85)
	ev.Floor("amp:cloning", "amp:cases", 0.25)
	// what non-triviality of the memory oracle relies on: deep-copying rounds, enough of them to
	// pass every guard many times over, on trees with and without primitive items, narrow and wide
	ev.Floor("amp:cloning:containers-only:rounds>=20", "amp:cases", 0.01)
	ev.Floor("amp:cloning:with-primitives:rounds>=20", "amp:cases", 0.08)
	ev.Floor("amp:cloning:wide-node:nested-not-last", "amp:cases", 0.02)
	ev.Floor("amp:cloning:wide-node:nested-last", "amp:cases", 0.02)
	ev.Floor("amp:guard-fired:clone-length", "amp:cases", 0.08)
	ev.Floor("amp:form:loop", "amp:cases", 0.2)
	ev.Floor("amp:probe:agrees-with-meter", "amp:probe:taken", 0.99)
	maxPeak := 0
	defer func() { ev.Extra("amp_max_live_items", maxPeak) }()
	harn.Check(t, scaled(400), 8000, func(t *rapid.T) {
		code, sp := genAmpProgram(t)
		c := wcase{Kind: "amp", Code: code, GasLimit: uint64(pick(t, []int{20000, 50000, 200000, 1000000}, "ampgl")),
			GasPrice: uint64(pick(t, []int{0, 0, 2500}, "ampgp")), Signers: []int{1}}
		v := r.exec(c)
		viol, kk := r.judge(v)
		desc := fmt.Sprintf("amp %+v gl=%d gp=%d code=%x", sp, c.GasLimit, c.GasPrice, clip(code, 120))
		m := v.rep.Amp
		if m == nil {
			m = &ampRes{End: "no-meter"}
		}
		nontrivial := m.Peak >= 3 && m.Ops >= 8
		if m.Peak > maxPeak {
			maxPeak = m.Peak
		}
		ev.Case(nontrivial, desc)
		ev.Class("amp:cases")
		if nontrivial {
			ev.Class("amp:nontrivial")
		}
		ev.Class("amp:node:" + sp.Node)
		ev.Class("amp:leaf:" + sp.Leaf)
		ev.Class("amp:method:" + sp.Method)
		ev.Class("amp:use:" + sp.Use)
		ev.Class(fmt.Sprintf("amp:fanout:%d", sp.Fanout))
		if sp.Loop {
			ev.Class("amp:form:loop")
		} else {
			ev.Class("amp:form:unrolled")
		}
		if sp.Keep {
			ev.Class("amp:keep-older-values")
		}
		leaves := "with-primitives"
		if sp.LeafW == 0 && sp.NodeW == 0 {
			leaves = "containers-only"
		}
		ev.Class("amp:" + leaves)
		ev.Class("amp:node-width:" + bucket(sp.NodeW, 0, 3, 16, 255, 1024))
		ev.Class("amp:leaf-width:" + bucket(sp.LeafW, 0, 3, 16, 255, 1024))
		ev.Class("amp:nested-pos:" + sp.Pos)
		if sp.Copies > 0 {
			ev.Class("amp:copies-phase")
		}
		if sp.Cloning {
			ev.Class("amp:cloning")
			ev.Class("amp:cloning:" + leaves)
			if sp.Rounds >= 20 {
				ev.Class("amp:cloning:" + leaves + ":rounds>=20")
			}
			if sp.NodeW > 3 {
				if sp.Pos == "last" {
					ev.Class("amp:cloning:wide-node:nested-last")
				} else {
					ev.Class("amp:cloning:wide-node:nested-not-last")
				}
			}
		}
		ev.Class("amp:rounds:" + bucket(sp.Rounds, 8, 16, 24, 32, 48))
		ev.Class("amp:peak-items:" + bucket(m.Peak, 16, 256, 1024, 4096, 16384, 65536))
		ev.Class("amp:meter-end:" + errClass(clipStr(m.End, 48)))
		switch {
		case strings.Contains(m.End, "over max struct clone length"):
			ev.Class("amp:guard-fired:clone-length")
		case strings.HasPrefix(m.End, "fault:"):
			ev.Class("amp:guard-fired:other")
		}
		switch {
		case v.timedOut:
			ev.Class("timeout")
		case v.died:
			ev.Class("amp:died")
		case m.Over:
			ev.Class("amp:over-bound")
		default:
			ev.Class("amp:block:" + shortOutcome(&v.rep.Block))
			ev.Class("amp:pre:" + shortOutcome(&v.rep.Pre))
			// the node's own executor, probed on entry to the program's first service call, must hold what the meter counted
			for _, first := range []int{m.BlockFirst, m.PreFirst} {
				if first >= 0 && m.End == "syscall" {
					ev.Class("amp:probe:taken")
					if first == m.Final {
						ev.Class("amp:probe:agrees-with-meter")
					} else if viol == "" {
						viol = fmt.Sprintf("HARNESS PROBLEM (not a finding): the metered run counts %d live items at the first service call, the executor inside the node %d", m.Final, first)
					}
				}
			}
		}
		if kk != "" {
			ev.Excluded()
		}
		if viol == "" && !v.timedOut && !v.died && v.rep.Amp == nil {
			viol = "HARNESS PROBLEM (not a finding): no meter reading in the worker's reply"
		}
		if viol == "" && m.Over && wideKnown && sp.wideNonLast() {
			// known finding: fillers behind a nested struct are copied without the counter being looked at
			ev.Class("amp:over-bound:excluded-known-wide-struct")
			ev.Excluded()
		} else if viol == "" && m.Over {
			viol = fmt.Sprintf("unbounded allocation: after %d executed opcodes (>= 1 gas each) the program holds more than %d live VM items (bound 65536 + 1024 x opcodes = %d; the clone-length / array-size / stack guards are there to keep a program far below it). "+
				"The value multiplies by %d in every round of a few opcodes and %d rounds were requested: memory and time grow exponentially for linear gas, so the node runs out of memory (or never finishes) inside one ExecuteBlock / PreExecuteContract call. The metered run was stopped here; the node routes were not entered.",
				m.PeakAt, m.Bound, m.Bound, sp.Fanout, sp.Rounds)
		}
		if viol != "" {
			t.Fatalf("C12 violated by NeoVM amplification program %x (shape %+v, gas limit %d): %s", code, sp, c.GasLimit, viol)
		}
	})
}

// TestC12_CrossContractLoops: kind (f). The "infinite loop" clause of the property for loops whose body is a
// call into another deployed contract: every nested engine must count against the ONE gas budget of the
// transaction and the ONE step budget (VM_STEP_LIMIT) of the pre-execution request.
func TestC12_CrossContractLoops(t *testing.T) {
	r := newRunner(t)
	defer r.close()
	ev := r.ev
	ev.Rule(ruleText)
	ev.Floor("xloop:forever:with-call", "xloop:cases", 0.25)
	ev.Floor("xloop:pre:real-route:step-limit", "xloop:cases", 0.08)
	ev.Floor("xloop:pre:finite-gas:step-limit", "xloop:cases", 0.05)
	ev.Floor("xloop:block:out-of-gas", "xloop:cases", 0.25)
	maxCalls := 0
	defer func() { ev.Extra("xloop_max_service_calls_in_one_pre_execution", maxCalls) }()
	harn.Check(t, scaled(40), 1200, func(t *rapid.T) {
		code, sp := genXloopProgram(t)
		if os.Getenv("VERIF_C12_XLOOP") == "observable" && !sp.Observe { // developer switch: only the shapes judged on the real PreExecuteContract
			t.Skip("developer filter")
		}
		c := wcase{Kind: "xloop", Code: code, Observe: sp.Observe, GasLimit: uint64(pick(t, []int{20000, 20000, 100000, 500000}, "xgl")),
			GasPrice: uint64(pick(t, []int{0, 2500}, "xgp")), Signers: []int{1}}
		v := r.exec(c)
		viol, _ := r.judge(v)
		lr := v.rep.Loop
		if lr == nil {
			lr = &loopRes{}
		}
		desc := fmt.Sprintf("xloop %+v gl=%d gp=%d code=%x", sp, c.GasLimit, c.GasPrice, clip(code, 160))
		ev.Case(sp.Calls > 0 && (v.rep.Block.Ran || v.died), desc)
		ev.Class("xloop:cases")
		ev.Class("xloop:form:" + sp.Form)
		for _, el := range sp.Body {
			ev.Class("xloop:body:" + el)
		}
		if sp.MustSpin && sp.Calls > 0 {
			ev.Class("xloop:forever:with-call")
		}
		if sp.Observe {
			ev.Class("xloop:observable-by-probe")
		}
		pre, route := &v.rep.Pre, "real-route"
		if !sp.Observe {
			pre, route = &v.rep.PreSB, "finite-gas"
		}
		stepLimit := strings.Contains(pre.Err, "exceeded the step limit")
		switch {
		case v.timedOut:
			ev.Class("timeout")
		case v.died:
			ev.Class("xloop:died")
		default:
			if lr.PreCalls > maxCalls {
				maxCalls = lr.PreCalls
			}
			if lr.SBCalls > maxCalls {
				maxCalls = lr.SBCalls
			}
			ev.Class("xloop:block:" + shortOutcome(&v.rep.Block))
			if v.rep.Block.Ran && v.rep.Block.State != 1 && sp.MustSpin {
				ev.Class("xloop:block:out-of-gas")
			}
			switch {
			case !pre.Ran:
				ev.Class("xloop:pre:" + route + ":not-run")
			case stepLimit:
				ev.Class("xloop:pre:" + route + ":step-limit")
			case pre.State == 1:
				ev.Class("xloop:pre:" + route + ":success")
			default:
				ev.Class("xloop:pre:" + route + ":" + errClass(clipStr(pre.Err, 60)))
			}
			ev.Class("xloop:pre-service-calls:" + bucket(lr.PreCalls+lr.SBCalls, 0, 100, 10000, 100000, 400000))
		}
		if viol == "" && !v.timedOut && !v.died && v.rep.Loop != nil && pre.Ran {
			switch {
			case strings.Contains(pre.Err, "insufficient gas"):
				viol = fmt.Sprintf("pre-execution with a finite gas budget of %d (SmartContract built as PreExecuteContract builds it, PreExec=true) ran out of GAS after %d gas; VM_STEP_LIMIT=400000 steps cost at most 4,000,000 gas with the opcodes of this program (APPCALL = 10), so the step limit did not stop the request: the real PreExecuteContract (gas ~ MaxUint64) never returns. Step counter at the end: %d",
					lr.SBBudget, lr.SBGas, lr.SBSteps)
			case sp.MustSpin && !stepLimit:
				viol = fmt.Sprintf("an endless loop (every callee exists and returns) must end its pre-execution with the step-limit error, got state %d err %q (%s)", pre.State, pre.Err, route)
			case sp.MustSpin && v.rep.Block.Ran && v.rep.Block.State == 1:
				viol = "an endless loop ended its transaction successfully"
			}
		}
		if viol != "" {
			t.Fatalf("C12 violated by cross-contract loop program %x (shape %+v, gas limit %d, gas price %d): %s", code, sp, c.GasLimit, c.GasPrice, viol)
		}
	})
}

// TestC12_TokenAmountSweep: for ONT and ONG, every method that takes an amount (transfer, transferV2, approve,
// approveV2, transferFrom, transferFromV2) x every value of boundaryAmounts, with funded accounts and the
// witnesses the method asks for, so that the argument checks are passed and the balance / allowance
// arithmetic and storage encoding are reached; plus two-step sequences approve(V2)(W + B) then
// transferFrom(V2)(B) that leave every W of the pool as the remaining allowance. Sandbox call, signed NeoVM
// transactions in one block and pre-execution. Deterministic enumeration (partitioned by shard).
func TestC12_TokenAmountSweep(t *testing.T) {
	r := newRunner(t)
	defer r.close()
	ev := r.ev
	ev.Rule(ruleText)
	z := zoo()
	from, spender, to := z[1].Address[:], z[2].Address[:], z[3].Address[:]
	type sweepCase struct {
		c    wcase
		what string
	}
	var cases []sweepCase
	mk := func(chex, method string, args []byte, hist []natCall, what string) {
		call := natCall{Contract: chex, Method: method, Args: args, Signers: allSigners}
		cases = append(cases, sweepCase{wcase{Kind: "native", History: hist, Call: &call, Height: 100}, what})
	}
	smalls := []*big.Int{big.NewInt(1), big.NewInt(999999999), big.NewInt(500000000)}
	for _, cname := range []string{"ont", "ong"} {
		chex := natAddrHex(cname)
		for _, v2 := range []string{"", "V2"} {
			for _, a := range boundaryAmounts {
				mk(chex, "transfer"+v2, (&enc{}).vu(1).vb(from).vb(to).vbig(a).b, nil, "transfer")
				mk(chex, "approve"+v2, (&enc{}).vb(from).vb(spender).vbig(a).b, nil, "approve")
				// spend from an allowance of exactly a (when that approval is accepted)
				ap := natCall{Contract: chex, Method: "approve" + v2, Args: (&enc{}).vb(from).vb(spender).vbig(a).b, Signers: allSigners}
				mk(chex, "transferFrom"+v2, (&enc{}).vb(spender).vb(from).vb(to).vbig(a).b, []natCall{ap}, "transferFrom-all")
				if a.Sign() <= 0 {
					continue
				}
				for _, b := range smalls { // approve W + B, spend B: the remaining allowance is the pool value W
					sum := new(big.Int).Add(a, b)
					ap2 := natCall{Contract: chex, Method: "approve" + v2, Args: (&enc{}).vb(from).vb(spender).vbig(sum).b, Signers: allSigners}
					mk(chex, "transferFrom"+v2, (&enc{}).vb(spender).vb(from).vb(to).vbig(b).b, []natCall{ap2}, "transferFrom-remainder")
				}
			}
		}
	}
	ev.Floor("amount-sweep:call-succeeded", "amount-sweep:cases", 0.05)
	ev.Floor("amount-sweep:history-ok", "amount-sweep:history-steps", 0.05)
	for i, sc := range cases {
		if i%harn.Shards() != harn.Shard() {
			continue
		}
		c := sc.c
		c.NoBlock = i%4 != 0 && sc.what != "transferFrom-remainder" && sc.what != "approve" // block + pre-exec route for the approvals, the two-step sequences and a quarter of the rest
		if sc.what == "transferFrom-remainder" && i%3 != 0 {
			c.NoBlock = true
		}
		v := r.exec(c)
		viol, kk := r.judge(v)
		target := "nat:" + contractName(c.Call.Contract) + "." + c.Call.Method
		hit := false
		for _, s := range v.rep.Sandbox.Reached {
			hit = hit || s == target
		}
		ev.Case(hit, fmt.Sprintf("amount-sweep %s hist=%d %s", sc.what, len(c.History), c.Call.String()))
		ev.Class("amount-sweep:cases")
		ev.Class("amount-sweep:" + contractName(c.Call.Contract) + "." + c.Call.Method)
		for _, ok := range v.rep.HistOK {
			ev.Class("amount-sweep:history-steps")
			if ok {
				ev.Class("amount-sweep:history-ok")
			}
		}
		switch {
		case v.timedOut:
			ev.Class("timeout")
		case v.died:
			ev.Class("amount-sweep:died")
		case v.rep.Sandbox.State == 1:
			ev.Class("amount-sweep:call-succeeded")
			ev.Class("amount-sweep:ok:" + sc.what)
		default:
			ev.Class("amount-sweep:rejected:" + sc.what)
		}
		if !c.NoBlock && !v.timedOut && !v.died {
			ev.Class("amount-sweep:block:" + shortOutcome(&v.rep.Block))
		}
		if kk != "" {
			ev.Excluded()
		}
		if viol != "" {
			var hb []string
			for _, h := range c.History {
				hb = append(hb, h.String())
			}
			harn.Violation(t, "C12", c, "native token call %s (amount from the boundary pool; after the history %v) crashes the node: %s", c.Call.String(), hb, viol)
		}
	}
}

// bucket names the first limit that n does not exceed.
func bucket(n int, limits ...int) string {
	for _, l := range limits {
		if n <= l {
			return fmt.Sprintf("<=%d", l)
		}
	}
	return fmt.Sprintf(">%d", limits[len(limits)-1])
}

// No native `go test -fuzz` target: the Go fuzz worker aborts ("deadlocked!", exit status 2) whenever
// one input takes longer than 10 s, which a legitimate case here can do (a worker death with its
// crash report and the restart of the child, or a heavy program on a loaded machine), and the test
// binaries are built without coverage instrumentation, so the engine would add no guidance. The
// thorough tier instead runs more rapid cases per shard.

func shortOutcome(p *pathRes) string {
	switch {
	case !p.Ran:
		return "not-run"
	case p.Panic != "":
		return "panic"
	case p.State == 1:
		return "success"
	default:
		return "error"
	}
}

func TestC12_Native(t *testing.T) {
	r := newRunner(t)
	defer r.close()
	ev := r.ev
	ev.Rule(ruleText)
	methods := r.methods(100)
	nm := 0
	for _, ms := range methods {
		nm += len(ms)
	}
	ev.Extra("native_methods_enumerated", nm)
	r.useAllKnown("native")
	ev.Floor("native:history-step-ok", "native:history-steps", 0.6)
	ev.Floor("native:hostile-reached-handler", "native:cases", 0.8)
	ev.Floor("native:hostile-past-decoding", "native:cases", 0.20)
	ev.Floor("native:argmode:prefix-hostile", "native:cases", 0.12)
	for _, cn := range natNamesSorted() {
		// every contract at least twice per 1300 cases (the rarest, lockproxy, averages ~8: 0.004 = 5.2 sat
		// inside its noise and starved at one seed); TestC12_NativeCountPrefix sweeps every method anyway
		ev.Floor("native:prefix-hostile:"+cn, "native:cases", 0.0015)
	}
	harn.Check(t, scaled(1300), 24000, func(t *rapid.T) {
		m := newModel()
		height := uint32(pick(t, []int{1, 100, 500000, 3000000, 3000000}, "height"))
		hist := genHistory(t, m, height)
		call, mode := genHostile(t, m, methods)
		c := wcase{Kind: "native", History: hist, Call: &call, Height: height}
		v := r.exec(c)
		viol, kk := r.judge(v)
		var hs []string
		for _, h := range hist {
			hs = append(hs, contractName(h.Contract)+"."+h.Method)
		}
		desc := fmt.Sprintf("native hist=%v call=%s h=%d", hs, call.String(), c.Height)
		reached := reachedAll(&v.rep)
		target := "nat:" + contractName(call.Contract) + "." + call.Method
		hitTarget := false
		for _, s := range v.rep.Sandbox.Reached {
			hitTarget = hitTarget || s == target
		}
		ev.Case(hitTarget, desc)
		ev.Class("native:cases")
		ev.Class("native:argmode:" + mode)
		if mode == "prefix-hostile" {
			ev.Class("native:prefix-hostile:" + contractName(call.Contract))
		}
		for i, ok := range v.rep.HistOK {
			ev.Class("native:history-steps")
			if ok {
				ev.Class("native:history-step-ok")
				ev.Class("hist-ok:" + hs[i])
			} else {
				ev.Class("hist-fail:" + hs[i])
			}
		}
		if hitTarget {
			ev.Class("native:hostile-reached-handler")
			ev.Class("reach:" + target)
			oc := "error"
			if v.rep.Sandbox.Panic != "" {
				oc = "panic"
			} else if v.rep.Sandbox.State == 1 {
				oc = "success"
			}
			ev.Class("native:hostile:" + oc)
			if oc == "success" || !looksLikeDecodeError(v.rep.Sandbox.Err) {
				ev.Class("native:hostile-past-decoding")
				ev.Class("deep:" + contractName(call.Contract))
			}
		}
		_ = reached
		switch {
		case v.timedOut:
			ev.Class("timeout")
		case v.died:
			ev.Class("native:died")
		default:
			ev.Class("native:block:" + shortOutcome(&v.rep.Block) + blockNote(&v.rep.Block))
		}
		if kk != "" {
			ev.Excluded()
		}
		if viol != "" {
			var hb []string
			for _, h := range hist {
				hb = append(hb, h.String())
			}
			t.Fatalf("C12 violated by native call %s (sandbox height %d) after the history %v: %s", call.String(), c.Height, hb, viol)
		}
	})
}

func blockNote(p *pathRes) string {
	if strings.HasPrefix(p.Err, "not-neovm-expressible") {
		return "(args not producible by NeoVM)"
	}
	return ""
}

var decodeErrRe = regexp.MustCompile(`(?i)argument \d|deserializ|decode|irregular|unexpected EOF|EOF|param|parse|invalid ID|not uint64|input|read .* error|doesn't support this function`)

func looksLikeDecodeError(s string) bool { return decodeErrRe.MatchString(s) }

func evmIntrinsic(data []byte, create bool) uint64 {
	g := uint64(21000)
	if create {
		g = 53000
	}
	for _, b := range data {
		if b == 0 {
			g += 4
		} else {
			g += 16
		}
	}
	return g
}

func TestC12_EVM(t *testing.T) {
	r := newRunner(t)
	defer r.close()
	ev := r.ev
	ev.Rule(ruleText)
	ev.Floor("evm:executed-code", "evm:cases", 0.5)
	harn.Check(t, scaled(400), 6000, func(t *rapid.T) {
		e, tags := genEvm(t)
		c := wcase{Kind: "evm", Evm: e}
		v := r.exec(c)
		viol, _ := r.judge(v)
		desc := fmt.Sprintf("evm init=%x call=%v target=%s data=%x gas=%d gp=%d val=%d", clip(e.Init, 200), e.Call, e.Target, clip(e.CallData, 60), e.Gas, e.GasPrice, e.Value)
		// non-trivial: some transaction of the case used more than its intrinsic gas, i.e. the EVM
		// interpreter (or a precompile) actually ran
		ran := false
		datas := [][]byte{e.Init}
		if e.Call {
			datas = append(datas, e.CallData)
		}
		for i, g := range v.rep.EvmGas {
			if i < len(datas) && g > evmIntrinsic(datas[i], i == 0) {
				ran = true
			}
		}
		ev.Case(ran, desc)
		ev.Class("evm:cases")
		if ran {
			ev.Class("evm:executed-code")
		}
		for _, tg := range strings.Split(tags, ",") {
			if tg != "" {
				ev.Class("evm:gen:" + tg)
			}
		}
		switch {
		case v.timedOut:
			ev.Class("timeout")
		case v.died:
			ev.Class("evm:died")
		default:
			ev.Class("evm:block:" + shortOutcome(&v.rep.Block))
			ev.Class("evm:pre:" + shortOutcome(&v.rep.Pre))
			ev.Class("evm:ethcall:" + shortOutcome(&v.rep.EthCall))
			ev.Class("evm:ethcall-err:" + errClass(v.rep.EthCall.Err))
		}
		if viol != "" {
			t.Fatalf("C12 violated by EVM case init=%x call=%v target=%q calldata=%x gas=%d gasPriceGwei=%d value=%d: %s", e.Init, e.Call, e.Target, e.CallData, e.Gas, e.GasPrice, e.Value, viol)
		}
	})
}

// TestC12_Validate: raw transaction bytes through decoding and the stateless validator, and - when
// accepted - through pre-execution and block execution.
func TestC12_Validate(t *testing.T) {
	r := newRunner(t)
	defer r.close()
	ev := r.ev
	ev.Rule(ruleText)
	r.useAllKnown("validate")
	ev.Floor("validate:decoded", "validate:cases", 0.4)
	ev.Floor("validate:accepted", "validate:cases", 0.03)
	harn.Check(t, scaled(500), 12000, func(t *rapid.T) {
		raw, tags := genRawTx(t)
		if raw == nil {
			ev.Class("validate:unbuildable")
			raw = []byte{}
		}
		c := wcase{Kind: "validate", Raw: raw}
		v := r.exec(c)
		viol, kk := r.judge(v)
		decoded := false
		for _, s := range v.rep.Valid.Reached {
			decoded = decoded || s == "validate:decoded"
			ev.Class(s)
		}
		ev.Case(decoded, fmt.Sprintf("rawtx %x", clip(raw, 280)))
		ev.Class("validate:cases")
		for _, tg := range tags {
			ev.Class("validate:gen:" + tg)
		}
		switch {
		case v.timedOut:
			ev.Class("timeout")
		case v.died:
			ev.Class("validate:died")
		default:
			ev.Class("validate:outcome:" + errClass(clipStr(v.rep.Valid.Err, 40)))
		}
		if kk != "" {
			ev.Excluded()
		}
		if viol != "" {
			t.Fatalf("C12 violated by raw transaction bytes %x (generator tags %v): %s", raw, tags, viol)
		}
	})
}

func clipStr(s string, n int) string {
	if len(s) > n {
		return s[:n]
	}
	return s
}

// TestC12_PoolIntake: transactions offered to the tx pool exactly as the p2p handler does
// (TxPoolService.AppendTransaction with the NetSender role): gas/price/nonce/balance checks, then
// preExecCheck, then the validators.
func TestC12_PoolIntake(t *testing.T) {
	r := newRunner(t)
	defer r.close()
	ev := r.ev
	ev.Rule(ruleText)
	methods := r.methods(1)
	r.useAllKnown("pool")
	noCycleEnc := true // cyclic encoders are the subject of TestC12_NeoVM; a worker death here costs a pool restart
	harn.Check(t, scaled(150), 2400, func(t *rapid.T) {
		var c wcase
		desc := ""
		if rng(t, 0, 2, "poolkind") == 0 {
			e, _ := genEvm(t)
			e.Gas = uint64(pick(t, []int{20000, 20999, 21000, 53000, 100000, 6000000, 6000001}, "poolgas"))
			e.GasPrice = uint64(pick(t, []int{0, 2500, 2500}, "poolgp"))
			if !e.Call {
				e.Target = ""
			} else if e.Target == "" {
				a := evmPrefixAddr(rng(t, 0, 2, "pooltarget"))
				e.Target = fmt.Sprintf("%x", a[:])
			}
			c = wcase{Kind: "pool", Evm: e}
			desc = fmt.Sprintf("pool evm init=%x target=%s data=%x gas=%d gp=%d val=%d", clip(e.Init, 120), e.Target, clip(e.CallData, 40), e.Gas, e.GasPrice, e.Value)
		} else {
			code, _, _ := genProgram(t, methods, noCycleEnc, true)
			c = wcase{Kind: "pool", Code: code, GasLimit: uint64(pick(t, []int{0, 19999, 20000, 100000, 1 << 62}, "poolgl")),
				GasPrice: uint64(pick(t, []int{0, 2500, 2500, 1 << 62}, "poolgp2")), Signers: pick(t, [][]int{{1}, {1, 2}, {0}}, "poolsg")}
			desc = fmt.Sprintf("pool neo code=%x gl=%d gp=%d sg=%v", clip(code, 200), c.GasLimit, c.GasPrice, c.Signers)
		}
		v := r.exec(c)
		viol, kk := r.judge(v)
		pre := false
		for _, s := range v.rep.Pool.Reached {
			pre = true
			ev.Class("reach:" + s)
		}
		ev.Case(pre || v.rep.Pool.State == 1, desc)
		ev.Class("pool:cases")
		switch {
		case v.timedOut:
			ev.Class("timeout")
		case v.died:
			ev.Class("pool:died")
		default:
			ev.Class("pool:verdict:" + errClass(clipStr(v.rep.Pool.Err, 60)))
		}
		if kk != "" {
			ev.Excluded()
		}
		if viol != "" {
			t.Fatalf("C12 violated by transaction offered to the pool (%s): %s", desc, viol)
		}
	})
}

// TestC12_NativeCountPrefix: for EVERY registered native method, argument bytes that are nothing
// but a count prefix - each hostile value once as a native var-uint (also sent through a signed
// NeoVM transaction: a single byte-string argument of Ontology.Native.Invoke is written by
// BuildParamToNative as exactly these bytes) and once as a raw var-uint - plus, for the methods
// with a known shape, the complete encoding with its FIRST count replaced and the rest cut or kept.
// A decoder that sizes an allocation or a loop by the count before checking the data panics
// (makeslice) or exhausts the worker's address space; both are violations.
func TestC12_NativeCountPrefix(t *testing.T) {
	r := newRunner(t)
	defer r.close()
	ev := r.ev
	ev.Rule(ruleText + " || count-prefix sweep: every registered native method x hostile count {2^31, 2^32-1, 2^33, 2^40, 2^62, 2^63-1, 2^63, 2^64-1} as bare native var-uint (sandbox + NeoVM transaction in a block + pre-execution), as bare raw var-uint, and in front of a valid-looking remainder; non-trivial = the method's handler was entered")
	methods := r.methods(3000000)
	var cs []string
	for c := range methods {
		cs = append(cs, c)
	}
	sort.Strings(cs)
	i := 0
	for _, chex := range cs {
		for _, m := range methods[chex] {
			for _, h := range hostileCounts {
				for variant := 0; variant < 3; variant++ {
					if variant > 0 && (h == 1<<32-1 || h == 1<<40 || h == 1<<62 || h == 1<<63) {
						continue // the raw and the with-remainder variants use half of the values
					}
					i++
					if i%harn.Shards() != harn.Shard() {
						continue
					}
					var args []byte
					switch variant {
					case 0:
						args = (&enc{}).vu(h).b
					case 1:
						args = (&enc{}).rawVarUint(h).b
					default: // count, then one plausible element (an address, a number, a string)
						args = (&enc{}).vu(h).vb(zoo()[1].Address[:]).vb(zoo()[2].Address[:]).vu(1).str("x").b
					}
					call := natCall{Contract: chex, Method: m, Args: args, Signers: allSigners}
					c := wcase{Kind: "native", Call: &call, Height: 3000000, NoBlock: variant != 0 || h%3 == 0}
					v := r.exec(c)
					viol, kk := r.judge(v)
					target := "nat:" + contractName(chex) + "." + m
					hit := false
					for _, s := range v.rep.Sandbox.Reached {
						hit = hit || s == target
					}
					ev.Case(hit, fmt.Sprintf("count-prefix %s.%s args=%x", contractName(chex), m, args))
					ev.Class("prefix-sweep:" + contractName(chex))
					switch {
					case v.timedOut:
						ev.Class("timeout")
					case v.died:
						ev.Class("prefix-sweep:died")
					}
					if kk != "" {
						ev.Excluded()
					}
					if viol != "" {
						harn.Violation(t, "C12", c, "native call %s with a bare count prefix crashes the node: %s", call.String(), viol)
					}
				}
			}
		}
	}
}
