package net

// C36 Peer connection limits hold under concurrent connection attempts.
//
// Harness-owned schedule: every connection is a synchronous net.Pipe pair with faked addresses.
// An inbound attempt runs ConnectController.AcceptConnect in one goroutine and the remote's
// handshake.HandshakeClient in another; the remote end's Read is gated, so after "start" the remote
// has written its version message (the pipe write completes only when the controller has read it,
// i.e. after beforeHandshakeCheck) and the controller is blocked writing its answer. "finish" opens
// the gate and waits for both goroutines. Outbound attempts go through an injected Dialer: "start"
// returns when the controller has called Dial (after its pre-check) and blocks writing its version;
// "finish" starts the remote's HandshakeServer. Each action therefore ends at a deterministic
// blocking point and the interleaving is a pure function of the generated schedule.
//
// Oracle after every action: InboundsCount() <= MaxConnInBound, OutboundsCount() <= MaxConnOutBound,
// and the harness's own count of established (successful, not yet closed) connections: inbound <=
// MaxConnInBound, inbound per remote IP <= MaxConnInBoundPerIP, outbound <= MaxConnOutBound.
//
// Held results: what AcceptConnect / Connect return for one connection (the *peer.PeerInfo the node
// builds its Peer from and keeps for the connection's lifetime, and the wrapped net.Conn whose Close
// frees exactly this connection's slot) is a function of that handshake alone. It is judged at return
// time (the remote's soft version, port and address; its kad id or the pseudo id of its nonce) and then
// held untouched next to a copy while the later steps of the schedule (other handshakes, also of the same
// peer id from the same IP, closes, aborts) run; after every step every held result must equal its copy.
// The counters themselves are plain uints (returned by value): there is nothing to hold in them.

import (
	"fmt"
	"net"
	"sort"
	"strings"
	"sync"
	"testing"
	"time"

	pcom "github.com/ontio/ontology/p2pserver/common"
	cc "github.com/ontio/ontology/p2pserver/connect_controller"
	"github.com/ontio/ontology/p2pserver/handshake"
	"github.com/ontio/ontology/p2pserver/peer"
	"pgregory.net/rapid"

	"verifharness/internal/harn"
)

const (
	keyInTOCTOU  = "inbound-limit-toctou"
	keyOutTOCTOU = "outbound-limit-toctou"
	stuckAfter   = 120 * time.Second // safety net only: a harness deadlock becomes a failure instead of a hang
)

type fakeAddr string

func (a fakeAddr) Network() string { return "tcp" }
func (a fakeAddr) String() string  { return string(a) }

// pipeConn is one end of a net.Pipe with chosen addresses; deadlines are ignored.
type pipeConn struct {
	net.Conn
	local, remote fakeAddr
}

func (c *pipeConn) LocalAddr() net.Addr              { return c.local }
func (c *pipeConn) RemoteAddr() net.Addr             { return c.remote }
func (c *pipeConn) SetDeadline(time.Time) error      { return nil }
func (c *pipeConn) SetReadDeadline(time.Time) error  { return nil }
func (c *pipeConn) SetWriteDeadline(time.Time) error { return nil }

// gatedConn additionally holds every Read until the gate is opened and signals its first
// completed Write.
type gatedConn struct {
	pipeConn
	gate  chan struct{}
	wrote chan struct{}
	once  sync.Once
}

func (g *gatedConn) Read(p []byte) (int, error) {
	<-g.gate
	return g.Conn.Read(p)
}

func (g *gatedConn) Write(p []byte) (int, error) {
	n, err := g.Conn.Write(p)
	g.once.Do(func() { close(g.wrote) })
	return n, err
}

type connRes struct {
	info *peer.PeerInfo
	conn net.Conn
	err  error
}

const (
	stNew = iota
	stInflight
	stEstablished
	stDone
)

type attempt struct {
	id       int
	inbound  bool
	ip, addr string
	key      int
	soft     string
	state    int
	hadSlot  bool // the model had a free slot when the attempt passed the pre-check
	a, b     net.Conn
	gated    *gatedConn
	remote   *pipeConn     // outbound: the remote end handed out by Dial
	dialed   chan struct{} // outbound: closed when the controller called Dial
	ctlDone  chan connRes  // AcceptConnect / Connect result
	peerDone chan error    // remote handshake result
	wrapped  net.Conn
	info     *peer.PeerInfo // exactly what AcceptConnect / Connect returned; never touched by the harness
	infoSnap peer.PeerInfo  // copy taken at return time
	heldOver int            // number of later successful AcceptConnect / Connect while the result was held
}

const selfAddr = fakeAddr("10.9.9.9:20338")

type schedDialer struct {
	mu  sync.Mutex
	cur *attempt
}

func (d *schedDialer) Dial(addr string) (net.Conn, error) {
	d.mu.Lock()
	o := d.cur
	d.mu.Unlock()
	if o == nil || o.addr != addr {
		return nil, fmt.Errorf("harness: unexpected dial %s", addr)
	}
	c1, c2 := net.Pipe()
	o.a, o.b = c1, c2
	o.remote = &pipeConn{Conn: c2, local: fakeAddr(addr), remote: selfAddr}
	close(o.dialed)
	return &pipeConn{Conn: c1, local: selfAddr, remote: fakeAddr(addr)}, nil
}

type world struct {
	fail               func(format string, args ...interface{})
	ctl                *cc.ConnectController
	maxIn, maxIP, maxO uint
	dialer             *schedDialer
	all                []*attempt
	trace              []string
	knownIn, knownOut  bool
	ev                 *harn.Collector
	maxInflightAtFin   int
	excluded           int
}

func peerInfoOf(key int, soft string) *peer.PeerInfo {
	return &peer.PeerInfo{Id: powKeyIds[key].Id, Port: 20338, SoftVersion: soft}
}

func newWorld(maxIn, maxIP, maxO uint, fail func(string, ...interface{})) *world {
	w := &world{fail: fail, maxIn: maxIn, maxIP: maxIP, maxO: maxO, dialer: &schedDialer{}}
	opt := cc.NewConnCtrlOption().MaxInBound(maxIn).MaxInBoundPerIp(maxIP).MaxOutBound(maxO).WithDialer(w.dialer)
	w.ctl = cc.NewConnectController(peerInfoOf(0, pcom.MIN_VERSION_FOR_DHT), powKeyIds[0], opt, pcom.NewGlobalLoggerWrapper())
	return w
}

func (w *world) recvRes(ch chan connRes, what string) connRes {
	select {
	case r := <-ch:
		return r
	case <-time.After(stuckAfter):
		panic("harness stuck waiting for " + what + " after " + strings.Join(w.trace, " "))
	}
}

func (w *world) recvErr(ch chan error, what string) error {
	select {
	case r := <-ch:
		return r
	case <-time.After(stuckAfter):
		panic("harness stuck waiting for " + what + " after " + strings.Join(w.trace, " "))
	}
}

// model counts
func (w *world) established() (in int, perIP map[string]int, out int) {
	perIP = map[string]int{}
	for _, a := range w.all {
		if a.state != stEstablished {
			continue
		}
		if a.inbound {
			in++
			perIP[a.ip]++
		} else {
			out++
		}
	}
	return
}

func (w *world) inflight(inbound bool) (n int) {
	for _, a := range w.all {
		if a.state == stInflight && a.inbound == inbound {
			n++
		}
	}
	return
}

// hold judges what AcceptConnect / Connect returned for attempt a at return time and keeps it next
// to a copy. The id is the remote's kad id when both sides speak the DHT handshake, else the pseudo id
// derived from the nonce of its version message.
func (w *world) hold(a *attempt, r connRes, what string) {
	tr := func() string { return strings.Join(w.trace, " ") }
	if r.info == nil || r.conn == nil {
		w.fail("%s succeeded for connection %d but returned info=%v conn=%v\n schedule: %s", what, a.id, r.info, r.conn, tr())
		return
	}
	id := powKeyIds[a.key].Id
	if i := *r.info; (i.Id != id && i.Id != pcom.PseudoPeerIdFromUint64(id.ToUint64())) || i.SoftVersion != a.soft || i.Port != 20338 || i.Addr != a.addr {
		w.fail("%s returned %+v for connection %d, the remote is peer k%d (id %s, soft version %q, port 20338) at %s\n schedule: %s",
			what, i, a.id, a.key, id.ToHexString(), a.soft, a.addr, tr())
	}
	if got := r.conn.RemoteAddr().String(); got != a.addr {
		w.fail("%s returned a connection to %s for connection %d to %s\n schedule: %s", what, got, a.id, a.addr, tr())
	}
	for _, b := range w.all {
		if b.info != nil {
			b.heldOver++
			if b.info == r.info || b.wrapped == r.conn {
				w.fail("%s returned for connection %d the very object it returned for connection %d\n schedule: %s", what, a.id, b.id, tr())
			}
		}
	}
	a.info, a.infoSnap = r.info, *r.info
	if w.ev != nil {
		w.ev.Class("held:results")
	}
}

// checkHeld: every result returned so far still equals the copy taken when it was returned.
func (w *world) checkHeld() {
	for _, a := range w.all {
		if a.info == nil {
			continue
		}
		if *a.info != a.infoSnap {
			w.fail("the peer info returned for connection %d changed while the schedule went on (%d later connections were established): was %+v, now %+v (a result must not alias state that later connections reuse)\n schedule: %s",
				a.id, a.heldOver, a.infoSnap, *a.info, strings.Join(w.trace, " "))
		}
		if got := a.wrapped.RemoteAddr().String(); got != a.addr {
			w.fail("the connection returned for connection %d to %s now reports %s\n schedule: %s", a.id, a.addr, got, strings.Join(w.trace, " "))
		}
	}
}

// check is the oracle, evaluated after every action.
func (w *world) check() {
	w.checkHeld()
	in, perIP, out := w.established()
	ci, co := w.ctl.InboundsCount(), w.ctl.OutboundsCount()
	tr := strings.Join(w.trace, " ")
	if ci > w.maxIn || uint(in) > w.maxIn {
		w.fail("inbound limit %d exceeded: InboundsCount()=%d, established inbound connections=%d\n schedule: %s", w.maxIn, ci, in, tr)
	}
	if co > w.maxO || uint(out) > w.maxO {
		w.fail("outbound limit %d exceeded: OutboundsCount()=%d, established outbound connections=%d\n schedule: %s", w.maxO, co, out, tr)
	}
	ips := make([]string, 0, len(perIP))
	for ip := range perIP {
		ips = append(ips, ip)
	}
	sort.Strings(ips)
	for _, ip := range ips {
		if uint(perIP[ip]) > w.maxIP {
			w.fail("per-IP inbound limit %d exceeded: %d established inbound connections from %s\n schedule: %s", w.maxIP, perIP[ip], ip, tr)
		}
	}
}

func (w *world) startAccept(a *attempt) {
	w.trace = append(w.trace, fmt.Sprintf("startAccept(%d@%s,k%d)", a.id, a.addr, a.key))
	in, perIP, _ := w.established()
	a.hadSlot = uint(in) < w.maxIn && uint(perIP[a.ip]) < w.maxIP
	c1, c2 := net.Pipe()
	a.a, a.b = c1, c2
	srv := &pipeConn{Conn: c1, local: selfAddr, remote: fakeAddr(a.addr)}
	a.gated = &gatedConn{pipeConn: pipeConn{Conn: c2, local: fakeAddr(a.addr), remote: selfAddr}, gate: make(chan struct{}), wrote: make(chan struct{})}
	a.ctlDone, a.peerDone = make(chan connRes, 1), make(chan error, 1)
	go func() {
		info, conn, err := w.ctl.AcceptConnect(srv)
		a.ctlDone <- connRes{info, conn, err}
	}()
	go func() {
		_, err := handshake.HandshakeClient(peerInfoOf(a.key, a.soft), powKeyIds[a.key], a.gated)
		a.peerDone <- err
	}()
	select {
	case <-a.gated.wrote: // the controller read the version message: it passed the pre-check and now blocks writing
		a.state = stInflight
		if w.ev != nil {
			w.ev.Class("accept:handshaking")
		}
	case r := <-a.ctlDone: // refused before the handshake
		if r.err == nil {
			w.fail("AcceptConnect returned success although the remote never read an answer\n schedule: %s", strings.Join(w.trace, " "))
		}
		_ = c1.Close()
		_ = c2.Close()
		close(a.gated.gate)
		_ = w.recvErr(a.peerDone, "remote of refused accept")
		a.state = stDone
		if w.ev != nil {
			w.ev.Class("accept:refused-before-handshake")
		}
	case <-time.After(stuckAfter):
		panic("harness stuck in startAccept after " + strings.Join(w.trace, " "))
	}
}

// finishAccept lets the paused handshake run to completion.
func (w *world) finishAccept(a *attempt) {
	in, perIP, _ := w.established()
	if n := w.inflight(true); n > w.maxInflightAtFin {
		w.maxInflightAtFin = n
	}
	if w.knownIn && a.hadSlot && (uint(in) >= w.maxIn || uint(perIP[a.ip]) >= w.maxIP) {
		// recorded finding: the slot that was free at the pre-check was taken by a handshake that
		// completed in between; the controller records this one as well. Excluded: abort instead.
		w.excluded++
		w.ev.Excluded()
		w.abort(a, "excluded-finish")
		return
	}
	w.trace = append(w.trace, fmt.Sprintf("finishAccept(%d)", a.id))
	close(a.gated.gate)
	r := w.recvRes(a.ctlDone, "AcceptConnect")
	perr := w.recvErr(a.peerDone, "HandshakeClient")
	if r.err == nil {
		a.state, a.wrapped = stEstablished, r.conn
		w.hold(a, r, "AcceptConnect")
		if perr != nil {
			w.fail("accepted connection %d but the remote's handshake failed: %v", a.id, perr)
		}
		if w.ev != nil {
			w.ev.Class("accept:established")
		}
	} else {
		_ = a.a.Close()
		_ = a.b.Close()
		a.state = stDone
		if w.ev != nil {
			w.ev.Class("accept:refused-after-handshake")
		}
	}
}

// abort closes the remote end of a paused handshake (inbound or outbound).
func (w *world) abort(a *attempt, why string) {
	w.trace = append(w.trace, fmt.Sprintf("%s(%d)", why, a.id))
	_ = a.b.Close() // the remote end: the controller's blocked write fails
	if a.inbound {
		close(a.gated.gate)
		r := w.recvRes(a.ctlDone, "AcceptConnect(aborted)")
		_ = w.recvErr(a.peerDone, "HandshakeClient(aborted)")
		if r.err == nil {
			w.fail("AcceptConnect succeeded on a connection closed by the remote before it answered\n schedule: %s", strings.Join(w.trace, " "))
		}
	} else {
		r := w.recvRes(a.ctlDone, "Connect(aborted)")
		if r.err == nil {
			w.fail("Connect succeeded on a connection closed by the remote before it answered\n schedule: %s", strings.Join(w.trace, " "))
		}
	}
	_ = a.a.Close()
	a.state = stDone
	if w.ev != nil {
		w.ev.Class("abort")
	}
}

func (w *world) closeConn(a *attempt) {
	w.trace = append(w.trace, fmt.Sprintf("close(%d)", a.id))
	_ = a.wrapped.Close() // connect_controller.Conn.Close: frees the slot
	_ = a.a.Close()
	_ = a.b.Close()
	a.state = stDone
	if w.ev != nil {
		w.ev.Class("close")
	}
}

func (w *world) startDial(a *attempt) {
	w.trace = append(w.trace, fmt.Sprintf("startDial(%d@%s,k%d)", a.id, a.addr, a.key))
	_, _, out := w.established()
	a.hadSlot = uint(out) < w.maxO
	a.dialed = make(chan struct{})
	a.ctlDone, a.peerDone = make(chan connRes, 1), make(chan error, 1)
	w.dialer.mu.Lock()
	w.dialer.cur = a
	w.dialer.mu.Unlock()
	go func() {
		info, conn, err := w.ctl.Connect(a.addr)
		a.ctlDone <- connRes{info, conn, err}
	}()
	select {
	case <-a.dialed: // passed the pre-check, dialled, now blocks writing its version message
		a.state = stInflight
		if w.ev != nil {
			w.ev.Class("dial:handshaking")
		}
	case r := <-a.ctlDone:
		if r.err == nil {
			w.fail("Connect returned success without dialling\n schedule: %s", strings.Join(w.trace, " "))
		}
		a.state = stDone
		if w.ev != nil {
			w.ev.Class("dial:refused-before-handshake")
		}
	case <-time.After(stuckAfter):
		panic("harness stuck in startDial after " + strings.Join(w.trace, " "))
	}
	w.dialer.mu.Lock()
	w.dialer.cur = nil
	w.dialer.mu.Unlock()
}

func (w *world) finishDial(a *attempt) {
	_, _, out := w.established()
	if n := w.inflight(false); n > w.maxInflightAtFin {
		w.maxInflightAtFin = n
	}
	if w.knownOut && a.hadSlot && uint(out) >= w.maxO {
		w.excluded++
		w.ev.Excluded()
		w.abort(a, "excluded-finish")
		return
	}
	w.trace = append(w.trace, fmt.Sprintf("finishDial(%d)", a.id))
	go func() {
		_, err := handshake.HandshakeServer(peerInfoOf(a.key, a.soft), powKeyIds[a.key], a.remote)
		a.peerDone <- err
	}()
	r := w.recvRes(a.ctlDone, "Connect")
	perr := w.recvErr(a.peerDone, "HandshakeServer")
	if r.err == nil {
		a.state, a.wrapped = stEstablished, r.conn
		w.hold(a, r, "Connect")
		if perr != nil {
			w.fail("outbound connection %d established but the remote's handshake failed: %v", a.id, perr)
		}
		if w.ev != nil {
			w.ev.Class("dial:established")
		}
	} else {
		_ = a.a.Close()
		_ = a.b.Close()
		a.state = stDone
		if w.ev != nil {
			w.ev.Class("dial:refused-after-handshake")
		}
	}
}

// shutdown ends every goroutine of the case.
func (w *world) shutdown() {
	for _, a := range w.all {
		switch a.state {
		case stInflight:
			w.abort(a, "cleanup-abort")
		case stEstablished:
			w.closeConn(a)
		}
	}
}

// ---------------------------------------------------------------------------------------------
// deterministic witnesses of the recorded findings

var (
	c36Once                   sync.Once
	c36KnownIn, c36KnownOut   bool
	c36InStill, c36OutStill   bool
	c36InDetail, c36OutDetail string
	c36IPStill                bool
	c36IPDetail               string
)

func c36Setup() {
	setup()
	handshake.HANDSHAKE_DURATION = time.Hour // deadlines are ignored by the pipes anyway
}

func newAttempt(id int, inbound bool, ip string, key int) *attempt {
	a := &attempt{id: id, inbound: inbound, ip: ip, key: key, soft: pcom.MIN_VERSION_FOR_DHT}
	if inbound {
		a.addr = fmt.Sprintf("%s:%d", ip, 40000+id)
	} else {
		a.addr = ip + ":20338"
	}
	return a
}

func c36Replay() {
	c36Once.Do(func() {
		c36Setup()
		none := func(string, ...interface{}) {}
		// limit 2, five accepts from five addresses paused inside the handshake, then completed
		w := newWorld(2, 10, 10, none)
		for i := 0; i < 5; i++ {
			a := newAttempt(i, true, fmt.Sprintf("10.0.0.%d", i+1), i+1)
			w.all = append(w.all, a)
			w.startAccept(a)
		}
		for _, a := range w.all {
			if a.state == stInflight {
				w.finishAccept(a)
			}
		}
		in, _, _ := w.established()
		c36InStill = w.ctl.InboundsCount() > 2 || in > 2
		c36InDetail = fmt.Sprintf("MaxConnInBound=2: InboundsCount()=%d, %d successful AcceptConnect; schedule %s", w.ctl.InboundsCount(), in, strings.Join(w.trace, " "))
		w.shutdown()
		// per-IP limit 1, three accepts from one IP
		w = newWorld(10, 1, 10, none)
		for i := 0; i < 3; i++ {
			a := newAttempt(i, true, "10.0.0.1", i+1)
			w.all = append(w.all, a)
			w.startAccept(a)
		}
		for _, a := range w.all {
			if a.state == stInflight {
				w.finishAccept(a)
			}
		}
		_, perIP, _ := w.established()
		c36IPStill = perIP["10.0.0.1"] > 1
		c36IPDetail = fmt.Sprintf("MaxConnInBoundPerIP=1: %d established inbound connections from 10.0.0.1; schedule %s", perIP["10.0.0.1"], strings.Join(w.trace, " "))
		w.shutdown()
		// outbound limit 1, three dials
		w = newWorld(10, 10, 1, none)
		for i := 0; i < 3; i++ {
			a := newAttempt(i, false, fmt.Sprintf("10.0.1.%d", i+1), i+1)
			w.all = append(w.all, a)
			w.startDial(a)
		}
		for _, a := range w.all {
			if a.state == stInflight {
				w.finishDial(a)
			}
		}
		_, _, out := w.established()
		c36OutStill = w.ctl.OutboundsCount() > 1 || out > 1
		c36OutDetail = fmt.Sprintf("MaxConnOutBound=1: OutboundsCount()=%d, %d successful Connect; schedule %s", w.ctl.OutboundsCount(), out, strings.Join(w.trace, " "))
		w.shutdown()
		c36KnownIn = harn.Known("C36", keyInTOCTOU, c36InStill || c36IPStill)
		c36KnownOut = harn.Known("C36", keyOutTOCTOU, c36OutStill)
	})
}

const c36Rule = "limits in 1-3 / per-IP 1-2 / out 1-3; up to 8 inbound pipe pairs from 3 remote IPs and up to 5 outbound dials, 6-40 schedule steps drawn state-aware from {startAccept, finishAccept, abortAccept, close, startDial, finishDial, abortDial}; every step runs to a deterministic blocking point; non-trivial = at least two handshakes of one direction are in flight when one of them completes; distinct = different limits or schedule || held results: the *peer.PeerInfo and net.Conn returned by every successful AcceptConnect / Connect are judged at return time against the remote's identity (kad id or nonce pseudo id, soft version, port, address), then held untouched next to a copy for the rest of the schedule (measured: a result held over >= 2 later completed handshakes; the same peer id established twice from one IP) and compared with the copy after every step; two successes never return the same object"

func c36ev() *harn.Collector {
	return harn.For("C36").Rule(c36Rule).
		Assume("net.Pipe is synchronous (a Write returns only when the peer has read it): this is what makes the pause points exact").
		Assume("remote addresses of simultaneous inbound connections are distinct ip:port pairs (as for real TCP); kad-id proof of work set to 1 bit; handshake deadlines disabled")
}

// The witness tests replay the deterministic schedules of the findings; while a finding still
// reproduces and is not listed in known_findings.json they report the violation.
func c36Witness(t *testing.T, name string, still, known bool, detail string) {
	ev := c36ev()
	if !still {
		ev.Class("witness:" + name + ":fixed")
		return
	}
	ev.Class("witness:" + name + ":reproduces")
	if !known {
		harn.Violation(t, "C36", map[string]string{"witness": detail}, "%s", detail)
	}
}

func TestC36_WitnessInbound(t *testing.T) {
	c36Replay()
	c36Witness(t, "inbound-toctou", c36InStill, c36KnownIn, c36InDetail)
}

func TestC36_WitnessPerIP(t *testing.T) {
	c36Replay()
	c36Witness(t, "per-ip-toctou", c36IPStill, c36KnownIn, c36IPDetail)
}

func TestC36_WitnessOutbound(t *testing.T) {
	c36Replay()
	c36Witness(t, "outbound-toctou", c36OutStill, c36KnownOut, c36OutDetail)
}

var c36Softs = []string{pcom.MIN_VERSION_FOR_DHT, "v1.8.0", "v2.0.0", ""}

func runSchedule(t *rapid.T, ev *harn.Collector, onlyIn, onlyOut bool) {
	maxIn := uint(rapid.IntRange(1, 3).Draw(t, "maxIn"))
	maxIP := uint(rapid.IntRange(1, 2).Draw(t, "maxPerIP"))
	maxO := uint(rapid.IntRange(1, 3).Draw(t, "maxOut"))
	w := newWorld(maxIn, maxIP, maxO, t.Fatalf)
	w.ev, w.knownIn, w.knownOut = ev, c36KnownIn, c36KnownOut
	defer w.shutdown()
	nIn, nOut := 0, 0
	maxConnsIn, maxConnsOut := 8, 5
	if onlyIn {
		maxConnsOut = 0
	}
	if onlyOut {
		maxConnsIn = 0
	}
	steps := rapid.IntRange(6, 40).Draw(t, "steps")
	pick := func(label string, inbound bool, state int) *attempt {
		var c []*attempt
		for _, a := range w.all {
			if a.inbound == inbound && a.state == state {
				c = append(c, a)
			}
		}
		if len(c) == 0 {
			return nil
		}
		return c[rapid.IntRange(0, len(c)-1).Draw(t, label)]
	}
	pickAny := func(label string, state int) *attempt {
		var c []*attempt
		for _, a := range w.all {
			if a.state == state {
				c = append(c, a)
			}
		}
		if len(c) == 0 {
			return nil
		}
		return c[rapid.IntRange(0, len(c)-1).Draw(t, label)]
	}
	for s := 0; s < steps; s++ {
		// weights: starting is favoured so that several handshakes are in flight together
		act := rapid.SampledFrom([]string{"startAccept", "startAccept", "startAccept", "finishAccept", "finishAccept", "startDial", "startDial",
			"finishDial", "finishDial", "close", "abort"}).Draw(t, "action")
		switch act {
		case "startAccept":
			if nIn >= maxConnsIn {
				continue
			}
			ip := fmt.Sprintf("10.0.0.%d", rapid.IntRange(1, 3).Draw(t, "ip"))
			key := 1 + len(w.all)
			if rapid.IntRange(0, 6).Draw(t, "reusekey") == 0 && len(w.all) > 0 {
				key = w.all[rapid.IntRange(0, len(w.all)-1).Draw(t, "keyof")].key // same peer id on another connection
			}
			a := newAttempt(len(w.all), true, ip, key)
			a.soft = rapid.SampledFrom(c36Softs).Draw(t, "soft")
			w.all = append(w.all, a)
			nIn++
			w.startAccept(a)
		case "finishAccept":
			if a := pick("which", true, stInflight); a != nil {
				w.finishAccept(a)
			}
		case "startDial":
			if nOut >= maxConnsOut {
				continue
			}
			ip := fmt.Sprintf("10.0.0.%d", rapid.IntRange(1, 5).Draw(t, "ip")) // overlaps the inbound IPs; duplicates possible
			a := newAttempt(len(w.all), false, ip, 1+len(w.all))
			a.soft = rapid.SampledFrom(c36Softs).Draw(t, "soft")
			w.all = append(w.all, a)
			nOut++
			w.startDial(a)
		case "finishDial":
			if a := pick("which", false, stInflight); a != nil {
				w.finishDial(a)
			}
		case "close":
			if a := pickAny("which", stEstablished); a != nil {
				w.closeConn(a)
			}
		case "abort":
			if a := pickAny("which", stInflight); a != nil {
				w.abort(a, "abort")
			}
		}
		w.check()
	}
	// complete what is still in flight (in id order), checking after each completion
	for _, a := range w.all {
		if a.state == stInflight {
			if a.inbound {
				w.finishAccept(a)
			} else {
				w.finishDial(a)
			}
			w.check()
		}
	}
	nt := w.maxInflightAtFin >= 2
	if nt {
		ev.Class("schedule:concurrent-handshakes")
	}
	w.checkHeld()
	heldMax, samePeer := 0, false
	seen := map[int]bool{}
	for _, a := range w.all {
		if a.info != nil {
			if a.heldOver > heldMax {
				heldMax = a.heldOver
			}
			if seen[a.key] {
				samePeer = true
			}
			seen[a.key] = true
		}
	}
	if heldMax >= 2 {
		ev.Class("held:over>=2")
	}
	if samePeer {
		ev.Class("held:same-peer-twice")
	}
	ev.Class("schedule")
	ev.Case(nt, fmt.Sprintf("in=%d ip=%d out=%d | %s", maxIn, maxIP, maxO, strings.Join(w.trace, " ")))
}

func TestC36_Schedules(t *testing.T) {
	c36Replay()
	ev := c36ev()
	ev.Floor("schedule:concurrent-handshakes", "schedule", 0.3)
	ev.Floor("accept:established", "accept:handshaking", 0.1)
	ev.Floor("dial:established", "dial:handshaking", 0.1)
	ev.Floor("held:over>=2", "schedule", 0.3)
	ev.Floor("held:same-peer-twice", "schedule", 0.04)
	harn.Check(t, 2500, 60000, func(t *rapid.T) { runSchedule(t, ev, false, false) })
}

func TestC36_InboundOnly(t *testing.T) {
	c36Replay()
	ev := c36ev()
	harn.Check(t, 1500, 40000, func(t *rapid.T) { runSchedule(t, ev, true, false) })
}

func TestC36_OutboundOnly(t *testing.T) {
	c36Replay()
	ev := c36ev()
	harn.Check(t, 1500, 40000, func(t *rapid.T) { runSchedule(t, ev, false, true) })
}
