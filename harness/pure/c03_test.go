package pure

// C03 Block change hash depends only on the final key/value content.
// Oracles: (1) metamorphic — two differently ordered, differently redundant histories that reach the same final
// content of touched keys give the same ChangeHash and the same write-set listing; (2) reference model — a Go map
// (deleted = empty value) whose sorted listing must equal GetWriteSet().ForEach and whose sha256 must equal ChangeHash.

import (
	"bytes"
	"crypto/sha256"
	"fmt"
	"sort"
	"strings"
	"testing"

	"github.com/ontio/ontology/core/store/overlaydb"
	"pgregory.net/rapid"

	"verifharness/internal/harn"
)

type c03Op struct {
	key []byte
	val []byte // empty = delete / put-empty
	del bool   // use Delete() instead of Put(key, empty)
}

func (o c03Op) String() string {
	if o.del {
		return fmt.Sprintf("D(%x)", o.key)
	}
	return fmt.Sprintf("P(%x,%s)", o.key, harn.Hex(o.val))
}

type c03KV struct{ k, v []byte }

// c03Keys draws a pool of distinct keys over a tiny alphabet with shared prefixes, lengths 0..40.
func c03Keys(t *rapid.T, maxKeys int) [][]byte {
	alpha := []byte{0x00, 0x01, 'a', 'b', 0x7f, 0x80, 0xff}
	prefixes := [][]byte{{}, {0x00}, {'a'}, {'a', 'b'}, {0xff, 0xff}, bytes.Repeat([]byte{'a'}, 20), bytes.Repeat([]byte{0x00}, 33)}
	n := rapid.IntRange(1, maxKeys).Draw(t, "nkeys")
	seen := map[string]bool{}
	var keys [][]byte
	for i := 0; i < n; i++ {
		p := rapid.SampledFrom(prefixes).Draw(t, "prefix")
		sfx := rapid.SliceOfN(rapid.SampledFrom(alpha), 0, 40-len(p)).Draw(t, "suffix")
		if rapid.IntRange(0, 3).Draw(t, "short") != 0 && len(sfx) > 3 {
			sfx = sfx[:3]
		}
		k := append(append([]byte{}, p...), sfx...)
		if !seen[string(k)] {
			seen[string(k)] = true
			keys = append(keys, k)
		}
	}
	return keys
}

func c03Val(t *rapid.T, cur []byte, big bool) []byte {
	switch rapid.IntRange(0, 9).Draw(t, "valkind") {
	case 0:
		return nil // put-empty: recorded like a deletion
	case 1, 2:
		if len(cur) > 0 {
			return append([]byte{}, cur...) // overwrite with the same value
		}
	case 3:
		if big {
			return rapid.SliceOfN(rapid.Byte(), 200, 3000).Draw(t, "bigval")
		}
	}
	return rapid.SliceOfN(rapid.Byte(), 1, 64).Draw(t, "val")
}

func c03Apply(db *overlaydb.OverlayDB, ops []c03Op) {
	for _, o := range ops {
		if o.del {
			db.Delete(o.key)
		} else {
			db.Put(o.key, o.val)
		}
	}
}

func c03List(db *overlaydb.OverlayDB) []c03KV {
	var out []c03KV
	db.GetWriteSet().ForEach(func(k, v []byte) {
		out = append(out, c03KV{append([]byte{}, k...), append([]byte{}, v...)})
	})
	return out
}

func c03ModelList(model map[string][]byte) []c03KV {
	keys := make([]string, 0, len(model))
	for k := range model {
		keys = append(keys, k)
	}
	sort.Strings(keys) // byte-wise, same order as bytes.Compare
	out := make([]c03KV, 0, len(keys))
	for _, k := range keys {
		out = append(out, c03KV{[]byte(k), model[k]})
	}
	return out
}

func c03RefHash(l []c03KV) (h [32]byte) {
	s := sha256.New()
	for _, kv := range l {
		s.Write(kv.k)
		s.Write(kv.v)
	}
	s.Sum(h[:0])
	return
}

func c03FmtList(l []c03KV) string {
	var sb strings.Builder
	for _, kv := range l {
		fmt.Fprintf(&sb, "%x=%s ", kv.k, harn.Hex(kv.v))
	}
	return sb.String()
}

// c03CheckAgainstModel compares one overlay with the model; name identifies the history in messages.
func c03CheckAgainstModel(t *rapid.T, name string, db *overlaydb.OverlayDB, model map[string][]byte, ops []c03Op) {
	got := c03List(db)
	want := c03ModelList(model)
	for i := 1; i < len(got); i++ {
		if bytes.Compare(got[i-1].k, got[i].k) >= 0 {
			t.Fatalf("%s: write set not strictly ascending / duplicate key at position %d: %x then %x; ops=%v", name, i, got[i-1].k, got[i].k, ops)
		}
	}
	if len(got) != len(want) {
		t.Fatalf("%s: write set lists %d keys, model has %d touched keys; got {%s} want {%s}; ops=%v", name, len(got), len(want), c03FmtList(got), c03FmtList(want), ops)
	}
	for i := range got {
		if !bytes.Equal(got[i].k, want[i].k) || !bytes.Equal(got[i].v, want[i].v) {
			t.Fatalf("%s: write set entry %d is %x=%x, model says %x=%x; ops=%v", name, i, got[i].k, got[i].v, want[i].k, want[i].v, ops)
		}
	}
	h := db.ChangeHash()
	if ref := c03RefHash(want); !bytes.Equal(h[:], ref[:]) {
		t.Fatalf("%s: ChangeHash %x differs from sha256 over the sorted final content %x; content {%s}; ops=%v", name, h[:], ref[:], c03FmtList(want), ops)
	}
	if h2 := db.ChangeHash(); h2 != h {
		t.Fatalf("%s: ChangeHash is not repeatable: %x then %x", name, h[:], h2[:])
	}
}

// c03History draws a history over the key pool and returns it with the model of its final content and
// whether some key was overwritten with a different value or deleted and recreated.
func c03History(t *rapid.T, keys [][]byte, nops int, big bool) (ops []c03Op, model map[string][]byte, rewrites bool, classes map[string]int) {
	model = map[string][]byte{}
	classes = map[string]int{}
	deleted := map[string]bool{}
	for i := 0; i < nops; i++ {
		k := rapid.SampledFrom(keys).Draw(t, "key")
		cur, touched := model[string(k)]
		if rapid.IntRange(0, 4).Draw(t, "isdel") == 0 {
			ops = append(ops, c03Op{key: k, del: true})
			model[string(k)] = []byte{}
			if touched && len(cur) > 0 {
				deleted[string(k)] = true
				classes["op:delete-live"]++
			} else if touched {
				classes["op:delete-deleted"]++
			} else {
				classes["op:delete-untouched"]++
			}
			continue
		}
		v := c03Val(t, cur, big)
		ops = append(ops, c03Op{key: k, val: v})
		switch {
		case len(v) == 0:
			classes["op:put-empty"]++
			if len(cur) > 0 {
				deleted[string(k)] = true
			}
		case !touched:
			classes["op:put-new"]++
		case len(cur) == 0:
			classes["op:recreate"]++
			if deleted[string(k)] {
				rewrites = true
			}
		case bytes.Equal(cur, v):
			classes["op:overwrite-same"]++
		default:
			classes["op:overwrite"]++
			rewrites = true
		}
		model[string(k)] = append([]byte{}, v...)
	}
	return
}

// c03Rewrite builds a second history with the same final content of the same touched keys: per key a generated
// mini-history (junk puts, deletes, recreations) that ends in the final value, interleaved by a generated shuffle.
func c03Rewrite(t *rapid.T, model map[string][]byte) []c03Op {
	final := c03ModelList(model)
	per := make([][]c03Op, len(final))
	var labels []int
	for i, kv := range final {
		n := rapid.IntRange(0, 3).Draw(t, "redundant")
		for j := 0; j < n; j++ {
			switch rapid.IntRange(0, 3).Draw(t, "junkkind") {
			case 0:
				per[i] = append(per[i], c03Op{key: kv.k, del: true})
			case 1:
				per[i] = append(per[i], c03Op{key: kv.k, val: nil})
			case 2:
				per[i] = append(per[i], c03Op{key: kv.k, val: append([]byte{}, kv.v...)})
			default:
				per[i] = append(per[i], c03Op{key: kv.k, val: rapid.SliceOfN(rapid.Byte(), 1, 80).Draw(t, "junk")})
			}
		}
		if len(kv.v) == 0 {
			per[i] = append(per[i], c03Op{key: kv.k, del: rapid.Bool().Draw(t, "finaldel")})
		} else {
			per[i] = append(per[i], c03Op{key: kv.k, val: append([]byte{}, kv.v...)})
		}
		for range per[i] {
			labels = append(labels, i)
		}
	}
	if len(labels) > 1 {
		labels = rapid.Permutation(labels).Draw(t, "interleave")
	}
	next := make([]int, len(final))
	out := make([]c03Op, 0, len(labels))
	for _, l := range labels {
		out = append(out, per[l][next[l]])
		next[l]++
	}
	return out
}

func c03SameOrder(a, b []c03Op) bool {
	if len(a) != len(b) {
		return false
	}
	for i := range a {
		if !bytes.Equal(a[i].key, b[i].key) || !bytes.Equal(a[i].val, b[i].val) {
			return false
		}
	}
	return true
}

func c03Desc(ops []c03Op) string {
	var sb strings.Builder
	for i, o := range ops {
		if sb.Len() > 500 {
			fmt.Fprintf(&sb, "…(+%d ops)", len(ops)-i)
			break
		}
		sb.WriteString(o.String())
		sb.WriteByte(' ')
	}
	return sb.String()
}

const c03Rule = "histories of Put/Delete over a pool of 1..24 distinct keys (alphabet of 7 bytes, shared prefixes, lengths 0..40, empty key included), values 0..64 bytes " +
	"(put-empty, overwrite-same, overwrite, delete, delete-then-recreate); second history = per-key generated redundant ops ending in the same final value, shuffled; " +
	"non-trivial = the two histories differ as sequences and the first one overwrites a key with a different value or recreates a deleted key; distinct = different first history"

// Two histories with the same final content: same hash, same listing, both equal to the model.
func TestC03_OrderIndependent(t *testing.T) {
	ev := harn.For("C03").Rule(c03Rule)
	ev.Floor("op:overwrite", "ops", 0.05)
	ev.Floor("op:recreate", "ops", 0.02)
	harn.Check(t, 12000, 600000, func(t *rapid.T) {
		keys := c03Keys(t, 24)
		nops := rapid.IntRange(1, 80).Draw(t, "nops")
		ops, model, rewrites, classes := c03History(t, keys, nops, false)
		ops2 := c03Rewrite(t, model)
		for c, n := range classes {
			ev.ClassN(c, int64(n))
		}
		ev.ClassN("ops", int64(len(ops)))

		db1 := overlaydb.NewOverlayDB(nil)
		db2 := overlaydb.NewOverlayDB(nil)
		c03Apply(db1, ops)
		c03Apply(db2, ops2)
		c03CheckAgainstModel(t, "first history", db1, model, ops)
		c03CheckAgainstModel(t, "second history", db2, model, ops2)
		h1, h2 := db1.ChangeHash(), db2.ChangeHash()
		if h1 != h2 {
			t.Fatalf("same final content, different ChangeHash: %x vs %x; ops1=%v ops2=%v", h1[:], h2[:], ops, ops2)
		}
		differ := !c03SameOrder(ops, ops2)
		if differ {
			ev.Class("case:histories-differ")
		}
		ev.Case(differ && rewrites, "order: "+c03Desc(ops))
	})
}

// Long histories against the model, checked at generated intermediate points, with values large enough to make
// the key/value buffer and the node array reallocate; the overlay is reused after Reset() with stale content.
func TestC03_LongHistoryModel(t *testing.T) {
	ev := harn.For("C03").Rule(c03Rule + " || long: up to 400 (quick) / 2000 (thorough) ops with 200..3000-byte values, intermediate checkpoints, overlay reused after Reset()")
	maxOps := 400
	if harn.Thorough() {
		maxOps = 2000
	}
	harn.Check(t, 1500, 48000, func(t *rapid.T) {
		keys := c03Keys(t, 60)
		db := overlaydb.NewOverlayDB(nil)
		reused := rapid.Bool().Draw(t, "reuseAfterReset")
		if reused {
			garbage, _, _, _ := c03History(t, keys, rapid.IntRange(1, 40).Draw(t, "ngarbage"), true)
			c03Apply(db, garbage)
			db.Reset()
			if l := c03List(db); len(l) != 0 {
				t.Fatalf("write set after Reset() still lists %d keys: {%s}", len(l), c03FmtList(l))
			}
			ev.Class("case:reused-after-reset")
		}
		nops := rapid.IntRange(1, maxOps).Draw(t, "nops")
		ops, model, rewrites, classes := c03History(t, keys, nops, true)
		for c, n := range classes {
			ev.ClassN(c, int64(n))
		}
		ev.ClassN("ops", int64(len(ops)))
		// apply with checkpoints: compare with the model of the prefix
		cps := rapid.SliceOfN(rapid.IntRange(0, len(ops)), 0, 3).Draw(t, "checkpoints")
		sort.Ints(cps)
		done := 0
		prefix := map[string][]byte{}
		step := func(upto int) {
			for ; done < upto; done++ {
				o := ops[done]
				if o.del {
					db.Delete(o.key)
					prefix[string(o.key)] = []byte{}
				} else {
					db.Put(o.key, o.val)
					prefix[string(o.key)] = append([]byte{}, o.val...)
				}
			}
		}
		for _, cp := range cps {
			step(cp)
			c03CheckAgainstModel(t, fmt.Sprintf("prefix of %d ops", cp), db, prefix, ops[:cp])
		}
		step(len(ops))
		c03CheckAgainstModel(t, "long history", db, model, ops)
		// the minimal history (each final pair once, in a generated order) reaches the same hash
		final := c03ModelList(model)
		order := make([]int, len(final))
		for i := range order {
			order[i] = i
		}
		if len(order) > 1 {
			order = rapid.Permutation(order).Draw(t, "minimalOrder")
		}
		db2 := overlaydb.NewOverlayDB(nil)
		for _, i := range order {
			db2.Put(final[i].k, final[i].v)
		}
		if h1, h2 := db.ChangeHash(), db2.ChangeHash(); h1 != h2 {
			t.Fatalf("history and its minimal equivalent (final pairs written once, order %v) hash differently: %x vs %x; ops=%v", order, h1[:], h2[:], ops)
		}
		ev.Case(rewrites && len(ops) > len(final), fmt.Sprintf("long(reused=%v): %s", reused, c03Desc(ops)))
	})
}

// Exhaustive small space: every history of length <= 4 over 2 keys and values {delete, put-empty, "x", "y"} is
// compared with the model, and all histories are grouped by final content: one hash per group.
func TestC03_ExhaustiveTiny(t *testing.T) {
	ev := harn.For("C03").Rule("tiny: all histories of length 1..5 (thorough 1..6) over keys {\"a\",\"ab\"} x ops {Delete, Put empty, Put x, Put y}; non-trivial = length >= 2")
	keys := [][]byte{[]byte("a"), []byte("ab")}
	type opk struct {
		k   int
		typ int
	}
	var alphabet []opk
	for k := range keys {
		for typ := 0; typ < 4; typ++ {
			alphabet = append(alphabet, opk{k, typ})
		}
	}
	mk := func(o opk) c03Op {
		switch o.typ {
		case 0:
			return c03Op{key: keys[o.k], del: true}
		case 1:
			return c03Op{key: keys[o.k], val: nil}
		case 2:
			return c03Op{key: keys[o.k], val: []byte("x")}
		default:
			return c03Op{key: keys[o.k], val: []byte("y")}
		}
	}
	groups := map[string][32]byte{}
	maxLen := 5
	if harn.Thorough() {
		maxLen = 6
	}
	idx := 0
	var rec func(cur []c03Op)
	rec = func(cur []c03Op) {
		if len(cur) > 0 {
			idx++
			if idx%harn.Shards() == harn.Shard() {
				db := overlaydb.NewOverlayDB(nil)
				c03Apply(db, cur)
				model := map[string][]byte{}
				for _, o := range cur {
					model[string(o.key)] = append([]byte{}, o.val...)
				}
				got, want := c03List(db), c03ModelList(model)
				if c03FmtList(got) != c03FmtList(want) {
					harn.Violation(t, "C03", fmt.Sprint(cur), "write set {%s} differs from model {%s} after %v", c03FmtList(got), c03FmtList(want), cur)
				}
				h := db.ChangeHash()
				if ref := c03RefHash(want); !bytes.Equal(h[:], ref[:]) {
					harn.Violation(t, "C03", fmt.Sprint(cur), "ChangeHash %x differs from reference %x after %v", h[:], ref[:], cur)
				}
				key := c03FmtList(want)
				if prev, ok := groups[key]; ok && prev != [32]byte(h) {
					harn.Violation(t, "C03", fmt.Sprint(cur), "two histories with final content {%s} hash differently", key)
				}
				groups[key] = [32]byte(h)
				ev.Case(len(cur) >= 2, "tiny: "+fmt.Sprint(cur))
			}
		}
		if len(cur) == maxLen {
			return
		}
		for _, o := range alphabet {
			rec(append(cur, mk(o)))
		}
	}
	rec(nil)
	ev.Class("tiny:content-groups")
	ev.Extra("tiny_content_groups", len(groups))
}
