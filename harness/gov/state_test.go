package gov

// Observation layer of the C10/C11 harness: an independent little-endian decoder for the governance
// contract's raw storage records (the oracles never use the contract's own Deserialization code)
// and the snapshot the state-aware generator draws from.

import (
	"encoding/binary"
	"encoding/hex"
	"fmt"
	"sort"
	"strings"

	"github.com/ontio/ontology/common"
	gov "github.com/ontio/ontology/smartcontract/service/native/governance"
	nutils "github.com/ontio/ontology/smartcontract/service/native/utils"
)

// ---------------------------------------------------------------------------------------------
// own decoder

type rd struct {
	b   []byte
	off int
	bad bool
}

func (r *rd) take(n int) []byte {
	if r.bad || n < 0 || r.off+n > len(r.b) {
		r.bad = true
		return make([]byte, n&0xffff)
	}
	out := r.b[r.off : r.off+n]
	r.off += n
	return out
}
func (r *rd) u8() uint8   { return r.take(1)[0] }
func (r *rd) u16() uint16 { return binary.LittleEndian.Uint16(r.take(2)) }
func (r *rd) u32() uint32 { return binary.LittleEndian.Uint32(r.take(4)) }
func (r *rd) u64() uint64 { return binary.LittleEndian.Uint64(r.take(8)) }
func (r *rd) varuint() uint64 {
	switch b := r.u8(); b {
	case 0xfd:
		return uint64(r.u16())
	case 0xfe:
		return uint64(r.u32())
	case 0xff:
		return r.u64()
	default:
		return uint64(b)
	}
}
func (r *rd) varbytes() []byte {
	n := r.varuint()
	if n > uint64(len(r.b)) {
		r.bad = true
		return nil
	}
	return r.take(int(n))
}
func (r *rd) str() string { return string(r.varbytes()) }
func (r *rd) addr() (a common.Address) {
	copy(a[:], r.take(20))
	return
}
func (r *rd) end() bool { return !r.bad && r.off == len(r.b) }

// unwrapItem strips the storage-item envelope: one version byte (0) and a var-bytes value.
func unwrapItem(raw []byte) ([]byte, error) {
	r := &rd{b: raw}
	if v := r.u8(); v != 0 {
		return nil, fmt.Errorf("storage item version %d", v)
	}
	val := r.varbytes()
	if !r.end() {
		return nil, fmt.Errorf("malformed storage item %x", raw)
	}
	return val, nil
}

// ---------------------------------------------------------------------------------------------
// records

const (
	stRegister = iota
	stCandidate
	stConsensus
	stQuitConsensus
	stQuiting
	stBlack
)

type peerItem struct {
	index    uint32
	pub      string
	owner    common.Address
	status   uint8
	initPos  uint64
	totalPos uint64
}

func (p *peerItem) active() bool { return p.status == stCandidate || p.status == stConsensus }

type authInfo struct {
	pub                                      string
	addr                                     common.Address
	cons, cand, newp, wcons, wcand, unfreeze uint64
}

func (a *authInfo) staked() uint64 { return a.cons + a.cand + a.newp }

type snap struct {
	view, viewHeight uint32
	pool             map[string]*peerItem
	poolKeys         []string
	auth             []authInfo
	stake            map[common.Address]uint64
	sumStake         uint64
	penalty          map[string]uint64 // pubkey hex -> InitPos+AuthorizePos
	apen             map[string]uint64 // pubkey hex -> AuthorizePos (authorizer penalties in the record)
	penaltyKeys      []string
	sumPenalty       uint64
	split            map[common.Address]uint64
	splitKeys        []common.Address
	sumSplit         uint64
	splitFee         uint64
	black            []string
	promise          map[string]uint64
	attrs            map[string]*gov.PeerAttributes
	gp               *gov.GlobalParam
	gp2              *gov.GlobalParam2
	cfg              *gov.Configuration
	gas              common.Address
	// balances
	ont    map[common.Address]uint64 // tracked participants
	ontGov uint64
	ongGov uint64
}

// canon is the reference model's identity of a peer: the decoded key bytes, written as lower-case hex. Every record
// the contract keys by the decoded bytes (authorize info, attributes, promise, penalty, black list) is indexed by it
// here, whatever spelling the record itself carries; pool entries keep the spelling the contract stored (pool
// look-ups are by string) and are compared with the other records through canon.
func canon(pub string) string { return strings.ToLower(pub) }

func (s *snap) activeCount() int {
	n := 0
	for _, p := range s.pool {
		if p.active() {
			n++
		}
	}
	return n
}

func gkey(parts ...[]byte) []byte {
	G := nutils.GovernanceContractAddress
	k := append([]byte{}, G[:]...)
	for _, p := range parts {
		k = append(k, p...)
	}
	return k
}

func u32le(v uint32) []byte { b := make([]byte, 4); binary.LittleEndian.PutUint32(b, v); return b }

// getRec reads one record by exact key and strips the envelope (nil when absent).
func (h *hist) getRec(key []byte) []byte {
	raw, err := h.n.Cache.Get(key)
	if err != nil {
		h.t.Fatalf("harness: storage get: %v", err)
	}
	if len(raw) == 0 {
		return nil
	}
	v, err := unwrapItem(raw)
	if err != nil {
		h.t.Fatalf("harness: %v", err)
	}
	return v
}

// scan iterates all records below governance||prefix in key order.
func (h *hist) scan(prefix string, f func(rest []byte, val []byte)) {
	p := gkey([]byte(prefix))
	it := h.n.Cache.NewIterator(p)
	defer it.Release()
	for ok := it.First(); ok; ok = it.Next() {
		if len(it.Value()) == 0 {
			continue
		}
		k := append([]byte{}, it.Key()...)
		v, err := unwrapItem(append([]byte{}, it.Value()...))
		if err != nil {
			h.t.Fatalf("harness: record under %q: %v", prefix, err)
		}
		if len(k) < len(p) {
			h.t.Fatalf("harness: short key %x", k)
		}
		f(k[len(p):], v)
	}
	if err := it.Error(); err != nil {
		h.t.Fatalf("harness: iterator: %v", err)
	}
}

func (h *hist) badRec(what string, v []byte) {
	h.t.Fatalf("harness: cannot decode %s record %x", what, v)
}

// readSnap reads everything the generator and the oracles look at.
func (h *hist) readSnap() *snap {
	s := &snap{pool: map[string]*peerItem{}, stake: map[common.Address]uint64{}, penalty: map[string]uint64{}, apen: map[string]uint64{},
		split: map[common.Address]uint64{}, promise: map[string]uint64{}, attrs: map[string]*gov.PeerAttributes{},
		ont: map[common.Address]uint64{}}

	// governance view
	v := h.getRec(gkey([]byte(gov.GOVERNANCE_VIEW)))
	r := &rd{b: v}
	s.view, s.viewHeight = r.u32(), r.u32()
	r.take(32)
	if !r.end() {
		h.badRec("governanceView", v)
	}

	// peer pool of the current view
	v = h.getRec(gkey([]byte(gov.PEER_POOL), u32le(s.view)))
	r = &rd{b: v}
	n := r.u32()
	for i := uint32(0); i < n && !r.bad; i++ {
		p := &peerItem{}
		p.index = r.u32()
		p.pub = r.str()
		p.owner = r.addr()
		p.status = r.u8()
		p.initPos = r.u64()
		p.totalPos = r.u64()
		s.pool[p.pub] = p
		s.poolKeys = append(s.poolKeys, p.pub)
	}
	if !r.end() {
		h.badRec("peerPool", v)
	}
	sort.Strings(s.poolKeys)

	// authorize infos
	h.scan(string(gov.AUTHORIZE_INFO_POOL), func(rest, v []byte) {
		r := &rd{b: v}
		a := authInfo{pub: canon(r.str()), addr: r.addr(), cons: r.u64(), cand: r.u64(), newp: r.u64(), wcons: r.u64(), wcand: r.u64(), unfreeze: r.u64()}
		if !r.end() {
			h.badRec("authorizeInfo", v)
		}
		s.auth = append(s.auth, a)
	})

	// total stakes (C11)
	h.scan(gov.TOTAL_STAKE, func(rest, v []byte) {
		r := &rd{b: v}
		a, st := r.addr(), r.u64()
		r.u32()
		if !r.end() || len(rest) != 20 {
			h.badRec("totalStake", v)
		}
		s.stake[a] = st
		if s.sumStake+st < s.sumStake {
			h.t.Fatalf("C11: sum of TotalStake records overflows uint64")
		}
		s.sumStake += st
	})

	// penalty stakes (C11)
	h.scan(gov.PENALTY_STAKE, func(rest, v []byte) {
		r := &rd{b: v}
		pub, ip, ap := canon(r.str()), r.u64(), r.u64()
		r.u32()
		r.u64()
		if !r.end() {
			h.badRec("penaltyStake", v)
		}
		if ip+ap < ip || s.sumPenalty+ip+ap < s.sumPenalty {
			h.t.Fatalf("C11: penalty stake sum overflows uint64")
		}
		s.penalty[pub] = ip + ap
		s.apen[pub] = ap
		s.penaltyKeys = append(s.penaltyKeys, pub)
		s.sumPenalty += ip + ap
	})

	// split fee credits (C10)
	overflow := false
	h.scan(gov.SPLIT_FEE_ADDRESS, func(rest, v []byte) {
		r := &rd{b: v}
		a, amt := r.addr(), r.u64()
		if !r.end() || len(rest) != 20 {
			h.badRec("splitFeeAddress", v)
		}
		s.split[a] = amt
		s.splitKeys = append(s.splitKeys, a)
		if s.sumSplit+amt < s.sumSplit {
			overflow = true
		}
		s.sumSplit += amt
	})
	if overflow {
		s.sumSplit = ^uint64(0) // saturate: certainly above any ONG balance
	}
	if v := h.getRec(gkey([]byte(gov.SPLIT_FEE))); v != nil {
		r := &rd{b: v}
		s.splitFee = r.u64()
		if !r.end() {
			h.badRec("splitFee", v)
		}
	}

	// generator aids (decoded with the contract's own types: only used to draw arguments)
	h.scan(gov.BLACK_LIST, func(rest, v []byte) { s.black = append(s.black, hex.EncodeToString(rest)) })
	h.scan(gov.PROMISE_POS, func(rest, v []byte) {
		pp := new(gov.PromisePos)
		if err := pp.Deserialization(common.NewZeroCopySource(v)); err == nil {
			s.promise[canon(pp.PeerPubkey)] = pp.PromisePos
		}
	})
	h.scan(gov.PEER_ATTRIBUTES, func(rest, v []byte) {
		pa := new(gov.PeerAttributes)
		if err := pa.Deserialization(common.NewZeroCopySource(v)); err == nil {
			s.attrs[canon(pa.PeerPubkey)] = pa
		}
	})
	s.gp = new(gov.GlobalParam)
	if err := s.gp.Deserialization(common.NewZeroCopySource(h.getRec(gkey([]byte(gov.GLOBAL_PARAM))))); err != nil {
		h.t.Fatalf("harness: globalParam: %v", err)
	}
	s.gp2 = &gov.GlobalParam2{MinAuthorizePos: 500, CandidateFeeSplitNum: s.gp.CandidateNum}
	if v := h.getRec(gkey([]byte(gov.GLOBAL_PARAM2))); v != nil {
		if err := s.gp2.Deserialization(common.NewZeroCopySource(v)); err != nil {
			h.t.Fatalf("harness: globalParam2: %v", err)
		}
	}
	s.cfg = new(gov.Configuration)
	if err := s.cfg.Deserialization(common.NewZeroCopySource(h.getRec(gkey([]byte(gov.VBFT_CONFIG))))); err != nil {
		h.t.Fatalf("harness: vbft config: %v", err)
	}
	if v := h.getRec(gkey([]byte(gov.GAS_ADDRESS))); v != nil {
		ga := new(gov.GasAddress)
		if err := ga.Deserialization(common.NewZeroCopySource(v)); err == nil {
			s.gas = ga.Address
		}
	}

	// balances through the tokens' public balanceOf
	for _, a := range h.w.tracked {
		s.ont[a] = h.bal(nutils.OntContractAddress, a)
	}
	s.ontGov = h.bal(nutils.OntContractAddress, nutils.GovernanceContractAddress)
	s.ongGov = h.bal(nutils.OngContractAddress, nutils.GovernanceContractAddress)
	return s
}

func (s *snap) attr(pub string) *gov.PeerAttributes {
	if a, ok := s.attrs[canon(pub)]; ok {
		return a
	}
	return &gov.PeerAttributes{PeerPubkey: pub, T2PeerCost: 100, T1PeerCost: 100, TPeerCost: 100}
}

func (s *snap) isBlack(pub string) bool {
	for _, b := range s.black {
		if b == canon(pub) {
			return true
		}
	}
	return false
}

// bal reads a token balance (ONT in whole tokens, ONG in 1e-9 units) through "balanceOf".
func (h *hist) bal(token, a common.Address) uint64 {
	sink := common.NewZeroCopySink(nil)
	nutils.EncodeAddress(sink, a)
	res, err := h.n.Call(token, "balanceOf", sink.Bytes(), nil)
	if err != nil {
		h.t.Fatalf("harness: balanceOf: %v", err)
	}
	v := common.BigIntFromNeoBytes(res)
	if !v.IsUint64() {
		h.t.Fatalf("harness: balanceOf(%s) = %s does not fit uint64", a.ToBase58(), v)
	}
	return v.Uint64()
}
