package vm

// C15 (continued): maps as arguments of native contracts. Ontology.Native.Invoke marshals its
// argument value into the byte string the native method parses (BuildParamToNative); whatever that
// marshalling does with a map — today it refuses maps — the bytes, and with them the fault or
// result of the native method, its notifications and its writes, must not depend on Go's map
// iteration order. Programs build one map of 2–12 entries whose VALUES DIFFER in a way a cheap
// native method can tell apart: mostly 20-byte addresses of a pool of accounts that hold different
// ONT balances in the prepared state (100+i), plus unfunded addresses and values that are not an
// address at all (short byte strings, integers, booleans), so that both the returned balance and
// success/failure of ONT balanceOf / balanceOfV2 / allowance depend on which value comes first.
// The map is the argument itself, or a field of a struct (fields are concatenated, so a map in the
// first field leads the byte string), or an element of an array; optionally a few SETITEM / REMOVE
// steps precede the call. Oracle (metamorphic): 16 executions in fresh engines over identical
// state must agree on success/failure, value, notifications and write set.

import (
	"crypto/sha256"
	"fmt"
	"strings"
	"testing"

	_ "github.com/ontio/ontology/smartcontract/service/native/init"
	"github.com/ontio/ontology/smartcontract/service/native/utils"
	scneovm "github.com/ontio/ontology/smartcontract/service/neovm"
	"github.com/ontio/ontology/vm/neovm"
	"pgregory.net/rapid"

	"verifharness/internal/harn"
)

const c15NativeArgRule = "maps as native-call arguments: one map of 2–12 entries (generated distinct keys, generated insertion order; values: 20-byte addresses from a pool of 8 accounts funded with 100+i ONT in the prepared state — the first two values are always two different funded accounts —, unfunded addresses, and non-addresses: 0–4 bytes, small ints, booleans), optionally followed by 0–4 SETITEM/REMOVE steps that keep >= 2 entries, passed to Ontology.Native.Invoke(ONT, balanceOf | balanceOfV2 | allowance | name) as the argument itself, as field 0/1/2 of a 3-field struct or as element of an array; 16 executions in fresh engines must agree on fault/result, notifications and write set; non-trivial = the map (>= 2 entries, differing values) is the first thing the marshalling reaches (top level or struct field 0) and the method reads its argument; distinct = different program bytes"

func TestC15_NativeMapArgs(t *testing.T) {
	ev := harn.For("C15").Rule(c15NativeArgRule)
	ev.Assume("fresh in-memory state (overlay over an empty memory store with the script deployed as a contract and the pool accounts funded) is the same state for every run")
	ev.Floor("nativearg:map-leads", "nativearg", 0.50)
	ev.Floor("nativearg:map-leads+reads-arg", "nativearg", 0.40)
	ev.Floor("nativearg:top", "nativearg", 0.20)
	ev.Floor("nativearg:struct", "nativearg", 0.20)
	ev.Floor("nativearg:array", "nativearg", 0.08)
	w := newWorker(ev)
	defer w.Close()
	const K = 16
	var pool [][]byte
	for i := 0; i < 8; i++ {
		a := make([]byte, 20)
		for j := range a {
			a[j] = byte(0x10 + i)
		}
		pool = append(pool, a)
	}

	harn.Check(t, 300, 18000, func(t *rapid.T) {
		s := &spec{}
		m := s.add(node{K: kMap})
		h := &histModel{s: s, m: m, cur: map[string]histEntry{}}
		n := 2 + uni(t, "n", 11)
		genVal := func(i int) node {
			switch {
			case i == 0:
				return node{K: kBytes, B: pool[uni(t, "p0", 4)]}
			case i == 1:
				return node{K: kBytes, B: pool[4+uni(t, "p1", 4)]}
			}
			switch uni(t, "valkind", 8) {
			case 0:
				b := make([]byte, 20)
				for j := range b {
					b[j] = rapid.Byte().Draw(t, "ab")
				}
				return node{K: kBytes, B: b} // unfunded address
			case 1, 2:
				return genHistVal(t) // not an address
			default:
				return node{K: kBytes, B: pool[uni(t, "p", 8)]}
			}
		}
		for i := 0; i < n; i++ {
			k := h.freshKey(t)
			h.cur[string(s.keyBytes(k))] = histEntry{k, s.add(genVal(i))}
			s.N[m].MK = append(s.N[m].MK, k)
			s.N[m].E = append(s.N[m].E, h.cur[string(s.keyBytes(k))].v)
		}
		for i := n - 1; i > 0; i-- { // generated insertion order
			j := uni(t, "shuffle", i+1)
			s.N[m].MK[i], s.N[m].MK[j] = s.N[m].MK[j], s.N[m].MK[i]
			s.N[m].E[i], s.N[m].E[j] = s.N[m].E[j], s.N[m].E[i]
		}
		nest := []string{"", "", kStruct, kStruct, kStruct, kArray}[uni(t, "nest", 6)]
		root, pos := m, 0
		if nest != "" {
			if uni(t, "first", 3) > 0 {
				pos = 0
			} else {
				pos = 1 + uni(t, "pos", 2)
			}
			var e []int
			for i := 0; i < 3; i++ {
				if i == pos {
					e = append(e, m)
				} else {
					e = append(e, s.add(node{K: kBytes, B: pool[uni(t, "sib", 8)]}))
				}
			}
			root = s.add(node{K: nest, E: e})
		}
		s.Root = root
		c := compileValue(s)

		var hist []string
		for i := uni(t, "nsteps", 5); i > 0; i-- {
			sorted := h.sortedKeys()
			switch {
			case len(sorted) > 2 && uni(t, "step", 2) == 0:
				kb := sorted[uni(t, "xkey", len(sorted))]
				c.ref(m)
				c.pushPrim(h.cur[kb].k)
				c.op(neovm.REMOVE)
				hist = append(hist, "X "+s.canonOf(h.cur[kb].k))
				delete(h.cur, kb)
			default:
				kid := h.freshKey(t)
				vid := s.add(genVal(2))
				c.ref(m)
				c.pushPrim(kid)
				c.pushPrim(vid)
				c.op(neovm.SETITEM)
				h.cur[string(s.keyBytes(kid))] = histEntry{kid, vid}
				hist = append(hist, "S "+s.canonOf(kid)+"="+s.canonOf(vid))
			}
		}
		h.sync()
		differing := map[string]bool{}
		for _, v := range s.N[m].E {
			differing[s.canonOf(v)] = true
		}

		method := []string{"balanceOf", "balanceOf", "balanceOf", "balanceOfV2", "allowance", "name"}[uni(t, "method", 6)]
		c.ref(root)
		c.pushBytes([]byte(method))
		c.pushBytes(utils.OntContractAddress[:])
		c.op(neovm.PUSH0)
		c.syscall(scneovm.NATIVE_INVOKE_NAME)

		leads := (nest == "" || (nest == kStruct && pos == 0)) && len(s.N[m].E) >= 2 && len(differing) >= 2
		sum := sha256.Sum256(c.code)
		desc := fmt.Sprintf("native-arg code#%x %s(%s) nest=%q pos=%d steps=[%s] value=%s", sum[:6], method, "ONT", nest, pos, strings.Join(hist, "; "), s.describe())
		full := desc
		if len(desc) > 590 {
			desc = desc[:590]
		}

		r := callWorker(w, &wreq{Op: "run", Raw: c.code, K: K, Fund: pool})
		if r.timedOut {
			ev.Class("timeout")
			return
		}
		if r.died {
			t.Fatalf("the process executing the program DIED (%s); program %s code=%s", diagHead(r.diag), full, harn.Hex(c.code))
		}
		if r.res.Bad != "" || len(r.res.Runs) == 0 {
			t.Fatalf("harness error (not a finding): %s", r.res.Bad)
		}
		if r.res.Panic != "" {
			t.Fatalf("panic while executing the program: %s; program %s code=%s", r.res.Panic, full, harn.Hex(c.code))
		}
		for _, o := range r.res.Runs {
			if strings.HasPrefix(o, "harness:") {
				t.Fatalf("harness error (not a finding): %s", o)
			}
		}
		obs, counts, _ := distinctObservable(r.res)
		if len(obs) > 1 {
			var sb strings.Builder
			for i := range obs {
				sb.WriteString(fmt.Sprintf("\n  %d× %s", counts[i], clipOutcome(obs[i])))
			}
			t.Fatalf("%d executions of the same native call with a map argument on the same state gave %d different results:%s\nprogram: %s\ncode: %s", K, len(obs), sb.String(), full, harn.Hex(c.code))
		}
		ev.Class("nativearg")
		ev.Class("ran")
		switch nest {
		case "":
			ev.Class("nativearg:top")
		case kStruct:
			ev.Class("nativearg:struct")
		default:
			ev.Class("nativearg:array")
		}
		ev.Class("nativearg:method-" + method)
		if leads {
			ev.Class("nativearg:map-leads")
			if method != "name" {
				ev.Class("nativearg:map-leads+reads-arg")
			}
		}
		if len(hist) > 0 {
			ev.Class("nativearg:after-mutations")
		}
		if strings.HasPrefix(obs[0], "OK ") {
			ev.Class("result:ok")
			ev.Class("nativearg:ok")
		} else {
			ev.Class("result:err")
			ev.Class("nativearg:fault")
		}
		ev.Case(leads && method != "name", desc)
	})
}
