// Package harn is the shared runtime of every check: tier/seed plumbing for rapid,
// the evidence collector, known-finding bookkeeping and violation files.
package harn

import (
	"encoding/json"
	"flag"
	"fmt"
	"hash/fnv"
	"os"
	"path/filepath"
	"sort"
	"strconv"
	"strings"
	"sync"
	"testing"
	"time"

	"pgregory.net/rapid"

	"verifharness/internal/iso"
)

// ---------------------------------------------------------------------------------------------
// environment

func Tier() string {
	if os.Getenv("VERIF_TIER") == "thorough" {
		return "thorough"
	}
	return "quick"
}

func Thorough() bool { return Tier() == "thorough" }

// Seed is VERIF_SEED (0 remapped to 1) plus a per-shard offset.
func Seed() uint64 {
	s, _ := strconv.ParseUint(os.Getenv("VERIF_SEED"), 10, 64)
	if s == 0 {
		s = 1
	}
	return s + uint64(Shard())*1000003
}

func Shard() int  { n, _ := strconv.Atoi(os.Getenv("VERIF_SHARD")); return n }
func Shards() int {
	n, _ := strconv.Atoi(os.Getenv("VERIF_SHARDS"))
	if n < 1 {
		n = 1
	}
	return n
}

// Replaying reports whether the process was started by `check --replay`.
func Replaying() bool { return os.Getenv("VERIF_REPLAY") != "" }

// N picks the case count for the tier; the thorough count is divided over the shards.
func N(quick, thorough int) int {
	if Replaying() {
		return 1
	}
	if Thorough() {
		// the registry may deepen a cheap check's thorough tier (VERIF_TSCALE = multiplier of the
		// total thorough case count written in the test)
		scale := 1
		if v, err := strconv.Atoi(os.Getenv("VERIF_TSCALE")); err == nil && v > 1 {
			scale = v
		}
		n := thorough * scale / Shards()
		if n < 1 {
			n = 1
		}
		return n
	}
	return quick
}

// Check runs a rapid property with the tier's case count and the run's seed.
func Check(t *testing.T, quick, thorough int, prop func(*rapid.T)) {
	t.Helper()
	n := N(quick, thorough)
	_ = flag.Set("rapid.checks", strconv.Itoa(n))
	_ = flag.Set("rapid.seed", strconv.FormatUint(Seed(), 10))
	if ff := os.Getenv("VERIF_REPLAY"); strings.HasSuffix(ff, ".fail") {
		_ = flag.Set("rapid.failfile", ff)
	}
	rapid.Check(t, prop)
}

// CheckSteps is Check with a given average number of t.Repeat steps.
func CheckSteps(t *testing.T, steps, quick, thorough int, prop func(*rapid.T)) {
	t.Helper()
	_ = flag.Set("rapid.steps", strconv.Itoa(steps))
	defer flag.Set("rapid.steps", "30")
	Check(t, quick, thorough, prop)
}

// ---------------------------------------------------------------------------------------------
// evidence

type Collector struct {
	mu          sync.Mutex
	ID          string
	Level       string
	rule        string
	assumptions []string
	evals       int64
	nontriv     map[uint64]struct{}
	classes     map[string]int64
	first       []string
	spread      []string
	excluded    int64
	floors      map[string]floor
	extra       map[string]interface{}
	exhaustive  bool
}

type floor struct {
	num, den string
	min      float64
}

var (
	regMu sync.Mutex
	reg   = map[string]*Collector{}
)

// For returns the (process-wide) collector of a property.
func For(id string) *Collector {
	regMu.Lock()
	defer regMu.Unlock()
	c := reg[id]
	if c == nil {
		c = &Collector{ID: id, Level: "exploration", nontriv: map[uint64]struct{}{}, classes: map[string]int64{},
			floors: map[string]floor{}, extra: map[string]interface{}{}}
		reg[id] = c
	}
	return c
}

func (c *Collector) SetLevel(l string) *Collector { c.Level = l; return c }

// Rule states how cases are generated and what makes one non-trivial (appended once per text).
func (c *Collector) Rule(s string) *Collector {
	c.mu.Lock()
	defer c.mu.Unlock()
	if !strings.Contains(c.rule, s) {
		if c.rule != "" {
			c.rule += " || "
		}
		c.rule += s
	}
	return c
}

func (c *Collector) Assume(s string) *Collector {
	c.mu.Lock()
	defer c.mu.Unlock()
	for _, a := range c.assumptions {
		if a == s {
			return c
		}
	}
	c.assumptions = append(c.assumptions, s)
	return c
}

// Case records one evaluated case. desc is a canonical description of the case; when
// nontrivial it is hashed into the distinct set and may be kept as a sample.
func (c *Collector) Case(nontrivial bool, desc string) {
	c.mu.Lock()
	defer c.mu.Unlock()
	c.evals++
	if !nontrivial {
		return
	}
	h := fnv.New64a()
	h.Write([]byte(desc))
	k := h.Sum64()
	if _, ok := c.nontriv[k]; ok {
		return
	}
	c.nontriv[k] = struct{}{}
	if len(desc) > 600 {
		desc = desc[:600] + "…"
	}
	if len(c.first) < 4 {
		c.first = append(c.first, desc)
	} else if k%97 == 0 && len(c.spread) < 6 {
		c.spread = append(c.spread, desc)
	}
}

// Class counts an occurrence of a named class of case/step (distribution of the generator).
func (c *Collector) Class(name string) { c.ClassN(name, 1) }
func (c *Collector) ClassN(name string, n int64) {
	c.mu.Lock()
	c.classes[name] += n
	c.mu.Unlock()
}

// Excluded counts generated cases skipped because they fall in a recorded known finding.
func (c *Collector) Excluded() { c.mu.Lock(); c.excluded++; c.classes["excluded_known"]++; c.mu.Unlock() }

// Floor makes the run inconclusive (exit 3 -> driver exit 2) when classes[num]/classes[den] < min
// (den == "" means evaluations). Only enforced when at least 200 denominators were seen.
func (c *Collector) Floor(num, den string, min float64) {
	c.mu.Lock()
	c.floors[num+"/"+den] = floor{num, den, min}
	c.mu.Unlock()
}

func (c *Collector) Extra(k string, v interface{}) { c.mu.Lock(); c.extra[k] = v; c.mu.Unlock() }
func (c *Collector) Exhaustive(b bool)               { c.mu.Lock(); c.exhaustive = b; c.mu.Unlock() }

type partial struct {
	ID          string                 `json:"property_id"`
	Level       string                 `json:"level"`
	Rule        string                 `json:"rule"`
	Assumptions []string               `json:"assumptions"`
	Evals       int64                  `json:"evaluations"`
	Hashes      []string               `json:"hashes"`
	Classes     map[string]int64       `json:"classes"`
	Samples     []string               `json:"samples"`
	Excluded    int64                  `json:"excluded_known"`
	Extra       map[string]interface{} `json:"extra"`
	Exhaustive  bool                   `json:"exhaustive"`
	Starved     []string               `json:"starved"`
}

func (c *Collector) flush(dir string) (starved []string) {
	c.mu.Lock()
	defer c.mu.Unlock()
	p := partial{ID: c.ID, Level: c.Level, Rule: c.rule, Assumptions: c.assumptions, Evals: c.evals,
		Classes: c.classes, Excluded: c.excluded, Extra: c.extra, Exhaustive: c.exhaustive}
	for k := range c.nontriv {
		p.Hashes = append(p.Hashes, strconv.FormatUint(k, 36))
	}
	sort.Strings(p.Hashes)
	p.Samples = append(append([]string{}, c.first...), c.spread...)
	for _, f := range c.floors {
		den := c.evals
		if f.den != "" {
			den = c.classes[f.den]
		}
		if den >= 200 && float64(c.classes[f.num]) < f.min*float64(den) {
			starved = append(starved, fmt.Sprintf("%s=%d of %s=%d (< %.3f)", f.num, c.classes[f.num], f.den, den, f.min))
		}
	}
	sort.Strings(starved)
	p.Starved = starved
	if dir != "" {
		b, _ := json.Marshal(p)
		_ = os.WriteFile(filepath.Join(dir, fmt.Sprintf("%s.%d.%d.json", c.ID, Shard(), os.Getpid())), b, 0o644)
	}
	return starved
}

// Main is the TestMain body of every check package.
func Main(m *testing.M) {
	if iso.IsWorker() {
		iso.Serve()
	}
	flag.Parse()
	code := m.Run()
	dir := os.Getenv("VERIF_EV_OUT")
	regMu.Lock()
	ids := make([]string, 0, len(reg))
	for id := range reg {
		ids = append(ids, id)
	}
	regMu.Unlock()
	sort.Strings(ids)
	for _, id := range ids {
		st := reg[id].flush(dir)
		if len(st) > 0 && code == 0 && !Replaying() {
			fmt.Printf("INCONCLUSIVE property=%s starved classes: %s\n", id, strings.Join(st, "; "))
			code = 3
		}
	}
	os.Exit(code)
}

// ---------------------------------------------------------------------------------------------
// known findings

type Finding struct {
	Property string `json:"property"`
	Key      string `json:"key"`
	What     string `json:"what"`
}

var (
	knownOnce sync.Once
	known     []Finding
	announced = map[string]bool{}
)

func loadKnown() {
	knownOnce.Do(func() {
		root := os.Getenv("VERIF_ROOT")
		if root == "" {
			root = "/verif"
		}
		b, err := os.ReadFile(filepath.Join(root, "known_findings.json"))
		if err != nil {
			return
		}
		var f struct {
			Findings []Finding `json:"findings"`
		}
		if json.Unmarshal(b, &f) == nil {
			known = f.Findings
		}
	})
}

// KnownListed reports whether known_findings.json lists (property,key).
func KnownListed(prop, key string) (Finding, bool) {
	loadKnown()
	for _, f := range known {
		if f.Property == prop && f.Key == key {
			return f, true
		}
	}
	return Finding{}, false
}

// Known is called by a check after it replayed the witness of finding (prop,key) and saw that it
// still fails (stillFails). It returns true when generated cases of that class are to be
// excluded: the finding is listed AND still reproduces. It prints the KNOWN-FINDING line once.
// When the finding is not listed, or the defect is gone, it returns false and nothing is excluded.
func Known(prop, key string, stillFails bool) bool {
	f, ok := KnownListed(prop, key)
	if !ok || !stillFails {
		return false
	}
	regMu.Lock()
	defer regMu.Unlock()
	if !announced[prop+"/"+key] {
		announced[prop+"/"+key] = true
		fmt.Printf("KNOWN-FINDING: property=%s %s [%s]\n", prop, f.What, key)
	}
	return true
}

// ---------------------------------------------------------------------------------------------
// violations outside rapid (deterministic enumerations, worker deaths)

// Violation writes a replay file describing the failing case and fails the test.
func Violation(t testing.TB, prop string, c interface{}, format string, args ...interface{}) {
	t.Helper()
	dir := os.Getenv("VERIF_REPLAY_OUT")
	path := ""
	if dir != "" {
		_ = os.MkdirAll(dir, 0o755)
		b, _ := json.MarshalIndent(map[string]interface{}{"property": prop, "test": t.Name(), "case": c,
			"message": fmt.Sprintf(format, args...)}, "", " ")
		path = filepath.Join(dir, fmt.Sprintf("%s-%d.case.json", sanitize(t.Name()), time.Now().UnixNano()))
		_ = os.WriteFile(path, b, 0o644)
	}
	t.Fatalf("VERIF-VIOLATION property=%s case=%s: %s", prop, path, fmt.Sprintf(format, args...))
}

func sanitize(s string) string {
	return strings.Map(func(r rune) rune {
		if r == '/' || r == ' ' {
			return '_'
		}
		return r
	}, s)
}

// Hex shortens byte strings for descriptors.
func Hex(b []byte) string {
	const hexd = "0123456789abcdef"
	n := len(b)
	if n > 48 {
		n = 48
	}
	out := make([]byte, 0, 2*n+8)
	for _, x := range b[:n] {
		out = append(out, hexd[x>>4], hexd[x&15])
	}
	if len(b) > n {
		out = append(out, []byte(fmt.Sprintf("…(%d)", len(b)))...)
	}
	return string(out)
}
