package crash

import "pgregory.net/rapid"

// rapid's integer generators are deliberately biased towards small values (IntRange(0,99) is
// below 10 almost half of the time), which starves the later alternatives of every choice in a
// grammar. rapid.Bool is a single unbiased bit, so choices are drawn as 16 such bits.
func uni(t *rapid.T, n int, label string) int {
	if n <= 1 {
		return 0
	}
	v := 0
	for i, b := range rapid.SliceOfN(rapid.Bool(), 16, 16).Draw(t, label) {
		if b {
			v |= 1 << uint(i)
		}
	}
	return v % n
}

// rng is a uniform choice in [lo, hi].
func rng(t *rapid.T, lo, hi int, label string) int { return lo + uni(t, hi-lo+1, label) }

// pick is a uniform choice among xs.
func pick[E any](t *rapid.T, xs []E, label string) E { return xs[uni(t, len(xs), label)] }
