package codec

// C23, structural edits of canonical verification scripts ("malformed scripts are rejected").
//
// Every canonical single-key and m-of-n script over every key kind is a list of ITEMS (m push, key
// pushes, n push) followed by its terminating opcode. The edits work on whole items and keep the
// script's FINAL opcode a valid terminator, so the parser's dispatch on the last byte always reaches the
// grammar: repeated / dropped / re-spelled / inserted items, payloads (bytes, opcodes, whole pushes, a
// second terminator, a number push, another complete script) inserted at an item boundary, before the
// final terminator, or after the complete script followed by the terminator again.
//
// Oracles: (a) an independent model of the script grammar (c23ModelProgram / c23ModelParams: one pass
// over items, written from the grammar, trusting only keypair.DeserializePublicKey and math/big) decides
// accept / reject and the parsed (M, keys); GetProgramInfo, GetParamInfo and RawSig.GetSig must agree;
// (b) two metamorphic statements that do not use the model: if S is accepted then S ++ X ++ last(S) is
// rejected for every non-empty X (nothing may follow a complete script), and if push(K) CHECKSIG is
// accepted then push(K) ++ X ++ CHECKSIG is rejected for every non-empty X.

import (
	"bytes"
	"fmt"
	"math/big"
	"strings"
	"testing"

	"github.com/ontio/ontology-crypto/keypair"
	"github.com/ontio/ontology/core/program"
	"github.com/ontio/ontology/core/types"
	"pgregory.net/rapid"

	fix "verifharness/codec/fixlite"
	"verifharness/internal/harn"
)

// ---------------------------------------------------------------------------------------------
// independent model of the grammar

// c23ModelPush reads one data push at b[at:].
func c23ModelPush(b []byte, at int) (data []byte, next int, ok bool) {
	if at >= len(b) {
		return nil, at, false
	}
	op := b[at]
	at++
	lenBytes := 0
	switch {
	case op >= 0x01 && op <= 0x4B:
		if len(b)-at < int(op) {
			return nil, at, false
		}
		return b[at : at+int(op)], at + int(op), true
	case op == 0x4C:
		lenBytes = 1
	case op == 0x4D:
		lenBytes = 2
	case op == 0x4E:
		lenBytes = 4
	default:
		return nil, at, false
	}
	if len(b)-at < lenBytes {
		return nil, at, false
	}
	var l uint64
	for i := lenBytes - 1; i >= 0; i-- {
		l = l<<8 | uint64(b[at+i])
	}
	at += lenBytes
	if uint64(len(b)-at) < l {
		return nil, at, false
	}
	return b[at : at+int(l)], at + int(l), true
}

// c23ModelParams: an invocation script is a sequence of data pushes and nothing else.
func c23ModelParams(p []byte) (pushes [][]byte, ok bool) {
	for at := 0; at < len(p); {
		d, next, ok := c23ModelPush(p, at)
		if !ok {
			return nil, false
		}
		pushes = append(pushes, d)
		at = next
	}
	return pushes, true
}

// c23ModelProgram: why == "" means accepted as m-of-len(keys).
//
//	single:  push(key) CHECKSIG                                 - exactly one data push, then the end
//	multi:   PUSHm  push(key)*m  item*  CHECKMULTISIG           - m by a PUSH1..PUSH16 opcode (a pushed
//	         number must be > 16 and so can never satisfy m <= n <= 16); the first m items are data
//	         pushes; the items up to the FIRST CHECKMULTISIG at an item boundary are data pushes or
//	         PUSH0..PUSH16; that CHECKMULTISIG is the last byte; the last item is n (PUSHn, or pushed
//	         unsigned big-endian bytes), all others are keys; #keys == n, 1 <= m <= n, 2 <= n <= 16.
func c23ModelProgram(p []byte) (m int, keys []keypair.PublicKey, why string) {
	if len(p) <= 2 {
		return 0, nil, "too short"
	}
	key := func(d []byte) bool {
		k, err := keypair.DeserializePublicKey(d)
		if err != nil {
			return false
		}
		keys = append(keys, k)
		return true
	}
	switch p[len(p)-1] {
	case 0xAC:
		body := p[:len(p)-1]
		d, next, ok := c23ModelPush(body, 0)
		switch {
		case !ok:
			return 0, nil, "no complete key push"
		case !key(d):
			return 0, nil, "pushed data is not a key"
		case next != len(body):
			return 0, nil, fmt.Sprintf("%d bytes between the key push and the final CHECKSIG", len(body)-next)
		}
		return 1, keys, ""
	case 0xAE:
		if p[0] < 0x51 || p[0] > 0x60 {
			return 0, nil, "m is not PUSH1..PUSH16"
		}
		m = int(p[0]) - 0x50
		at := 1
		for i := 0; i < m; i++ {
			d, next, ok := c23ModelPush(p, at)
			if !ok || !key(d) {
				return 0, nil, fmt.Sprintf("item %d is not a key push", i+1)
			}
			at = next
		}
		var items [][]byte
		for {
			if at >= len(p) {
				return 0, nil, "no CHECKMULTISIG at an item boundary"
			}
			op := p[at]
			if op == 0xAE {
				at++
				break
			}
			if op == 0x00 {
				items = append(items, nil)
				at++
			} else if op >= 0x51 && op <= 0x60 {
				items = append(items, []byte{op - 0x50})
				at++
			} else {
				d, next, ok := c23ModelPush(p, at)
				if !ok {
					return 0, nil, "broken item"
				}
				items = append(items, d)
				at = next
			}
		}
		if at != len(p) {
			return 0, nil, fmt.Sprintf("%d bytes after the first CHECKMULTISIG", len(p)-at)
		}
		if len(items) == 0 {
			return 0, nil, "no n"
		}
		n := new(big.Int).SetBytes(items[len(items)-1]).Int64()
		for i, d := range items[:len(items)-1] {
			if !key(d) {
				return 0, nil, fmt.Sprintf("item %d after the first m keys is not a key", i+1)
			}
		}
		if int64(len(keys)) != n {
			return 0, nil, fmt.Sprintf("%d keys, n = %d", len(keys), n)
		}
		if !(1 <= m && int64(m) <= n && n >= 2 && n <= 16) {
			return 0, nil, "invalid m / n"
		}
		return m, keys, ""
	}
	return 0, nil, "last opcode is neither CHECKSIG nor CHECKMULTISIG"
}

// c23AgainstModel compares the parsers' verdicts on one byte string with the model's.
func c23AgainstModel(script []byte, info program.ProgramInfo, err error, sigs [][]byte, perr error) string {
	m, keys, why := c23ModelProgram(script)
	switch {
	case err == nil && why != "":
		return fmt.Sprintf("malformed script accepted as %d-of-%d: %x\n the grammar rejects it: %s", info.M, len(info.PubKeys), script, why)
	case err != nil && why == "":
		return fmt.Sprintf("well-formed %d-of-%d script rejected (%v): %x", m, len(keys), err, script)
	case err == nil:
		if int(info.M) != m || len(info.PubKeys) != len(keys) {
			return fmt.Sprintf("script %x parsed as %d-of-%d, the grammar says %d-of-%d", script, info.M, len(info.PubKeys), m, len(keys))
		}
		for i := range keys {
			if !bytes.Equal(keypair.SerializePublicKey(info.PubKeys[i]), keypair.SerializePublicKey(keys[i])) {
				return fmt.Sprintf("script %x: key %d parsed as %x, pushed %x", script, i, keypair.SerializePublicKey(info.PubKeys[i]), keypair.SerializePublicKey(keys[i]))
			}
		}
	}
	pushes, ok := c23ModelParams(script)
	switch {
	case (perr == nil) != ok:
		return fmt.Sprintf("GetParamInfo(%x): err %v, but the bytes are a sequence of complete data pushes = %v", script, perr, ok)
	case ok && !c23EqualLists(sigs, pushes):
		return fmt.Sprintf("GetParamInfo(%x) = %x, pushed %x", script, sigs, pushes)
	}
	return ""
}

// ---------------------------------------------------------------------------------------------
// generator

func c23Respell(d []byte, how int) []byte {
	switch how {
	case 0:
		return append([]byte{0x4C, byte(len(d))}, d...)
	case 1:
		return append([]byte{0x4D, byte(len(d)), byte(len(d) >> 8)}, d...)
	default:
		return append([]byte{0x4E, byte(len(d)), byte(len(d) >> 8), 0, 0}, d...)
	}
}

type c23Edited struct {
	items [][]byte // m push, key pushes, n push (single: the key push)
	data  [][]byte // pushed data of each item (nil for PUSHn opcodes)
	term  byte
	log   []string
}

func (e *c23Edited) flat() []byte {
	var out []byte
	for _, it := range e.items {
		out = append(out, it...)
	}
	return append(out, e.term)
}

func c23AnyKey(t *rapid.T) *fix.ZooKey {
	kinds := fix.AllKinds()
	return fix.Key(kinds[rapid.IntRange(0, len(kinds)-1).Draw(t, "kind")], rapid.IntRange(0, 5).Draw(t, "idx"))
}

// c23GenPayload: something to insert; never empty.
func c23GenPayload(t *rapid.T, e *c23Edited) ([]byte, string) {
	switch rapid.IntRange(0, 7).Draw(t, "payload") {
	case 0:
		return rapid.SliceOfN(rapid.Byte(), 1, 6).Draw(t, "bytes"), "bytes"
	case 1:
		return []byte{rapid.SampledFrom([]byte{0x00, 0x01, 0x21, 0x4B, 0x4C, 0x4D, 0x4E, 0x4F, 0x50, 0x51, 0x52, 0x60, 0x61, 0x75, 0xAC, 0xAD, 0xAE, 0xAF, 0xFF}).Draw(t, "op")}, "opcode"
	case 2: // whole push of a key (one of the script's or another)
		if len(e.items) > 0 && rapid.Bool().Draw(t, "own") {
			return append([]byte{}, e.items[rapid.IntRange(0, len(e.items)-1).Draw(t, "item")]...), "own-item"
		}
		return c23PushBytes(nil, keypair.SerializePublicKey(c23AnyKey(t).PublicKey)), "key-push"
	case 3:
		return c23PushBytes(nil, rapid.SliceOfN(rapid.Byte(), 1, 40).Draw(t, "data")), "data-push"
	case 4:
		return []byte{e.term}, "terminator"
	case 5:
		return []byte{e.term ^ 0x02}, "other-terminator"
	case 6: // another complete script
		if rapid.Bool().Draw(t, "single") {
			return c23RefSingle(keypair.SerializePublicKey(c23AnyKey(t).PublicKey)), "single-script"
		}
		ks, _ := c23GenKeySet(t, 2)
		return c23RefMulti(c23SortedSer(c23Pubs(ks)), rapid.IntRange(1, 2).Draw(t, "m"), 2), "multi-script"
	default:
		return c23PushNum(nil, rapid.IntRange(0, 17).Draw(t, "num")), "num-push"
	}
}

const c23EditRule = "; structural edits: canonical single-key and m-of-n scripts (n 2..16) over every key kind as item lists, 0-2 item edits (key push / m push / n push repeated, an item dropped, moved or re-spelled with PUSHDATA1/2/4, a payload - bytes, opcode, whole key or data push, same / other terminator, number push, another complete single or multi script - inserted at an item boundary, terminator swapped) and optionally one tail edit (payload before the final terminator, or after the complete script followed by the terminator again), the final opcode always CHECKSIG / CHECKMULTISIG; judged by an independent grammar model (verdict, M, keys) for GetProgramInfo, GetParamInfo and RawSig.GetSig plus the model-free statements 'nothing follows a complete script' and 'nothing stands between the key push and CHECKSIG'; the model also judges every mutated / arbitrary script"

func TestC23_StructuralEdits(t *testing.T) {
	ev := harn.For("C23").Rule(c23Rule)
	ev.Floor("edit:rejected", "edit", 0.40)
	ev.Floor("edit:accepted", "edit", 0.08)
	ev.Floor("edit:tail=trail:single", "edit", 0.06)
	ev.Floor("edit:tail=trail:multi", "edit", 0.06)
	ev.Floor("edit:tail=inner:single", "edit", 0.04)
	ev.Floor("edit:metamorphic", "edit", 0.12)
	harn.Check(t, 1200, 40000, func(t *rapid.T) {
		e := &c23Edited{}
		var n, m int
		var desc string
		if rapid.IntRange(0, 4).Draw(t, "single") < 2 {
			k := c23AnyKey(t)
			n, m = 1, 1
			ser := keypair.SerializePublicKey(k.PublicKey)
			e.items, e.data, e.term = [][]byte{c23PushBytes(nil, ser)}, [][]byte{ser}, 0xAC
			desc = fmt.Sprintf("single %s%d", k.Kind, k.Idx)
		} else {
			n = rapid.OneOf(rapid.IntRange(2, 4), rapid.IntRange(2, 4), rapid.IntRange(2, 3), rapid.IntRange(2, 16)).Draw(t, "n")
			m = rapid.IntRange(1, n).Draw(t, "m")
			ks, d := c23GenKeySet(t, n)
			e.items, e.data = append(e.items, c23PushNum(nil, m)), append(e.data, nil)
			for _, ser := range c23SortedSer(c23Pubs(ks)) {
				e.items, e.data = append(e.items, c23PushBytes(nil, ser)), append(e.data, ser)
			}
			e.items, e.data = append(e.items, c23PushNum(nil, n)), append(e.data, nil)
			e.term = 0xAE
			desc = fmt.Sprintf("multi %d/%d %s", m, n, strings.TrimSpace(d))
		}
		single := n == 1
		insert := func(at int, it, d []byte) {
			e.items = append(e.items[:at:at], append([][]byte{it}, e.items[at:]...)...)
			e.data = append(e.data[:at:at], append([][]byte{d}, e.data[at:]...)...)
		}
		for i, edits := 0, rapid.SampledFrom([]int{0, 0, 1, 1, 1, 2}).Draw(t, "edits"); i < edits && len(e.items) > 0; i++ {
			at := rapid.IntRange(0, len(e.items)-1).Draw(t, "at")
			switch rapid.IntRange(0, 7).Draw(t, "edit") {
			case 0: // an item repeated next to itself or elsewhere (key push, m push, n push)
				to := at + 1
				if rapid.Bool().Draw(t, "elsewhere") {
					to = rapid.IntRange(0, len(e.items)).Draw(t, "to")
				}
				insert(to, e.items[at], e.data[at])
				e.log = append(e.log, fmt.Sprintf("repeat item %d at %d", at, to))
			case 1: // the m push or the n push repeated
				if !single {
					at = []int{0, len(e.items) - 1}[rapid.IntRange(0, 1).Draw(t, "which")]
				}
				insert(at, e.items[at], e.data[at])
				e.log = append(e.log, fmt.Sprintf("repeat m/n item %d", at))
			case 2: // an item dropped
				e.items = append(e.items[:at:at], e.items[at+1:]...)
				e.data = append(e.data[:at:at], e.data[at+1:]...)
				e.log = append(e.log, fmt.Sprintf("drop item %d", at))
			case 3, 4: // re-spelled push (stays well-formed when the data is a key or n)
				d := e.data[at]
				if d == nil && e.items[at][0] >= 0x51 && e.items[at][0] <= 0x60 {
					d = []byte{e.items[at][0] - 0x50}
					if rapid.Bool().Draw(t, "wide") {
						d = []byte{0, 0, d[0]}
					}
					e.items[at], e.data[at] = c23PushBytes(nil, d), d
					e.log = append(e.log, fmt.Sprintf("item %d number as data push", at))
				} else if d != nil {
					how := rapid.IntRange(0, 2).Draw(t, "how")
					e.items[at] = c23Respell(d, how)
					e.log = append(e.log, fmt.Sprintf("item %d re-spelled PUSHDATA%d", at, []int{1, 2, 4}[how]))
				}
			case 5: // payload at an item boundary
				p, name := c23GenPayload(t, e)
				to := rapid.IntRange(0, len(e.items)).Draw(t, "to")
				insert(to, p, nil)
				e.log = append(e.log, fmt.Sprintf("insert %s %x at %d", name, p, to))
			case 6: // two items exchanged
				to := rapid.IntRange(0, len(e.items)-1).Draw(t, "to")
				e.items[at], e.items[to] = e.items[to], e.items[at]
				e.data[at], e.data[to] = e.data[to], e.data[at]
				e.log = append(e.log, fmt.Sprintf("swap items %d and %d", at, to))
			default:
				e.term ^= 0x02
				e.log = append(e.log, "terminator swapped")
			}
		}
		pre := e.flat()
		script := pre
		tail := "none"
		var payload []byte
		if len(e.log) == 0 || rapid.Bool().Draw(t, "tailToo") {
			switch rapid.IntRange(0, 6).Draw(t, "tail") {
			case 0, 1, 2: // after the complete script, then the terminator again
				p, name := c23GenPayload(t, e)
				if name == "terminator" && rapid.Bool().Draw(t, "justOne") {
					p = nil // one duplicated trailing terminator
					name = "nothing"
				}
				payload = p
				script = append(append(append([]byte{}, pre...), p...), e.term)
				tail = "trail"
				e.log = append(e.log, fmt.Sprintf("then %s %x and the terminator again", name, p))
			case 3, 4: // before the final terminator
				p, name := c23GenPayload(t, e)
				payload = p
				script = append(append(append([]byte{}, pre[:len(pre)-1]...), p...), e.term)
				tail = "inner"
				e.log = append(e.log, fmt.Sprintf("%s %x before the final terminator", name, p))
			}
		}

		var info, preInfo program.ProgramInfo
		var err, preErr, perr, serr error
		var sigs [][]byte
		var sig types.Sig
		invoke := c23PushBytes(nil, bytes.Repeat([]byte{7}, 64))
		guard(t, fmt.Sprintf("parsers on %x", script), func() {
			if tail != "none" {
				preInfo, preErr = program.GetProgramInfo(append([]byte{}, pre...))
			}
			info, err = program.GetProgramInfo(append([]byte{}, script...))
			sigs, perr = program.GetParamInfo(append([]byte{}, script...))
			sig, serr = (&types.RawSig{Invoke: invoke, Verify: append([]byte{}, script...)}).GetSig()
		})
		how := strings.Join(e.log, "; ")
		if msg := c23AgainstModel(script, info, err, sigs, perr); msg != "" {
			t.Fatalf("%s\n base %s, edits: %s", msg, desc, how)
		}
		if (serr == nil) != (err == nil) || (serr == nil && (sig.M != info.M || len(sig.PubKeys) != len(info.PubKeys) || len(sig.SigData) != 1)) {
			t.Fatalf("RawSig.GetSig (err %v, %d-of-%d) disagrees with GetProgramInfo (err %v, %d-of-%d) on %x\n base %s, edits: %s", serr, sig.M, len(sig.PubKeys), err, info.M, len(info.PubKeys), script, desc, how)
		}
		if err == nil {
			if msg := c23Invariant(script, info); msg != "" {
				t.Fatalf("script %x: %s\n base %s, edits: %s", script, msg, desc, how)
			}
		}
		// model-free statements
		_ = preInfo
		if tail == "trail" && preErr == nil {
			ev.Class("edit:metamorphic")
			if err == nil {
				t.Fatalf("script %x is accepted (%d-of-%d) although it is the complete, accepted script %x followed by %x and the terminator again\n base %s, edits: %s", script, info.M, len(info.PubKeys), pre, payload, desc, how)
			}
		}
		if tail == "inner" && preErr == nil && pre[len(pre)-1] == 0xAC && len(payload) > 0 {
			ev.Class("edit:metamorphic")
			if err == nil {
				t.Fatalf("script %x is accepted although %x stands between the key push and CHECKSIG of the accepted script %x\n base %s, edits: %s", script, payload, pre, desc, how)
			}
		}

		ev.Class("edit")
		if err == nil {
			ev.Class("edit:accepted")
			if len(e.log) > 0 {
				ev.Class("edit:accepted:non-canonical")
			}
		} else {
			ev.Class("edit:rejected")
		}
		kind := "multi"
		if single {
			kind = "single"
		}
		ev.Class("edit:base=" + kind)
		if tail != "none" {
			ev.Class("edit:tail=" + tail + ":" + kind)
		}
		if len(e.log) == 0 {
			ev.Class("edit:canonical")
		}
		d := fmt.Sprintf("edit %s: %s", desc, how)
		if len(d) > 560 {
			d = d[:560] + fmt.Sprintf("..#%x", c19Sha256d([]byte(d)))[:24]
		}
		ev.Case(len(e.log) > 0, d)
	})
}
