package txpool

// C35 Proposed EVM transactions have consecutive nonces and no duplicates.
//
// Stateful histories against the REAL pool (txnpool/common.TXPool), the REAL proposer filter
// (validator/increment.IncrementValidator, window 20) and a REAL solo ledger published as
// ledger.DefLedger (both read account nonces and on-chain hashes through it).
//
// The node's actor / event-bus / worker-pool plumbing is replaced by synchronous mirrors of exactly
// the code that runs between them (no goroutine is started by a case):
//   admit      = txnpool/proc.TxPoolService.handleTransaction (already pooled, gas price floor, nonce >=
//                account nonce, balance >= cost, optional pre-execution)
//   stateful   = validator/stateful.ValidatorPool task (height := ledger height; not on chain; EVM nonce
//                >= account nonce; response carries height and account nonce)
//   deliver    = TXPoolServer.handleRsp + movePendingTxToPool (re-validate when the response is older than
//                the height the consensus last asked for, then TXPool.AddTxList)
//   propose    = solo.makeBlock / vbft.validHeight+makeProposal: validHeight from the validator's block
//                range (Clean() when it lags), TXPoolServer.getTxPool (setHeight, GetTxPool(true, h),
//                re-verify the expired ones), then IncrementValidator.Verify(tx, h, nonceCtx) in order
//   complete   = what the two subscribers of SaveBlockComplete do: IncrementValidator.AddBlock and
//                TXPoolServer.cleanTransactionList (CleanCompletedTransactionList, CleanStaledEIPTx and,
//                unless pre-execution is disabled, Remain() + re-verification of everything left)
//
// The two subscribers and the stateful validator's response channel are independent goroutines in the
// node, so the async profiles also generate (a) verification results that reach the pool LATE: a tx
// verified against height h is added to the pool after 0-2 further blocks and after the clean-up of a
// block (of another proposer) that contains that very tx; (b) the proposer-side duplicate filter in
// each of the states validHeight() distinguishes: window covers the last block (validHeight = window
// start), just reset / empty (Clean() by a restart), and "missed a block" (the validator never got the
// completion event of a block, every later AddBlock is refused as discontinuous until validHeight()
// notices end != height+1 and resets it; validHeight = ledger height, empty duplicate window); (c)
// GetTxPool is always called with exactly that validHeight, as solo.makeBlock / vbft.makeProposal do.
//
// Oracle (only what the property states), on EVERY proposal: no duplicate hash, nothing that is on
// chain, per EVM sender the nonces are accountNonce, +1, +2 ... in that order; on every accepted
// submission that displaced a pooled transaction of the same sender and nonce: the new gas price is
// strictly higher, the displaced hash has left the pool, and it is never proposed afterwards.

import (
	"bytes"
	"fmt"
	"math/big"
	"os"
	"path/filepath"
	"sort"
	"strings"
	"testing"

	ethcomm "github.com/ethereum/go-ethereum/common"
	ethtypes "github.com/ethereum/go-ethereum/core/types"
	"github.com/ontio/ontology/common"
	"github.com/ontio/ontology/common/config"
	"github.com/ontio/ontology/common/constants"
	"github.com/ontio/ontology/core/ledger"
	"github.com/ontio/ontology/core/types"
	"github.com/ontio/ontology/errors"
	nutils "github.com/ontio/ontology/smartcontract/service/native/utils"
	tc "github.com/ontio/ontology/txnpool/common"
	"github.com/ontio/ontology/validator/increment"
	"pgregory.net/rapid"

	"verifharness/internal/fix"
	"verifharness/internal/harn"
)

type c35Profile struct {
	name  string
	floor uint64 // the node's minimum gas price (config.Common.GasPrice and the genesis global parameter)
	small bool   // gas prices 1..150 (integer effects of the 1% bump rule) instead of floor..floor+2500
	async bool   // deferred delivery of verified txs, blocks of other proposers, interleaved completion handlers, validator restarts
}

type c35Entry struct {
	hash  common.Uint256
	price uint64
	vh    uint32
}

type c35Node struct {
	t  *rapid.T
	ev *harn.Collector
	p  c35Profile

	ch           *fix.Chain
	pool         *tc.TXPool
	iv           *increment.IncrementValidator
	preExec      bool   // TXPoolServer.disablePreExec == false
	serverHeight uint32 // TXPoolServer.height
	pending      []*tc.VerifiedTx

	senders []*fix.ZooKey
	sidx    map[common.Address]int
	natives []*fix.ZooKey

	// reference model, maintained from API results only
	evm      []map[uint64]*c35Entry
	native   map[common.Uint256]bool
	replaced map[common.Uint256]bool

	byHash  map[common.Uint256]*types.Transaction
	created []*types.Transaction
	variant int64

	log                   []string
	nRepl, nFill          int
	nontrivial            bool
	readding              bool
	forceDefer            bool // the next verification result stays in flight (actLateArrival)
	nProposals, nProposed int

	vhOf      map[common.Uint256]uint32 // VerifiedHeight the pool accepted a tx with (measurement only)
	nLateHard int                       // proposals that relied on the pool's expiry alone (see propose)
}

func (n *c35Node) logf(format string, a ...interface{}) {
	n.log = append(n.log, fmt.Sprintf(format, a...))
}

func (n *c35Node) history() string {
	s := strings.Join(n.log, " ")
	if len(s) > 3000 {
		s = "…" + s[len(s)-3000:]
	}
	return s
}

func (n *c35Node) fail(format string, a ...interface{}) {
	n.t.Fatalf("%s\nprofile=%s preExec=%v history: %s", fmt.Sprintf(format, a...), n.p.name, n.preExec, n.history())
}

func (n *c35Node) height() uint32 { return n.ch.LS.GetCurrentBlockHeight() }

func (n *c35Node) accountNonce(addr common.Address) uint64 {
	a, err := n.ch.LS.GetEthAccount(ethcomm.Address(addr))
	if err != nil {
		n.t.Fatalf("harness: GetEthAccount: %v", err)
	}
	return a.Nonce
}

func (n *c35Node) onChain(h common.Uint256) bool {
	ok, err := n.ch.LS.IsContainTransaction(h)
	if err != nil {
		n.t.Fatalf("harness: IsContainTransaction: %v", err)
	}
	return ok
}

func short(h common.Uint256) string { return h.ToHexString()[:6] }

// uniform draws an (almost exactly) uniform integer in [0, n): rapid's integer generators are
// deliberately biased towards small values, which would distort action weights and percentages.
func uniform(t *rapid.T, n int, label string) int {
	u := 0
	for i := 0; i < 10; i++ {
		if rapid.Bool().Draw(t, label) {
			u |= 1 << i
		}
	}
	return u * n / 1024
}

// ---------------------------------------------------------------------------------------------
// transactions

func (n *c35Node) remember(tx *types.Transaction) *types.Transaction {
	if _, ok := n.byHash[tx.Hash()]; !ok {
		n.byHash[tx.Hash()] = tx
		n.created = append(n.created, tx)
	}
	return n.byHash[tx.Hash()]
}

func (n *c35Node) newEvmTx(si int, nonce, price uint64) *types.Transaction {
	n.variant++
	gp := new(big.Int).Mul(new(big.Int).SetUint64(price), big.NewInt(constants.GWei))
	to := ethcomm.Address{0xee, byte(n.variant % 5)}
	etx := ethtypes.NewTransaction(nonce, to, big.NewInt(n.variant), 21000, gp, nil)
	signer := ethtypes.NewEIP155Signer(big.NewInt(int64(config.DefConfig.P2PNode.EVMChainId)))
	signed, err := ethtypes.SignTx(etx, signer, n.senders[si].EthECDSA())
	if err != nil {
		n.t.Fatalf("harness: SignTx: %v", err)
	}
	tx, err := types.TransactionFromEIP155(signed)
	if err != nil {
		n.t.Fatalf("harness: TransactionFromEIP155: %v", err)
	}
	if tx.Payer != n.senders[si].Address {
		n.t.Fatalf("harness: payer %x != zoo address %x", tx.Payer, n.senders[si].Address)
	}
	return n.remember(tx)
}

func (n *c35Node) newNativeTx(from, to int, price uint64) *types.Transaction {
	tx, err := n.ch.Transfer(nutils.OngContractAddress, n.natives[from], n.natives[to].Address, 1, price, 20000)
	if err != nil {
		n.t.Fatalf("harness: native transfer: %v", err)
	}
	return n.remember(tx)
}

// ---------------------------------------------------------------------------------------------
// mirrors of the node's plumbing

// preExecCheck mirrors txnpool/proc.preExecCheck.
func (n *c35Node) preExecCheck(tx *types.Transaction) bool {
	res, err := ledger.DefLedger.PreExecuteContract(tx)
	if err != nil || res == nil {
		return false
	}
	if tx.GasLimit < res.Gas {
		return false
	}
	gas, overflow := common.SafeMul(tx.GasPrice, res.Gas)
	if overflow {
		return false
	}
	bal, err := tc.GetOngBalance(tx.Payer)
	if err != nil {
		return false
	}
	units := new(big.Int).Div(bal, big.NewInt(constants.GWei))
	if !units.IsUint64() {
		return true
	}
	return units.Uint64() >= gas
}

func (n *c35Node) isPending(h common.Uint256) bool {
	for _, p := range n.pending {
		if p.Tx.Hash() == h {
			return true
		}
	}
	return false
}

// submit mirrors TxPoolService.handleTransaction followed by TXPoolServer.startTxVerify.
func (n *c35Node) submit(tx *types.Transaction) {
	n.ev.Class("submit")
	h := tx.Hash()
	if n.pool.GetTransaction(h) != nil {
		n.ev.Class("admit:already-in-pool")
		return
	}
	if tx.GasLimit < config.DefConfig.Common.MinGasLimit || tx.GasPrice < n.p.floor {
		n.ev.Class("admit:below-price-floor")
		return
	}
	if tx.IsEipTx() {
		if uint64(tx.Nonce) < n.accountNonce(tx.Payer) {
			n.ev.Class("admit:nonce-below-account")
			return
		}
		bal, err := tc.GetOngBalance(tx.Payer)
		if err != nil || bal.Cmp(tx.Cost()) < 0 {
			n.ev.Class("admit:balance")
			return
		}
	}
	if n.preExec && !n.preExecCheck(tx) {
		n.ev.Class("admit:preexec-failed")
		return
	}
	if n.isPending(h) { // setPendingTx
		n.ev.Class("admit:already-pending")
		return
	}
	n.verifyAndQueue(tx)
}

// stateful mirrors the task of validator/stateful.ValidatorPool.SubmitVerifyTask.
func (n *c35Node) stateful(tx *types.Transaction) (*tc.VerifiedTx, string) {
	height := ledger.DefLedger.GetCurrentBlockHeight()
	exist, err := ledger.DefLedger.IsContainTransaction(tx.Hash())
	if err != nil {
		return nil, "unknown"
	}
	if exist {
		return nil, "on-chain"
	}
	v := &tc.VerifiedTx{Tx: tx, VerifiedHeight: height}
	if tx.IsEipTx() {
		acct, err := ledger.DefLedger.GetEthAccount(ethcomm.Address(tx.Payer))
		if err != nil {
			return nil, "no-account"
		}
		if uint64(tx.Nonce) < acct.Nonce {
			return nil, "nonce-below-account"
		}
		v.Nonce = acct.Nonce
	}
	return v, ""
}

func (n *c35Node) verifyAndQueue(tx *types.Transaction) {
	v, why := n.stateful(tx)
	if v == nil {
		n.ev.Class("stateful:" + why)
		return
	}
	if n.p.async && (n.forceDefer || uniform(n.t, 100, "defer") < 30) {
		n.pending = append(n.pending, v)
		n.ev.Class("verified:deferred")
		n.logf("(defer %s@%d)", short(tx.Hash()), v.VerifiedHeight)
		return
	}
	n.deliver(v)
}

// reVerify mirrors TXPoolServer.reVerifyStateful.
func (n *c35Node) reVerify(tx *types.Transaction) {
	if n.isPending(tx.Hash()) {
		return
	}
	n.verifyAndQueue(tx)
}

// deliver mirrors TXPoolServer.handleRsp (stateful response; the stateless one passed long ago)
// and movePendingTxToPool, and carries the replacement oracle.
func (n *c35Node) deliver(v *tc.VerifiedTx) {
	tx := v.Tx
	if v.VerifiedHeight < n.serverHeight {
		// "If validator's height is less than the required one, re-validate it."
		n.ev.Class("deliver:revalidated")
		v2, why := n.stateful(tx)
		if v2 == nil {
			n.ev.Class("stateful:" + why)
			n.logf("(drop %s %s)", short(tx.Hash()), why)
			return
		}
		v = v2
	}
	h := tx.Hash()
	var old *c35Entry
	var gapBefore bool
	si := -1
	if tx.IsEipTx() {
		si = n.sidx[tx.Payer]
		old = n.evm[si][uint64(tx.Nonce)]
		if old == nil {
			for k := range n.evm[si] {
				if k > uint64(tx.Nonce) {
					gapBefore = true
				}
			}
		}
	}
	code := n.pool.AddTxList(v)
	n.ev.Class("deliver")
	if code != errors.ErrNoError {
		n.ev.Class("deliver:" + code.Error())
		n.logf("(add %s: %s)", short(h), code.Error())
		return
	}
	n.ev.Class("deliver:accepted")
	n.vhOf[h] = v.VerifiedHeight
	if n.onChain(h) {
		// the verification result is older than the block that committed the tx
		n.ev.Class("deliver:accepted-although-on-chain")
	}
	delete(n.replaced, h)
	if !tx.IsEipTx() {
		n.native[h] = true
		return
	}
	if old != nil && old.hash != h {
		n.nRepl++
		n.ev.Class("deliver:replaced")
		if tx.GasPrice*100 > old.price*101 {
			n.ev.Class("replace:above-1pct")
		}
		n.logf("(REPL %s p%d -> %s p%d)", short(old.hash), old.price, short(h), tx.GasPrice)
		if !(tx.GasPrice > old.price) {
			n.fail("replacement without a higher gas price: sender %d nonce %d: pooled tx %s (gas price %d) was replaced by %s (gas price %d)",
				si, tx.Nonce, old.hash.ToHexString(), old.price, h.ToHexString(), tx.GasPrice)
		}
		if n.pool.GetTransaction(old.hash) != nil {
			n.fail("replaced tx %s (sender %d nonce %d) is still in the pool after %s took its place", old.hash.ToHexString(), si, tx.Nonce, h.ToHexString())
		}
		n.replaced[old.hash] = true
	} else if old == nil && gapBefore && !n.readding {
		n.nFill++
		n.ev.Class("deliver:gapfill")
		n.logf("(FILL s%d n%d)", si, tx.Nonce)
	}
	n.evm[si][uint64(tx.Nonce)] = &c35Entry{hash: h, price: tx.GasPrice, vh: v.VerifiedHeight}
}

func (n *c35Node) modelRemove(tx *types.Transaction) {
	h := tx.Hash()
	delete(n.native, h)
	if tx.IsEipTx() {
		si := n.sidx[tx.Payer]
		if e := n.evm[si][uint64(tx.Nonce)]; e != nil && e.hash == h {
			delete(n.evm[si], uint64(tx.Nonce))
		}
	}
}

// resync drops model entries the pool no longer reports.
func (n *c35Node) resync() {
	for si := range n.evm {
		for k, e := range n.evm[si] {
			if n.pool.GetTransaction(e.hash) == nil {
				delete(n.evm[si], k)
			}
		}
	}
	for h := range n.native {
		if n.pool.GetTransaction(h) == nil {
			delete(n.native, h)
		}
	}
}

func sortTxs(txs []*types.Transaction) {
	sort.Slice(txs, func(i, j int) bool {
		a, b := txs[i].Hash(), txs[j].Hash()
		return bytes.Compare(a[:], b[:]) < 0
	})
}

// propose mirrors solo.makeBlock / vbft.validHeight + makeProposal and checks the proposal.
func (n *c35Node) propose(tag string) []*types.Transaction {
	height := n.height()
	validHeight := height
	start, end := n.iv.BlockRange()
	covers := height+1 == end
	if covers {
		validHeight = start
		n.ev.Class("propose:window-covers-last-block")
	} else {
		n.iv.Clean()
		n.ev.Class("propose:validator-lagging")
		if end == 0 {
			n.ev.Class("propose:validator-empty(reset)")
		} else {
			n.ev.Class("propose:validator-behind(missed-block)")
		}
	}
	n.ev.Class("proposal")
	// measurement: is the pool holding a tx that is already on chain (a late verification result), and is
	// the validator's duplicate window unable to catch it (so that only the pool's expiry rule and the
	// nonce check stand between it and the block)?
	{
		stale, hard, boundary := false, false, false
		for _, h := range n.pool.GetTransactionHashList() {
			if !n.onChain(h) {
				continue
			}
			stale = true
			if !covers {
				hard = true
				if vh, ok := n.vhOf[h]; ok && vh+1 == validHeight && !n.byHash[h].IsEipTx() {
					boundary = true
				}
			}
		}
		if stale {
			n.ev.Class("proposal:pool-holds-on-chain-tx")
		}
		if hard {
			n.ev.Class("proposal:pool-holds-on-chain-tx,window-empty")
			n.nLateHard++
		}
		if boundary {
			n.ev.Class("proposal:on-chain-native-verified-at-validHeight-1,window-empty")
		}
	}
	// TXPoolServer.getTxPool
	if validHeight != 0 {
		n.serverHeight = validHeight
	}
	valid, old := n.pool.GetTxPool(true, validHeight)
	old = append([]*types.Transaction{}, old...)
	sortTxs(old)
	for _, tx := range old {
		n.modelRemove(tx)
		n.ev.Class("pool:expired")
	}
	// diagnostic only (not asserted, the property speaks about what reaches a block): does the pool hand
	// over a sender's run with a hole although nothing of that sender expired in this call?
	{
		expired := map[common.Address]bool{}
		for _, tx := range old {
			if tx.IsEipTx() {
				expired[tx.Payer] = true
			}
		}
		last := map[common.Address]uint64{}
		dupP := map[common.Uint256]bool{}
		for _, e := range valid {
			if dupP[e.Tx.Hash()] {
				n.ev.Class("poolstage:duplicate-candidate")
			}
			dupP[e.Tx.Hash()] = true
			if !e.Tx.IsEipTx() {
				continue
			}
			if prev, ok := last[e.Tx.Payer]; ok && uint64(e.Tx.Nonce) != prev+1 && !expired[e.Tx.Payer] {
				n.ev.Class("poolstage:hole-in-candidate-run")
			}
			last[e.Tx.Payer] = uint64(e.Tx.Nonce)
		}
	}
	nonceCtx := make(map[common.Address]uint64)
	var out []*types.Transaction
	for _, e := range valid {
		if err := n.iv.Verify(e.Tx, validHeight, nonceCtx); err == nil {
			out = append(out, e.Tx)
		} else {
			n.ev.Class("filter:rejected")
		}
	}
	n.ev.ClassN("filter:accepted", int64(len(out)))

	// ---- oracle
	n.nProposals++
	n.nProposed += len(out)
	seen := map[common.Uint256]bool{}
	count := map[int]uint64{}
	evmN := 0
	var desc []string
	for _, tx := range out {
		if tx.IsEipTx() {
			desc = append(desc, fmt.Sprintf("s%d:n%d:%s", n.sidx[tx.Payer], tx.Nonce, short(tx.Hash())))
		} else {
			desc = append(desc, "nat:"+short(tx.Hash()))
		}
	}
	for _, tx := range out {
		h := tx.Hash()
		if seen[h] {
			n.fail("proposal for height %d (validHeight %d) contains tx %s twice: %v", height+1, validHeight, h.ToHexString(), desc)
		}
		seen[h] = true
		if n.onChain(h) {
			n.fail("proposal for height %d (validHeight %d) contains tx %s which is already on chain: %v", height+1, validHeight, h.ToHexString(), desc)
		}
		if n.replaced[h] {
			n.fail("proposal for height %d contains tx %s which was replaced in the pool: %v", height+1, h.ToHexString(), desc)
		}
		if tx.IsEipTx() {
			si := n.sidx[tx.Payer]
			want := n.accountNonce(tx.Payer) + count[si]
			if uint64(tx.Nonce) != want {
				n.fail("proposal for height %d (validHeight %d): sender %d account nonce %d, position %d of its run has nonce %d, want %d: %v",
					height+1, validHeight, si, n.accountNonce(tx.Payer), count[si], tx.Nonce, want, desc)
			}
			count[si]++
			evmN++
		}
	}
	if evmN > 0 {
		n.ev.Class("proposal:with-evm")
		if n.nRepl > 0 && n.nFill > 0 {
			n.nontrivial = true
		}
		runs := 0
		for _, c := range count {
			if c >= 2 {
				runs++
			}
		}
		if runs > 0 {
			n.ev.Class("proposal:run>=2")
		}
	} else if len(out) > 0 {
		n.ev.Class("proposal:native-only")
	} else {
		n.ev.Class("proposal:empty")
	}
	sorted := append([]string{}, desc...) // the order across senders depends on map iteration inside GetTxPool
	sort.Strings(sorted)
	n.logf("%s@%d/%d%v", tag, height+1, validHeight, sorted)

	// getTxPool re-verifies what expired (asynchronously in the node; it cannot reach this proposal)
	for _, tx := range old {
		n.reVerify(tx)
	}
	return out
}

// cleanTransactionList mirrors TXPoolServer.cleanTransactionList.
func (n *c35Node) cleanTransactionList(txs []*types.Transaction, height uint32) {
	n.pool.CleanCompletedTransactionList(txs, height)
	n.pool.CleanStaledEIPTx(height)
	// height%UPDATE_FREQUENCY: the gas price parameter never changes here, nothing is removed
	if n.preExec && len(txs) != 0 {
		remain := n.pool.Remain()
		sortTxs(remain)
		for si := range n.evm {
			n.evm[si] = map[uint64]*c35Entry{}
		}
		n.native = map[common.Uint256]bool{}
		n.readding = true // the pool is being refilled with what it held: not a submission filling a gap
		for _, tx := range remain {
			if !n.preExecCheck(tx) {
				n.ev.Class("remain:preexec-failed")
				continue
			}
			n.reVerify(tx)
		}
		n.readding = false
	}
	n.resync()
}

// complete is what the node does when the ledger reports a saved block.
func (n *c35Node) complete(b *types.Block) {
	order := 0
	if n.p.async {
		order = uniform(n.t, 8, "completion-order")
	}
	switch order {
	case 4: // pool cleaned first, late verification results and a proposal attempt in between
		n.cleanTransactionList(b.Transactions, b.Header.Height)
		n.lateDeliveries(b)
		n.ev.Class("complete:propose-between(clean,addblock)")
		n.propose("Pmid")
		n.addBlock(b)
	case 6: // the validator never gets this block's completion event
		n.cleanTransactionList(b.Transactions, b.Header.Height)
		n.lateDeliveries(b)
		n.ev.Class("complete:validator-missed-block")
		n.logf("(miss %d)", b.Header.Height)
	case 5: // validator first, a proposal attempt before the pool is cleaned
		n.addBlock(b)
		n.ev.Class("complete:propose-between(addblock,clean)")
		n.propose("Pmid")
		n.cleanTransactionList(b.Transactions, b.Header.Height)
	case 3:
		n.cleanTransactionList(b.Transactions, b.Header.Height)
		n.lateDeliveries(b)
		n.addBlock(b)
	default:
		n.addBlock(b)
		n.cleanTransactionList(b.Transactions, b.Header.Height)
	}
}

// addBlock is the validator's SaveBlockComplete handler; it counts the blocks the real validator refuses
// as discontinuous (it missed an earlier one and nobody has reset it yet).
func (n *c35Node) addBlock(b *types.Block) {
	_, end := n.iv.BlockRange()
	if end != 0 && end != b.Header.Height {
		n.ev.Class("validator:addblock-refused-discontinuous")
	}
	n.iv.AddBlock(b)
}

// lateDeliveries: verification results that were in flight while block b was saved reach the pool right
// after the pool's clean-up for b (the response channel and the completion handler are different
// goroutines): mostly those of txs that b itself contains.
func (n *c35Node) lateDeliveries(b *types.Block) {
	if len(n.pending) == 0 {
		return
	}
	in := map[common.Uint256]bool{}
	for _, tx := range b.Transactions {
		in[tx.Hash()] = true
	}
	var keep, arrived []*tc.VerifiedTx
	for _, v := range n.pending {
		pct := 10
		if in[v.Tx.Hash()] {
			pct = 60
		}
		if uniform(n.t, 100, "late-delivery") < pct {
			arrived = append(arrived, v)
		} else {
			keep = append(keep, v)
		}
	}
	n.pending = keep
	for _, v := range arrived {
		n.ev.Class("deliver:right-after-cleanup")
		if in[v.Tx.Hash()] {
			n.ev.Class("deliver:right-after-cleanup-of-its-own-block")
		}
		n.logf("D' %s@%d", short(v.Tx.Hash()), v.VerifiedHeight)
		n.deliver(v)
	}
}

func (n *c35Node) commit(txs []*types.Transaction, own bool) {
	b, err := n.ch.MakeBlock(txs, 0)
	if err != nil {
		n.t.Fatalf("harness: MakeBlock: %v", err)
	}
	if _, err := n.ch.Apply(b); err != nil {
		if own {
			n.fail("the ledger rejects the block built from the proposal for height %d: %v", b.Header.Height, err)
		}
		n.t.Fatalf("harness: generated foreign block rejected: %v\nhistory: %s", err, n.history())
	}
	n.complete(b)
}

// ---------------------------------------------------------------------------------------------
// generator

func (n *c35Node) drawPrice() uint64 {
	if n.p.small {
		return rapid.Uint64Range(1, 150).Draw(n.t, "price")
	}
	if rapid.Bool().Draw(n.t, "round") {
		return n.p.floor + rapid.SampledFrom([]uint64{0, 0, 100, 500, 2000}).Draw(n.t, "price")
	}
	return n.p.floor + rapid.Uint64Range(0, 2500).Draw(n.t, "price")
}

func (n *c35Node) pooledKeys() [][2]uint64 {
	var ks [][2]uint64
	for si := range n.evm {
		for k := range n.evm[si] {
			ks = append(ks, [2]uint64{uint64(si), k})
		}
	}
	sort.Slice(ks, func(i, j int) bool {
		if ks[i][0] != ks[j][0] {
			return ks[i][0] < ks[j][0]
		}
		return ks[i][1] < ks[j][1]
	})
	return ks
}

func (n *c35Node) actSubmitNew() {
	si := uniform(n.t, len(n.senders), "sender")
	base := n.accountNonce(n.senders[si].Address)
	var nonce uint64
	switch k := uniform(n.t, 100, "nonce-kind"); {
	case k < 45: // lowest free nonce: extends the run or fills its first gap
		nonce = base
		for n.evm[si][nonce] != nil {
			nonce++
		}
	case k < 80:
		nonce = base + uint64(uniform(n.t, 7, "offset"))
	default: // beyond the highest pooled nonce: opens a gap
		nonce = base + 1
		for k := range n.evm[si] {
			if k+2 > nonce {
				nonce = k + 2
			}
		}
		if nonce > base+6 {
			nonce = base + 6
		}
	}
	price := n.drawPrice()
	tx := n.newEvmTx(si, nonce, price)
	n.logf("S s%d n%d p%d %s", si, nonce, price, short(tx.Hash()))
	n.ev.Class("act:submit-new")
	n.submit(tx)
}

func (n *c35Node) actResubmit() {
	ks := n.pooledKeys()
	if len(ks) == 0 {
		n.actSubmitNew()
		return
	}
	k := ks[uniform(n.t, len(ks), "pooled")]
	si, nonce := int(k[0]), k[1]
	old := n.evm[si][nonce]
	kind := []string{"lower", "equal", "bump", "bump+1", "+2%", "x2", "x10"}[uniform(n.t, 7, "price-kind")]
	var price uint64
	switch kind {
	case "lower":
		price = old.price / 2
		if old.price > 0 && rapid.Bool().Draw(n.t, "minus-one") {
			price = old.price - 1
		}
	case "equal":
		price = old.price
	case "bump": // the largest price the 1% rule still refuses
		price = old.price * 101 / 100
	case "bump+1":
		price = old.price*101/100 + 1
	case "+2%":
		price = old.price * 102 / 100
	case "x2":
		price = old.price * 2
	default:
		price = old.price * 10
	}
	if price > 1000000 { // keep the sum of all fees far below the funded balance: the property is not about balances
		price = 1000000
	}
	tx := n.newEvmTx(si, nonce, price)
	n.logf("R s%d n%d %s:p%d(old p%d) %s", si, nonce, kind, price, old.price, short(tx.Hash()))
	n.ev.Class("act:resubmit:" + kind)
	n.submit(tx)
}

func (n *c35Node) actNative() {
	from := uniform(n.t, len(n.natives), "from")
	price := n.drawPrice()
	tx := n.newNativeTx(from, (from+1)%len(n.natives), price)
	n.logf("N p%d %s", price, short(tx.Hash()))
	n.ev.Class("act:submit-native")
	n.submit(tx)
}

func (n *c35Node) actRebroadcast() {
	if len(n.created) == 0 {
		n.actSubmitNew()
		return
	}
	tx := n.created[uniform(n.t, len(n.created), "old-tx")]
	n.logf("B %s", short(tx.Hash()))
	n.ev.Class("act:rebroadcast")
	n.submit(tx)
}

func (n *c35Node) actAdvance() {
	k := []int{1, 1, 2, 3, 21, 30}[uniform(n.t, 6, "empty-blocks")]
	n.logf("A+%d", k)
	n.ev.Class("act:advance")
	for i := 0; i < k; i++ {
		n.commit(nil, false)
	}
}

func (n *c35Node) actDeliver() {
	if len(n.pending) == 0 {
		n.actSubmitNew()
		return
	}
	i := uniform(n.t, len(n.pending), "pending")
	v := n.pending[i]
	n.pending = append(n.pending[:i:i], n.pending[i+1:]...)
	n.logf("D %s@%d", short(v.Tx.Hash()), v.VerifiedHeight)
	n.ev.Class("act:deliver-deferred")
	if v.VerifiedHeight < n.height() {
		n.ev.Class("deliver:older-than-ledger")
	}
	n.deliver(v)
}

// actForeign commits a block made by another proposer: for some senders a run starting at the account
// nonce whose members are the pooled tx, a deferred one, or a tx this node never saw; plus native txs.
func (n *c35Node) actForeign() {
	var txs []*types.Transaction
	used := map[common.Uint256]bool{}
	for si := range n.senders {
		k := uniform(n.t, 4, "run")
		base := n.accountNonce(n.senders[si].Address)
		for j := 0; j < k; j++ {
			nonce := base + uint64(j)
			var tx *types.Transaction
			src := uniform(n.t, 100, "source")
			if e := n.evm[si][nonce]; e != nil && src < 55 {
				tx = n.byHash[e.hash]
			}
			if tx == nil && src < 80 {
				for _, p := range n.pending {
					if p.Tx.IsEipTx() && p.Tx.Payer == n.senders[si].Address && uint64(p.Tx.Nonce) == nonce {
						tx = p.Tx
						break
					}
				}
			}
			if tx == nil || n.onChain(tx.Hash()) || used[tx.Hash()] {
				tx = n.newEvmTx(si, nonce, n.drawPrice())
			}
			used[tx.Hash()] = true
			txs = append(txs, tx)
		}
	}
	var nat []common.Uint256
	for h := range n.native {
		nat = append(nat, h)
	}
	for _, p := range n.pending { // verified here, not yet in the pool, and already known to the other proposer
		if !p.Tx.IsEipTx() {
			nat = append(nat, p.Tx.Hash())
		}
	}
	sort.Slice(nat, func(i, j int) bool { return bytes.Compare(nat[i][:], nat[j][:]) < 0 })
	for j := uniform(n.t, 3, "natives"); j > 0; j-- {
		var tx *types.Transaction
		if len(nat) > 0 && rapid.Bool().Draw(n.t, "pooled-native") {
			tx = n.byHash[nat[uniform(n.t, len(nat), "which")]]
		}
		if tx == nil || n.onChain(tx.Hash()) || used[tx.Hash()] {
			tx = n.newNativeTx(0, 1, n.drawPrice())
		}
		used[tx.Hash()] = true
		txs = append(txs, tx)
	}
	var d []string
	for _, tx := range txs {
		d = append(d, short(tx.Hash()))
	}
	n.logf("F%v", d)
	n.ev.Class("act:foreign-block")
	n.commit(txs, false)
}

// actLateArrival: a verification result that is still on its way to the pool (an existing deferred one,
// or that of a tx submitted right now: native, or EVM at the sender's account nonce) is overtaken by
// 0-2 empty blocks and then by a block of another proposer that contains that very tx; it arrives after
// that block's clean-up. The validator's view of that block is drawn by complete() (seen / seen late /
// missed) and a restart may follow.
func (n *c35Node) actLateArrival() {
	var cands []int
	for i, p := range n.pending {
		if n.onChain(p.Tx.Hash()) {
			continue
		}
		if !p.Tx.IsEipTx() || uint64(p.Tx.Nonce) == n.accountNonce(p.Tx.Payer) {
			cands = append(cands, i)
		}
	}
	var v *tc.VerifiedTx
	if len(cands) > 0 && uniform(n.t, 100, "late-source") < 40 {
		v = n.pending[cands[uniform(n.t, len(cands), "late")]]
		n.ev.Class("late:deferred-earlier")
	} else {
		var tx *types.Transaction
		if rapid.Bool().Draw(n.t, "late-native") {
			from := uniform(n.t, len(n.natives), "from")
			tx = n.newNativeTx(from, (from+1)%len(n.natives), n.drawPrice())
			n.ev.Class("late:fresh-native")
		} else {
			si := uniform(n.t, len(n.senders), "sender")
			tx = n.newEvmTx(si, n.accountNonce(n.senders[si].Address), n.drawPrice())
			n.ev.Class("late:fresh-evm")
		}
		n.logf("S' %s", short(tx.Hash()))
		n.forceDefer = true
		n.submit(tx)
		n.forceDefer = false
		for _, p := range n.pending {
			if p.Tx.Hash() == tx.Hash() {
				v = p
			}
		}
		if v == nil { // not admitted (price floor, balance, pre-execution, same hash already pooled)
			n.ev.Class("late:not-admitted")
			return
		}
	}
	n.ev.Class("act:late-arrival")
	gap := []int{0, 0, 0, 0, 1, 2}[uniform(n.t, 6, "late-gap")]
	n.logf("L %s@%d+%d", short(v.Tx.Hash()), v.VerifiedHeight, gap)
	for i := 0; i < gap; i++ {
		n.commit(nil, false)
	}
	if n.onChain(v.Tx.Hash()) || (v.Tx.IsEipTx() && uint64(v.Tx.Nonce) != n.accountNonce(v.Tx.Payer)) {
		n.t.Fatalf("harness: late-arrival candidate changed under empty blocks")
	}
	n.commit([]*types.Transaction{v.Tx}, false)
	for i, p := range n.pending { // unless complete() already let it arrive
		if p == v {
			n.pending = append(n.pending[:i:i], n.pending[i+1:]...)
			n.ev.Class("deliver:right-after-cleanup")
			n.ev.Class("deliver:right-after-cleanup-of-its-own-block")
			n.deliver(v)
			break
		}
	}
	if uniform(n.t, 100, "late-restart") < 30 {
		n.ev.Class("act:validator-restart")
		n.logf("X")
		n.iv.Clean()
	}
}

func (n *c35Node) step() {
	type wa struct {
		w int
		f func()
	}
	acts := []wa{
		{30, n.actSubmitNew},
		{20, n.actResubmit},
		{7, n.actNative},
		{5, n.actRebroadcast},
		{5, n.actAdvance},
		{8, func() { n.ev.Class("act:propose-only"); n.propose("P") }},
		{20, func() { n.ev.Class("act:propose-commit"); n.commit(n.propose("PC"), true) }},
	}
	if n.p.async {
		acts = append(acts,
			wa{12, n.actDeliver},
			wa{9, n.actForeign},
			wa{8, n.actLateArrival},
			wa{4, func() { n.ev.Class("act:validator-restart"); n.logf("X"); n.iv.Clean() }},
		)
	}
	total := 0
	for _, a := range acts {
		total += a.w
	}
	r := uniform(n.t, total, "action")
	for _, a := range acts {
		if r < a.w {
			a.f()
			return
		}
		r -= a.w
	}
}

// ---------------------------------------------------------------------------------------------

func c35Run(t *testing.T, p c35Profile, quick, thorough int) {
	ev := harn.For("C35").
		Rule("histories (avg 30 steps) over 3 funded EVM senders + 2 native senders on a fresh solo ledger with drawn initial account nonces (0-2): submit (lowest free nonce / account nonce+0..6 / beyond the highest pooled), resubmit a pooled nonce at lower/equal/1%-threshold/threshold+1/+2%/x2/x10 price, native txs, rebroadcast of any earlier tx, 1-30 empty blocks (validator window 20 => expiry), propose, propose+commit; async profiles add deferred delivery of verified txs, blocks of other proposers (pooled, deferred or unseen txs), LATE verification results (a deferred or just-submitted native / account-nonce EVM tx verified at height h is overtaken by 0-2 empty blocks and by a foreign block containing that very tx and reaches the pool right after that block's clean-up; any in-flight result may also arrive between a block's pool clean-up and the proposer's next attempt), the proposer's IncrementValidator in every state validHeight() distinguishes (window covers the last block / empty after a restart / missed a block's completion event so later AddBlocks are refused as discontinuous until validHeight() resets it), completion handlers in either order with a proposal in between. GetTxPool is always called with the validHeight solo.makeBlock / vbft.makeProposal compute from the validator's block range. Every proposal is checked (no duplicate, nothing on the ledger, EVM runs consecutive from the account nonce); measured: proposals made while the pool holds an on-chain tx and the duplicate window is empty (only the pool's expiry rule and the nonce check can keep it out). Non-trivial = history in which a proposal containing EVM txs was made after >=1 replacement and >=1 gap fill; distinct by the operation log").
		Assume("the synchronous mirrors of handleTransaction / stateful validator / handleRsp / getTxPool / makeProposal / cleanTransactionList in the harness match the node's plumbing (read from the source; the actor, event bus and worker pools are not started)").
		Assume("the stateless validator (signatures) accepted every submitted tx: all generated txs are correctly signed")
	ev.Floor("deliver:replaced", "deliver", 0.03)
	ev.Floor("deliver:gapfill", "deliver", 0.03)
	ev.Floor("proposal:with-evm", "act:propose-commit", 0.3)
	ev.Floor("history:nontrivial", "history", 0.25)
	if p.async {
		// the late-result x validator-state classes the "nothing already on chain" clause relies on
		ev.Floor("propose:validator-empty(reset)", "proposal", 0.05)
		ev.Floor("propose:validator-behind(missed-block)", "proposal", 0.07)
		ev.Floor("proposal:pool-holds-on-chain-tx", "proposal", 0.05)
		ev.Floor("proposal:pool-holds-on-chain-tx,window-empty", "proposal", 0.02)
		ev.Floor("proposal:on-chain-native-verified-at-validHeight-1,window-empty", "proposal", 0.001)
		ev.Floor("deliver:right-after-cleanup-of-its-own-block", "act:late-arrival", 0.5)
	}

	bk := fix.Key(fix.KP256, 0)
	config.DefConfig.Common.GasPrice = p.floor
	harn.CheckSteps(t, 30, quick, thorough, func(t *rapid.T) {
		base, err := os.MkdirTemp("", "c35-")
		if err != nil {
			t.Fatal(err)
		}
		defer os.RemoveAll(base)
		ch, err := fix.NewSolo(filepath.Join(base, "ledger"), bk)
		if err != nil {
			t.Fatal(err)
		}
		ledger.DefLedger = &ledger.Ledger{LedgerStore: ch.LS}
		defer func() { ledger.DefLedger = nil; ch.Close() }()

		n := &c35Node{t: t, ev: ev, p: p, ch: ch, pool: tc.NewTxPool(), iv: increment.NewIncrementValidator(20),
			sidx: map[common.Address]int{}, native: map[common.Uint256]bool{}, replaced: map[common.Uint256]bool{},
			byHash: map[common.Uint256]*types.Transaction{}, vhOf: map[common.Uint256]uint32{}}
		for i := 0; i < 3; i++ {
			k := fix.Key(fix.KEth, i)
			n.senders = append(n.senders, k)
			n.sidx[k.Address] = i
			n.evm = append(n.evm, map[uint64]*c35Entry{})
		}
		n.natives = []*fix.ZooKey{fix.Key(fix.KP256, 1), fix.Key(fix.KP256, 2)}
		n.preExec = rapid.Bool().Draw(t, "pre-exec-enabled")

		// funding: real blocks
		var fund []*types.Transaction
		for _, k := range append(append([]*fix.ZooKey{}, n.senders...), n.natives...) {
			tx, err := ch.Transfer(nutils.OngContractAddress, bk, k.Address, 1_000_000_000_000_000, 0, 20000)
			if err != nil {
				t.Fatal(err)
			}
			fund = append(fund, tx)
		}
		if _, res, err := ch.AddTxs(fund); err != nil {
			t.Fatalf("harness: funding block: %v", err)
		} else {
			for _, nt := range res.Notify {
				if nt.State != 1 {
					t.Fatalf("harness: funding transfer failed")
				}
			}
		}
		// drawn initial account nonces
		var warm []*types.Transaction
		var init []int
		for si := range n.senders {
			k := uniform(t, 3, "initial-nonce")
			init = append(init, k)
			for j := 0; j < k; j++ {
				warm = append(warm, n.newEvmTx(si, uint64(j), 1+p.floor))
			}
		}
		if len(warm) > 0 {
			if _, _, err := ch.AddTxs(warm); err != nil {
				t.Fatalf("harness: warm-up block: %v", err)
			}
		}
		for si := range n.senders {
			if got := n.accountNonce(n.senders[si].Address); got != uint64(init[si]) {
				t.Fatalf("harness: warm-up nonce %d != %d", got, init[si])
			}
		}
		n.logf("init%v", init)

		t.Repeat(map[string]func(*rapid.T){"step": func(*rapid.T) { n.step() }})

		// closing rounds: everything deferred arrives, then two proposal/commit rounds
		for len(n.pending) > 0 {
			v := n.pending[0]
			n.pending = n.pending[1:]
			n.deliver(v)
		}
		n.commit(n.propose("PC"), true)
		n.commit(n.propose("PC"), true)

		ev.Class("history")
		if n.nontrivial {
			ev.Class("history:nontrivial")
		}
		if n.nRepl > 0 {
			ev.Class("history:with-replacement")
		}
		if n.nFill > 0 {
			ev.Class("history:with-gapfill")
		}
		if n.nLateHard > 0 {
			ev.Class("history:on-chain-tx-in-pool-vs-empty-window")
		}
		d := fmt.Sprintf("%s preExec=%v %s", p.name, n.preExec, strings.Join(n.log, " "))
		ev.Case(n.nontrivial, d)
	})
}

// node started with the CLI's default minimum gas price, every verified tx reaches the pool at once
func TestC35_DefaultFloor(t *testing.T) {
	c35Run(t, c35Profile{name: "floor500", floor: 500}, 40, 1000)
}

// minimum gas price 0 (test networks), prices 1..150: integer effects of the 1% replacement rule
func TestC35_SmallPrices(t *testing.T) {
	c35Run(t, c35Profile{name: "small", floor: 0, small: true}, 40, 1000)
}

// asynchronous pipeline: deferred deliveries, blocks of other proposers, interleaved completion handlers
func TestC35_AsyncPipeline(t *testing.T) {
	c35Run(t, c35Profile{name: "async500", floor: 500, async: true}, 40, 1000)
}

func TestC35_AsyncSmallPrices(t *testing.T) {
	c35Run(t, c35Profile{name: "asyncsmall", floor: 0, small: true, async: true}, 40, 1000)
}
