package codec

// C23 Signature scripts parse back to their keys and give order-free addresses.
// Oracles: (1) ProgramFromPubKey / ProgramFromMultiPubKey equal an independent reference script
// builder (PUSHm, pushed serialized keys in sorted order, PUSHn, CHECKMULTISIG) for every ordering
// of the key set, GetProgramInfo returns exactly (sorted key set, m), the multisig address equals
// hash160(script) and is identical for every permutation; (2) invalid parameters (m=0, m>n, n>16,
// n<2) are rejected by the builder, by AddressFromMultiPubKeys and - in reference-built scripts -
// by the parser, while the valid neighbours are accepted; (3) any byte string parses or is
// rejected without panic; an accepted script has 1<=M<=n<=16 (n>=2 for CHECKMULTISIG, n=M=1 for
// CHECKSIG) and its info re-built canonically parses to the same info.

import (
	"bytes"
	"crypto/sha256"
	"fmt"
	"sort"
	"testing"

	ethcrypto "github.com/ethereum/go-ethereum/crypto"
	"github.com/ontio/ontology-crypto/ec"
	"github.com/ontio/ontology-crypto/keypair"
	"github.com/ontio/ontology/common"
	"github.com/ontio/ontology/core/program"
	"github.com/ontio/ontology/core/types"
	"github.com/ontio/ontology/vm/neovm"
	"golang.org/x/crypto/ripemd160"
	"pgregory.net/rapid"

	fix "verifharness/codec/fixlite"
	"verifharness/internal/harn"
)

// ---------------------------------------------------------------------------------------------
// independent reference script builder

func c23PushBytes(out, d []byte) []byte {
	switch n := len(d); {
	case n >= 1 && n <= 75:
		out = append(out, byte(n))
	case n < 0x100:
		out = append(out, 0x4C, byte(n))
	case n < 0x10000:
		out = append(out, 0x4D, byte(n), byte(n>>8))
	default:
		out = append(out, 0x4E, byte(n), byte(n>>8), byte(n>>16), byte(n>>24))
	}
	return append(out, d...)
}

// c23PushNum: PUSH0, PUSH1..PUSH16, otherwise the little-endian two's-complement bytes pushed as data.
func c23PushNum(out []byte, v int) []byte {
	switch {
	case v == 0:
		return append(out, 0x00)
	case v >= 1 && v <= 16:
		return append(out, byte(0x50+v))
	}
	var d []byte
	for x := v; x > 0; x >>= 8 {
		d = append(d, byte(x))
	}
	if d[len(d)-1]&0x80 != 0 {
		d = append(d, 0)
	}
	return c23PushBytes(out, d)
}

func c23RefSingle(key []byte) []byte { return append(c23PushBytes(nil, key), 0xAC) }

func c23RefMulti(keys [][]byte, m, n int) []byte {
	out := c23PushNum(nil, m)
	for _, k := range keys {
		out = c23PushBytes(out, k)
	}
	out = c23PushNum(out, n)
	return append(out, 0xAE)
}

func c23Hash160(b []byte) (a common.Address) {
	h := sha256.Sum256(b)
	r := ripemd160.New()
	r.Write(h[:])
	copy(a[:], r.Sum(nil))
	return
}

func c23Ser(keys []keypair.PublicKey) [][]byte {
	out := make([][]byte, len(keys))
	for i, k := range keys {
		out[i] = keypair.SerializePublicKey(k)
	}
	return out
}

func c23SortedSer(keys []keypair.PublicKey) [][]byte {
	// order defined by ontology-crypto (trusted dependency); sort a copy, SortPublicKeys works in place
	cp := append([]keypair.PublicKey{}, keys...)
	return c23Ser(keypair.SortPublicKeys(cp))
}

func c23SameMultiset(a, b [][]byte) bool {
	if len(a) != len(b) {
		return false
	}
	x := make([]string, len(a))
	y := make([]string, len(b))
	for i := range a {
		x[i], y[i] = string(a[i]), string(b[i])
	}
	sort.Strings(x)
	sort.Strings(y)
	for i := range x {
		if x[i] != y[i] {
			return false
		}
	}
	return true
}

func c23EqualLists(a, b [][]byte) bool {
	if len(a) != len(b) {
		return false
	}
	for i := range a {
		if !bytes.Equal(a[i], b[i]) {
			return false
		}
	}
	return true
}

// c23GenKeySet draws n distinct zoo keys over all key kinds.
func c23GenKeySet(t *rapid.T, n int) ([]*fix.ZooKey, string) {
	type id struct{ k, i int }
	var all []id
	for _, k := range fix.AllKinds() {
		for i := 0; i < 6; i++ {
			all = append(all, id{int(k), i})
		}
	}
	p256Only := rapid.IntRange(0, 3).Draw(t, "p256Only") == 0
	var out []*fix.ZooKey
	seen := map[id]bool{}
	desc := ""
	for len(out) < n {
		var x id
		if p256Only {
			x = id{int(fix.KP256), rapid.IntRange(0, 19).Draw(t, "p256")}
		} else {
			x = rapid.SampledFrom(all).Draw(t, "key")
		}
		if seen[x] {
			// deterministic fallback: first unused
			for _, y := range all {
				if !seen[y] {
					x = y
					break
				}
			}
			if seen[x] {
				x = id{int(fix.KP256), 20 + len(out)}
			}
		}
		seen[x] = true
		k := fix.Key(fix.KeyKind(x.k), x.i)
		out = append(out, k)
		desc += fmt.Sprintf("%s%d ", k.Kind, k.Idx)
	}
	return out, desc
}

func c23Pubs(ks []*fix.ZooKey) []keypair.PublicKey {
	out := make([]keypair.PublicKey, len(ks))
	for i, k := range ks {
		out[i] = k.PublicKey
	}
	return out
}

const c23Rule = "key sets of size 1..16 over P-224/256/384/521, SM2, Ed25519 and secp256k1 zoo keys, every threshold m, two random orderings per case; invalid parameters (m=0, m>n, n>16, n<2, declared n != number of keys) against builder, address function and reference-built scripts; alternative number pushes; mutated valid scripts and arbitrary bytes; held results: sequences of 2-8 (key list, m) jobs (fresh ones and relatives of an earlier one: the same list under another m, another ordering of the same set, one key dropped / added / replaced, one key alone) whose built scripts (ProgramFromPubKey, ProgramFromMultiPubKey, Encode..ProgramInto, Sig.GetRawSig, ProgramFromParams), parsed ProgramInfo / pushes and addresses are held to the end of the case next to private copies while rejected parameters and scripts are processed, optionally with joined goroutines, then compared, recomputed, parsed / hashed / re-built again and checked against overwritten caller buffers; non-trivial = set with >=2 keys in a non-sorted order, an invalid-parameter case, a mutated/arbitrary script, or a held sequence with >=2 different scripts; distinct = different keys/m/order or bytes" + c23EditRule

func TestC23_BuildParse(t *testing.T) {
	ev := harn.For("C23").Rule(c23Rule)
	ev.Floor("build:multi", "build", 0.6)
	if neovm.CHECKSIG != 0xAC || neovm.CHECKMULTISIG != 0xAE || neovm.PUSH1 != 0x51 || neovm.PUSHDATA1 != 0x4C || neovm.PUSHBYTES75 != 0x4B {
		t.Fatalf("harness: opcode values differ from the reference builder's")
	}
	harn.Check(t, 1500, 16000, func(t *rapid.T) {
		n := rapid.OneOf(rapid.IntRange(1, 16), rapid.IntRange(2, 5), rapid.SampledFrom([]int{1, 2, 15, 16})).Draw(t, "n")
		ks, desc := c23GenKeySet(t, n)
		ev.Class("build")
		if n == 1 {
			k := ks[0]
			ser := keypair.SerializePublicKey(k.PublicKey)
			var prog []byte
			var info program.ProgramInfo
			var err error
			guard(t, "single-key program", func() {
				prog = program.ProgramFromPubKey(k.PublicKey)
				info, err = program.GetProgramInfo(prog)
			})
			if ref := c23RefSingle(ser); !bytes.Equal(prog, ref) {
				t.Fatalf("ProgramFromPubKey(%s) = %x, reference %x", desc, prog, ref)
			}
			if err != nil || info.M != 1 || len(info.PubKeys) != 1 || !bytes.Equal(keypair.SerializePublicKey(info.PubKeys[0]), ser) {
				t.Fatalf("GetProgramInfo(single %s) = M %d, %d keys, err %v", desc, info.M, len(info.PubKeys), err)
			}
			want := c23Hash160(prog)
			if k.Kind == fix.KEth {
				want = common.Address(ethcrypto.PubkeyToAddress(k.EthECDSA().PublicKey))
			}
			if got := types.AddressFromPubKey(k.PublicKey); got != want {
				t.Fatalf("AddressFromPubKey(%s) = %x, reference %x", desc, got[:], want[:])
			}
			rs, err := (&types.Sig{PubKeys: []keypair.PublicKey{k.PublicKey}, M: 1, SigData: [][]byte{{1}}}).GetRawSig()
			if err != nil || !bytes.Equal(rs.Verify, prog) {
				t.Fatalf("Sig.GetRawSig verification script differs from ProgramFromPubKey (err %v)", err)
			}
			ev.Class("build:single")
			ev.Case(false, "single "+desc)
			return
		}
		ev.Class("build:multi")
		m := rapid.OneOf(rapid.IntRange(1, n), rapid.SampledFrom([]int{1, n, (n + 1) / 2})).Draw(t, "m")
		pubs := c23Pubs(ks)
		sorted := c23SortedSer(pubs)
		ref := c23RefMulti(sorted, m, n)
		refAddr := c23Hash160(ref)
		unsorted := false
		for round := 0; round < 2; round++ {
			perm := rapid.Permutation(pubs).Draw(t, "perm")
			if !c23EqualLists(c23Ser(perm), sorted) {
				unsorted = true
			}
			var prog []byte
			var err error
			var info program.ProgramInfo
			var addr common.Address
			var aerr error
			guard(t, "multisig program", func() {
				prog, err = program.ProgramFromMultiPubKey(append([]keypair.PublicKey{}, perm...), m)
				if err == nil {
					info, err = program.GetProgramInfo(prog)
				}
				addr, aerr = types.AddressFromMultiPubKeys(append([]keypair.PublicKey{}, perm...), m)
			})
			if err != nil || aerr != nil {
				t.Fatalf("valid %d-of-%d key set (%s) rejected: %v / %v", m, n, desc, err, aerr)
			}
			if !bytes.Equal(prog, ref) {
				t.Fatalf("ProgramFromMultiPubKey(%d of %s, ordering %d) = %x\n reference (sorted keys) %x", m, desc, round, prog, ref)
			}
			if int(info.M) != m || !c23EqualLists(c23Ser(info.PubKeys), sorted) {
				t.Fatalf("GetProgramInfo: M=%d keys=%x; want M=%d keys=%x", info.M, c23Ser(info.PubKeys), m, sorted)
			}
			if addr != refAddr {
				t.Fatalf("AddressFromMultiPubKeys(%d of %s, ordering %d) = %x, reference hash160(script) %x", m, desc, round, addr[:], refAddr[:])
			}
			// encoder into an existing sink appends exactly the script
			sink := common.NewZeroCopySink(nil)
			sink.WriteBytes([]byte{0xEE})
			if e := program.EncodeMultiPubKeyProgramInto(sink, append([]keypair.PublicKey{}, perm...), m); e != nil || !bytes.Equal(sink.Bytes(), append([]byte{0xEE}, ref...)) {
				t.Fatalf("EncodeMultiPubKeyProgramInto differs (err %v)", e)
			}
			rs, e := (&types.Sig{PubKeys: append([]keypair.PublicKey{}, perm...), M: uint16(m), SigData: [][]byte{{1}}}).GetRawSig()
			if e != nil || !bytes.Equal(rs.Verify, ref) {
				t.Fatalf("Sig.GetRawSig verification script differs from the reference (err %v)", e)
			}
			// canonical rebuild of the parsed info is a fixpoint
			re, e := program.ProgramFromMultiPubKey(info.PubKeys, int(info.M))
			if e != nil || !bytes.Equal(re, ref) {
				t.Fatalf("re-building the parsed info gives a different script (err %v)", e)
			}
		}
		// the threshold is bound by the address
		if m2 := m%n + 1; m2 != m {
			a2, err := types.AddressFromMultiPubKeys(append([]keypair.PublicKey{}, pubs...), m2)
			if err != nil || a2 == refAddr {
				t.Fatalf("%d-of-%d and %d-of-%d over the same keys give the same address (err %v)", m, n, m2, n, err)
			}
		}
		ev.Class(fmt.Sprintf("build:n=%d", n))
		ev.Case(unsorted, fmt.Sprintf("multi %d/%d %s", m, n, desc))
	})
}

func TestC23_InvalidParams(t *testing.T) {
	ev := harn.For("C23").Rule(c23Rule)
	ev.Floor("params:script:rejected", "params", 0.25)
	ev.Floor("params:script:accepted", "params", 0.15)
	harn.Check(t, 1500, 16000, func(t *rapid.T) {
		n := rapid.OneOf(rapid.IntRange(0, 18), rapid.SampledFrom([]int{0, 1, 2, 16, 17})).Draw(t, "n")
		ks, desc := c23GenKeySet(t, n)
		pubs := c23Pubs(ks)
		m := rapid.OneOf(rapid.IntRange(0, n+2), rapid.SampledFrom([]int{0, 1, n, n + 1, 17, 255, 256, 65535, -1})).Draw(t, "m")
		valid := 1 <= m && m <= n && n >= 2 && n <= 16
		// builder and address function
		var perr, aerr error
		guard(t, "builder with generated parameters", func() {
			_, perr = program.ProgramFromMultiPubKey(append([]keypair.PublicKey{}, pubs...), m)
			_, aerr = types.AddressFromMultiPubKeys(append([]keypair.PublicKey{}, pubs...), m)
		})
		if (perr == nil) != valid || (aerr == nil) != valid {
			t.Fatalf("m=%d n=%d: valid=%v but ProgramFromMultiPubKey err=%v, AddressFromMultiPubKeys err=%v", m, n, valid, perr, aerr)
		}
		ev.Class("params")
		if valid {
			ev.Class("params:builder:accepted")
		} else {
			ev.Class("params:builder:rejected")
		}
		// parser on a reference-built script in the canonical layout: m keys... n CHECKMULTISIG, with a
		// declared n that may differ from the number of keys and alternative pushes of n
		declared := n
		if rapid.IntRange(0, 3).Draw(t, "lie") == 0 {
			declared = rapid.OneOf(rapid.IntRange(0, 18), rapid.SampledFrom([]int{n - 1, n + 1, 256 + n})).Draw(t, "declared")
			if declared < 0 {
				declared = 0
			}
		}
		if m < 0 {
			m = 0
		}
		sorted := c23SortedSer(pubs)
		var script []byte
		nEnc := rapid.IntRange(0, 2).Draw(t, "nEnc")
		switch {
		case nEnc == 1 && declared >= 1 && declared <= 255: // n as one pushed byte
			script = c23PushNum(nil, m)
			for _, k := range sorted {
				script = c23PushBytes(script, k)
			}
			script = append(c23PushBytes(script, []byte{byte(declared)}), 0xAE)
		case nEnc == 2 && declared >= 1: // n as big-endian bytes with a leading zero
			script = c23PushNum(nil, m)
			for _, k := range sorted {
				script = c23PushBytes(script, k)
			}
			script = append(c23PushBytes(script, []byte{0, byte(declared >> 8), byte(declared)}), 0xAE)
		default:
			script = c23RefMulti(sorted, m, declared)
		}
		wantOK := 1 <= m && m <= n && n >= 2 && n <= 16 && declared == n
		var info program.ProgramInfo
		var err error
		guard(t, "GetProgramInfo", func() { info, err = program.GetProgramInfo(script) })
		if (err == nil) != wantOK {
			t.Fatalf("script with m=%d, %d keys, declared n=%d (n encoding %d): err=%v, expected accepted=%v\n script %x", m, n, declared, nEnc, err, wantOK, script)
		}
		if err == nil {
			ev.Class("params:script:accepted")
			if int(info.M) != m || !c23EqualLists(c23Ser(info.PubKeys), sorted) {
				t.Fatalf("script m=%d n=%d parsed as M=%d with %d keys", m, n, info.M, len(info.PubKeys))
			}
		} else {
			ev.Class("params:script:rejected")
		}
		ev.Case(true, fmt.Sprintf("params m=%d n=%d declared=%d enc=%d %s", m, n, declared, nEnc, desc))
	})
}

// c23Invariant checks an accepted script: thresholds valid and canonical rebuild parses to the same info.
func c23Invariant(script []byte, info program.ProgramInfo) string {
	n := len(info.PubKeys)
	last := script[len(script)-1]
	switch last {
	case 0xAC:
		if n != 1 || info.M != 1 {
			return fmt.Sprintf("CHECKSIG script parsed as %d-of-%d", info.M, n)
		}
	case 0xAE:
		if !(info.M >= 1 && int(info.M) <= n && n >= 2 && n <= 16) {
			return fmt.Sprintf("CHECKMULTISIG script accepted with invalid parameters %d-of-%d", info.M, n)
		}
	default:
		return fmt.Sprintf("script ending in %#x accepted", last)
	}
	// rebuild only when every key is a real curve point (off-curve points are a key-validation
	// matter of the crypto library, not of the script codec)
	for _, k := range info.PubKeys {
		if p, ok := k.(*ec.PublicKey); ok && !p.Curve.IsOnCurve(p.X, p.Y) {
			return ""
		}
		if p, ok := k.(*ec.EthereumPublicKey); ok && !p.Curve.IsOnCurve(p.X, p.Y) {
			return ""
		}
	}
	var re []byte
	if n == 1 {
		re = program.ProgramFromPubKey(info.PubKeys[0])
	} else {
		var err error
		re, err = program.ProgramFromMultiPubKey(append([]keypair.PublicKey{}, info.PubKeys...), int(info.M))
		if err != nil {
			return fmt.Sprintf("parsed info %d-of-%d cannot be re-built: %v", info.M, n, err)
		}
	}
	info2, err := program.GetProgramInfo(re)
	if err != nil || info2.M != info.M || !c23SameMultiset(c23Ser(info2.PubKeys), c23Ser(info.PubKeys)) {
		return fmt.Sprintf("canonical rebuild %x of the parsed info parses differently (err %v)", re, err)
	}
	return ""
}

func c23Judge(script []byte) (msg string, accepted bool) {
	defer func() {
		if r := recover(); r != nil {
			msg = fmt.Sprintf("panic on script %x: %v\n%s", script, r, c18Stack())
		}
	}()
	info, err := program.GetProgramInfo(script)
	if err == nil {
		if m := c23Invariant(script, info); m != "" {
			return fmt.Sprintf("script %x: %s", script, m), true
		}
	}
	// the same bytes as an invocation script: list of pushes or error; re-encoding the pushes is a
	// fixpoint of the parser
	sigs, perr := program.GetParamInfo(script)
	// both verdicts, M, keys and pushes against the independent grammar model (c23_edits_test.go)
	if m := c23AgainstModel(script, info, err, sigs, perr); m != "" {
		return m, err == nil
	}
	if perr == nil {
		empty := false
		for _, s := range sigs {
			if len(s) == 0 { // PUSHDATA with length 0: cannot be re-built (the builder's contract is non-empty data)
				empty = true
			}
		}
		if len(sigs) > 0 && !empty {
			back, e := program.GetParamInfo(program.ProgramFromParams(sigs))
			if e != nil || !c23EqualLists(back, sigs) {
				return fmt.Sprintf("GetParamInfo(ProgramFromParams(x)) != x for x parsed from %x (err %v)", script, e), err == nil
			}
		}
	}
	return "", err == nil
}

func TestC23_MutatedScripts(t *testing.T) {
	ev := harn.For("C23").Rule(c23Rule)
	ev.Floor("script:accepted", "script", 0.05)
	harn.Check(t, 6000, 300000, func(t *rapid.T) {
		var script []byte
		kind := rapid.IntRange(0, 3).Draw(t, "base")
		switch kind {
		case 0:
			script = rapid.SliceOfN(rapid.Byte(), 0, 80).Draw(t, "bytes")
		case 1: // opcode soup from the relevant alphabet
			n := rapid.IntRange(0, 30).Draw(t, "len")
			for i := 0; i < n; i++ {
				script = append(script, rapid.SampledFrom([]byte{0x00, 0x01, 0x02, 0x21, 0x23, 0x4B, 0x4C, 0x4D, 0x4E, 0x4F, 0x50, 0x51, 0x52, 0x60, 0x61, 0xAC, 0xAE, 0xFF, 0x12, 0x02, 0x03, 0x04}).Draw(t, "op"))
			}
			script = append(script, rapid.SampledFrom([]byte{0xAC, 0xAE}).Draw(t, "end"))
		default: // valid script, then mutations
			n := rapid.IntRange(1, 5).Draw(t, "n")
			ks, _ := c23GenKeySet(t, n)
			if n == 1 {
				script = c23RefSingle(keypair.SerializePublicKey(ks[0].PublicKey))
			} else {
				script = c23RefMulti(c23SortedSer(c23Pubs(ks)), rapid.IntRange(1, n).Draw(t, "m"), n)
			}
			for i, muts := 0, rapid.IntRange(0, 3).Draw(t, "muts"); i < muts && len(script) > 0; i++ {
				p := rapid.IntRange(0, len(script)-1).Draw(t, "p")
				switch rapid.IntRange(0, 5).Draw(t, "mut") {
				case 0:
					script[p] ^= 1 << uint(rapid.IntRange(0, 7).Draw(t, "bit"))
				case 1:
					script[p] = rapid.SampledFrom([]byte{0x00, 0x4C, 0x4D, 0x4E, 0x51, 0x52, 0x60, 0xAC, 0xAE, 0xFF}).Draw(t, "val")
				case 2:
					script = append(script[:p:p], script[p+1:]...)
				case 3:
					script = append(script[:p:p], append([]byte{rapid.Byte().Draw(t, "ins")}, script[p:]...)...)
				case 4:
					script = script[:p]
				default: // duplicate a slice (e.g. a key push)
					q := rapid.IntRange(p, len(script)).Draw(t, "q")
					script = append(script[:q:q], append(append([]byte{}, script[p:q]...), script[q:]...)...)
				}
			}
		}
		msg, ok := c23Judge(script)
		if msg != "" {
			t.Fatalf("%s", msg)
		}
		ev.Class("script")
		if ok {
			ev.Class("script:accepted")
		} else {
			ev.Class("script:rejected")
		}
		ev.Case(true, fmt.Sprintf("script base=%d %x", kind, script))
	})
}

// TestC23_ParamScripts: invocation scripts (signature pushes) round-trip across the push-size classes.
func TestC23_ParamScripts(t *testing.T) {
	ev := harn.For("C23").Rule(c23Rule)
	harn.Check(t, 1500, 40000, func(t *rapid.T) {
		n := rapid.IntRange(0, 6).Draw(t, "nsigs")
		var sigs [][]byte
		var ref []byte
		edge := false
		for i := 0; i < n; i++ {
			var l int
			if rapid.IntRange(0, 2).Draw(t, "edge") == 0 {
				l = rapid.SampledFrom([]int{1, 64, 75, 76, 77, 255, 256, 257, 65535, 65536, 65537}).Draw(t, "len")
				edge = true
			} else {
				l = rapid.IntRange(1, 140).Draw(t, "len")
			}
			s := bytes.Repeat([]byte{rapid.Byte().Draw(t, "fill")}, l)
			s[0] = byte(i)
			sigs = append(sigs, s)
			ref = c23PushBytes(ref, s)
		}
		var prog []byte
		var back [][]byte
		var err error
		guard(t, "param program", func() {
			prog = program.ProgramFromParams(sigs)
			back, err = program.GetParamInfo(prog)
		})
		if !bytes.Equal(prog, ref) {
			t.Fatalf("ProgramFromParams differs from the reference pushes: %s vs %s", harn.Hex(prog), harn.Hex(ref))
		}
		if err != nil || !c23EqualLists(back, sigs) {
			t.Fatalf("GetParamInfo(ProgramFromParams(%d sigs)) err=%v", n, err)
		}
		ev.Case(edge, fmt.Sprintf("params %d sigs, script %s", n, harn.Hex(prog)))
	})
}

func FuzzC23_Program(f *testing.F) {
	k := fix.Key(fix.KP256, 0)
	f.Add(program.ProgramFromPubKey(k.PublicKey))
	f.Add(program.ProgramFromPubKey(fix.Key(fix.KEd25519, 0).PublicKey))
	f.Add(program.ProgramFromPubKey(fix.Key(fix.KEth, 0).PublicKey))
	if p, err := program.ProgramFromMultiPubKey([]keypair.PublicKey{k.PublicKey, fix.Key(fix.KSM2, 1).PublicKey, fix.Key(fix.KP384, 0).PublicKey}, 2); err == nil {
		f.Add(p)
	}
	f.Add([]byte{0x51, 0x51, 0xAE})
	f.Add(program.ProgramFromParams([][]byte{bytes.Repeat([]byte{1}, 64), bytes.Repeat([]byte{2}, 80)}))
	f.Fuzz(func(t *testing.T, b []byte) {
		if len(b) > 1<<16 {
			return
		}
		if msg, _ := c23Judge(b); msg != "" {
			t.Fatal(msg)
		}
	})
}
