package codec

// C19 Transaction encoding is canonical and its hash binds the signed content.
// Oracles: (1) decode ok => ToArray() == consumed bytes == independent reference encoding of the
// decoded fields (minimal varuints everywhere), second decode of ToArray() gives the same hash;
// (2) Ontology-format hash == sha256(sha256(reference encoding of the unsigned fields)), so it is
// unchanged by any edit of the signature list and changes with every change of the unsigned
// bytes that still decodes; (3) EIP-155: one accepted byte string per decoded tx, hash ==
// keccak256(consumed RLP), payer == address of the signing key, sig hash == EIP-155 signer hash;
// (4) encodings above MAX_TX_SIZE are rejected, at or below accepted; (5) no panic on any bytes.

import (
	"bytes"
	"crypto/sha256"
	"fmt"
	"math/big"
	"reflect"
	"testing"

	ethcommon "github.com/ethereum/go-ethereum/common"
	ethtypes "github.com/ethereum/go-ethereum/core/types"
	ethcrypto "github.com/ethereum/go-ethereum/crypto"
	"github.com/ethereum/go-ethereum/rlp"
	"github.com/ontio/ontology-crypto/keypair"
	"github.com/ontio/ontology/common"
	"github.com/ontio/ontology/common/config"
	"github.com/ontio/ontology/common/constants"
	"github.com/ontio/ontology/core/payload"
	"github.com/ontio/ontology/core/types"
	"pgregory.net/rapid"

	fix "verifharness/codec/fixlite"
	"verifharness/internal/harn"
)

// ---------------------------------------------------------------------------------------------
// independent reference encoding of an Ontology-format transaction

type c19Deploy struct {
	code                                      []byte
	vmFlags                                   byte
	name, version, author, email, description string
}

type c19Fields struct {
	version, txType    byte
	nonce              uint32
	gasPrice, gasLimit uint64
	payer              common.Address
	code               []byte     // invoke
	deploy             *c19Deploy // deploy
	sigs               [][2][]byte
}

type c19Enc struct {
	b       []byte
	varints [][2]int // offset, size of every varuint
}

func (e *c19Enc) le(v uint64, n int) {
	for i := 0; i < n; i++ {
		e.b = append(e.b, byte(v>>(8*uint(i))))
	}
}
func (e *c19Enc) varuint(v uint64) {
	enc := c18RefVarEnc(v)
	e.varints = append(e.varints, [2]int{len(e.b), len(enc)})
	e.b = append(e.b, enc...)
}
func (e *c19Enc) varbytes(b []byte) { e.varuint(uint64(len(b))); e.b = append(e.b, b...) }

func (f *c19Fields) unsigned() *c19Enc {
	e := &c19Enc{}
	e.b = append(e.b, f.version, f.txType)
	e.le(uint64(f.nonce), 4)
	e.le(f.gasPrice, 8)
	e.le(f.gasLimit, 8)
	e.b = append(e.b, f.payer[:]...)
	if f.deploy != nil {
		d := f.deploy
		e.varbytes(d.code)
		e.b = append(e.b, d.vmFlags)
		for _, s := range []string{d.name, d.version, d.author, d.email, d.description} {
			e.varbytes([]byte(s))
		}
	} else {
		e.varbytes(f.code)
	}
	e.varuint(0) // attributes
	return e
}

func (f *c19Fields) full() *c19Enc {
	e := f.unsigned()
	return c19AppendSigs(e, f.sigs)
}

func c19AppendSigs(e *c19Enc, sigs [][2][]byte) *c19Enc {
	out := &c19Enc{b: append([]byte{}, e.b...), varints: append([][2]int{}, e.varints...)}
	out.varuint(uint64(len(sigs)))
	for _, s := range sigs {
		out.varbytes(s[0])
		out.varbytes(s[1])
	}
	return out
}

func c19Sha256d(b []byte) common.Uint256 {
	h := sha256.Sum256(b)
	return sha256.Sum256(h[:])
}

// c19FieldsOf reads the decoded fields of an Ontology-format transaction.
func c19FieldsOf(tx *types.Transaction) (*c19Fields, error) {
	f := &c19Fields{version: tx.Version, txType: byte(tx.TxType), nonce: tx.Nonce, gasPrice: tx.GasPrice, gasLimit: tx.GasLimit, payer: tx.Payer}
	switch pl := tx.Payload.(type) {
	case *payload.InvokeCode:
		if tx.TxType != types.InvokeNeo && tx.TxType != types.InvokeWasm {
			return nil, fmt.Errorf("invoke payload under tx type %#x", byte(tx.TxType))
		}
		f.code = pl.Code
	case *payload.DeployCode:
		if tx.TxType != types.Deploy {
			return nil, fmt.Errorf("deploy payload under tx type %#x", byte(tx.TxType))
		}
		flags := byte(reflect.ValueOf(pl).Elem().FieldByName("vmFlags").Uint())
		f.deploy = &c19Deploy{code: pl.GetRawCode(), vmFlags: flags, name: pl.Name, version: pl.Version, author: pl.Author, email: pl.Email, description: pl.Description}
	default:
		return nil, fmt.Errorf("unexpected payload type %T under tx type %#x", tx.Payload, byte(tx.TxType))
	}
	for _, s := range tx.Sigs {
		f.sigs = append(f.sigs, [2][]byte{s.Invoke, s.Verify})
	}
	return f, nil
}

// c19Decode runs the decoder under a panic guard.
func c19Decode(b []byte) (tx *types.Transaction, consumed uint64, err error, panicked interface{}) {
	defer func() {
		if r := recover(); r != nil {
			panicked = fmt.Sprintf("%v\n%s", r, c18Stack())
		}
	}()
	src := common.NewZeroCopySource(b)
	tx = new(types.Transaction)
	err = tx.Deserialization(src)
	consumed = src.Pos()
	return
}

// c19Judge applies the canonicity/hash oracle to any byte string. It returns a violation message,
// or "" together with the decoded transaction (nil when rejected) and the bytes the hash must bind.
func c19Judge(b []byte) (msg string, tx *types.Transaction, consumed []byte, bound []byte) {
	defer func() {
		if r := recover(); r != nil {
			msg = fmt.Sprintf("panic while judging tx %s: %v\n%s", harn.Hex(b), r, c18Stack())
		}
	}()
	tx, n, err, p := c19Decode(b)
	if p != nil {
		return fmt.Sprintf("Transaction.Deserialization panicked on %x: %v", b, p), nil, nil, nil
	}
	// TransactionFromRawBytes on the same bytes must agree with the size rule and the decoder
	tx2, err2 := types.TransactionFromRawBytes(append([]byte{}, b...))
	if len(b) > types.MAX_TX_SIZE {
		if err2 == nil {
			return fmt.Sprintf("TransactionFromRawBytes accepted %d bytes (> MAX_TX_SIZE)", len(b)), nil, nil, nil
		}
	} else if (err == nil) != (err2 == nil) {
		return fmt.Sprintf("Deserialization err=%v but TransactionFromRawBytes err=%v on %x", err, err2, b), nil, nil, nil
	}
	if err != nil {
		return "", nil, nil, nil
	}
	if n > uint64(len(b)) {
		return fmt.Sprintf("decoder consumed %d of %d bytes", n, len(b)), nil, nil, nil
	}
	consumed = b[:n]
	if n > types.MAX_TX_SIZE {
		return fmt.Sprintf("accepted a transaction of %d bytes (> MAX_TX_SIZE)", n), nil, nil, nil
	}
	arr := tx.ToArray()
	if !bytes.Equal(arr, consumed) {
		return fmt.Sprintf("accepted bytes re-serialize differently:\n consumed %x\n ToArray  %x", consumed, arr), nil, nil, nil
	}
	if tx2 != nil && (tx2.Hash() != tx.Hash() || !bytes.Equal(tx2.ToArray(), arr)) {
		return fmt.Sprintf("TransactionFromRawBytes and Deserialization disagree on %x", b), nil, nil, nil
	}
	// second decode
	tx3, err3 := types.TransactionFromRawBytes(append([]byte{}, arr...))
	if err3 != nil || tx3.Hash() != tx.Hash() || !bytes.Equal(tx3.ToArray(), arr) {
		return fmt.Sprintf("second decode of ToArray() differs (err=%v) for %x", err3, consumed), nil, nil, nil
	}
	if tx.TxType == types.EIP155 {
		// 00 d3 varuint(len) rlp ; hash = keccak256(rlp)
		if n < 3 || consumed[0] != 0 || consumed[1] != 0xd3 {
			return fmt.Sprintf("EIP155 tx with prefix %x", consumed[:2]), nil, nil, nil
		}
		l, sz, ok := c18RefVarDec(consumed, 2)
		if !ok || sz != c18RefVarSize(l) || 2+sz+l != n {
			return fmt.Sprintf("EIP155 tx: length prefix not minimal or inconsistent in %x", consumed), nil, nil, nil
		}
		body := consumed[2+sz:]
		var want common.Uint256
		copy(want[:], ethcrypto.Keccak256(body))
		if tx.Hash() != want {
			return fmt.Sprintf("EIP155 tx hash %x != keccak256(rlp) %x for %x", tx.Hash(), want, consumed), nil, nil, nil
		}
		eiptx, err := tx.GetEIP155Tx()
		if err != nil {
			return fmt.Sprintf("GetEIP155Tx: %v", err), nil, nil, nil
		}
		// differential against go-ethereum's own signer: payer is the recovered sender
		from, err := ethtypes.Sender(ethtypes.NewEIP155Signer(eiptx.ChainId()), eiptx)
		if err != nil || common.Address(from) != tx.Payer {
			return fmt.Sprintf("EIP155 payer %x but recovered sender %x (err %v)", tx.Payer, from, err), nil, nil, nil
		}
		return "", tx, consumed, body
	}
	f, ferr := c19FieldsOf(tx)
	if ferr != nil {
		return ferr.Error(), nil, nil, nil
	}
	ref := f.full().b
	if !bytes.Equal(ref, consumed) {
		return fmt.Sprintf("accepted encoding is not the canonical encoding of its fields:\n consumed  %x\n canonical %x", consumed, ref), nil, nil, nil
	}
	uns := f.unsigned().b
	if tx.Hash() != c19Sha256d(uns) {
		return fmt.Sprintf("hash %x is not sha256d of the unsigned content %x", tx.Hash(), uns), nil, nil, nil
	}
	if tx.SigHashForChain(0) != tx.Hash() {
		return fmt.Sprintf("SigHashForChain(0) != Hash() for %x", consumed), nil, nil, nil
	}
	return "", tx, consumed, uns
}

// ---------------------------------------------------------------------------------------------
// generators

var c19LenEdges = []int{0, 1, 0x4B, 0x4C, 0xFB, 0xFC, 0xFD, 0xFE, 0xFF, 0x100, 0x101}

func c19GenBlob(t *rapid.T, label string, max int) []byte {
	var n int
	switch rapid.IntRange(0, 5).Draw(t, label+"Kind") {
	case 0:
		n = rapid.SampledFrom(c19LenEdges).Draw(t, label+"Edge")
	case 1:
		if rapid.IntRange(0, 5).Draw(t, label+"Big") == 0 {
			n = rapid.SampledFrom([]int{0xFFFE, 0xFFFF, 0x10000, 0x10001}).Draw(t, label+"Edge16")
		} else {
			n = rapid.IntRange(0, 700).Draw(t, label+"Len")
		}
	default:
		n = rapid.IntRange(0, 60).Draw(t, label+"Len")
	}
	if n > max {
		n = max
	}
	if n > 80 {
		a, s := rapid.Byte().Draw(t, label+"A"), rapid.Byte().Draw(t, label+"S")
		out := make([]byte, n)
		for i := range out {
			out[i] = a + byte(i)*s
		}
		return out
	}
	return rapid.SliceOfN(rapid.Byte(), n, n).Draw(t, label)
}

func c19GenU64(t *rapid.T, label string) uint64 {
	return rapid.OneOf(rapid.Uint64Range(0, 3), rapid.Just(uint64(20000)), rapid.Just(uint64(2500)), rapid.Uint64(),
		rapid.SampledFrom([]uint64{1<<32 - 1, 1 << 32, 1<<63 - 1, 1 << 63, ^uint64(0)})).Draw(t, label)
}

func c19GenKey(t *rapid.T, label string) *fix.ZooKey {
	kind := fix.KP256
	if rapid.IntRange(0, 4).Draw(t, label+"Other") == 0 {
		kind = rapid.SampledFrom(fix.AllKinds()).Draw(t, label+"Kind")
	}
	return fix.Key(kind, rapid.IntRange(0, 5).Draw(t, label+"Idx"))
}

type c19Gen struct {
	fields *c19Fields
	mtx    *types.MutableTransaction
	tx     *types.Transaction
	raw    []byte
	keys   [][]*fix.ZooKey // per sig set
	ms     []int
	desc   string
}

// c19GenOntTx draws a signed Ontology-format transaction (invoke neo/wasm or deploy) with 0..maxSigs sig sets.
func c19GenOntTx(t *rapid.T, maxSigs int) *c19Gen {
	g := &c19Gen{}
	f := &c19Fields{}
	f.txType = byte(rapid.SampledFrom([]types.TransactionType{types.InvokeNeo, types.InvokeNeo, types.InvokeWasm, types.Deploy}).Draw(t, "txType"))
	f.nonce = rapid.OneOf(rapid.Uint32(), rapid.Uint32Range(0, 2), rapid.Just(^uint32(0))).Draw(t, "nonce")
	f.gasPrice = c19GenU64(t, "gasPrice")
	f.gasLimit = c19GenU64(t, "gasLimit")
	mtx := &types.MutableTransaction{TxType: types.TransactionType(f.txType), Nonce: f.nonce, GasPrice: f.gasPrice, GasLimit: f.gasLimit}
	if types.TransactionType(f.txType) == types.Deploy {
		d := &c19Deploy{code: c19GenBlob(t, "code", 1<<17)}
		d.vmFlags = rapid.SampledFrom([]byte{0, 1, 3}).Draw(t, "vmFlags")
		strs := make([]string, 5)
		for i := range strs {
			max := 252
			if i == 4 {
				max = 65536
			}
			strs[i] = string(c19GenBlob(t, fmt.Sprintf("str%d", i), max))
		}
		d.name, d.version, d.author, d.email, d.description = strs[0], strs[1], strs[2], strs[3], strs[4]
		dc, err := payload.CreateDeployCode(d.code, uint32(d.vmFlags), []byte(d.name), []byte(d.version), []byte(d.author), []byte(d.email), []byte(d.description))
		if err != nil {
			t.Fatalf("harness: CreateDeployCode: %v", err)
		}
		f.deploy = d
		mtx.Payload = dc
	} else {
		f.code = c19GenBlob(t, "code", 1<<17)
		mtx.Payload = &payload.InvokeCode{Code: f.code}
	}
	nsig := rapid.IntRange(0, maxSigs).Draw(t, "nsig")
	for i := 0; i < nsig; i++ {
		n := 1
		if rapid.IntRange(0, 2).Draw(t, "multi") == 0 {
			n = rapid.IntRange(2, 5).Draw(t, "n")
		}
		var ks []*fix.ZooKey
		seen := map[[2]int]bool{}
		for len(ks) < n {
			k := c19GenKey(t, "key")
			if seen[[2]int{int(k.Kind), k.Idx}] {
				k = fix.Key(fix.KP256, 6+len(ks)) // distinct fallback
			}
			seen[[2]int{int(k.Kind), k.Idx}] = true
			ks = append(ks, k)
		}
		m := 1
		if n > 1 {
			m = rapid.IntRange(1, n).Draw(t, "m")
		}
		g.keys = append(g.keys, ks)
		g.ms = append(g.ms, m)
	}
	switch rapid.IntRange(0, 3).Draw(t, "payerKind") {
	case 0:
		copy(f.payer[:], rapid.SliceOfN(rapid.Byte(), 20, 20).Draw(t, "payer"))
	case 1: // empty payer
	default:
		if nsig > 0 {
			if len(g.keys[0]) == 1 {
				f.payer = g.keys[0][0].Address
			} else {
				var pks []keypair.PublicKey
				for _, k := range g.keys[0] {
					pks = append(pks, k.PublicKey)
				}
				a, err := types.AddressFromMultiPubKeys(pks, g.ms[0])
				if err != nil {
					t.Fatalf("harness: AddressFromMultiPubKeys: %v", err)
				}
				f.payer = a
			}
		}
	}
	mtx.Payer = f.payer
	for i, ks := range g.keys {
		if len(ks) == 1 {
			if err := fix.MultiSign(mtx, ks, 1, ks); err != nil {
				t.Fatalf("harness: sign: %v", err)
			}
		} else if err := fix.MultiSign(mtx, ks, g.ms[i], ks[:g.ms[i]]); err != nil {
			t.Fatalf("harness: multisign: %v", err)
		}
	}
	tx, err := mtx.IntoImmutable()
	if err != nil {
		t.Fatalf("generated valid transaction rejected by IntoImmutable: %v (type %#x, %d sig sets)", err, f.txType, nsig)
	}
	for _, s := range tx.Sigs {
		f.sigs = append(f.sigs, [2][]byte{s.Invoke, s.Verify})
	}
	g.fields, g.mtx, g.tx, g.raw = f, mtx, tx, tx.ToArray()
	pl := len(f.code)
	if f.deploy != nil {
		pl = len(f.deploy.code)
	}
	g.desc = fmt.Sprintf("type=%x nonce=%d gp=%d gl=%d payer=%x payload=%d sigs=%v", f.txType, f.nonce, f.gasPrice, f.gasLimit, f.payer[:4], pl, g.ms)
	return g
}

const c19Rule = "signed deploy/invoke(neo,wasm) txs (payload lengths at varuint and PUSHDATA edges, 0..4 sig sets single or m-of-n over the key zoo) and EIP-155 txs signed with secp256k1 zoo keys; byte mutants (set/flip/insert/delete/truncate/append, non-minimal varuint substitution at every length field, type byte swaps), signature-list edits (reorder/drop/duplicate/foreign), hand-built non-canonical RLP, sizes around MAX_TX_SIZE, structured arbitrary bytes; non-trivial = a mutant or edit that still decodes, a non-minimal length field, a size within 2 of the limit, or a valid tx with >=1 sig set whose sig list was edited; held results: sequences of 2-8 transactions (built by IntoImmutable, decoded stand-alone or embedded, the unsigned content of an earlier one under an edited signature list, EIP-155 built and decoded) whose ToArray/Raw/Hash/SigHashForChain/GetSignatureAddresses/GetSig results and decoded fields are held to the end of the case next to private copies, optionally with joined goroutines, then re-read, recomputed, decoded again and checked against overwritten caller buffers; such a case is non-trivial when it holds >=2 different encodings; distinct = different bytes"

// ---------------------------------------------------------------------------------------------

func TestC19_ValidAndSigEdits(t *testing.T) {
	ev := harn.For("C19").Rule(c19Rule)
	ev.Floor("sigedit:decoded", "sigedit", 0.5)
	harn.Check(t, 2500, 60000, func(t *rapid.T) {
		g := c19GenOntTx(t, 4)
		// reference encoding from the generated (not decoded) unsigned fields
		refU := g.fields.unsigned().b
		ref := g.fields.full().b
		if !bytes.Equal(ref, g.raw) {
			t.Fatalf("encoder output differs from reference encoding of the generated fields:\n got %x\n ref %x", g.raw, ref)
		}
		msg, tx, consumed, bound := c19Judge(g.raw)
		if msg != "" {
			t.Fatalf("%s", msg)
		}
		if tx == nil || len(consumed) != len(g.raw) || !bytes.Equal(bound, refU) {
			t.Fatalf("valid generated tx rejected or partially consumed: %x", g.raw)
		}
		if tx.Hash() != g.tx.Hash() || g.mtx.Hash() != tx.Hash() {
			t.Fatalf("Transaction.Hash / MutableTransaction.Hash disagree for %x", g.raw)
		}
		// signatures parse back to the generated key sets and verify nothing about bytes
		for i, rs := range tx.Sigs {
			s, err := rs.GetSig()
			if err != nil || int(s.M) != g.ms[i] || len(s.PubKeys) != len(g.keys[i]) || len(s.SigData) != g.ms[i] {
				t.Fatalf("sig set %d parses back as M=%d keys=%d sigs=%d err=%v, generated m=%d n=%d", i, s.M, len(s.PubKeys), len(s.SigData), err, g.ms[i], len(g.keys[i]))
			}
		}
		// field-level re-serialization through the mutable form
		guard(t, "IntoMutable/IntoImmutable", func() {
			m2, err := tx.IntoMutable()
			if err != nil {
				t.Fatalf("IntoMutable: %v", err)
			}
			tx2, err := m2.IntoImmutable()
			if err != nil || !bytes.Equal(tx2.ToArray(), g.raw) || tx2.Hash() != tx.Hash() {
				t.Fatalf("IntoMutable().IntoImmutable() changes the encoding (err %v):\n before %x\n after  %x", err, g.raw, tx2.ToArray())
			}
		})
		// embedded in a larger source: consumes exactly its own bytes
		pre := rapid.SliceOfN(rapid.Byte(), 0, 5).Draw(t, "prefix")
		suf := rapid.SliceOfN(rapid.Byte(), 0, 5).Draw(t, "suffix")
		guard(t, "embedded decode", func() {
			all := append(append(append([]byte{}, pre...), g.raw...), suf...)
			src := common.NewZeroCopySource(all)
			src.Skip(uint64(len(pre)))
			var e types.Transaction
			if err := e.Deserialization(src); err != nil || src.Pos() != uint64(len(pre)+len(g.raw)) || !bytes.Equal(e.ToArray(), g.raw) || e.Hash() != tx.Hash() {
				t.Fatalf("embedded tx: err=%v pos=%d want %d", err, src.Pos(), len(pre)+len(g.raw))
			}
		})
		// signature-list edits: hash must not move, encoding must stay canonical
		edited := false
		nEd := rapid.IntRange(1, 3).Draw(t, "edits")
		for e := 0; e < nEd; e++ {
			sigs := append([][2][]byte{}, g.fields.sigs...)
			op := rapid.IntRange(0, 5).Draw(t, "sigOp")
			switch {
			case op == 0 && len(sigs) > 0: // drop one
				i := rapid.IntRange(0, len(sigs)-1).Draw(t, "i")
				sigs = append(sigs[:i:i], sigs[i+1:]...)
			case op == 1 && len(sigs) > 1: // permute
				sigs = rapid.Permutation(sigs).Draw(t, "perm")
			case op == 2 && len(sigs) > 0: // duplicate
				i := rapid.IntRange(0, len(sigs)-1).Draw(t, "i")
				sigs = append(sigs, sigs[i])
			case op == 3: // foreign sig set (arbitrary scripts)
				sigs = append(sigs, [2][]byte{c19GenBlob(t, "inv", 300), c19GenBlob(t, "ver", 300)})
			case op == 4: // remove all
				sigs = nil
			default: // fill up to 15..17 sig sets
				n := rapid.IntRange(15, 17).Draw(t, "fill")
				for len(sigs) < n {
					sigs = append(sigs, [2][]byte{{0x01, byte(len(sigs))}, {0x51}})
				}
			}
			b := c19AppendSigs(g.fields.unsigned(), sigs).b
			msg, etx, cons, ebound := c19Judge(b)
			if msg != "" {
				t.Fatalf("after signature-list edit %d: %s", op, msg)
			}
			ev.Class("sigedit")
			if etx == nil {
				if len(sigs) <= constants.TX_MAX_SIG_SIZE {
					t.Fatalf("tx with edited signature list (%d sets, op %d) rejected: %x", len(sigs), op, b)
				}
				ev.Class("sigedit:rejected>16")
				continue
			}
			ev.Class("sigedit:decoded")
			if len(sigs) > constants.TX_MAX_SIG_SIZE {
				t.Fatalf("tx with %d signature sets accepted", len(sigs))
			}
			if len(cons) != len(b) || !bytes.Equal(ebound, refU) || etx.Hash() != tx.Hash() {
				t.Fatalf("signature-list edit %d changed the hash: %x -> %x\n tx %x", op, tx.Hash(), etx.Hash(), b)
			}
			edited = true
		}
		ev.Class(fmt.Sprintf("valid:type=%x", g.fields.txType))
		ev.Class(fmt.Sprintf("valid:sigsets=%d", len(g.keys)))
		ev.Case(edited, "valid "+g.desc+" raw="+harn.Hex(g.raw))
	})
}

// c19Mutate applies one byte-level mutation; varints lists the length fields of b.
func c19Mutate(t *rapid.T, b []byte, varints [][2]int, unsignedLen int) (out []byte, kind string) {
	out = append([]byte{}, b...)
	pick := func() int {
		// weight header / payload / signatures equally
		switch rapid.IntRange(0, 3).Draw(t, "region") {
		case 0:
			return rapid.IntRange(0, 41).Draw(t, "pos")
		case 1:
			if unsignedLen > 42 {
				return rapid.IntRange(42, unsignedLen-1).Draw(t, "pos")
			}
		case 2:
			if len(b) > unsignedLen {
				return rapid.IntRange(unsignedLen, len(b)-1).Draw(t, "pos")
			}
		}
		return rapid.IntRange(0, len(b)-1).Draw(t, "pos")
	}
	switch rapid.IntRange(0, 8).Draw(t, "mut") {
	case 0:
		p := pick()
		out[p] ^= 1 << uint(rapid.IntRange(0, 7).Draw(t, "bit"))
		return out, "flip"
	case 1:
		p := pick()
		out[p] += byte(rapid.IntRange(1, 255).Draw(t, "delta"))
		return out, "set"
	case 2:
		p := pick()
		out = append(out[:p:p], append([]byte{rapid.Byte().Draw(t, "ins")}, out[p:]...)...)
		return out, "insert"
	case 3:
		p := pick()
		out = append(out[:p:p], out[p+1:]...)
		return out, "delete"
	case 4:
		return out[:pick()], "truncate"
	case 5:
		return append(out, rapid.SliceOfN(rapid.Byte(), 1, 4).Draw(t, "tail")...), "append"
	case 6, 7: // non-minimal form of one length field
		v := rapid.SampledFrom(varints).Draw(t, "varint")
		val, sz, _ := c18RefVarDec(b, uint64(v[0]))
		var sizes []int
		for _, s := range []int{3, 5, 9} {
			if uint64(s) > sz {
				sizes = append(sizes, s)
			}
		}
		if len(sizes) == 0 {
			out[v[0]] ^= 0xFF
			return out, "set"
		}
		enc := c18ForcedVarEnc(val, rapid.SampledFrom(sizes).Draw(t, "size"))
		out = append(out[:v[0]:v[0]], append(enc, b[v[0]+v[1]:]...)...)
		return out, "nonminimal"
	default:
		out[1] = rapid.SampledFrom([]byte{0xd0, 0xd1, 0xd2, 0xd3, 0xd4, 0x00}).Draw(t, "type")
		return out, "type"
	}
}

func TestC19_Mutants(t *testing.T) {
	ev := harn.For("C19").Rule(c19Rule)
	ev.Floor("mutant:decoded", "mutant", 0.15)
	ev.Floor("mutant:nonminimal", "mutant", 0.08)
	harn.Check(t, 5000, 100000, func(t *rapid.T) {
		g := c19GenOntTx(t, 3)
		full := g.fields.full()
		uLen := len(g.fields.unsigned().b)
		decoded := 0
		desc := ""
		for k := 0; k < 6; k++ {
			mb, kind := c19Mutate(t, g.raw, full.varints, uLen)
			if bytes.Equal(mb, g.raw) {
				continue
			}
			ev.Class("mutant")
			ev.Class("mutant:" + kind)
			msg, mtx, cons, bound := c19Judge(mb)
			if msg != "" {
				t.Fatalf("mutant (%s) of %x: %s", kind, g.raw, msg)
			}
			if mtx == nil {
				ev.Class("mutant:" + kind + ":rejected")
				continue
			}
			if kind == "nonminimal" {
				t.Fatalf("tx with a non-minimal length field accepted: %x (from %x)", mb, g.raw)
			}
			ev.Class("mutant:decoded")
			ev.Class("mutant:" + kind + ":decoded")
			decoded++
			// hash equal <=> unsigned bytes equal
			sameUnsigned := bytes.Equal(bound, g.fields.unsigned().b)
			if mtx.TxType == types.EIP155 {
				sameUnsigned = false
			}
			if sameUnsigned != (mtx.Hash() == g.tx.Hash()) {
				t.Fatalf("mutant (%s): unsigned content equal=%v but hash equal=%v\n orig   %x\n mutant %x", kind, sameUnsigned, mtx.Hash() == g.tx.Hash(), g.raw, cons)
			}
			if sameUnsigned {
				ev.Class("mutant:decoded:sig-part-only")
			} else {
				ev.Class("mutant:decoded:unsigned-changed")
			}
			desc += fmt.Sprintf(" %s@%d", kind, len(cons))
		}
		ev.Case(decoded > 0, "mutants of "+g.desc+":"+desc+" raw="+harn.Hex(g.raw))
	})
}

// ---------------------------------------------------------------------------------------------
// EIP-155

func c19ChainID() *big.Int { return big.NewInt(int64(config.DefConfig.P2PNode.EVMChainId)) }

type c19Eth struct {
	tx   *ethtypes.Transaction
	key  *fix.ZooKey
	desc string
	ok   bool // expected to be acceptable (nonce/gas price in range)
}

func c19GenEthTx(t *rapid.T) *c19Eth {
	key := fix.Key(fix.KEth, rapid.IntRange(0, 3).Draw(t, "ethKey"))
	nonce := rapid.OneOf(rapid.Uint64Range(0, 300), rapid.Uint64Range(0, 1<<32-1), rapid.SampledFrom([]uint64{0x7f, 0x80, 0xff, 0x100, 1<<32 - 1})).Draw(t, "nonce")
	gwei := rapid.OneOf(rapid.Uint64Range(0, 5000), rapid.Just(uint64(2500)), rapid.Uint64Range(0, (1<<64-1)/constants.GWei)).Draw(t, "gasPriceGwei")
	price := new(big.Int).Mul(new(big.Int).SetUint64(gwei), big.NewInt(constants.GWei))
	ok := true
	switch rapid.IntRange(0, 11).Draw(t, "bad") {
	case 0:
		nonce = rapid.Uint64Range(1<<32, 1<<33).Draw(t, "bigNonce")
		ok = false
	case 1:
		price.Add(price, big.NewInt(int64(rapid.IntRange(1, constants.GWei-1).Draw(t, "frac"))))
		ok = false
	case 2:
		price = new(big.Int).Lsh(big.NewInt(1), 64)
		price.Mul(price, big.NewInt(constants.GWei))
		ok = false
	}
	gas := rapid.OneOf(rapid.Uint64Range(0, 100000), rapid.Just(uint64(21000)), rapid.Uint64()).Draw(t, "gas")
	value := new(big.Int).SetBytes(rapid.SliceOfN(rapid.Byte(), 0, 32).Draw(t, "value"))
	data := c19GenBlob(t, "data", 1<<16)
	if len(data) == 1 && rapid.Bool().Draw(t, "lowByte") {
		data[0] &= 0x7f // single byte < 0x80 is its own RLP encoding
	}
	var tx *ethtypes.Transaction
	create := rapid.IntRange(0, 3).Draw(t, "create") == 0
	if create {
		tx = ethtypes.NewContractCreation(nonce, value, gas, price, data)
	} else {
		var to ethcommon.Address
		copy(to[:], c18GenFixed(t, 20))
		tx = ethtypes.NewTransaction(nonce, to, value, gas, price, data)
	}
	signed, err := ethtypes.SignTx(tx, ethtypes.NewEIP155Signer(c19ChainID()), key.EthECDSA())
	if err != nil {
		t.Fatalf("harness: SignTx: %v", err)
	}
	return &c19Eth{tx: signed, key: key, ok: ok, desc: fmt.Sprintf("eth nonce=%d gwei=%d gas=%d value=%s data=%d create=%v ok=%v", nonce, gwei, gas, value, len(data), create, ok)}
}

func c19WrapEth(rlpBytes []byte) []byte {
	out := []byte{0, 0xd3}
	out = append(out, c18RefVarEnc(uint64(len(rlpBytes)))...)
	return append(out, rlpBytes...)
}

// c19NonCanonRLP rewrites the (canonical) RLP of a legacy tx into an equivalent non-canonical form.
func c19NonCanonRLP(t *rapid.T, enc []byte) ([]byte, string) {
	// split the outer list
	kind, content, _, err := rlp.Split(enc)
	if err != nil || kind != rlp.List {
		t.Fatalf("harness: rlp.Split: %v", err)
	}
	var elems [][]byte // raw encodings of the 9 elements
	rest := content
	for len(rest) > 0 {
		_, _, r, err := rlp.Split(rest)
		if err != nil {
			t.Fatalf("harness: rlp.Split elem: %v", err)
		}
		elems = append(elems, rest[:len(rest)-len(r)])
		rest = r
	}
	longLen := func(prefix byte, payload []byte, nbytes int) []byte { // long form length with nbytes length bytes
		out := []byte{prefix + byte(nbytes)}
		for i := nbytes - 1; i >= 0; i-- {
			out = append(out, byte(len(payload)>>(8*uint(i))))
		}
		return append(out, payload...)
	}
	join := func(es [][]byte) []byte {
		var c []byte
		for _, e := range es {
			c = append(c, e...)
		}
		if len(c) < 56 {
			return append([]byte{0xC0 + byte(len(c))}, c...)
		}
		n := 1
		for len(c)>>(8*uint(n)) > 0 {
			n++
		}
		return longLen(0xF7, c, n)
	}
	i := rapid.IntRange(0, len(elems)-1).Draw(t, "elem")
	k, payload, _, _ := rlp.Split(elems[i])
	es := append([][]byte{}, elems...)
	switch rapid.IntRange(0, 5).Draw(t, "noncanon") {
	case 0: // leading zero byte inside a string element
		if k == rlp.String {
			p := append([]byte{0}, payload...)
			e, _ := rlp.EncodeToBytes(p)
			es[i] = e
			return join(es), "leading-zero"
		}
	case 1: // single byte < 0x80 wrapped as 0x81 xx
		if k == rlp.Byte {
			es[i] = []byte{0x81, payload[0]}
			return join(es), "wrapped-byte"
		}
	case 2: // short string with long-form length
		if k == rlp.String && len(payload) < 56 {
			es[i] = longLen(0xB7, payload, rapid.IntRange(1, 2).Draw(t, "lenBytes"))
			return join(es), "long-form"
		}
	case 3: // outer list with over-long length-of-length
		c := []byte{}
		for _, e := range es {
			c = append(c, e...)
		}
		n := 1
		for len(c)>>(8*uint(n)) > 0 {
			n++
		}
		return longLen(0xF7, c, n+1), "outer-long-form"
	case 4: // extra list element
		es = append(es, []byte{0x80})
		return join(es), "extra-element"
	default: // empty list instead of empty string
		if k == rlp.String && len(payload) == 0 {
			es[i] = []byte{0xC0}
			return join(es), "empty-list"
		}
	}
	// fallback: trailing byte after the list (inside the var-bytes)
	return append(append([]byte{}, enc...), 0x00), "trailing"
}

func TestC19_EIP155(t *testing.T) {
	ev := harn.For("C19").Rule(c19Rule)
	ev.Floor("eip:accepted", "eip", 0.5)
	harn.Check(t, 2500, 60000, func(t *rapid.T) {
		checkChain := rapid.Bool().Draw(t, "checkChainID")
		types.CheckChainID = checkChain
		defer func() { types.CheckChainID = false }()
		g := c19GenEthTx(t)
		ev.Class("eip")
		var tx *types.Transaction
		var err error
		guard(t, "TransactionFromEIP155", func() { tx, err = types.TransactionFromEIP155(g.tx) })
		enc, rerr := rlp.EncodeToBytes(g.tx)
		if rerr != nil {
			t.Fatalf("harness: rlp encode: %v", rerr)
		}
		wire := c19WrapEth(enc)
		nontriv := false
		if err != nil {
			if g.ok {
				t.Fatalf("valid EIP-155 tx rejected: %v (%s)", err, g.desc)
			}
			ev.Class("eip:rejected-range")
			// the wire form must be rejected as well (or be canonical)
			msg, wtx, _, _ := c19Judge(wire)
			if msg != "" {
				t.Fatalf("%s", msg)
			}
			if wtx != nil {
				t.Fatalf("TransactionFromEIP155 rejects (%v) what the wire decoder accepts: %x", err, wire)
			}
		} else {
			ev.Class("eip:accepted")
			raw := tx.ToArray()
			if !bytes.Equal(raw, wire) {
				t.Fatalf("EIP-155 tx encodes as %x, reference 00 d3 varbytes(rlp) = %x", raw, wire)
			}
			msg, dtx, cons, _ := c19Judge(raw)
			if msg != "" {
				t.Fatalf("%s", msg)
			}
			if dtx == nil || len(cons) != len(raw) {
				t.Fatalf("encoded EIP-155 tx rejected by the decoder: %x (%s)", raw, g.desc)
			}
			var want common.Uint256
			copy(want[:], ethcrypto.Keccak256(enc))
			addr := common.Address(ethcrypto.PubkeyToAddress(g.key.EthECDSA().PublicKey))
			for _, x := range []*types.Transaction{tx, dtx} {
				if x.Hash() != want || x.Hash() != common.Uint256(g.tx.Hash()) {
					t.Fatalf("EIP-155 hash %x, want keccak(rlp) %x", x.Hash(), want)
				}
				if x.Payer != addr {
					t.Fatalf("EIP-155 payer %x, signing key address %x", x.Payer, addr)
				}
				if x.SigHashForChain(config.DefConfig.P2PNode.EVMChainId) != common.Uint256(ethtypes.NewEIP155Signer(c19ChainID()).Hash(g.tx)) {
					t.Fatalf("EIP-155 sig hash mismatch")
				}
				if len(x.Sigs) != 0 {
					t.Fatalf("EIP-155 tx decoded with %d ontology sig sets", len(x.Sigs))
				}
			}
			// byte mutants of the wire form and hand-made non-canonical RLP
			for k := 0; k < 4; k++ {
				var mb []byte
				var kind string
				if rapid.Bool().Draw(t, "rlpMut") {
					var nc []byte
					nc, kind = c19NonCanonRLP(t, enc)
					mb = c19WrapEth(nc)
				} else {
					mb = append([]byte{}, raw...)
					p := rapid.IntRange(0, len(mb)-1).Draw(t, "pos")
					switch rapid.IntRange(0, 3).Draw(t, "m") {
					case 0:
						mb[p] ^= 1 << uint(rapid.IntRange(0, 7).Draw(t, "bit"))
						kind = "flip"
					case 1:
						mb = append(mb[:p:p], mb[p+1:]...)
						kind = "delete"
					case 2:
						mb = mb[:p]
						kind = "truncate"
					default:
						l, sz, _ := c18RefVarDec(raw, 2)
						var sizes []int
						for _, s := range []int{3, 5, 9} {
							if uint64(s) > sz {
								sizes = append(sizes, s)
							}
						}
						mb = append(append([]byte{0, 0xd3}, c18ForcedVarEnc(l, rapid.SampledFrom(sizes).Draw(t, "size"))...), enc...)
						kind = "nonminimal"
					}
				}
				ev.Class("eipmut:" + kind)
				msg, mtx, mcons, _ := c19Judge(mb)
				if msg != "" {
					t.Fatalf("EIP-155 mutant (%s) of %x: %s", kind, raw, msg)
				}
				if mtx != nil {
					ev.Class("eipmut:decoded")
					nontriv = true
					if bytes.Equal(mcons, raw) {
						continue // e.g. truncation cannot happen here, but identical bytes are fine
					}
					if mtx.Hash() == dtx.Hash() {
						t.Fatalf("two different accepted byte strings with the same hash:\n %x\n %x", raw, mcons)
					}
				}
			}
		}
		ev.Case(nontriv || !g.ok, g.desc+" wire="+harn.Hex(wire))
	})
}

// ---------------------------------------------------------------------------------------------
// size limit

func TestC19_SizeLimit(t *testing.T) {
	ev := harn.For("C19").Rule(c19Rule)
	harn.Check(t, 120, 1500, func(t *rapid.T) {
		delta := rapid.SampledFrom([]int{-2, -1, 0, 1, 2, 3, 100, 70000}).Draw(t, "delta")
		total := types.MAX_TX_SIZE + delta
		kind := rapid.IntRange(0, 3).Draw(t, "kind")
		var b []byte
		fill := byte(rapid.IntRange(0, 255).Draw(t, "fill"))
		switch kind {
		case 0, 1: // invoke tx whose code (kind 0) or one signature script (kind 1) pads to the total
			f := &c19Fields{txType: byte(types.InvokeNeo), nonce: rapid.Uint32().Draw(t, "nonce"), gasLimit: 20000}
			f.code = []byte{0x51}
			if kind == 1 {
				f.sigs = [][2][]byte{{{0x01}, {0x51}}}
			}
			base := len(f.full().b)
			pad := total - base // growing a 1-byte field to 1+pad bytes also grows its length prefix 1 -> 5
			pad -= 4
			blob := bytes.Repeat([]byte{fill}, 1+pad)
			if kind == 0 {
				f.code = blob
			} else {
				f.sigs[0][0] = blob
			}
			b = f.full().b
		case 2: // deploy
			f := &c19Fields{txType: byte(types.Deploy), gasLimit: 20000, deploy: &c19Deploy{vmFlags: 1, code: []byte{1}, name: "n"}}
			base := len(f.full().b)
			f.deploy.code = bytes.Repeat([]byte{fill}, 1+total-base-4)
			b = f.full().b
		default: // EIP-155 with large call data
			key := fix.Key(fix.KEth, 0)
			mk := func(n int) []byte {
				tx := ethtypes.NewContractCreation(1, big.NewInt(0), 100000, big.NewInt(2500*constants.GWei), bytes.Repeat([]byte{fill | 0x80}, n))
				s, err := ethtypes.SignTx(tx, ethtypes.NewEIP155Signer(c19ChainID()), key.EthECDSA())
				if err != nil {
					t.Fatalf("harness: %v", err)
				}
				enc, _ := rlp.EncodeToBytes(s)
				return c19WrapEth(enc)
			}
			n := total - 120
			b = mk(n)
			for tries := 0; len(b) != total && tries < 6; tries++ { // signature ints vary in length by a byte or two
				n += total - len(b)
				b = mk(n)
			}
			delta = len(b) - types.MAX_TX_SIZE
		}
		if kind != 3 && len(b) != total {
			t.Fatalf("harness: built %d bytes, wanted %d", len(b), total)
		}
		// inside a larger source (the way a block decodes it) and stand-alone
		msg, tx, cons, _ := c19Judge(b)
		if msg != "" {
			if len(msg) > 700 {
				msg = msg[:700] + "..."
			}
			t.Fatalf("size %d (limit%+d): %s", len(b), delta, msg)
		}
		over := len(b) > types.MAX_TX_SIZE
		if over && tx != nil {
			t.Fatalf("tx of %d bytes (limit %d) accepted", len(b), types.MAX_TX_SIZE)
		}
		if !over && (tx == nil || len(cons) != len(b)) {
			t.Fatalf("tx of %d bytes (limit %d, kind %d) rejected", len(b), types.MAX_TX_SIZE, kind)
		}
		// with trailing bytes in the source the tx itself still counts alone
		guard(t, "embedded oversize", func() {
			src := common.NewZeroCopySource(append(append([]byte{}, b...), 1, 2, 3))
			var e types.Transaction
			err := e.Deserialization(src)
			if over != (err != nil) {
				t.Fatalf("embedded tx of %d bytes: err=%v", len(b), err)
			}
		})
		ev.Class(fmt.Sprintf("size:kind%d:over=%v", kind, over))
		ev.Case(delta >= -2 && delta <= 3, fmt.Sprintf("size kind=%d len=%d fill=%d", kind, len(b), fill))
	})
}

// ---------------------------------------------------------------------------------------------
// arbitrary bytes

func c19Seeds() [][]byte {
	var out [][]byte
	k := fix.Key(fix.KP256, 0)
	inv := &types.MutableTransaction{TxType: types.InvokeNeo, Nonce: 7, GasLimit: 20000, GasPrice: 2500, Payload: &payload.InvokeCode{Code: []byte{0x00, 0xc6, 0x6b, 0x51}}}
	if tx, err := fix.Sign(inv, k); err == nil {
		out = append(out, tx.ToArray())
	}
	wasm := &types.MutableTransaction{TxType: types.InvokeWasm, Nonce: 1, GasLimit: 1, Payload: &payload.InvokeCode{Code: bytes.Repeat([]byte{9}, 0xFD)}}
	if tx, err := wasm.IntoImmutable(); err == nil {
		out = append(out, tx.ToArray())
	}
	dc, _ := payload.NewDeployCode([]byte{0x51, 0x52}, payload.NEOVM_TYPE, "name", "1.0", "author", "e@mail", "desc")
	dep := &types.MutableTransaction{TxType: types.Deploy, Nonce: 2, GasLimit: 30000000, GasPrice: 2500, Payload: dc}
	ks := []*fix.ZooKey{fix.Key(fix.KP256, 1), fix.Key(fix.KEd25519, 0), fix.Key(fix.KSM2, 0)}
	if err := fix.MultiSign(dep, ks, 2, ks[:2]); err == nil {
		if tx, err := dep.IntoImmutable(); err == nil {
			out = append(out, tx.ToArray())
		}
	}
	to := ethcommon.Address{1, 2, 3}
	for i, etx := range []*ethtypes.Transaction{
		ethtypes.NewTransaction(0, to, big.NewInt(1e15), 21000, big.NewInt(2500*constants.GWei), nil),
		ethtypes.NewContractCreation(300, big.NewInt(0), 100000, big.NewInt(0), []byte{0x30, 0xff}),
	} {
		if s, err := ethtypes.SignTx(etx, ethtypes.NewEIP155Signer(c19ChainID()), fix.Key(fix.KEth, i).EthECDSA()); err == nil {
			if tx, err := types.TransactionFromEIP155(s); err == nil {
				out = append(out, tx.ToArray())
			}
		}
	}
	return out
}

func TestC19_Arbitrary(t *testing.T) {
	ev := harn.For("C19").Rule(c19Rule)
	seeds := c19Seeds()
	if len(seeds) != 5 {
		t.Fatalf("harness: only %d of 5 seed transactions could be built", len(seeds))
	}
	harn.Check(t, 20000, 600000, func(t *rapid.T) {
		var b []byte
		switch rapid.IntRange(0, 3).Draw(t, "shape") {
		case 0:
			b = rapid.SliceOfN(rapid.Byte(), 0, 120).Draw(t, "bytes")
		case 1: // plausible header + random rest
			b = append([]byte{0, rapid.SampledFrom([]byte{0xd0, 0xd1, 0xd2, 0xd3}).Draw(t, "type")}, rapid.SliceOfN(rapid.Byte(), 0, 100).Draw(t, "rest")...)
		case 2: // header, then var-bytes fields with hostile lengths
			b = append([]byte{0, rapid.SampledFrom([]byte{0xd0, 0xd1, 0xd2}).Draw(t, "type")}, rapid.SliceOfN(rapid.Byte(), 40, 40).Draw(t, "hdr")...)
			for i, n := 0, rapid.IntRange(1, 9).Draw(t, "fields"); i < n; i++ {
				if rapid.IntRange(0, 4).Draw(t, "hostile") == 0 {
					b = append(b, c18ForcedVarEnc(rapid.SampledFrom([]uint64{0, 1, 0xFFFF, 0xFFFFFFFF, 1 << 63, ^uint64(0)}).Draw(t, "hl"), rapid.SampledFrom([]int{3, 5, 9}).Draw(t, "hs"))...)
				} else {
					f := rapid.SliceOfN(rapid.Byte(), 0, 6).Draw(t, "f")
					b = append(append(b, byte(len(f))), f...)
				}
			}
		default: // splice of two seeds
			s1 := rapid.SampledFrom(seeds).Draw(t, "s1")
			s2 := rapid.SampledFrom(seeds).Draw(t, "s2")
			b = append(append([]byte{}, s1[:rapid.IntRange(0, len(s1)).Draw(t, "cut1")]...), s2[rapid.IntRange(0, len(s2)).Draw(t, "cut2"):]...)
		}
		msg, tx, cons, _ := c19Judge(b)
		if msg != "" {
			t.Fatalf("%s", msg)
		}
		if tx != nil {
			ev.Class("arbitrary:decoded")
		} else {
			ev.Class("arbitrary:rejected")
		}
		ev.Case(tx != nil, fmt.Sprintf("arbitrary %x consumed=%d", b, len(cons)))
	})
}

func FuzzC19_Tx(f *testing.F) {
	for _, s := range c19Seeds() {
		f.Add(s)
	}
	f.Add([]byte{0, 0xd1})
	f.Fuzz(func(t *testing.T, b []byte) {
		if len(b) > 1<<17 {
			return
		}
		types.CheckChainID = false
		if msg, _, _, _ := c19Judge(b); msg != "" {
			t.Fatal(msg)
		}
	})
}
