package vm

// C13, aliasing family: integer opcodes must treat their operands as VALUES.
//
// The executor copies stack items by value, but a big-integer item (outside int64) carries a
// *big.Int that every copy made with DUP / OVER / PICK / TUCK / the alt stack / an array element
// read shares. The property ("returns the mathematically exact result ... never depends on whether
// values are stored as machine-size or big integers") therefore also demands that an opcode does
// not change an operand it does not consume: after `x DUP ABS`, the copy left under the result is
// still x, whatever the storage of x.
//
// Each case is a short program executed by the real Executor.Execute: one generated operand, 1-3
// copy steps, then 1-4 integer opcodes (all opcodes of the per-opcode tests) applied to some of the
// copies (operands selected with SWAP/ROT/ROLL, further operands = generated literals or other
// copies). The oracle is a stack machine over immutable math/big values using the same reference()
// as the per-opcode tests: the COMPLETE final evaluation stack and alt stack (every untouched copy
// and every result) must equal the model; a step whose exact result is a fault must fault.

import (
	"fmt"
	"math/big"
	"strings"
	"testing"

	"github.com/ontio/ontology/vm/neovm"
	"github.com/ontio/ontology/vm/neovm/types"
	"pgregory.net/rapid"

	"verifharness/internal/harn"
)

// mitem is one item of the model stacks: an immutable value and the id of its copy group (all
// copies of one value share the group; every computed result opens a new group).
type mitem struct {
	v   *big.Int
	grp int
}

type aliasModel struct {
	main, alt []mitem
	nextGrp   int
	code      []byte   // opcodes/pushes after the initial operand
	text      []string // readable program
}

func (m *aliasModel) op(name string, c neovm.OpCode) {
	m.code = append(m.code, byte(c))
	m.text = append(m.text, name)
}

func (m *aliasModel) pushSmall(n int) { // n in 0..16: PUSHn
	m.code = append(m.code, pushScript(big.NewInt(int64(n)), repInt, 0)...)
	m.text = append(m.text, fmt.Sprint(n))
}

func (m *aliasModel) top(i int) mitem { return m.main[len(m.main)-1-i] }

func (m *aliasModel) push(it mitem) { m.main = append(m.main, it) }

func (m *aliasModel) pop() mitem {
	it := m.main[len(m.main)-1]
	m.main = m.main[:len(m.main)-1]
	return it
}

// live: number of items of copy group g on both stacks.
func (m *aliasModel) live(g int) int {
	n := 0
	for _, it := range m.main {
		if it.grp == g {
			n++
		}
	}
	for _, it := range m.alt {
		if it.grp == g {
			n++
		}
	}
	return n
}

// copyStep appends one generated copy step (valid by construction for the current stacks) and
// returns its class name.
func (m *aliasModel) copyStep(t *rapid.T, label string) string {
	var cand []string
	cand = append(cand, "DUP", "PICK", "ARRAY", "UNPACK", "ALT")
	if len(m.main) >= 2 {
		cand = append(cand, "OVER", "TUCK", "PICK")
	}
	if len(m.alt) >= 1 {
		cand = append(cand, "DUPFROMALT")
	}
	switch k := cand[rapid.IntRange(0, len(cand)-1).Draw(t, label)]; k {
	case "DUP":
		m.op("DUP", neovm.DUP)
		m.push(m.top(0))
		return k
	case "OVER":
		m.op("OVER", neovm.OVER)
		m.push(m.top(1))
		return k
	case "PICK":
		n := rapid.IntRange(0, len(m.main)-1).Draw(t, label+"n")
		m.pushSmall(n)
		m.op("PICK", neovm.PICK)
		m.push(m.top(n))
		return k
	case "TUCK": // x1 x2 -> x2 x1 x2
		m.op("TUCK", neovm.TUCK)
		x2, x1 := m.pop(), m.pop()
		m.push(x2)
		m.push(x1)
		m.push(x2)
		return k
	case "ALT": // x -> x (alt: x): the copy parked on the alt stack shares the item
		m.op("DUP", neovm.DUP)
		m.op("TOALTSTACK", neovm.TOALTSTACK)
		m.alt = append(m.alt, m.top(0))
		return k
	case "DUPFROMALT":
		m.op("DUPFROMALTSTACK", neovm.DUPFROMALTSTACK)
		m.push(m.alt[len(m.alt)-1])
		return k
	case "ARRAY": // x -> [x] -> two element reads of the same array: x x
		m.pushSmall(1)
		m.op("PACK", neovm.PACK)
		m.op("DUP", neovm.DUP)
		m.pushSmall(0)
		m.op("PICKITEM", neovm.PICKITEM)
		m.op("SWAP", neovm.SWAP)
		m.pushSmall(0)
		m.op("PICKITEM", neovm.PICKITEM)
		m.push(m.top(0))
		return k
	default: // UNPACK: x -> [x] -> unpacked twice: x x
		m.pushSmall(1)
		m.op("PACK", neovm.PACK)
		m.op("DUP", neovm.DUP)
		m.op("UNPACK", neovm.UNPACK)
		m.op("DROP", neovm.DROP)
		m.op("SWAP", neovm.SWAP)
		m.op("UNPACK", neovm.UNPACK)
		m.op("DROP", neovm.DROP)
		m.push(m.top(0))
		return "UNPACK"
	}
}

// selectStep optionally brings another item to the top without copying (so that the next opcode
// consumes "some of the copies", not always the newest one).
func (m *aliasModel) selectStep(t *rapid.T, label string) {
	n := len(m.main)
	switch k := rapid.IntRange(0, 5).Draw(t, label); {
	case k == 0 && n >= 2:
		m.op("SWAP", neovm.SWAP)
		m.main[n-1], m.main[n-2] = m.main[n-2], m.main[n-1]
	case k == 1 && n >= 3:
		m.op("ROT", neovm.ROT)
		it := m.main[n-3]
		m.main = append(append(m.main[:n-3:n-3], m.main[n-2:]...), it)
	case k == 2 && n >= 2:
		j := rapid.IntRange(1, n-1).Draw(t, label+"n")
		m.pushSmall(j)
		m.op("ROLL", neovm.ROLL)
		it := m.main[n-1-j]
		m.main = append(append(m.main[:n-1-j:n-1-j], m.main[n-j:]...), it)
	case k == 3 && len(m.alt) >= 1:
		m.op("FROMALTSTACK", neovm.FROMALTSTACK)
		m.push(m.alt[len(m.alt)-1])
		m.alt = m.alt[:len(m.alt)-1]
	}
}

// literal pushes a freshly generated operand (its own copy group) the way a script does.
func (m *aliasModel) literal(t *rapid.T, v *big.Int, label string) {
	rep := repInt
	if rapid.IntRange(0, 3).Draw(t, label+"rep") == 0 {
		rep = repBytesExt
	}
	m.code = append(m.code, pushScript(v, rep, rapid.IntRange(1, 4).Draw(t, label+"ext"))...)
	m.text = append(m.text, "push("+v.String()+")")
	m.push(mitem{v, m.nextGrp})
	m.nextGrp++
}

var aliasOps []intOp

func init() {
	seen := map[neovm.OpCode]bool{}
	for _, l := range [][]intOp{opsArith, opsBit, opsCmp} {
		for _, o := range l {
			if !seen[o.code] {
				seen[o.code] = true
				aliasOps = append(aliasOps, o)
			}
		}
	}
}

// genAliasOperand: the operand that gets copied. Biased to magnitudes around and beyond 2^63,
// 2^64, 2^127, 2^255 (both signs); always inside the VM's integer bound (an integer item cannot
// hold anything else).
func genAliasOperand(t *rapid.T) *big.Int {
	var v *big.Int
	switch k := rapid.IntRange(0, 15).Draw(t, "xkind"); {
	case k < 7:
		e := []uint{63, 63, 64, 64, 65, 127, 128, 255, 255, 256}
		v = pow2(e[rapid.IntRange(0, len(e)-1).Draw(t, "xpow")])
		v.Add(v, big.NewInt(int64(rapid.IntRange(-3, 3).Draw(t, "xd"))))
	case k < 10:
		n := rapid.IntRange(8, 32).Draw(t, "xlen")
		v = new(big.Int).SetBytes(rapid.SliceOfN(rapid.Byte(), n, n).Draw(t, "xbytes"))
	case k < 12:
		v = new(big.Int).Abs(rapid.SampledFrom(edge64Pool).Draw(t, "xe64"))
	case k < 14:
		v = new(big.Int).Abs(rapid.SampledFrom(boundPool).Draw(t, "xbound"))
	default:
		v = big.NewInt(int64(rapid.IntRange(0, 1000).Draw(t, "xsmall")))
	}
	v = new(big.Int).Set(v)
	if rapid.IntRange(0, 4).Draw(t, "xneg") < 3 {
		v.Neg(v)
	}
	if !inBound(v) {
		s := v.Sign()
		v = new(big.Int).Set(maxVmInt)
		if s < 0 {
			v.Neg(v)
		}
	}
	return v
}

func genAliasLiteral(t *rapid.T, rel *big.Int, label string) *big.Int {
	var v *big.Int
	switch rapid.IntRange(0, 9).Draw(t, label+"rel") {
	case 0:
		v = new(big.Int).Set(rel)
	case 1:
		v = new(big.Int).Neg(rel)
	case 2:
		v = new(big.Int).Add(rel, bOne)
	case 3:
		v = big.NewInt(int64(rapid.IntRange(-3, 3).Draw(t, label+"tiny")))
	default:
		v = genOperand(t, label)
	}
	if !inBound(v) {
		s := v.Sign()
		v = new(big.Int).Set(maxVmInt)
		if s < 0 {
			v.Neg(v)
		}
	}
	return v
}

const c13AliasRule = "aliasing programs on the real Executor.Execute: one operand (biased to |x| around/beyond 2^63, 2^64, 2^127, 2^255, 60 % negative; stored as integer item, as the integer result of a real opcode, or as byte array) is copied 1–3 times with DUP/OVER/PICK/TUCK/DUP+TOALTSTACK/DUPFROMALTSTACK/array element reads (PACK+PICKITEM, PACK+UNPACK), then 1–4 of the integer opcodes of the per-opcode tests are applied to some of the copies (selected with SWAP/ROT/ROLL/FROMALTSTACK; further operands are other copies or generated literals), optionally with more copies in between; oracle = stack machine over immutable math/big values: the complete final evaluation and alt stacks (every untouched copy and every result) must equal the model, an inexact step must fault; non-trivial = an opcode consumed a big-integer (outside int64) item while another copy of the same item was still live; distinct = different (operand, storage, program)"

func TestC13_Aliasing(t *testing.T) {
	ev := harn.For("C13").Rule(c13AliasRule)
	ev.Assume("math/big Add/Sub/Mul/unsigned Div/Cmp are correct (reference trusted base)")
	ev.Floor("alias:op-on-big-with-live-copy", "alias", 0.30)
	ev.Floor("alias:unary-on-negative-big-with-live-copy", "alias", 0.05)
	ev.Floor("alias:outcome:exact", "alias", 0.50)
	knownDiv := harn.Known("C13", "minint64-div-minus1", divWitnessStillFails())
	knownInvert := harn.Known("C13", "invert-max-magnitude", invertWitnessStillFails())

	harn.Check(t, 25000, 1200000, func(t *rapid.T) {
		x := genAliasOperand(t)
		store := rapid.IntRange(0, 5).Draw(t, "store") // 0-2 integer item, 3-4 result of a real opcode, 5 byte array
		m := &aliasModel{nextGrp: 1}
		m.push(mitem{x, 0})
		// a second independent value below the operand now and then, so OVER/TUCK/ROT have material
		var under *big.Int
		if rapid.IntRange(0, 2).Draw(t, "under") == 0 {
			under = genAliasLiteral(t, x, "u")
			m.main = []mitem{{under, m.nextGrp}, {x, 0}}
			m.nextGrp++
		}
		var classes []string
		for i, n := 0, rapid.IntRange(1, 3).Draw(t, "ncopies"); i < n; i++ {
			classes = append(classes, "alias:copy:"+m.copyStep(t, fmt.Sprintf("c%d", i)))
		}
		wantFault, faultWhy := false, ""
		excluded := false
		bigLive, negUnaryLive := false, false
		nops := rapid.IntRange(1, 4).Draw(t, "nops")
	ops:
		for i := 0; i < nops; i++ {
			lbl := fmt.Sprintf("o%d", i)
			if i > 0 && rapid.IntRange(0, 3).Draw(t, lbl+"more") == 0 {
				classes = append(classes, "alias:copy:"+m.copyStep(t, lbl+"c"))
			}
			m.selectStep(t, lbl+"sel")
			// draw an opcode whose exact outcome is defined; mostly one that does not fault
			var op intOp
			var operands []mitem
			var want expectation
			ok := false
			for try := 0; try < 6 && !ok; try++ {
				tl := fmt.Sprintf("%st%d", lbl, try)
				if rapid.IntRange(0, 2).Draw(t, tl+"unary") == 0 {
					un := []intOp{}
					for _, o := range aliasOps {
						if o.arity == 1 {
							un = append(un, o)
						}
					}
					op = un[rapid.IntRange(0, len(un)-1).Draw(t, tl+"uop")]
				} else {
					op = aliasOps[rapid.IntRange(0, len(aliasOps)-1).Draw(t, tl+"op")]
				}
				// operands: what is on the stack, topped up with literals; shift counts are literals
				snapMain, snapCode, snapText, snapGrp := append([]mitem{}, m.main...), len(m.code), len(m.text), m.nextGrp
				need := op.arity
				if op.kind == okShift {
					m.literal(t, genShiftCount(t), tl+"sc")
				} else {
					have := len(m.main)
					if have > need {
						have = need
					}
					fromStack := rapid.IntRange(1, have).Draw(t, tl+"fromStack")
					for j := fromStack; j < need; j++ {
						m.literal(t, genAliasLiteral(t, m.top(0).v, fmt.Sprintf("%sl%d", tl, j)), fmt.Sprintf("%sp%d", tl, j))
					}
					if need == 2 && fromStack == 1 && rapid.Bool().Draw(t, tl+"swap") {
						m.op("SWAP", neovm.SWAP)
						n := len(m.main)
						m.main[n-1], m.main[n-2] = m.main[n-2], m.main[n-1]
					}
				}
				operands = append([]mitem{}, m.main[len(m.main)-need:]...)
				vals := make([]*big.Int, need)
				for j := range operands {
					vals[j] = operands[j].v
				}
				want = reference(op, vals)
				acceptFault := rapid.IntRange(0, 9).Draw(t, tl+"acceptFault") == 0
				if want.dontCare || (want.fault && !acceptFault && try < 5) {
					m.main, m.code, m.text, m.nextGrp = snapMain, m.code[:snapCode], m.text[:snapText], snapGrp
					continue
				}
				ok = true
				if knownDiv && op.code == neovm.DIV && vals[0].Cmp(bMinI64) == 0 && vals[1].Cmp(bMinus1) == 0 ||
					knownInvert && op.code == neovm.INVERT && vals[0].Cmp(maxVmInt) == 0 {
					excluded = true
				}
			}
			if !ok {
				break
			}
			m.op(op.name, op.code)
			m.main = m.main[:len(m.main)-op.arity]
			for _, it := range operands {
				if !it.v.IsInt64() && m.live(it.grp) > 0 {
					bigLive = true
					if op.arity == 1 && it.v.Sign() < 0 {
						negUnaryLive = true
					}
				}
			}
			classes = append(classes, "alias:op:"+op.name)
			if excluded {
				break ops
			}
			if want.fault {
				wantFault, faultWhy = true, op.name+": "+want.why
				break ops
			}
			m.push(mitem{want.val, m.nextGrp})
			m.nextGrp++
		}

		storeName := []string{"int", "int", "int", "computed", "computed", "bytes"}[store]
		desc := fmt.Sprintf("alias x=%s [%s]", x, storeName)
		if under != nil {
			desc += " under=" + under.String()
		}
		desc += ": " + strings.Join(m.text, " ")
		if excluded {
			ev.Excluded()
			ev.Case(false, desc)
			return
		}

		// real execution
		var pre []types.VmValue
		var code []byte
		initial := []*big.Int{x}
		if under != nil {
			initial = []*big.Int{under, x}
		}
		for _, v := range initial {
			switch storeName {
			case "int":
				vv, _ := materialise(v, repInt, 0)
				pre = append(pre, vv)
			case "bytes":
				vv, _ := materialise(v, repBytesMin, 0)
				pre = append(pre, vv)
			}
		}
		if storeName == "computed" {
			// the operand is the integer result of a real opcode: push(bytes) 0 ADD
			for _, v := range initial {
				code = append(code, pushScript(v, repBytesMin, 0)...)
				code = append(code, byte(neovm.PUSH0), byte(neovm.ADD))
			}
		}
		code = append(code, m.code...)
		gotMain, gotAlt, fault := execAlias(t, pre, code, desc)
		ev.Class("exec")

		switch {
		case wantFault:
			if fault == "" {
				t.Fatalf("%s: program completed, want FAULT at %s", desc, faultWhy)
			}
		case fault != "":
			t.Fatalf("%s: FAULT(%s), want evaluation stack %s alt stack %s (every step is exact and within the 32-byte bound)", desc, fault, showItems(m.main), showItems(m.alt))
		default:
			for _, c := range []struct {
				name string
				got  []*big.Int
				want []mitem
			}{{"evaluation stack", gotMain, m.main}, {"alt stack", gotAlt, m.alt}} {
				same := len(c.got) == len(c.want)
				for i := 0; same && i < len(c.got); i++ {
					same = c.got[i].Cmp(c.want[i].v) == 0
				}
				if !same {
					t.Fatalf("%s: final %s (bottom..top) is %s, want %s: an opcode must compute the exact result and must not change an operand it does not consume (copies are independent values)", desc, c.name, showBig(c.got), showItems(c.want))
				}
			}
		}

		ev.Class("alias")
		for _, c := range classes {
			ev.Class(c)
		}
		if wantFault {
			ev.Class("alias:outcome:fault")
		} else {
			ev.Class("alias:outcome:exact")
		}
		if !x.IsInt64() {
			ev.Class("alias:operand-big")
			if x.Sign() < 0 {
				ev.Class("alias:operand-big-negative")
			}
		}
		ev.Class("alias:store:" + storeName)
		if bigLive {
			ev.Class("alias:op-on-big-with-live-copy")
		}
		if negUnaryLive {
			ev.Class("alias:unary-on-negative-big-with-live-copy")
		}
		ev.Case(bigLive, desc)
	})
}

func showItems(s []mitem) string {
	v := make([]*big.Int, len(s))
	for i := range s {
		v[i] = s[i].v
	}
	return showBig(v)
}

func showBig(s []*big.Int) string {
	p := make([]string, len(s))
	for i := range s {
		p[i] = s[i].String()
	}
	return "[" + strings.Join(p, " ") + "]"
}

// execAlias runs the program with the given items pre-pushed and returns both stacks bottom..top
// as integers, or the fault.
func execAlias(t *rapid.T, pre []types.VmValue, code []byte, desc string) (mainS, altS []*big.Int, fault string) {
	defer func() {
		if r := recover(); r != nil {
			t.Fatalf("%s: panic in Execute (script %x): %v", desc, code, r)
		}
	}()
	e := neovm.NewExecutor(code, neovm.VmFeatureFlag{})
	for _, v := range pre {
		if err := e.EvalStack.Push(v); err != nil {
			t.Fatalf("harness: push: %v", err)
		}
	}
	if err := e.Execute(); err != nil || e.State == neovm.FAULT {
		return nil, nil, fmt.Sprint(err)
	}
	read := func(st *neovm.ValueStack, name string) []*big.Int {
		n := st.Count()
		out := make([]*big.Int, n)
		for i := 0; i < n; i++ {
			it, err := st.Peek(int64(i))
			if err != nil {
				t.Fatalf("%s: peek %s[%d]: %v", desc, name, i, err)
			}
			if ty := it.GetType(); ty != types.IntegerType && ty != types.BooleanType && ty != types.ByteArrayType {
				t.Fatalf("%s: %s item %d from the top has type %x, want an integer, bool or byte array", desc, name, i, ty)
			}
			b, err := it.AsBigInt()
			if err != nil {
				t.Fatalf("%s: %s item %d from the top is not an integer: %v", desc, name, i, err)
			}
			out[n-1-i] = new(big.Int).Set(b)
		}
		return out
	}
	return read(e.EvalStack, "evaluation stack"), read(e.AltStack, "alt stack"), ""
}
