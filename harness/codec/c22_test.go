package codec

// C22 Base58 and hex addresses round-trip and reject corruption.
// Oracle: an independent base58check reference (own big-integer base conversion, version byte 23,
// 4-byte double-SHA256 checksum, no leading '1'). encode: ToBase58(a) == reference; decode:
// AddressFromBase58(s) accepts exactly the strings the reference accepts (i.e. exactly the
// canonical encodings of some address) and returns the same address; hex: ToHexString is the hex
// of the reversed bytes and parses back, malformed hex is rejected.

import (
	"bytes"
	"crypto/sha256"
	"fmt"
	"math/big"
	"strings"
	"testing"

	"github.com/ontio/ontology/common"
	"pgregory.net/rapid"

	"verifharness/internal/harn"
)

const c22Alphabet = "123456789ABCDEFGHJKLMNPQRSTUVWXYZabcdefghijkmnopqrstuvwxyz"

func c22Checksum(payload []byte) []byte {
	a := sha256.Sum256(payload)
	b := sha256.Sum256(a[:])
	return b[:4]
}

// c22RefEncodeRaw is plain base58 of a byte string (leading zero bytes -> leading '1').
func c22RefEncodeRaw(data []byte) string {
	zeros := 0
	for zeros < len(data) && data[zeros] == 0 {
		zeros++
	}
	n := new(big.Int).SetBytes(data)
	var out []byte
	r := new(big.Int)
	b58 := big.NewInt(58)
	for n.Sign() > 0 {
		n.QuoRem(n, b58, r)
		out = append(out, c22Alphabet[r.Int64()])
	}
	for i := 0; i < zeros; i++ {
		out = append(out, '1')
	}
	for i, j := 0, len(out)-1; i < j; i, j = i+1, j-1 {
		out[i], out[j] = out[j], out[i]
	}
	return string(out)
}

func c22RefEncode(version byte, a common.Address) string {
	p := append([]byte{version}, a[:]...)
	return c22RefEncodeRaw(append(p, c22Checksum(p)...))
}

// c22RefDecode accepts exactly the canonical encodings: alphabet characters only, no leading '1',
// value of exactly 25 bytes, version 23, correct checksum.
func c22RefDecode(s string) (a common.Address, ok bool) {
	if s == "" || len(s) > 64 || s[0] == '1' {
		return a, false
	}
	n := new(big.Int)
	for i := 0; i < len(s); i++ {
		d := strings.IndexByte(c22Alphabet, s[i])
		if d < 0 {
			return a, false
		}
		n.Mul(n, big.NewInt(58))
		n.Add(n, big.NewInt(int64(d)))
	}
	b := n.Bytes()
	if len(b) != 25 || b[0] != 23 || !bytes.Equal(c22Checksum(b[:21]), b[21:]) {
		return a, false
	}
	copy(a[:], b[1:21])
	return a, true
}

func c22GenAddr(t *rapid.T) (a common.Address, edge bool) {
	switch rapid.IntRange(0, 6).Draw(t, "addrKind") {
	case 0:
		return a, true
	case 1:
		copy(a[:], bytes.Repeat([]byte{0xFF}, 20))
		return a, true
	case 2: // leading zeros
		b := rapid.SliceOfN(rapid.Byte(), 20, 20).Draw(t, "addr")
		for i, n := 0, rapid.IntRange(1, 19).Draw(t, "lz"); i < n; i++ {
			b[i] = 0
		}
		copy(a[:], b)
		return a, true
	case 3: // trailing zeros / single bit
		a[rapid.IntRange(0, 19).Draw(t, "pos")] = 1 << uint(rapid.IntRange(0, 7).Draw(t, "bit"))
		return a, true
	default:
		copy(a[:], rapid.SliceOfN(rapid.Byte(), 20, 20).Draw(t, "addr"))
		return a, false
	}
}

// c22Check applies the differential oracle to one string.
func c22Check(s string) (msg string, accepted bool) {
	defer func() {
		if r := recover(); r != nil {
			msg = fmt.Sprintf("AddressFromBase58(%q) panicked: %v\n%s", s, r, c18Stack())
		}
	}()
	got, err := common.AddressFromBase58(s)
	want, ok := c22RefDecode(s)
	if len(s) > common.MaxBase58AddrLen && err == nil {
		return fmt.Sprintf("AddressFromBase58 accepted a %d-character string", len(s)), true
	}
	if (err == nil) != ok {
		return fmt.Sprintf("AddressFromBase58(%q): err=%v, but the reference base58check decoder says valid=%v", s, err, ok), err == nil
	}
	if err == nil {
		if got != want {
			return fmt.Sprintf("AddressFromBase58(%q) = %x, reference %x", s, got[:], want[:]), true
		}
		if got.ToBase58() != s {
			return fmt.Sprintf("accepted string %q is not the encoding %q of its address", s, got.ToBase58()), true
		}
	} else if got != common.ADDRESS_EMPTY {
		return fmt.Sprintf("AddressFromBase58(%q) failed (%v) but returned a non-empty address %x", s, err, got[:]), false
	}
	return "", err == nil
}

const c22Rule = "20-byte addresses (uniform, all-zero, all-FF, 1..19 leading zero bytes, single bit) encoded to base58/hex; single-character substitutions/insertions/deletions/transpositions of the base58 text, whitespace / control / non-alphabet characters added before, after or inside it, leading '1', wrong version byte or wrong checksum with otherwise valid structure, alphabet-only strings of plausible length, empty / 2048 / 2049-character / non-alphabet / non-ASCII strings; hex case, length and character edits; held results: sequences of 2-9 addresses (fresh ones and relatives of an earlier one: shared prefix or suffix of 1-19 bytes, one bit or byte changed, reversed, complemented) whose ToBase58/ToHexString strings and parse results are held to the end of the case next to private copies while rejected edits of the held texts are parsed, optionally with joined goroutines, then compared, parsed and encoded again; non-trivial = an edge address, any edited / arbitrary string, or a held sequence with >=2 different addresses; distinct = different string"

func TestC22_RoundTrip(t *testing.T) {
	ev := harn.For("C22").Rule(c22Rule)
	harn.Check(t, 20000, 600000, func(t *rapid.T) {
		a, edge := c22GenAddr(t)
		var s string
		guard(t, "ToBase58", func() { s = a.ToBase58() })
		if ref := c22RefEncode(23, a); s != ref {
			t.Fatalf("ToBase58(%x) = %q, reference base58check %q", a[:], s, ref)
		}
		if msg, ok := c22Check(s); msg != "" || !ok {
			t.Fatalf("round trip of %x via %q: %s (accepted=%v)", a[:], s, msg, ok)
		}
		// hex: reversed byte order
		hx := a.ToHexString()
		want := ""
		for i := 19; i >= 0; i-- {
			want += fmt.Sprintf("%02x", a[i])
		}
		if hx != want {
			t.Fatalf("ToHexString(%x) = %s, reference (reversed bytes) %s", a[:], hx, want)
		}
		for _, h := range []string{hx, strings.ToUpper(hx)} {
			b, err := common.AddressFromHexString(h)
			if err != nil || b != a {
				t.Fatalf("AddressFromHexString(%s) = %x, %v; want %x", h, b[:], err, a[:])
			}
		}
		if b, err := common.AddressParseFromBytes(a[:]); err != nil || b != a {
			t.Fatalf("AddressParseFromBytes(%x) = %x, %v", a[:], b[:], err)
		}
		// malformed hex / byte strings are rejected
		bad := hx
		kind := rapid.IntRange(0, 4).Draw(t, "hexEdit")
		switch kind {
		case 0:
			bad = hx[:rapid.IntRange(0, 39).Draw(t, "cut")]
		case 1:
			bad = hx + rapid.SampledFrom([]string{"0", "00", "ff", "g"}).Draw(t, "tail")
		case 2:
			p := rapid.IntRange(0, 39).Draw(t, "p")
			bad = hx[:p] + rapid.SampledFrom([]string{"g", "x", " ", "-", "G", "\x00", "é"}).Draw(t, "c") + hx[p+1:]
		case 3:
			bad = "0x" + hx
		default:
			n := rapid.SampledFrom([]int{0, 1, 19, 21, 32}).Draw(t, "n")
			if _, err := common.AddressParseFromBytes(make([]byte, n)); err == nil {
				t.Fatalf("AddressParseFromBytes accepted %d bytes", n)
			}
			bad = ""
		}
		var err error
		guard(t, "AddressFromHexString", func() { _, err = common.AddressFromHexString(bad) })
		if err == nil {
			t.Fatalf("AddressFromHexString(%q) accepted (edit %d of %s)", bad, kind, hx)
		}
		ev.Class(fmt.Sprintf("addr:edge=%v", edge))
		ev.Case(edge, "addr "+hx)
	})
}

func TestC22_Edits(t *testing.T) {
	ev := harn.For("C22").Rule(c22Rule)
	harn.Check(t, 6000, 200000, func(t *rapid.T) {
		a, _ := c22GenAddr(t)
		s := a.ToBase58()
		desc := ""
		for k := 0; k < 20; k++ {
			e := []byte(s)
			kind := ""
			switch rapid.IntRange(0, 9).Draw(t, "edit") {
			case 9: // characters outside the alphabet ADDED before, after or inside the otherwise untouched text
				pads := []string{" ", "\n", "\r\n", "\t", "\v", "\f", "\u0085", "\u00a0", "\u2028", "\ufeff", "\x00", "0", "=", "  "}
				pad := rapid.SampledFrom(pads).Draw(t, "pad")
				switch rapid.IntRange(0, 3).Draw(t, "padWhere") {
				case 0:
					e = append([]byte(pad), e...)
				case 1:
					e = append(e, pad...)
				case 2:
					e = append(append([]byte(pad), e...), rapid.SampledFrom(pads).Draw(t, "pad2")...)
				default:
					p := rapid.IntRange(1, len(e)-1).Draw(t, "p")
					e = append(e[:p:p], append([]byte(pad), e[p:]...)...)
				}
				kind = "padding"
			case 0:
				p := rapid.IntRange(0, len(e)-1).Draw(t, "p")
				e[p] = c22Alphabet[rapid.IntRange(0, 57).Draw(t, "c")]
				kind = "subst"
			case 1:
				p := rapid.IntRange(0, len(e)).Draw(t, "p")
				e = append(e[:p:p], append([]byte{c22Alphabet[rapid.IntRange(0, 57).Draw(t, "c")]}, e[p:]...)...)
				kind = "insert"
			case 2:
				p := rapid.IntRange(0, len(e)-1).Draw(t, "p")
				e = append(e[:p:p], e[p+1:]...)
				kind = "delete"
			case 3:
				p := rapid.IntRange(0, len(e)-2).Draw(t, "p")
				e[p], e[p+1] = e[p+1], e[p]
				kind = "transpose"
			case 4:
				e = append(bytes.Repeat([]byte{'1'}, rapid.IntRange(1, 3).Draw(t, "ones")), e...)
				kind = "leading-1"
			case 5: // other version byte, checksum recomputed
				v := byte(rapid.IntRange(0, 255).Draw(t, "version"))
				if v == 23 {
					v = 24
				}
				e = []byte(c22RefEncode(v, a))
				kind = "version"
			case 6: // wrong checksum
				p := append([]byte{23}, a[:]...)
				c := c22Checksum(p)
				c[rapid.IntRange(0, 3).Draw(t, "cb")] ^= 1 << uint(rapid.IntRange(0, 7).Draw(t, "bit"))
				e = []byte(c22RefEncodeRaw(append(p, c...)))
				kind = "checksum"
			case 7: // non-alphabet character
				p := rapid.IntRange(0, len(e)-1).Draw(t, "p")
				e[p] = rapid.SampledFrom([]byte{'0', 'O', 'I', 'l', ' ', '+', '/', 0, 0x80, 0xFF}).Draw(t, "bad")
				kind = "non-alphabet"
			default: // payload of 24 or 26 bytes with a correct checksum
				p := append([]byte{23}, a[:]...)
				if rapid.Bool().Draw(t, "longer") {
					p = append(p, rapid.Byte().Draw(t, "extra"))
				} else {
					p = p[:20]
				}
				e = []byte(c22RefEncodeRaw(append(p, c22Checksum(p)...)))
				kind = "length"
			}
			es := string(e)
			msg, ok := c22Check(es)
			if msg != "" {
				t.Fatalf("edit %s of %q: %s", kind, s, msg)
			}
			if es != s && ok {
				ev.Class("edit:" + kind + ":accepted-other-address")
			} else if es != s {
				ev.Class("edit:" + kind + ":rejected")
			} else {
				ev.Class("edit:" + kind + ":identity")
			}
			desc += " " + kind + ":" + es
			if len(desc) > 400 {
				desc = desc[:400]
			}
		}
		ev.Case(true, "edits of "+s+":"+desc)
	})
}

func c22GenString(t *rapid.T) string {
	switch rapid.IntRange(0, 7).Draw(t, "strKind") {
	case 0:
		return ""
	case 1: // alphabet only, plausible length, starts like an address
		n := rapid.IntRange(30, 37).Draw(t, "n")
		b := make([]byte, n)
		for i := range b {
			b[i] = c22Alphabet[rapid.IntRange(0, 57).Draw(t, "c")]
		}
		if rapid.Bool().Draw(t, "A") {
			b[0] = 'A'
		}
		return string(b)
	case 2:
		return strings.Repeat(string(c22Alphabet[rapid.IntRange(0, 57).Draw(t, "c")]), rapid.SampledFrom([]int{1, 33, 34, 35, 2047, 2048, 2049, 5000}).Draw(t, "n"))
	case 3: // valid address padded to the length limit
		a, _ := c22GenAddr(t)
		pad := rapid.SampledFrom([]int{2048 - 34, 2049 - 34, 1}).Draw(t, "pad")
		return strings.Repeat("1", pad) + a.ToBase58()
	case 4:
		return rapid.String().Draw(t, "unicode")
	case 5:
		return string(rapid.SliceOfN(rapid.Byte(), 0, 50).Draw(t, "bytes"))
	case 6: // raw base58 of arbitrary payloads of 20..30 bytes
		return c22RefEncodeRaw(rapid.SliceOfN(rapid.Byte(), 20, 30).Draw(t, "payload"))
	default:
		a, _ := c22GenAddr(t)
		return a.ToBase58()
	}
}

func TestC22_Arbitrary(t *testing.T) {
	ev := harn.For("C22").Rule(c22Rule)
	harn.Check(t, 20000, 1000000, func(t *rapid.T) {
		s := c22GenString(t)
		msg, ok := c22Check(s)
		if msg != "" {
			t.Fatalf("%s", msg)
		}
		if ok {
			ev.Class("arbitrary:accepted")
		} else {
			ev.Class("arbitrary:rejected")
		}
		d := s
		if len(d) > 80 {
			d = fmt.Sprintf("%s…(%d)", d[:80], len(s))
		}
		ev.Case(true, fmt.Sprintf("string %q", d))
	})
}

func FuzzC22_Base58(f *testing.F) {
	var a common.Address
	f.Add(a.ToBase58())
	f.Add("AFmseVrdL9f9oyCzZefL9tG6UbvhPbdYzM")
	f.Add("1AFmseVrdL9f9oyCzZefL9tG6UbvhPbdYzM")
	f.Add("")
	f.Add("0OIl")
	f.Fuzz(func(t *testing.T, s string) {
		if len(s) > 4096 {
			return
		}
		if msg, _ := c22Check(s); msg != "" {
			t.Fatal(msg)
		}
		// hex decoder never panics and only accepts 40 hex digits
		if a, err := common.AddressFromHexString(s); err == nil {
			if len(s) != 40 || !strings.EqualFold(a.ToHexString(), s) {
				t.Fatalf("AddressFromHexString(%q) accepted as %s", s, a.ToHexString())
			}
		}
	})
}
