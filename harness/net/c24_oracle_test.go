package net

// C24 oracle shared by the rapid tests, the isolated worker and the native fuzz target.

import (
	"bytes"
	"encoding/binary"
	"encoding/json"
	"fmt"
	"io"
	"runtime"
	"runtime/debug"
	"sync"
	"time"

	"github.com/ontio/ontology-crypto/ec"
	"github.com/ontio/ontology-crypto/keypair"
	"github.com/ontio/ontology/common"
	"github.com/ontio/ontology/common/config"
	ct "github.com/ontio/ontology/core/types"
	pcom "github.com/ontio/ontology/p2pserver/common"
	"github.com/ontio/ontology/p2pserver/message/types"

	"pgregory.net/rapid"

	"verifharness/internal/fix"
	"verifharness/internal/harn"
	"verifharness/internal/iso"
)

const (
	keyAddrCount = "addr-count-overflow-panic"
	keyCCSigLen  = "ccmsg-siglen-prealloc"
	keyOffline   = "offline-proposersig-not-decoded"
	keyOffCurve  = "offcurve-uncompressed-pubkey"
)

var setupOnce sync.Once

// setup fixes the process-wide parameters of the decoders.
func setup() {
	setupOnce.Do(func() {
		fix.Quiet()
		pcom.Difficulty = 1 // kad-id proof of work: 1 bit, as the repo's own tests do
		initKeys()
	})
}

// countingReader counts the bytes handed out.
type countingReader struct {
	r io.Reader
	n int
}

func (c *countingReader) Read(p []byte) (int, error) {
	n, err := c.r.Read(p)
	c.n += n
	return n, err
}

// verdict of decoding one stream.
type verdict struct {
	Kind     string // "msg" (decoded, all oracles held), "err" (rejected), or a violation: "panic", "alloc", "len", "reencode", "redecode", "idem", "header"
	Detail   string
	Cmd      string // CmdType of the decoded message
	Alloc    uint64
	Consumed int
	Canon    string `json:"-"`
	msg      types.Message
}

func (v verdict) bad() bool { return v.Kind != "msg" && v.Kind != "err" }

// hdrFields parses the 24 header bytes independently.
type hdrFields struct {
	ok     bool
	magic  uint32
	cmd    string
	length uint32
	ck     [4]byte
}

func parseHdr(stream []byte) (h hdrFields) {
	if len(stream) < 24 {
		return
	}
	h.ok = true
	h.magic = binary.LittleEndian.Uint32(stream)
	h.cmd = string(bytes.TrimRight(stream[4:16], "\x00"))
	h.length = binary.LittleEndian.Uint32(stream[16:])
	copy(h.ck[:], stream[20:24])
	return
}

// allocBound: cumulative allocation allowed while decoding one stream.
//   - the payload buffer may be as large as the declared length (only when that is legal);
//   - decoders append one element per parsed element; the densest legal encoding is one payload
//     byte (an empty var-bytes) per 24-byte slice header, and append's amortised growth multiplies
//     that by up to ~6, so 256 x the bytes supplied (+ 1 MiB) is the smallest multiplier that can
//     not be reached by allocation that is proportional to the input;
//   - decompressing a P-224 public key (math/big ModSqrt, Tonelli-Shanks) churns 0.3-2.5 MB per key
//     and varies from run to run: 8 MiB are granted per place where such a key can start
//     (bytes 12 01, or "1201" inside a hex string).
//
// A count-driven pre-allocation (make by a hostile count >= 2^20) still exceeds this by far.
func allocBound(stream []byte) uint64 {
	b := uint64(256*len(stream)) + 1<<20 + p224Slack(stream)
	if h := parseHdr(stream); h.ok && h.length <= pcom.MAX_PAYLOAD_LEN {
		b += uint64(h.length)
	}
	return b
}

func p224Slack(stream []byte) uint64 {
	n := bytes.Count(stream, []byte{0x12, 0x01}) + bytes.Count(stream, []byte("1201"))
	return uint64(n) * (8 << 20)
}

var memA, memB runtime.MemStats

// readMeasured runs ReadMessage on the stream with panic recovery, a counting reader and the
// allocation meter (cumulative bytes allocated by this goroutine's process during the call).
func readMeasured(stream []byte) (msg types.Message, n uint32, err error, pan interface{}, alloc uint64, consumed int) {
	cr := &countingReader{r: bytes.NewReader(stream)}
	runtime.ReadMemStats(&memA)
	func() {
		defer func() { pan = recover() }()
		msg, n, err = types.ReadMessage(cr)
	}()
	runtime.ReadMemStats(&memB)
	return msg, n, err, pan, memB.TotalAlloc - memA.TotalAlloc, cr.n
}

func encodeFrame(m types.Message) (out []byte, pan interface{}) {
	defer func() { pan = recover() }()
	s := common.NewZeroCopySink(nil)
	types.WriteMessage(s, m)
	return s.Bytes(), nil
}

// judge applies every oracle that holds for an arbitrary byte stream.
func judge(stream []byte) (v verdict) {
	h := parseHdr(stream)
	msg, n, err, pan, alloc, consumed := readMeasured(append([]byte{}, stream...))
	v.Alloc, v.Consumed = alloc, consumed
	if pan != nil {
		v.Kind, v.Detail = "panic", fmt.Sprintf("ReadMessage panicked: %v", pan)
		return
	}
	if alloc > allocBound(stream) {
		v.Kind, v.Detail = "alloc", fmt.Sprintf("ReadMessage allocated %d bytes for a %d-byte stream (bound %d)", alloc, len(stream), allocBound(stream))
		return
	}
	// header model: these streams must be rejected
	if reason := headerMustReject(stream, h); reason != "" {
		if err == nil {
			v.Kind, v.Detail = "header", "accepted a stream that must be rejected: "+reason
			return
		}
		if h.ok && h.magic == magic() && h.length > pcom.MAX_PAYLOAD_LEN && consumed > 24 {
			v.Kind, v.Detail = "header", fmt.Sprintf("oversize length %d: %d bytes consumed, only the 24 header bytes may be read", h.length, consumed)
			return
		}
	}
	if err != nil {
		v.Kind, v.Detail = "err", err.Error()
		return
	}
	if msg == nil {
		v.Kind, v.Detail = "header", "nil message without error"
		return
	}
	v.msg, v.Cmd = msg, msg.CmdType()
	if n != h.length {
		v.Kind, v.Detail = "len", fmt.Sprintf("reported payload size %d, header says %d", n, h.length)
		return
	}
	if v.Cmd != h.cmd {
		v.Kind, v.Detail = "len", fmt.Sprintf("message type %q decoded from command %q", v.Cmd, h.cmd)
		return
	}
	// semantic idempotence: decode(encode(decode(b))) == decode(b)
	c1 := canon(msg)
	v.Canon = c1
	f2, pan := encodeFrame(msg)
	if pan != nil {
		v.Kind, v.Detail = "reencode", fmt.Sprintf("re-serializing the decoded message panicked: %v", pan)
		return
	}
	m2, _, err2, pan2, _, _ := readMeasured(f2)
	if (pan2 != nil || err2 != nil) && hasOffCurveKey(msg) {
		v.Kind, v.Detail = "offcurve", fmt.Sprintf("decoded a message with a public key that is not on its curve; its re-serialization %x does not decode: err=%v panic=%v", f2, err2, pan2)
		return
	}
	if pan2 != nil || err2 != nil {
		v.Kind, v.Detail = "redecode", fmt.Sprintf("re-serialized message %x does not decode: err=%v panic=%v", f2, err2, pan2)
		return
	}
	if c2 := canon(m2); c2 != c1 {
		v.Kind, v.Detail = "idem", fmt.Sprintf("decode(encode(decode(b))) differs:\n first  %s\n second %s", c1, c2)
		return
	}
	f3, _ := encodeFrame(m2)
	if !bytes.Equal(f2, f3) {
		v.Kind, v.Detail = "idem", fmt.Sprintf("encode is not stable: %x then %x", f2, f3)
		return
	}
	v.Kind = "msg"
	return
}

// messageKeys lists the public keys a decoded message holds.
func messageKeys(m types.Message) (keys []keypair.PublicKey) {
	hdr := func(h *ct.Header) {
		if h != nil {
			keys = append(keys, h.Bookkeepers...)
		}
	}
	switch v := m.(type) {
	case *types.Consensus:
		keys = append(keys, v.Cons.Owner)
	case *types.UpdatePeerKeyId:
		if v.KadKeyId != nil {
			keys = append(keys, v.KadKeyId.PublicKey)
		}
	case *types.SubnetMembersRequest:
		keys = append(keys, v.PubKey)
	case *types.BlkHeader:
		for _, h := range v.BlkHdr {
			hdr(h)
		}
	case *types.Block:
		if v.Blk != nil {
			hdr(v.Blk.Header)
		}
	}
	return
}

// hasOffCurveKey: recogniser of the recorded finding "uncompressed public keys are not validated":
// the message holds an EC public key whose point is not on its curve.
func hasOffCurveKey(m types.Message) (off bool) {
	defer func() {
		if recover() != nil {
			off = true
		}
	}()
	for _, k := range messageKeys(m) {
		if e, ok := k.(*ec.PublicKey); ok && e != nil && e.PublicKey != nil {
			if e.X == nil || e.Y == nil || !e.Curve.IsOnCurve(e.X, e.Y) {
				return true
			}
		}
	}
	return false
}

func magic() uint32     { return config.DefConfig.P2PNode.NetworkMagic }
func setMagic(m uint32) { config.DefConfig.P2PNode.NetworkMagic = m }

// headerMustReject is the reference model of the frame checks: non-empty reason = the stream must
// produce an error.
func headerMustReject(stream []byte, h hdrFields) string {
	switch {
	case !h.ok:
		return "shorter than a header"
	case h.magic != magic():
		return fmt.Sprintf("magic %#x != %#x", h.magic, magic())
	case h.length > pcom.MAX_PAYLOAD_LEN:
		return fmt.Sprintf("length %d > MAX_PAYLOAD_LEN", h.length)
	case uint64(len(stream)-24) < uint64(h.length):
		return "payload shorter than the declared length"
	case refChecksum(stream[24:24+int(h.length)]) != h.ck:
		return "checksum mismatch"
	}
	return ""
}

// ---------------------------------------------------------------------------------------------
// recognisers of the recorded findings

// isAddrOverflow: addr payload whose 8-byte count is >= 2^63.
func isAddrOverflow(cmd string, pay []byte) bool {
	return cmd == pcom.ADDR_TYPE && len(pay) >= 8 && binary.LittleEndian.Uint64(pay) >= 1<<63
}

// ccSigLen: for a block payload that carries a cross-chain message, the declared number of
// signatures and the number of payload bytes that follow the count.
func ccSigLen(cmd string, pay []byte) (sigLen, remaining uint64, ok bool) {
	if cmd != pcom.BLOCK_TYPE {
		return
	}
	defer func() {
		if recover() != nil {
			ok = false
		}
	}()
	src := common.NewZeroCopySource(append([]byte{}, pay...))
	blk := new(ct.Block)
	if blk.Deserialization(src) != nil {
		return
	}
	if _, eof := src.NextHash(); eof {
		return
	}
	has, irr, eof := src.NextBool()
	if irr || eof || !has {
		return
	}
	if eof := src.Skip(1 + 4 + 32); eof {
		return
	}
	n, _, irr, eof := src.NextVarUint()
	if irr || eof {
		return
	}
	return n, src.Len(), true
}

// isCCPrealloc: the cross-chain message declares more signatures than bytes remain (each
// signature needs at least one byte), so the decoder must fail — but it pre-allocates first.
func isCCPrealloc(cmd string, pay []byte) bool {
	n, rem, ok := ccSigLen(cmd, pay)
	return ok && n > rem
}

func framePayload(stream []byte) (string, []byte, bool) {
	h := parseHdr(stream)
	if !h.ok || headerMustReject(stream, h) != "" {
		return "", nil, false
	}
	return h.cmd, stream[24 : 24+int(h.length)], true
}

var (
	knownOnce                       sync.Once
	knownAddr, knownCC, knownOff    bool
	addrStill, ccStill, offStill    bool
	addrDetail, ccDetail, offDetail string
	knownCurve, curveStill          bool
	curveDetail                     string
)

// witnessOffCurve: a consensus message whose owner key is the uncompressed P-256 "point"
// (x = 03 00..00, y = 0), which is not on the curve.
func witnessOffCurve() []byte {
	p := &pb{}
	p.u32(0)
	p.raw(make([]byte, 32))
	p.u32(1)
	p.u16(0)
	p.u32(0)
	p.varbytes("data", nil)
	key := make([]byte, 65)
	key[0], key[1] = 0x04, 0x03
	p.varbytes("owner", key)
	p.varbytes("sig", nil)
	return refFrame(pcom.CONSENSUS_TYPE, p.b)
}

// witnessOffline: a correctly signed offline-witness message (reference encoding, fixed example).
func witnessOffline() []byte {
	g := rapid.Custom(func(t *rapid.T) gm { return genMsgOf(t, pcom.SUBNET_OFFLINE_TYPE) }).Example(7)
	return refFrame(pcom.SUBNET_OFFLINE_TYPE, g.p.b)
}

func witnessAddr() []byte { return refFrame(pcom.ADDR_TYPE, []byte{0, 0, 0, 0, 0, 0, 0, 0x80}) }

// witnessCC: an empty block followed by a cross-chain message whose signature count is n.
func witnessCC(n uint64) []byte {
	blk := &ct.Block{Header: &ct.Header{}}
	blk.RebuildMerkleRoot()
	s := common.NewZeroCopySink(nil)
	blk.Serialization(s)
	p := &pb{b: s.Bytes()}
	p.raw(make([]byte, 32))
	p.boolean(true)
	p.u8(0)
	p.u32(1)
	p.raw(make([]byte, 32))
	p.raw(refVarUint(n))
	return refFrame(pcom.BLOCK_TYPE, p.b)
}

// replayKnown replays the deterministic witnesses once per process.
func replayKnown() {
	knownOnce.Do(func() {
		setup()
		v := judge(witnessAddr())
		addrStill, addrDetail = v.bad(), v.Kind+": "+v.Detail
		knownAddr = harn.Known("C24", keyAddrCount, addrStill)
		v = judge(witnessCC(1 << 63))
		ccStill, ccDetail = v.bad(), v.Kind+": "+v.Detail
		if !ccStill {
			v = judge(witnessCC(1 << 20)) // 24 MiB of slice headers for a 200-byte frame
			ccStill, ccDetail = v.bad(), v.Kind+": "+v.Detail
		}
		knownCC = harn.Known("C24", keyCCSigLen, ccStill)
		v = judge(witnessOffline())
		offStill, offDetail = v.Kind != "msg", v.Kind+": "+v.Detail
		knownOff = harn.Known("C24", keyOffline, offStill)
		v = judge(witnessOffCurve())
		curveStill, curveDetail = v.bad(), v.Kind+": "+v.Detail
		knownCurve = harn.Known("C24", keyOffCurve, curveStill)
	})
}

// ---------------------------------------------------------------------------------------------
// isolated execution (fatal out-of-memory cannot be recovered in-process)

func init() {
	iso.Register("c24judge", func(in []byte) []byte {
		setup()
		debug.SetGCPercent(100)
		if len(in) >= 4 {
			setMagic(binary.LittleEndian.Uint32(in))
			in = in[4:]
		}
		v := judge(in)
		b, _ := json.Marshal(v)
		return b
	})
}

var worker = iso.New("c24judge")

func judgeIsolated(stream []byte) (v verdict, timedOut bool) {
	in := binary.LittleEndian.AppendUint32(nil, magic())
	r := worker.Do(append(in, stream...), 60*time.Second)
	if r.TimedOut {
		return verdict{Kind: "err", Detail: "worker timeout"}, true
	}
	if r.Died {
		return verdict{Kind: "panic", Detail: "decoding killed the process: " + r.Diag}, false
	}
	if err := json.Unmarshal(r.Out, &v); err != nil {
		return verdict{Kind: "panic", Detail: "worker answer unreadable: " + err.Error()}, false
	}
	return v, false
}

// judgeGuarded is judge for generated/mutated streams: streams inside a recorded finding's class
// are excluded (and counted) while the finding is listed; streams that could exhaust memory are
// judged in the worker process.
func judgeGuarded(ev *harn.Collector, stream []byte) (v verdict, excluded bool) {
	replayKnown()
	if cmd, pay, ok := framePayload(stream); ok {
		if isAddrOverflow(cmd, pay) && knownAddr {
			ev.Excluded()
			return verdict{Kind: "err", Detail: "excluded " + keyAddrCount}, true
		}
		if isCCPrealloc(cmd, pay) {
			if knownCC {
				ev.Excluded()
				return verdict{Kind: "err", Detail: "excluded " + keyCCSigLen}, true
			}
			if n, _, _ := ccSigLen(cmd, pay); n > 1<<22 {
				v, to := judgeIsolated(stream)
				if to {
					ev.Class("timeout")
				}
				if v.Kind == "offcurve" && knownCurve {
					ev.Excluded()
					return verdict{Kind: "err", Detail: "excluded " + keyOffCurve}, true
				}
				return v, false
			}
		}
	}
	v = judge(stream)
	if v.Kind == "offcurve" && knownCurve {
		ev.Excluded()
		return verdict{Kind: "err", Detail: "excluded " + keyOffCurve}, true
	}
	return v, false
}
