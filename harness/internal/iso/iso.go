// Package iso runs risky executions in a child process so that fatal runtime errors (stack
// overflow, concurrent map writes, allocation failure) — which no recover() can catch — become an
// observable "worker died" result instead of killing the test process. The child is the test
// binary itself, re-executed with VERIF_WORKER=<handler name>; cases and results travel as
// length-prefixed frames over two dedicated pipes (fd 3 = requests, fd 4 = replies), so anything
// the code under test prints to stdout/stderr cannot corrupt the protocol.
package iso

import (
	"bytes"
	"encoding/binary"
	"fmt"
	"io"
	"os"
	"os/exec"
	"runtime/debug"
	"sync"
	"syscall"
	"time"
)

var (
	mu       sync.Mutex
	handlers = map[string]func([]byte) []byte{}
)

// Register installs a handler (call from an init() or a package-level var in the test package).
func Register(name string, h func(in []byte) []byte) {
	mu.Lock()
	handlers[name] = h
	mu.Unlock()
}

// IsWorker reports whether this process is a worker child.
func IsWorker() bool { return os.Getenv("VERIF_WORKER") != "" }

// Serve runs the worker loop and never returns.
func Serve() {
	name := os.Getenv("VERIF_WORKER")
	h := handlers[name]
	if h == nil {
		fmt.Fprintf(os.Stderr, "iso: no handler %q\n", name)
		os.Exit(97)
	}
	debug.SetMaxStack(64 << 20)
	// address-space cap so that unbounded allocation fails inside the child only
	lim := uint64(6 << 30)
	_ = syscall.Setrlimit(syscall.RLIMIT_AS, &syscall.Rlimit{Cur: lim, Max: lim})
	in := os.NewFile(3, "req")
	out := os.NewFile(4, "rep")
	for {
		req, err := readFrame(in)
		if err != nil {
			os.Exit(0)
		}
		rep := h(req)
		if err := writeFrame(out, rep); err != nil {
			os.Exit(0)
		}
	}
}

func readFrame(r io.Reader) ([]byte, error) {
	var l [4]byte
	if _, err := io.ReadFull(r, l[:]); err != nil {
		return nil, err
	}
	b := make([]byte, binary.LittleEndian.Uint32(l[:]))
	_, err := io.ReadFull(r, b)
	return b, err
}

func writeFrame(w io.Writer, b []byte) error {
	var l [4]byte
	binary.LittleEndian.PutUint32(l[:], uint32(len(b)))
	if _, err := w.Write(append(l[:], b...)); err != nil {
		return err
	}
	return nil
}

// Result of one isolated execution.
type Result struct {
	Out      []byte
	Died     bool   // the worker process terminated while handling the case
	TimedOut bool   // no answer within the wait; the worker was killed (inconclusive, not a violation)
	Diag     string // tail of the worker's stderr/stdout when it died
}

// Worker is a lazily started child process.
type Worker struct {
	name   string
	cmd    *exec.Cmd
	req    *os.File
	rep    *os.File
	output *tailBuf
	Starts int
}

func New(name string) *Worker { return &Worker{name: name} }

type tailBuf struct {
	mu sync.Mutex
	b  []byte
}

func (t *tailBuf) Write(p []byte) (int, error) {
	t.mu.Lock()
	t.b = append(t.b, p...)
	if len(t.b) > 1<<16 {
		t.b = t.b[len(t.b)-(1<<15):]
	}
	t.mu.Unlock()
	return len(p), nil
}

func (t *tailBuf) String() string {
	t.mu.Lock()
	defer t.mu.Unlock()
	b := t.b
	// keep the head of a crash report: the first "fatal error"/"panic" line matters most
	if i := bytes.Index(b, []byte("fatal error:")); i >= 0 {
		b = b[i:]
	} else if i := bytes.Index(b, []byte("panic:")); i >= 0 {
		b = b[i:]
	}
	if len(b) > 1500 {
		b = b[:1500]
	}
	return string(b)
}

func (w *Worker) start() error {
	reqR, reqW, err := os.Pipe()
	if err != nil {
		return err
	}
	repR, repW, err := os.Pipe()
	if err != nil {
		return err
	}
	bin := os.Getenv("VERIF_BIN")
	if bin == "" {
		bin = os.Args[0]
	}
	cmd := exec.Command(bin, "-test.run", "^$")
	cmd.Env = append(os.Environ(), "VERIF_WORKER="+w.name, "GOTRACEBACK=single")
	cmd.ExtraFiles = []*os.File{reqR, repW}
	w.output = &tailBuf{}
	cmd.Stdout = w.output
	cmd.Stderr = w.output
	if err := cmd.Start(); err != nil {
		return err
	}
	reqR.Close()
	repW.Close()
	w.cmd, w.req, w.rep = cmd, reqW, repR
	w.Starts++
	return nil
}

func (w *Worker) kill() {
	if w.cmd != nil {
		_ = w.cmd.Process.Kill()
		_ = w.cmd.Wait()
		w.req.Close()
		w.rep.Close()
		w.cmd = nil
	}
}

// KillProcess sends SIGKILL to the running worker without any clean-up; a concurrent Do then
// observes the death (Result.Died). Used to emulate a node crash at an arbitrary instant.
func (w *Worker) KillProcess() {
	if c := w.cmd; c != nil && c.Process != nil {
		_ = c.Process.Kill()
	}
}

// Close stops the worker.
func (w *Worker) Close() { w.kill() }

// Do sends one case and waits for the answer.
func (w *Worker) Do(in []byte, wait time.Duration) Result {
	if w.cmd == nil {
		if err := w.start(); err != nil {
			return Result{TimedOut: true, Diag: "cannot start worker: " + err.Error()}
		}
	}
	if err := writeFrame(w.req, in); err != nil {
		diag := w.waitDiag()
		return Result{Died: true, Diag: "write: " + err.Error() + "\n" + diag}
	}
	type ans struct {
		b   []byte
		err error
	}
	ch := make(chan ans, 1)
	rep := w.rep
	go func() {
		b, err := readFrame(rep)
		ch <- ans{b, err}
	}()
	select {
	case a := <-ch:
		if a.err != nil {
			return Result{Died: true, Diag: w.waitDiag()}
		}
		return Result{Out: a.b}
	case <-time.After(wait):
		w.kill()
		return Result{TimedOut: true}
	}
}

func (w *Worker) waitDiag() string {
	if w.cmd == nil {
		return ""
	}
	done := make(chan struct{})
	go func() { _ = w.cmd.Wait(); close(done) }()
	select {
	case <-done:
	case <-time.After(20 * time.Second):
		_ = w.cmd.Process.Kill()
		<-done
	}
	st := ""
	if w.cmd.ProcessState != nil {
		st = w.cmd.ProcessState.String()
	}
	w.req.Close()
	w.rep.Close()
	w.cmd = nil
	return st + "\n" + w.output.String()
}
