package chainq

// C40 Chain queries agree with each other for every stored block.
//
// A generated chain (native ONT/ONG transfers incl. failing ones, NeoVM deploy/invoke, EIP-155
// transfers and creations) is committed block by block on a real solo ledger, with restarts at
// generated points. The oracle is the harness's own record of what it committed (bytes of
// block.ToArray(), header bytes, transaction bytes and hashes per height). At every checkpoint
// (before each restart, after each restart, at the end) EVERY height is queried through every
// getter named by the property and compared with the record; unknown hashes/heights must not be
// found.
//
// Block sizes are heavy-tailed: besides the 0-6 generated transactions per block, about half of the
// chains carry one or two BIG blocks (255, 256, 257, 258-400, ~1000 cheap native transfers taken
// from a per-process pool of prebuilt signed transactions, plus 0-2 generated ones), so that the
// block record on disk (header + transaction-hash list) and the per-transaction records are
// exercised far beyond a handful of entries. Big blocks are followed by restarts (cold block
// cache) and, in a share of the chains, by a run of >= 12 further blocks without a restart and a
// checkpoint (the block has aged out of the 10-entry block cache and is re-assembled from disk).

import (
	"fmt"
	"math"
	"math/big"
	"os"
	"strings"
	"testing"

	ethcommon "github.com/ethereum/go-ethereum/common"
	"github.com/ontio/ontology/common"
	"github.com/ontio/ontology/core/payload"
	"github.com/ontio/ontology/core/store"
	"github.com/ontio/ontology/core/store/ledgerstore"
	"github.com/ontio/ontology/core/types"
	cutils "github.com/ontio/ontology/core/utils"
	"github.com/ontio/ontology/smartcontract/service/native/ont"
	nutils "github.com/ontio/ontology/smartcontract/service/native/utils"
	"pgregory.net/rapid"

	"verifharness/internal/fix"
	"verifharness/internal/harn"
)

// c40Rec is the harness's record of one committed block.
type c40Rec struct {
	Height  uint32
	Hash    common.Uint256
	Raw     []byte // block.ToArray() taken before the block was handed to the ledger
	HdrRaw  []byte // header.ToArray()
	TxHash  []common.Uint256
	TxRaw   [][]byte
	TxTypes []types.TransactionType
}

func c40Record(b *types.Block) c40Rec {
	r := c40Rec{Height: b.Header.Height, Hash: b.Hash(), Raw: b.ToArray(), HdrRaw: b.Header.ToArray()}
	for _, tx := range b.Transactions {
		r.TxHash = append(r.TxHash, tx.Hash())
		r.TxRaw = append(r.TxRaw, append([]byte{}, tx.ToArray()...))
		r.TxTypes = append(r.TxTypes, tx.TxType)
	}
	return r
}

// c40VerifyHeight compares every getter of the property for one committed height with the record.
func c40VerifyHeight(ls *ledgerstore.LedgerStoreImp, r *c40Rec) error {
	h := r.Height
	if got := ls.GetBlockHash(h); got != r.Hash {
		return fmt.Errorf("GetBlockHash(%d) = %s, committed block hash is %s", h, got.ToHexString(), r.Hash.ToHexString())
	}
	b, err := ls.GetBlockByHeight(h)
	if err != nil || b == nil {
		return fmt.Errorf("GetBlockByHeight(%d): block=%v err=%v, a block was committed at this height", h, b != nil, err)
	}
	if !sameBytes(b.ToArray(), r.Raw) {
		return fmt.Errorf("GetBlockByHeight(%d) differs from the committed block (%d transactions returned, %d committed):\n got %s\nwant %s", h, len(b.Transactions), len(r.TxHash), harn.Hex(b.ToArray()), harn.Hex(r.Raw))
	}
	if b.Hash() != r.Hash {
		return fmt.Errorf("GetBlockByHeight(%d).Hash() = %s, committed %s", h, b.Hash().ToHexString(), r.Hash.ToHexString())
	}
	b2, err := ls.GetBlockByHash(r.Hash)
	if err != nil || b2 == nil {
		return fmt.Errorf("GetBlockByHash(hash of height %d): block=%v err=%v", h, b2 != nil, err)
	}
	if !sameBytes(b2.ToArray(), r.Raw) {
		return fmt.Errorf("GetBlockByHash(hash of height %d) differs from the committed block (%d transactions returned, %d committed):\n got %s\nwant %s", h, len(b2.Transactions), len(r.TxHash), harn.Hex(b2.ToArray()), harn.Hex(r.Raw))
	}
	hd, err := ls.GetHeaderByHash(r.Hash)
	if err != nil || hd == nil {
		return fmt.Errorf("GetHeaderByHash(hash of height %d): header=%v err=%v", h, hd != nil, err)
	}
	if !sameBytes(hd.ToArray(), r.HdrRaw) || hd.Height != h {
		return fmt.Errorf("GetHeaderByHash(hash of height %d) differs from the committed header (height %d):\n got %x\nwant %x", h, hd.Height, hd.ToArray(), r.HdrRaw)
	}
	hd2, err := ls.GetHeaderByHeight(h)
	if err != nil || hd2 == nil {
		return fmt.Errorf("GetHeaderByHeight(%d): header=%v err=%v", h, hd2 != nil, err)
	}
	if !sameBytes(hd2.ToArray(), r.HdrRaw) {
		return fmt.Errorf("GetHeaderByHeight(%d) differs from the committed header:\n got %x\nwant %x", h, hd2.ToArray(), r.HdrRaw)
	}
	rh, err := ls.GetRawHeaderByHash(r.Hash)
	if err != nil || rh == nil {
		return fmt.Errorf("GetRawHeaderByHash(hash of height %d): header=%v err=%v", h, rh != nil, err)
	}
	if rh.Height != h || !sameBytes(rh.Payload, r.HdrRaw) {
		return fmt.Errorf("GetRawHeaderByHash(hash of height %d): height %d payload %x, committed header %x", h, rh.Height, rh.Payload, r.HdrRaw)
	}
	if ok, err := ls.IsContainBlock(r.Hash); err != nil || !ok {
		return fmt.Errorf("IsContainBlock(hash of height %d) = %v, %v", h, ok, err)
	}
	if len(b.Transactions) != len(r.TxHash) {
		return fmt.Errorf("GetBlockByHeight(%d) has %d transactions, committed %d", h, len(b.Transactions), len(r.TxHash))
	}
	for i, th := range r.TxHash {
		if b.Transactions[i].Hash() != th {
			return fmt.Errorf("GetBlockByHeight(%d) transaction %d has hash %s, committed %s", h, i, b.Transactions[i].Hash().ToHexString(), th.ToHexString())
		}
		tx, th2, err := ls.GetTransaction(th)
		if err != nil || tx == nil {
			return fmt.Errorf("GetTransaction(tx %d of height %d, %s): tx=%v err=%v", i, h, th.ToHexString(), tx != nil, err)
		}
		if th2 != h {
			return fmt.Errorf("GetTransaction(tx %d of height %d, %s) reports height %d", i, h, th.ToHexString(), th2)
		}
		if tx.Hash() != th || !sameBytes(tx.ToArray(), r.TxRaw[i]) {
			return fmt.Errorf("GetTransaction(tx %d of height %d) differs from the committed transaction:\n got %x\nwant %x", i, h, tx.ToArray(), r.TxRaw[i])
		}
		if ok, err := ls.IsContainTransaction(th); err != nil || !ok {
			return fmt.Errorf("IsContainTransaction(tx %d of height %d) = %v, %v", i, h, ok, err)
		}
		// a transaction hash is not a block hash
		if ok, _ := ls.IsContainBlock(th); ok {
			return fmt.Errorf("IsContainBlock(transaction hash %s) = true", th.ToHexString())
		}
	}
	// a block hash is not a transaction hash
	if ok, _ := ls.IsContainTransaction(r.Hash); ok {
		return fmt.Errorf("IsContainTransaction(block hash of height %d) = true", h)
	}
	return nil
}

// c40VerifyUnknown checks that heights above the tip and hashes that were never committed are not found.
func c40VerifyUnknown(ls *ledgerstore.LedgerStoreImp, top uint32, unknown []common.Uint256, above []uint32) error {
	for _, d := range above {
		h := top + d
		if h <= top { // overflow guard
			continue
		}
		if got := ls.GetBlockHash(h); got != common.UINT256_EMPTY {
			return fmt.Errorf("GetBlockHash(%d) = %s above the tip %d", h, got.ToHexString(), top)
		}
		if b, err := ls.GetBlockByHeight(h); b != nil {
			return fmt.Errorf("GetBlockByHeight(%d) returned a block (height %d, err %v) above the tip %d", h, b.Header.Height, err, top)
		}
		if hd, err := ls.GetHeaderByHeight(h); err == nil && hd != nil {
			return fmt.Errorf("GetHeaderByHeight(%d) returned a header (height %d) above the tip %d", h, hd.Height, top)
		}
	}
	for _, u := range unknown {
		if b, err := ls.GetBlockByHash(u); err == nil && b != nil {
			return fmt.Errorf("GetBlockByHash(never committed %s) returned a block of height %d", u.ToHexString(), b.Header.Height)
		}
		if hd, err := ls.GetHeaderByHash(u); err == nil && hd != nil {
			return fmt.Errorf("GetHeaderByHash(never committed %s) returned a header of height %d", u.ToHexString(), hd.Height)
		}
		if rh, err := ls.GetRawHeaderByHash(u); err == nil && rh != nil {
			return fmt.Errorf("GetRawHeaderByHash(never committed %s) returned a header of height %d", u.ToHexString(), rh.Height)
		}
		if tx, h, err := ls.GetTransaction(u); err == nil && tx != nil {
			return fmt.Errorf("GetTransaction(never committed %s) returned a transaction at height %d", u.ToHexString(), h)
		}
		if ok, err := ls.IsContainBlock(u); ok || err != nil {
			return fmt.Errorf("IsContainBlock(never committed %s) = %v, %v", u.ToHexString(), ok, err)
		}
		if ok, err := ls.IsContainTransaction(u); ok || err != nil {
			return fmt.Errorf("IsContainTransaction(never committed %s) = %v, %v", u.ToHexString(), ok, err)
		}
	}
	return nil
}

func c40VerifyAll(ls *ledgerstore.LedgerStoreImp, recs []c40Rec, unknown []common.Uint256) error {
	top := uint32(len(recs) - 1)
	if h := ls.GetCurrentBlockHeight(); h != top {
		return fmt.Errorf("GetCurrentBlockHeight() = %d, %d blocks committed above genesis", h, top)
	}
	if hh := ls.GetCurrentBlockHash(); hh != recs[top].Hash {
		return fmt.Errorf("GetCurrentBlockHash() = %s, committed tip %s", hh.ToHexString(), recs[top].Hash.ToHexString())
	}
	for i := range recs {
		if err := c40VerifyHeight(ls, &recs[i]); err != nil {
			return err
		}
	}
	// no header is announced beyond the tip at a checkpoint, so the header chain ends at the tip
	if h := ls.GetCurrentHeaderHeight(); h != top {
		return fmt.Errorf("GetCurrentHeaderHeight() = %d with tip %d and no header announced above it", h, top)
	}
	if hh := ls.GetCurrentHeaderHash(); hh != recs[top].Hash {
		return fmt.Errorf("GetCurrentHeaderHash() = %s, committed tip %s (no header announced above it)", hh.ToHexString(), recs[top].Hash.ToHexString())
	}
	return c40VerifyUnknown(ls, top, unknown, []uint32{1, 2, 7, 2000, math.MaxUint32 - top})
}

// ---------------------------------------------------------------------------------------------
// delivery modes

// c40Mode is how a generated block reaches the ledger.
//
//	apply:      ExecuteBlock + SubmitBlock (a consensus member)
//	header:     header-first sync: AddHeaders([header of the block]) then the block itself
//	header-alt: header sync announced a DIFFERENT valid block at this height (same parent, later
//	            timestamp, possibly other transactions, signed by the bookkeeper); then the
//	            generated block is committed. The committed block is the oracle's record.
type c40Mode struct {
	Kind     string // "apply" | "header" | "header-alt"
	AltDelta uint32 // header-alt: timestamp offset of the alternative (>= 1)
	AltTxs   int    // header-alt: the alternative carries the first AltTxs transactions of the block
	AddBlock bool   // header modes: commit through AddBlock (decoded copy, as block sync does) instead of ExecuteBlock+SubmitBlock
}

func c40DrawMode(t *rapid.T, ntx int) c40Mode {
	m := c40Mode{Kind: rapid.SampledFrom([]string{"apply", "header", "header-alt", "header-alt", "header", "apply"}).Draw(t, "delivery")}
	if m.Kind != "apply" {
		m.AddBlock = rapid.Bool().Draw(t, "viaAddBlock")
	}
	if m.Kind == "header-alt" {
		m.AltDelta = uint32(rapid.IntRange(1, 3).Draw(t, "altdelta"))
		m.AltTxs = rapid.IntRange(0, ntx).Draw(t, "alttxs")
	}
	return m
}

func (m c40Mode) String() string {
	switch m.Kind {
	case "apply":
		return ""
	case "header":
		if m.AddBlock {
			return "~hA"
		}
		return "~hS"
	default:
		s := fmt.Sprintf("~alt+%d/%d", m.AltDelta, m.AltTxs)
		if m.AddBlock {
			return s + "A"
		}
		return s + "S"
	}
}

// c40Deliver hands the block to the ledger in the given mode. Every error is a rejection of an
// input the ledger must accept (the headers and the block are valid and correctly signed).
func c40Deliver(ch *fix.Chain, blk *types.Block, m c40Mode) (store.ExecuteResult, error) {
	ls := ch.LS
	if m.Kind == "apply" {
		return ch.Apply(blk)
	}
	h := blk.Header.Height
	announced := blk.Header
	if m.Kind == "header-alt" {
		alt, err := ch.MakeBlockAt(h, blk.Header.PrevBlockHash, blk.Transactions[:m.AltTxs], blk.Header.Timestamp+m.AltDelta)
		if err != nil {
			return store.ExecuteResult{}, fmt.Errorf("harness: building the alternative block: %v", err)
		}
		if alt.Hash() == blk.Hash() {
			return store.ExecuteResult{}, fmt.Errorf("harness: alternative block equals the block")
		}
		announced = alt.Header
	}
	// as received from the network: a decoded copy
	hdr, err := types.HeaderFromRawBytes(announced.ToArray())
	if err != nil {
		return store.ExecuteResult{}, fmt.Errorf("harness: header does not decode: %v", err)
	}
	if err := ls.AddHeaders([]*types.Header{hdr}); err != nil {
		return store.ExecuteResult{}, fmt.Errorf("AddHeaders(valid header of height %d on tip %d): %v", h, ls.GetCurrentBlockHeight(), err)
	}
	if got := ls.GetCurrentHeaderHeight(); got != h {
		return store.ExecuteResult{}, fmt.Errorf("after AddHeaders(header of height %d) GetCurrentHeaderHeight() = %d", h, got)
	}
	if got := ls.GetCurrentHeaderHash(); got != hdr.Hash() {
		return store.ExecuteResult{}, fmt.Errorf("after AddHeaders(header %s of height %d) GetCurrentHeaderHash() = %s", hdr.Hash().ToHexString(), h, got.ToHexString())
	}
	res, err := ls.ExecuteBlock(blk)
	if err != nil {
		return res, err
	}
	if m.AddBlock {
		cp, err := types.BlockFromRawBytes(blk.ToArray())
		if err != nil {
			return res, fmt.Errorf("harness: block does not decode: %v", err)
		}
		return res, ls.AddBlock(cp, nil, res.MerkleRoot)
	}
	return res, ls.SubmitBlock(blk, nil, res)
}

// ---------------------------------------------------------------------------------------------
// chain generator

type c40Env struct {
	ch     *fix.Chain
	bk     *fix.ZooKey
	nat    []*fix.ZooKey // native accounts: 0 bookkeeper (owns everything), 1,2 funded in block 1, 3 never funded by the harness
	eth    []*fix.ZooKey // secp256k1 accounts: 0,1 funded in block 1, 2 unfunded
	nonce  []uint64      // next EVM nonce per eth account (every INCLUDED EIP-155 tx bumps it)
	deploy int
}

func c40NewEnv(ch *fix.Chain, bk *fix.ZooKey) *c40Env {
	return &c40Env{ch: ch, bk: bk,
		nat:   []*fix.ZooKey{bk, fix.Key(fix.KP256, 1), fix.Key(fix.KSM2, 0), fix.Key(fix.KEd25519, 0)},
		eth:   []*fix.ZooKey{fix.Key(fix.KEth, 0), fix.Key(fix.KEth, 1), fix.Key(fix.KEth, 2)},
		nonce: make([]uint64, 3)}
}

// fundingTxs is the forced content of block 1: ONG to two native users and two EVM accounts, ONT to user 1.
func (e *c40Env) fundingTxs() ([]*types.Transaction, error) {
	var out []*types.Transaction
	add := func(tok common.Address, to common.Address, amt uint64) error {
		tx, err := e.ch.Transfer(tok, e.bk, to, amt, 0, 20000)
		if err == nil {
			out = append(out, tx)
		}
		return err
	}
	for _, s := range []struct {
		tok common.Address
		to  common.Address
		amt uint64
	}{{nutils.OngContractAddress, e.nat[1].Address, 1000_000000000}, {nutils.OngContractAddress, e.nat[2].Address, 1000_000000000},
		{nutils.OntContractAddress, e.nat[1].Address, 100000}, {nutils.OngContractAddress, e.eth[0].Address, 1000_000000000},
		{nutils.OngContractAddress, e.eth[1].Address, 1000_000000000}} {
		if err := add(s.tok, s.to, s.amt); err != nil {
			return nil, err
		}
	}
	return out, nil
}

// genTx draws one transaction; desc is its canonical short description.
func (e *c40Env) genTx(t *rapid.T) (*types.Transaction, string, error) {
	kind := rapid.SampledFrom([]string{"T", "T", "T", "E", "E", "C", "D", "I"}).Draw(t, "kind")
	switch kind {
	case "T":
		tok, tn := nutils.OntContractAddress, "ont"
		if rapid.Bool().Draw(t, "ong") {
			tok, tn = nutils.OngContractAddress, "ong"
		}
		from := rapid.SampledFrom([]int{0, 0, 0, 1, 1, 2, 3}).Draw(t, "from")
		to := rapid.IntRange(0, 3).Draw(t, "to")
		amt := rapid.OneOf(rapid.Uint64Range(0, 3), rapid.Uint64Range(1, 5000), rapid.Just(uint64(1)<<62)).Draw(t, "amt")
		gp := rapid.SampledFrom([]uint64{0, 0, 2500}).Draw(t, "gp")
		tx, err := e.ch.Transfer(tok, e.nat[from], e.nat[to].Address, amt, gp, 20000)
		return tx, fmt.Sprintf("T%s:%d>%d:%d@%d", tn, from, to, amt, gp), err
	case "E":
		from := rapid.SampledFrom([]int{0, 0, 1, 1, 2}).Draw(t, "efrom")
		to := ethAddr(e.eth[rapid.IntRange(0, 2).Draw(t, "eto")])
		val := rapid.OneOf(rapid.Uint64Range(0, 2), rapid.Uint64Range(1, 1_000_000), rapid.Just(uint64(1)<<60)).Draw(t, "val")
		gl := rapid.SampledFrom([]uint64{21000, 30000, 20000}).Draw(t, "gl") // 20000 < intrinsic gas: fails, still included
		wei := new(big.Int).Mul(new(big.Int).SetUint64(val), big.NewInt(1_000_000_000))
		tx, _, err := signEIP155(e.eth[from], e.nonce[from], &to, wei, gl, 500, nil)
		if err == nil {
			e.nonce[from]++
		}
		return tx, fmt.Sprintf("E%d>%x:%d/gl%d", from, to[:2], val, gl), err
	case "C":
		from := rapid.SampledFrom([]int{0, 1, 2}).Draw(t, "cfrom")
		n := rapid.IntRange(0, 3).Draw(t, "nlogs")
		var logs []evmLog
		for i := 0; i < n; i++ {
			nt := rapid.IntRange(0, 4).Draw(t, "ntopics")
			l := evmLog{Data: rapid.SliceOfN(rapid.Byte(), 0, 40).Draw(t, "data")}
			for j := 0; j < nt; j++ {
				var h ethcommon.Hash
				copy(h[:], rapid.SliceOfN(rapid.Byte(), 32, 32).Draw(t, "topic"))
				l.Topics = append(l.Topics, h)
			}
			logs = append(logs, l)
		}
		end := initEnd(rapid.IntRange(0, 3).Draw(t, "end"))
		code := asmInitCode(logs, nil, end)
		tx, _, err := signEIP155(e.eth[from], e.nonce[from], nil, big.NewInt(0), 300000, 500, code)
		if err == nil {
			e.nonce[from]++
		}
		return tx, fmt.Sprintf("C%d:logs%d/end%d/%x", from, n, end, harnShort(code)), err
	case "D":
		e.deploy++
		code := rapid.SliceOfN(rapid.Byte(), 1, 40).Draw(t, "dcode")
		if len(code) >= 8 && code[0] == 0 && code[1] == 0x61 && code[2] == 0x73 && code[3] == 0x6d {
			code[0] = 1 // never the wasm magic
		}
		mtx, err := cutils.NewDeployTransaction(code, "n", "v", "a", "e", "d", payload.NEOVM_TYPE)
		if err != nil {
			return nil, "", err
		}
		e.ch.NonceCt++
		mtx.Nonce = e.ch.NonceCt
		mtx.GasLimit = 20000000
		signer := e.nat[rapid.IntRange(0, 3).Draw(t, "dsigner")]
		tx, err := fix.Sign(mtx, signer)
		return tx, fmt.Sprintf("D%x", harnShort(code)), err
	default: // "I": tiny NeoVM programs, succeed or fault
		code := rapid.SampledFrom([][]byte{{0x51}, {0x00, 0xf0}, {0x51, 0x52, 0x93}, {0x61}}).Draw(t, "icode")
		mtx := e.ch.RawInvoke(code, 0, 20000)
		signer := e.nat[rapid.IntRange(0, 3).Draw(t, "isigner")]
		tx, err := fix.Sign(mtx, signer)
		return tx, fmt.Sprintf("I%x", code), err
	}
}

func harnShort(b []byte) []byte {
	if len(b) > 6 {
		return b[:6]
	}
	return b
}

// ---------------------------------------------------------------------------------------------
// big blocks

// c40Pool is a per-process pool of prebuilt cheap native transfers (each distinct transaction is
// built and signed once; a chain uses every pool transaction at most once). Pool transaction i is a
// function of i only: token ont/ong alternating, amount 1 + i%3 (every 8th: 2^62, over every
// balance), gas price 0, payer/signer and
// recipient cycling over the four native accounts (mostly the two P-256 keys; the SM2 and Ed25519
// accounts every 16th), nonce 1<<30 + i (the chain's own builders count nonces from 1). The
// over-balance transfers fail in execution and are still part of the block.
var c40Pool []*types.Transaction

func c40PoolShape(i int) (tok common.Address, from, to int, amt uint64) {
	tok = nutils.OntContractAddress
	if i%2 == 1 {
		tok = nutils.OngContractAddress
	}
	switch i % 16 {
	case 7:
		from = 2
	case 15:
		from = 3
	case 3, 4, 11, 12:
		from = 1
	}
	amt = uint64(1 + i%3)
	if i%16 == 9 || i%16 == 15 {
		amt = 1 << 62 // over every balance: fails in execution
	}
	return tok, from, (i / 2) % 4, amt
}

// c40PoolTxs returns pool transactions [off, off+n).
func c40PoolTxs(nat []*fix.ZooKey, off, n int) ([]*types.Transaction, error) {
	for i := len(c40Pool); i < off+n; i++ {
		tok, from, to, amt := c40PoolShape(i)
		st := &ont.TransferState{From: nat[from].Address, To: nat[to].Address, Value: amt}
		code, err := cutils.BuildNativeInvokeCode(tok, 0, "transfer", []interface{}{[]*ont.TransferState{st}})
		if err != nil {
			return nil, err
		}
		mtx := &types.MutableTransaction{GasPrice: 0, GasLimit: 20000, TxType: types.InvokeNeo, Nonce: 1<<30 + uint32(i),
			Payload: &payload.InvokeCode{Code: code}}
		tx, err := fix.Sign(mtx, nat[from])
		if err != nil {
			return nil, err
		}
		c40Pool = append(c40Pool, tx)
	}
	return c40Pool[off : off+n], nil
}

// c40Uni draws an index in [0, n) from fair bits (rapid's integer generators favour small values).
func c40Uni(t *rapid.T, label string, n int) int {
	v := 0
	for span := 1; span < n*8; span *= 2 {
		v *= 2
		if rapid.Bool().Draw(t, label) {
			v++
		}
	}
	return v % n
}

// c40BigSize draws the size of a big block around the boundaries of the heavy tail.
func c40BigSize(t *rapid.T) int {
	switch c40Uni(t, "bigsize", 8) {
	case 0:
		return 255
	case 1:
		return 256
	case 2, 4:
		return 257
	case 3, 6:
		return 300
	case 5:
		return rapid.IntRange(258, 400).Draw(t, "bigsizeMid")
	default:
		return rapid.IntRange(900, 1100).Draw(t, "bigsizeK")
	}
}

func c40SizeClass(n int) string {
	switch {
	case n <= 6:
		return fmt.Sprintf("%d", n)
	case n < 255:
		return "7-254"
	case n <= 257:
		return fmt.Sprintf("%d", n)
	case n <= 260:
		return "258-260"
	case n <= 500:
		return "261-500"
	default:
		return ">500"
	}
}

func TestC40_QueriesAgree(t *testing.T) {
	ev := harn.For("C40")
	ev.Rule("chains of 5-40 blocks on a solo ledger; block 1 funds two native and two EVM accounts, every other block carries 0-6 generated txs, and half of the chains (then 16-40 blocks long) carry one or two BIG blocks of 255, 256, 257, 300, 258-400 or 900-1100 cheap ONT/ONG transfers from a per-process pool of prebuilt signed txs (4 payers of 3 key types, some failing) plus 0-2 generated txs, the first big block with >= 14 blocks after it and, in half of these chains, no restart for the next 12-14 blocks followed by a checkpoint, so that big blocks are read recently committed, after they aged out of the 10-entry block cache, and after restarts (generated txs: ONT/ONG transfers by 4 accounts of 3 key types incl. zero/over-balance/unfunded-payer ones, NeoVM deploy and invoke, EIP-155 transfers incl. below-intrinsic-gas and over-balance ones, EIP-155 creations emitting 0-3 logs that return/revert/fault); every block is delivered in a generated mode: ExecuteBlock+SubmitBlock, header-first sync (AddHeaders of its header, then AddBlock of a decoded copy or Execute+Submit), or after header sync announced a DIFFERENT valid block of that height (same parent, later timestamp, a prefix of the txs, bookkeeper-signed) - the committed block stays the oracle; the ledger is closed and reopened after generated heights; at each checkpoint (before and after each restart, at generated heights without a restart, and before/after a final restart) every height is read through GetBlockHash, GetBlockByHeight, GetBlockByHash, GetHeaderByHash, GetHeaderByHeight, GetRawHeaderByHash, GetTransaction(+height), IsContainBlock/Transaction and compared with the harness's record of the committed bytes; never-committed hashes and heights above the tip must not be found. GetCurrentHeaderHeight/Hash equal the announced header right after AddHeaders and the tip at checkpoints. Non-trivial = chain with a block of >= 2 txs, a failing tx, an EIP-155 tx, a header-first block, a block committed over an announced alternative, and a restart followed by further blocks; floors require big-block chains (>= 25% of chains, >= 40% of them beyond 256 txs, >= 25% of them read after ageing out of the cache, >= 30% of big-block reads after a restart); distinct by the full plan (pool txs are named by pool range)")
	bk := fix.Key(fix.KP256, 0)
	harn.Check(t, 40, 600, func(t *rapid.T) {
		// heavy-tailed block sizes: half of the chains carry one or two big blocks; such chains are
		// long enough for >= 12 blocks to follow the first big one
		bigChain := rapid.Bool().Draw(t, "bigChain")
		nBlocks := 0
		bigAt := map[int]int{} // height -> number of pool transactions
		quietFrom, quietTo := 0, 0
		if bigChain {
			nBlocks = rapid.IntRange(16, 40).Draw(t, "blocksBig")
			first := 2 + c40Uni(t, "bigAt", nBlocks-15) // 2 .. nBlocks-14
			bigAt[first] = c40BigSize(t)
			if rapid.Bool().Draw(t, "secondBig") {
				second := 2 + c40Uni(t, "bigAt2", nBlocks-1) // 2 .. nBlocks
				if second != first {
					n := c40BigSize(t)
					if n > 500 && bigAt[first] > 500 {
						n = 300 // at most one ~1000-transaction block per chain (budget)
					}
					bigAt[second] = n
				}
			}
			// in half of the big chains no restart is drawn for the 12-14 blocks after the first big
			// block and a checkpoint follows: the block is read after it has aged out of the block cache
			if rapid.Bool().Draw(t, "quiet") {
				quietFrom, quietTo = first, first+12+c40Uni(t, "quietLen", 3)
				if quietTo > nBlocks {
					quietTo = nBlocks
				}
			}
		} else {
			nBlocks = rapid.IntRange(5, 40).Draw(t, "blocks")
		}
		poolOff := 0
		restartSpan := 9 // a restart after a block with probability ~1/10 (rapid favours small draws: ~1/6 observed)
		if bigChain {
			restartSpan = 14 // big chains are longer; keeps the number of restarts (the dominant cost) per chain about the same
		}
		base, err := os.MkdirTemp("", "c40-")
		if err != nil {
			t.Fatal(err)
		}
		defer os.RemoveAll(base)
		ch, err := fix.NewSolo(base+"/ledger", bk)
		if err != nil {
			t.Fatal(err)
		}
		defer func() { ch.Close() }()
		env := c40NewEnv(ch, bk)
		recs := []c40Rec{c40Record(ch.Genesis)}
		var unknown []common.Uint256
		for i := 0; i < 3; i++ {
			var u common.Uint256
			copy(u[:], rapid.SliceOfN(rapid.Byte(), 32, 32).Draw(t, "unknown"))
			unknown = append(unknown, u)
		}
		unknown = append(unknown, common.UINT256_EMPTY)
		var plan []string
		var multi, failing, evm, restartMid, altSeen, hdrSeen bool
		restarts := 0
		// big blocks committed so far: height, size, and the number of blocks committed after them
		// since the ledger was last opened (-1 once a restart has intervened: cold cache)
		type bigSeen struct{ h, n, age int }
		var bigs []*bigSeen
		var bigCold, bigAged, bigOver bool
		var bigSummary []string
		checkpoint := func(stage string) {
			// hashes derived from committed ones that were never committed themselves
			u := append([]common.Uint256{}, unknown...)
			tip := recs[len(recs)-1].Hash
			tip[31] ^= 1
			u = append(u, tip)
			if err := c40VerifyAll(ch.LS, recs, u); err != nil {
				t.Fatalf("%s (chain %s): %v", stage, strings.Join(plan, "|"), err)
			}
			ev.Class("checkpoint:" + stage)
			for _, g := range bigs {
				ev.Class("bigread")
				switch {
				case g.age < 0:
					ev.Class("bigread:after-restart")
					bigCold = true
				case g.age > 10:
					ev.Class("bigread:aged>10-blocks")
					bigAged = true
					if g.n > 256 {
						ev.Class("bigread:aged>10-blocks:>256txs")
					}
				default:
					ev.Class("bigread:recent")
				}
			}
		}
		for b := 1; b <= nBlocks; b++ {
			var txs []*types.Transaction
			var descs []string
			if b == 1 {
				txs, err = env.fundingTxs()
				if err != nil {
					t.Fatal(err)
				}
				descs = []string{"fund"}
			} else {
				n := rapid.SampledFrom([]int{0, 0, 1, 1, 2, 3, 4, 5, 6}).Draw(t, "ntx")
				if np := bigAt[b]; np > 0 {
					ptx, err := c40PoolTxs(env.nat, poolOff, np)
					if err != nil {
						t.Fatalf("building pool transactions %d..%d: %v", poolOff, poolOff+np, err)
					}
					txs = append(txs, ptx...)
					descs = append(descs, fmt.Sprintf("P%d+%d", poolOff, np))
					poolOff += np
					n = rapid.IntRange(0, 2).Draw(t, "ntxAfterPool")
				}
				for j := 0; j < n; j++ {
					tx, d, err := env.genTx(t)
					if err != nil {
						t.Fatalf("building tx %s: %v", d, err)
					}
					txs = append(txs, tx)
					descs = append(descs, d)
				}
			}
			blk, err := ch.MakeBlock(txs, 0)
			if err != nil {
				t.Fatal(err)
			}
			rec := c40Record(blk)
			mode := c40DrawMode(t, len(txs))
			res, err := c40Deliver(ch, blk, mode)
			if err != nil {
				t.Fatalf("ledger rejected generated block %d [%s] delivered as %+v after %s: %v", b, strings.Join(descs, ","), mode, strings.Join(plan, "|"), err)
			}
			recs = append(recs, rec)
			plan = append(plan, fmt.Sprintf("%d%s:[%s]", b, mode, strings.Join(descs, ",")))
			ev.Class("delivery:" + mode.Kind)
			ev.Class("block")
			if mode.Kind == "header-alt" {
				altSeen = true
			}
			if mode.Kind == "header" {
				hdrSeen = true
			}
			ev.Class("block:ntx=" + c40SizeClass(len(txs)))
			if len(txs) >= 2 && b > 1 {
				multi = true
			}
			for _, g := range bigs {
				if g.age >= 0 {
					g.age++
				}
			}
			if bigAt[b] > 0 {
				bigs = append(bigs, &bigSeen{h: b, n: len(txs)})
				bigSummary = append(bigSummary, fmt.Sprintf("%d%s:%d", b, mode, len(txs)))
				ev.Class("bigblock")
				ev.Class("bigblock:delivery:" + mode.Kind)
				if len(txs) > 256 {
					bigOver = true
				}
			}
			for i, n := range res.Notify {
				k := "native"
				if i < bigAt[b] {
					k = "pool" // prebuilt cheap transfers of a big block, counted apart from the generated ones
				}
				switch txs[i].TxType {
				case types.EIP155:
					k, evm = "eip155", true
				case types.Deploy:
					k = "deploy"
				}
				if n.State == 1 {
					ev.Class("tx:" + k + ":ok")
				} else {
					ev.Class("tx:" + k + ":failed")
					if k != "pool" {
						failing = true
					}
				}
				ev.Class("tx:" + k)
			}
			quiet := b >= quietFrom && b < quietTo
			if b == quietTo && b < nBlocks {
				checkpoint("mid-chain")
				plan = append(plan, "V")
			} else if b < nBlocks && c40Uni(t, "verify", 16) == 0 {
				// a checkpoint without a restart
				checkpoint("mid-chain")
				plan = append(plan, "V")
			}
			if b < nBlocks && !quiet && rapid.IntRange(0, restartSpan).Draw(t, "restart") == 0 {
				checkpoint("before-restart")
				if err := ch.Reopen(); err != nil {
					t.Fatalf("reopen after block %d (chain %s): %v", b, strings.Join(plan, "|"), err)
				}
				checkpoint("after-restart")
				plan = append(plan, "R")
				restarts++
				restartMid = true
				for _, g := range bigs {
					g.age = -1
				}
			}
		}
		checkpoint("final-before-restart")
		if err := ch.Reopen(); err != nil {
			t.Fatalf("final reopen (chain %s): %v", strings.Join(plan, "|"), err)
		}
		for _, g := range bigs {
			g.age = -1
		}
		checkpoint("final-after-restart")
		if restarts > 3 {
			restarts = 3
		}
		ev.Class(fmt.Sprintf("restarts-mid-chain=%d", restarts))
		ev.Class("chain")
		if restartMid {
			ev.Class("chain:restart-mid")
		}
		if len(bigs) > 0 {
			ev.Class("chain:big-block")
			if bigOver {
				ev.Class("chain:big-block>256")
			}
			if bigCold {
				ev.Class("chain:big-block-read-after-restart")
			}
			if bigAged {
				ev.Class("chain:big-block-read-aged")
			}
		}
		d := strings.Join(plan, "|")
		if len(d) > 560 {
			d = d[:380] + fmt.Sprintf("…big[%s]#%x", strings.Join(bigSummary, ","), recs[len(recs)-1].Hash[:6])
		}
		ev.Case(multi && failing && evm && restartMid && altSeen && hdrSeen, d)
	})
	ev.Floor("chain:restart-mid", "chain", 0.3)
	ev.Floor("chain:big-block", "chain", 0.25)
	ev.Floor("chain:big-block>256", "chain:big-block", 0.4)
	ev.Floor("chain:big-block-read-aged", "chain:big-block", 0.25)
	ev.Floor("bigread:after-restart", "bigread", 0.3)
	ev.Floor("delivery:header", "block", 0.15)
	ev.Floor("delivery:header-alt", "block", 0.15)
	ev.Floor("delivery:apply", "block", 0.15)
	ev.Floor("tx:eip155:ok", "tx:eip155", 0.2)
	ev.Floor("tx:native:failed", "tx:native", 0.1)
}

// TestC40_HeaderIndexWindow commits a chain longer than HEADER_INDEX_MAX_SIZE (mostly empty blocks)
// so that the in-memory height->hash window slides and old heights are served from the block store,
// restarts once the window has slid (the reload path computes the window from the tip), continues,
// and reads every height.
func TestC40_HeaderIndexWindow(t *testing.T) {
	ev := harn.For("C40")
	ev.Rule("long chains: HEADER_INDEX_MAX_SIZE + 20..400 blocks (some carrying 1-3 generated txs, some delivered header-first or over an announced alternative header), a restart at a generated height past the window size, 1..60 further blocks; all heights verified before the restart, after it and at the end (same getters and record as above). Non-trivial = always (the window has slid at every checkpoint); distinct by lengths and restart height")
	bk := fix.Key(fix.KP256, 0)
	harn.Check(t, 1, 16, func(t *rapid.T) {
		W := int(ledgerstore.HEADER_INDEX_MAX_SIZE)
		first := W + rapid.IntRange(20, 400).Draw(t, "first")
		more := rapid.IntRange(1, 60).Draw(t, "more")
		base, err := os.MkdirTemp("", "c40w-")
		if err != nil {
			t.Fatal(err)
		}
		defer os.RemoveAll(base)
		ch, err := fix.NewSolo(base+"/ledger", bk)
		if err != nil {
			t.Fatal(err)
		}
		defer func() { ch.Close() }()
		env := c40NewEnv(ch, bk)
		recs := []c40Rec{c40Record(ch.Genesis)}
		unknown := []common.Uint256{common.UINT256_EMPTY, u256(0xaa, 1, 2, 3)}
		withTx := 0
		add := func(b int) {
			var txs []*types.Transaction
			if b == 1 {
				txs, err = env.fundingTxs()
				if err != nil {
					t.Fatal(err)
				}
			} else if rapid.IntRange(0, 39).Draw(t, "hastx") == 0 {
				n := rapid.IntRange(1, 3).Draw(t, "ntx")
				for j := 0; j < n; j++ {
					tx, d, err := env.genTx(t)
					if err != nil {
						t.Fatalf("building tx %s: %v", d, err)
					}
					txs = append(txs, tx)
				}
				withTx++
			}
			blk, err := ch.MakeBlock(txs, 0)
			if err != nil {
				t.Fatal(err)
			}
			rec := c40Record(blk)
			mode := c40Mode{Kind: "apply"}
			if rapid.IntRange(0, 7).Draw(t, "special") == 7 {
				mode = c40DrawMode(t, len(txs))
			}
			if _, err := c40Deliver(ch, blk, mode); err != nil {
				t.Fatalf("ledger rejected generated block %d delivered as %+v: %v", b, mode, err)
			}
			ev.Class("longchain:delivery:" + mode.Kind)
			recs = append(recs, rec)
		}
		for b := 1; b <= first; b++ {
			add(b)
		}
		if err := c40VerifyAll(ch.LS, recs, unknown); err != nil {
			t.Fatalf("chain of %d blocks, before restart: %v", first, err)
		}
		if err := ch.Reopen(); err != nil {
			t.Fatalf("reopen at height %d: %v", first, err)
		}
		if err := c40VerifyAll(ch.LS, recs, unknown); err != nil {
			t.Fatalf("chain of %d blocks, after restart: %v", first, err)
		}
		for b := first + 1; b <= first+more; b++ {
			add(b)
		}
		if err := c40VerifyAll(ch.LS, recs, unknown); err != nil {
			t.Fatalf("chain of %d blocks restarted at %d, at the end: %v", first+more, first, err)
		}
		if err := ch.Reopen(); err != nil {
			t.Fatalf("reopen at height %d: %v", first+more, err)
		}
		if err := c40VerifyAll(ch.LS, recs, unknown); err != nil {
			t.Fatalf("chain of %d blocks restarted at %d and at the end, after the last restart: %v", first+more, first, err)
		}
		ev.Class("longchain")
		ev.ClassN("longchain:blocks-with-txs", int64(withTx))
		ev.Case(true, fmt.Sprintf("long chain first=%d restart@%d more=%d txblocks=%d tip=%s", first, first, more, withTx, recs[len(recs)-1].Hash.ToHexString()))
	})
}
