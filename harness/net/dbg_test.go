package net

import (
	"testing"

	"pgregory.net/rapid"
	"github.com/ontio/ontology/common"
	"github.com/ontio/ontology/p2pserver/message/types"
)

func TestDbg(t *testing.T) {
	setup()
	for s := 0; s < 200; s++ {
		g := rapid.Custom(func(t *rapid.T) gm { return genMsgOf(t, "offline") }).Example(s)
		m := &types.OfflineWitnessMsg{}
		err := m.Deserialization(common.NewZeroCopySource(g.p.b))
		if err != nil {
			t.Logf("%d %v keys=%d %+v", s, err, len(m.NodePubKeys), g.msg)
			break
		}
	}
}
