package pure

// C03 Block change hash depends only on the final key/value content.
// Oracles: (1) metamorphic — two differently ordered, differently redundant histories that reach the same final
// content of touched keys give the same ChangeHash and the same write-set listing; (2) reference model — a Go map
// (deleted = empty value) whose sorted listing must equal GetWriteSet().ForEach byte for byte, whose per-key content must
// equal OverlayDB.Get and whose sha256 must equal ChangeHash.
// Value sizes are heavy-tailed (0, 1..64 bytes, but also 200..3000, 1000..1100, 4000..4200, 6000, 10000 and 70000
// bytes: contract-code-like entries larger than the whole key/value buffer of a fresh block overlay (4 KiB) or of a
// fresh transaction cache (1 KiB)), so that "same final content => same write set" also covers buffer growth at every
// point of a history (after dead bytes left by overwrites/deletes, after Reset(), for new keys and for overwrites).
// Routes: OverlayDB directly, and transaction CacheDB -> Commit()/Reset() -> OverlayDB as the block execution loop does.

import (
	"bytes"
	"crypto/sha256"
	"fmt"
	"sort"
	"strings"
	"testing"

	scommon "github.com/ontio/ontology/core/store/common"
	"github.com/ontio/ontology/core/store/overlaydb"
	"github.com/ontio/ontology/smartcontract/storage"
	"pgregory.net/rapid"

	"verifharness/internal/harn"
)

type c03Op struct {
	key []byte
	val []byte // empty = delete / put-empty
	del bool   // use Delete() instead of Put(key, empty)
}

func (o c03Op) String() string {
	if o.del {
		return fmt.Sprintf("D(%x)", o.key)
	}
	return fmt.Sprintf("P(%x,%s)", o.key, harn.Hex(o.val))
}

type c03KV struct{ k, v []byte }

// c03Keys draws a pool of distinct keys over a tiny alphabet with shared prefixes, lengths 0..40.
func c03Keys(t *rapid.T, maxKeys int) [][]byte {
	alpha := []byte{0x00, 0x01, 'a', 'b', 0x7f, 0x80, 0xff}
	prefixes := [][]byte{{}, {0x00}, {'a'}, {'a', 'b'}, {0xff, 0xff}, bytes.Repeat([]byte{'a'}, 20), bytes.Repeat([]byte{0x00}, 33)}
	n := rapid.IntRange(1, maxKeys).Draw(t, "nkeys")
	seen := map[string]bool{}
	var keys [][]byte
	for i := 0; i < n; i++ {
		p := rapid.SampledFrom(prefixes).Draw(t, "prefix")
		sfx := rapid.SliceOfN(rapid.SampledFrom(alpha), 0, 40-len(p)).Draw(t, "suffix")
		if rapid.IntRange(0, 3).Draw(t, "short") != 0 && len(sfx) > 3 {
			sfx = sfx[:3]
		}
		k := append(append([]byte{}, p...), sfx...)
		if !seen[string(k)] {
			seen[string(k)] = true
			keys = append(keys, k)
		}
	}
	return keys
}

// c03Fill returns n pseudo-random bytes determined by seed (xorshift32): large values cost two rapid draws (size
// class, seed) instead of one draw per byte, and almost none of their bytes is zero-run (lost bytes are visible).
func c03Fill(seed uint32, n int) []byte {
	out := make([]byte, n)
	x := seed*2654435761 + 0x9e3779b9
	if x == 0 {
		x = 1
	}
	for i := 0; i < n; i += 3 {
		x ^= x << 13
		x ^= x >> 17
		x ^= x << 5
		for j, y := i, x>>5; j < i+3 && j < n; j, y = j+1, y>>8 {
			out[j] = byte(y)
		}
	}
	return out
}

// c03LargeThreshold: a value of at least this many bytes is counted as "large" in the class statistics.
const c03LargeThreshold = 1000

// c03Large draws a value from the heavy tail of the size pool: 200..3000, 1000..1100 (around the 1 KiB initial
// buffer of a transaction cache), 4000..4200 (around the 4 KiB initial buffer of a block overlay), 6000, 10000, 70000.
func c03Large(t *rapid.T) []byte {
	var n int
	switch rapid.IntRange(0, 23).Draw(t, "sizeclass") {
	case 0, 1, 2, 3:
		n = rapid.IntRange(200, 3000).Draw(t, "size")
	case 4, 5, 6, 7, 8:
		n = rapid.IntRange(1000, 1100).Draw(t, "size")
	case 9, 10, 11, 12, 13:
		n = rapid.IntRange(4000, 4200).Draw(t, "size")
	case 14, 15, 16, 17, 18:
		n = 6000
	case 19, 20, 21, 22:
		n = 10000
	default:
		n = 70000
	}
	return c03Fill(rapid.Uint32Range(0, 1<<16).Draw(t, "fill"), n)
}

// c03Val draws the value of one put; largePct = percentage of puts that take their value from the heavy tail.
func c03Val(t *rapid.T, cur []byte, largePct int) []byte {
	switch kind := rapid.IntRange(0, 9).Draw(t, "valkind"); kind {
	case 0:
		return nil // put-empty: recorded like a deletion
	case 1, 2:
		if len(cur) > 0 && (kind == 1 || len(cur) < c03LargeThreshold) {
			return append([]byte{}, cur...) // overwrite with the same value (half as often when it is a large one)
		}
	}
	if rapid.IntRange(0, 99).Draw(t, "large") < largePct {
		return c03Large(t)
	}
	return rapid.SliceOfN(rapid.Byte(), 1, 64).Draw(t, "val")
}

// c03Probe counts, from the public observers of the real write set (Capacity/Free/Size/Get — measurement only, never
// part of the oracle), how often a write makes the append-only key/value buffer grow and in which state it was.
type c03Probe map[string]int

func (p c03Probe) before(ws *overlaydb.MemDB, key, val []byte) {
	if p == nil {
		return
	}
	entry := len(key) + len(val)
	if len(val) == 0 || entry <= ws.Free() {
		return // nothing appended, or it fits
	}
	_, unknown := ws.Get(key)
	dead := ws.Capacity()-ws.Free() > ws.Size() // used length of the buffer exceeds the live bytes
	kind := "grow:overwrite"
	if unknown {
		kind = "grow:new-key"
	}
	p[kind]++
	if entry > ws.Capacity() {
		p[kind+"-over-capacity"]++
		if dead {
			p[kind+"-over-capacity-after-dead"]++
		}
	}
}

func (p c03Probe) flush(ev *harn.Collector) {
	for c, n := range p {
		ev.ClassN(c, int64(n))
	}
}

func c03Apply(db *overlaydb.OverlayDB, ops []c03Op, probe c03Probe) {
	for _, o := range ops {
		if o.del {
			db.Delete(o.key)
		} else {
			probe.before(db.GetWriteSet(), o.key, o.val)
			db.Put(o.key, o.val)
		}
	}
}

func c03List(db *overlaydb.OverlayDB) []c03KV {
	var out []c03KV
	db.GetWriteSet().ForEach(func(k, v []byte) {
		out = append(out, c03KV{append([]byte{}, k...), append([]byte{}, v...)})
	})
	return out
}

func c03ModelList(model map[string][]byte) []c03KV {
	keys := make([]string, 0, len(model))
	for k := range model {
		keys = append(keys, k)
	}
	sort.Strings(keys) // byte-wise, same order as bytes.Compare
	out := make([]c03KV, 0, len(keys))
	for _, k := range keys {
		out = append(out, c03KV{[]byte(k), model[k]})
	}
	return out
}

func c03RefHash(l []c03KV) (h [32]byte) {
	s := sha256.New()
	for _, kv := range l {
		s.Write(kv.k)
		s.Write(kv.v)
	}
	s.Sum(h[:0])
	return
}

func c03FmtList(l []c03KV) string {
	var sb strings.Builder
	for _, kv := range l {
		fmt.Fprintf(&sb, "%x=%s ", kv.k, harn.Hex(kv.v))
	}
	return sb.String()
}

// c03FirstDiff locates the first differing byte of two values (long values are abbreviated in messages).
func c03FirstDiff(got, want []byte) string {
	if len(got) != len(want) {
		return fmt.Sprintf(" (length %d, expected %d)", len(got), len(want))
	}
	for i := range got {
		if got[i] != want[i] {
			j := i + 8
			if j > len(got) {
				j = len(got)
			}
			return fmt.Sprintf(" (first difference at byte %d of %d: %x, expected %x)", i, len(got), got[i:j], want[i:j])
		}
	}
	return ""
}

// c03CheckAgainstModel compares one overlay with the model; name identifies the history in messages.
// The listing is compared inside ForEach without copying (values of tens of kilobytes); copies are made only to
// report a difference.
func c03CheckAgainstModel(t *rapid.T, name string, db *overlaydb.OverlayDB, model map[string][]byte, ops []c03Op) {
	want := c03ModelList(model)
	n, bad := 0, -1
	var prev []byte
	ascending := true
	db.GetWriteSet().ForEach(func(k, v []byte) {
		if n > 0 && bytes.Compare(prev, k) >= 0 {
			ascending = false
		}
		prev = k
		if bad < 0 && (n >= len(want) || !bytes.Equal(k, want[n].k) || !bytes.Equal(v, want[n].v)) {
			bad = n
		}
		n++
	})
	if !ascending || bad >= 0 || n != len(want) {
		got := c03List(db)
		for i := 1; i < len(got); i++ {
			if bytes.Compare(got[i-1].k, got[i].k) >= 0 {
				t.Fatalf("%s: write set not strictly ascending / duplicate key at position %d: %x then %x; ops=%v", name, i, got[i-1].k, got[i].k, ops)
			}
		}
		if len(got) != len(want) {
			t.Fatalf("%s: write set lists %d keys, model has %d touched keys; got {%s} want {%s}; ops=%v", name, len(got), len(want), c03FmtList(got), c03FmtList(want), ops)
		}
		for i := range got {
			if !bytes.Equal(got[i].k, want[i].k) || !bytes.Equal(got[i].v, want[i].v) {
				t.Fatalf("%s: write set entry %d is %x=%s, model says %x=%s%s; ops=%v", name, i, got[i].k, harn.Hex(got[i].v), want[i].k, harn.Hex(want[i].v), c03FirstDiff(got[i].v, want[i].v), ops)
			}
		}
		t.Fatalf("%s: write set listing differs from the model (entry %d) but a second listing does not; ops=%v", name, bad, ops)
	}
	// per-key content through the read path of the overlay (touched keys never reach the backing store)
	for _, kv := range want {
		v, err := db.Get(kv.k)
		if err != nil || !bytes.Equal(v, kv.v) {
			t.Fatalf("%s: Get(%x) = %s, %v; model says %s%s; ops=%v", name, kv.k, harn.Hex(v), err, harn.Hex(kv.v), c03FirstDiff(v, kv.v), ops)
		}
	}
	h := db.ChangeHash()
	if ref := c03RefHash(want); !bytes.Equal(h[:], ref[:]) {
		t.Fatalf("%s: ChangeHash %x differs from sha256 over the sorted final content %x; content {%s}; ops=%v", name, h[:], ref[:], c03FmtList(want), ops)
	}
	if h2 := db.ChangeHash(); h2 != h {
		t.Fatalf("%s: ChangeHash is not repeatable: %x then %x", name, h[:], h2[:])
	}
}

// c03History draws a history over the key pool and returns it with the model of its final content and
// whether some key was overwritten with a different value or deleted and recreated.
// largePct = percentage of puts whose value comes from the heavy tail of the size pool. Classes "size:*" record where
// large values (>= 1000 bytes) land: on a key not yet in the write set (the buffer must take key+value in one go), and
// whether an earlier operation of this history already left dead bytes in the append-only buffer (an overwrite,
// a re-creation or the deletion of a live value).
func c03History(t *rapid.T, keys [][]byte, nops int, largePct int) (ops []c03Op, model map[string][]byte, rewrites bool, classes map[string]int) {
	model = map[string][]byte{}
	classes = map[string]int{}
	deleted := map[string]bool{}
	dead := false
	for i := 0; i < nops; i++ {
		k := rapid.SampledFrom(keys).Draw(t, "key")
		cur, touched := model[string(k)]
		if rapid.IntRange(0, 4).Draw(t, "isdel") == 0 {
			ops = append(ops, c03Op{key: k, del: true})
			model[string(k)] = []byte{}
			if touched && len(cur) > 0 {
				deleted[string(k)] = true
				dead = true
				classes["op:delete-live"]++
			} else if touched {
				classes["op:delete-deleted"]++
			} else {
				classes["op:delete-untouched"]++
			}
			continue
		}
		v := c03Val(t, cur, largePct)
		ops = append(ops, c03Op{key: k, val: v})
		if len(v) >= c03LargeThreshold {
			switch {
			case touched:
				classes["size:large-overwrite"]++
			case dead:
				classes["size:large-new-key-after-dead"]++
			default:
				classes["size:large-new-key-clean"]++
			}
		}
		if touched && (len(v) > 0 || len(cur) > 0) {
			dead = true // the previous value (and, when something is appended, the previous key copy) is dead now
		}
		switch {
		case len(v) == 0:
			classes["op:put-empty"]++
			if len(cur) > 0 {
				deleted[string(k)] = true
			}
		case !touched:
			classes["op:put-new"]++
		case len(cur) == 0:
			classes["op:recreate"]++
			if deleted[string(k)] {
				rewrites = true
			}
		case bytes.Equal(cur, v):
			classes["op:overwrite-same"]++
		default:
			classes["op:overwrite"]++
			rewrites = true
		}
		model[string(k)] = append([]byte{}, v...)
	}
	return
}

// c03Rewrite builds a second history with the same final content of the same touched keys: per key a generated
// mini-history (junk puts of small and, with largeJunkPct %, heavy-tail sizes, deletes, recreations) that ends in the
// final value, interleaved by a generated shuffle.
func c03Rewrite(t *rapid.T, model map[string][]byte, largeJunkPct int) []c03Op {
	final := c03ModelList(model)
	per := make([][]c03Op, len(final))
	var labels []int
	for i, kv := range final {
		n := rapid.IntRange(0, 3).Draw(t, "redundant")
		for j := 0; j < n; j++ {
			switch rapid.IntRange(0, 3).Draw(t, "junkkind") {
			case 0:
				per[i] = append(per[i], c03Op{key: kv.k, del: true})
			case 1:
				per[i] = append(per[i], c03Op{key: kv.k, val: nil})
			case 2:
				per[i] = append(per[i], c03Op{key: kv.k, val: append([]byte{}, kv.v...)})
			default:
				if rapid.IntRange(0, 99).Draw(t, "largejunk") < largeJunkPct {
					per[i] = append(per[i], c03Op{key: kv.k, val: c03Large(t)})
				} else {
					per[i] = append(per[i], c03Op{key: kv.k, val: rapid.SliceOfN(rapid.Byte(), 1, 80).Draw(t, "junk")})
				}
			}
		}
		if len(kv.v) == 0 {
			per[i] = append(per[i], c03Op{key: kv.k, del: rapid.Bool().Draw(t, "finaldel")})
		} else {
			per[i] = append(per[i], c03Op{key: kv.k, val: append([]byte{}, kv.v...)})
		}
		for range per[i] {
			labels = append(labels, i)
		}
	}
	if len(labels) > 1 {
		labels = rapid.Permutation(labels).Draw(t, "interleave")
	}
	next := make([]int, len(final))
	out := make([]c03Op, 0, len(labels))
	for _, l := range labels {
		out = append(out, per[l][next[l]])
		next[l]++
	}
	return out
}

func c03SameOrder(a, b []c03Op) bool {
	if len(a) != len(b) {
		return false
	}
	for i := range a {
		if !bytes.Equal(a[i].key, b[i].key) || !bytes.Equal(a[i].val, b[i].val) {
			return false
		}
	}
	return true
}

func c03Desc(ops []c03Op) string {
	var sb strings.Builder
	for i, o := range ops {
		if sb.Len() > 500 {
			fmt.Fprintf(&sb, "…(+%d ops)", len(ops)-i)
			break
		}
		sb.WriteString(o.String())
		sb.WriteByte(' ')
	}
	return sb.String()
}

const c03Rule = "histories of Put/Delete over a pool of 1..24 distinct keys (alphabet of 7 bytes, shared prefixes, lengths 0..40, empty key included), values from a heavy-tailed size pool: " +
	"0, 1..64 bytes, and for ~5 % of the puts 200..3000, 1000..1100, 4000..4200, 6000, 10000 or 70000 bytes (entries larger than the whole 4 KiB buffer of a fresh overlay, written for new keys and as overwrites, before and after dead bytes exist) " +
	"(put-empty, overwrite-same, overwrite, delete, delete-then-recreate); second history = per-key generated redundant ops (small and heavy-tail junk values) ending in the same final value, shuffled; " +
	"oracle = write set listing byte for byte, OverlayDB.Get per touched key and ChangeHash against a map model, and equality of the two histories; " +
	"non-trivial = the two histories differ as sequences and the first one overwrites a key with a different value or recreates a deleted key; distinct = different first history"

// Two histories with the same final content: same hash, same listing, both equal to the model.
func TestC03_OrderIndependent(t *testing.T) {
	ev := harn.For("C03").Rule(c03Rule)
	ev.Floor("op:overwrite", "ops", 0.05)
	ev.Floor("op:recreate", "ops", 0.02)
	// buffer growth: large first writes of a key after dead bytes exist (generator view), and writes of a new key
	// larger than the whole current buffer while it holds dead bytes (measured on the real write set), per case
	ev.Floor("size:large-new-key-after-dead", "order:cases", 0.10)
	ev.Floor("grow:new-key-over-capacity-after-dead", "order:cases", 0.08)
	ev.Floor("grow:overwrite-over-capacity", "order:cases", 0.03)
	harn.Check(t, 12000, 600000, func(t *rapid.T) {
		keys := c03Keys(t, 24)
		nops := rapid.IntRange(1, 80).Draw(t, "nops")
		ops, model, rewrites, classes := c03History(t, keys, nops, 5)
		ops2 := c03Rewrite(t, model, 8)
		for c, n := range classes {
			ev.ClassN(c, int64(n))
		}
		ev.ClassN("ops", int64(len(ops)))
		ev.Class("order:cases")

		db1 := overlaydb.NewOverlayDB(nil)
		db2 := overlaydb.NewOverlayDB(nil)
		probe := c03Probe{}
		c03Apply(db1, ops, probe)
		c03Apply(db2, ops2, probe)
		probe.flush(ev)
		c03CheckAgainstModel(t, "first history", db1, model, ops)
		c03CheckAgainstModel(t, "second history", db2, model, ops2)
		h1, h2 := db1.ChangeHash(), db2.ChangeHash()
		if h1 != h2 {
			t.Fatalf("same final content, different ChangeHash: %x vs %x; ops1=%v ops2=%v", h1[:], h2[:], ops, ops2)
		}
		differ := !c03SameOrder(ops, ops2)
		if differ {
			ev.Class("case:histories-differ")
		}
		ev.Case(differ && rewrites, "order: "+c03Desc(ops))
	})
}

// Long histories against the model, checked at generated intermediate points, with values large enough to make
// the key/value buffer and the node array reallocate (heavy-tailed sizes up to 70000 bytes, so that single entries
// exceed the whole buffer again and again as it grows); the overlay is reused after Reset() with stale content.
func TestC03_LongHistoryModel(t *testing.T) {
	ev := harn.For("C03").Rule(c03Rule + " || long: up to 400 (quick) / 2000 (thorough) ops over up to 60 keys, ~10 % of the puts with heavy-tail sizes (200..3000, 1000..1100, 4000..4200, 6000, 10000, 70000 bytes), intermediate checkpoints, overlay reused after Reset() with its grown buffer")
	ev.Floor("size:large-new-key-after-dead", "long:cases", 0.5)
	ev.Floor("grow:new-key-over-capacity-after-dead", "long:cases", 0.04)
	maxOps := 400
	if harn.Thorough() {
		maxOps = 2000
	}
	harn.Check(t, 1500, 48000, func(t *rapid.T) {
		keys := c03Keys(t, 60)
		db := overlaydb.NewOverlayDB(nil)
		probe := c03Probe{}
		reused := rapid.Bool().Draw(t, "reuseAfterReset")
		if reused {
			garbage, _, _, _ := c03History(t, keys, rapid.IntRange(1, 40).Draw(t, "ngarbage"), 10)
			c03Apply(db, garbage, nil)
			db.Reset()
			if l := c03List(db); len(l) != 0 {
				t.Fatalf("write set after Reset() still lists %d keys: {%s}", len(l), c03FmtList(l))
			}
			ev.Class("case:reused-after-reset")
		}
		nops := rapid.IntRange(1, maxOps).Draw(t, "nops")
		ops, model, rewrites, classes := c03History(t, keys, nops, 10)
		for c, n := range classes {
			ev.ClassN(c, int64(n))
		}
		ev.ClassN("ops", int64(len(ops)))
		ev.Class("long:cases")
		// apply with checkpoints: compare with the model of the prefix
		cps := rapid.SliceOfN(rapid.IntRange(0, len(ops)), 0, 3).Draw(t, "checkpoints")
		sort.Ints(cps)
		done := 0
		prefix := map[string][]byte{}
		step := func(upto int) {
			for ; done < upto; done++ {
				o := ops[done]
				if o.del {
					db.Delete(o.key)
					prefix[string(o.key)] = []byte{}
				} else {
					probe.before(db.GetWriteSet(), o.key, o.val)
					db.Put(o.key, o.val)
					prefix[string(o.key)] = append([]byte{}, o.val...)
				}
			}
		}
		for _, cp := range cps {
			step(cp)
			c03CheckAgainstModel(t, fmt.Sprintf("prefix of %d ops", cp), db, prefix, ops[:cp])
		}
		step(len(ops))
		probe.flush(ev)
		c03CheckAgainstModel(t, "long history", db, model, ops)
		// the minimal history (each final pair once, in a generated order) reaches the same hash and listing
		final := c03ModelList(model)
		order := make([]int, len(final))
		for i := range order {
			order[i] = i
		}
		if len(order) > 1 {
			order = rapid.Permutation(order).Draw(t, "minimalOrder")
		}
		db2 := overlaydb.NewOverlayDB(nil)
		var minimal []c03Op
		for _, i := range order {
			minimal = append(minimal, c03Op{key: final[i].k, val: final[i].v})
		}
		c03Apply(db2, minimal, nil)
		c03CheckAgainstModel(t, "minimal history", db2, model, minimal)
		if h1, h2 := db.ChangeHash(), db2.ChangeHash(); h1 != h2 {
			t.Fatalf("history and its minimal equivalent (final pairs written once, order %v) hash differently: %x vs %x; ops=%v", order, h1[:], h2[:], ops)
		}
		ev.Case(rewrites && len(ops) > len(final), fmt.Sprintf("long(reused=%v): %s", reused, c03Desc(ops)))
	})
}

// c03TxKey is the key under which CacheDB.Put/Delete(key) reaches the block overlay.
func c03TxKey(k []byte) []byte {
	return append([]byte{byte(scommon.ST_STORAGE)}, k...)
}

// The route the block execution loop uses: one overlay per block, one transaction cache (CacheDB, 1 KiB initial
// buffer) that is Reset() before every transaction, written by the transaction and then either committed into the
// overlay (Commit replays the cache's final content in key order) or abandoned. The overlay must equal the model of
// the committed transactions, and must equal the overlay obtained by writing the same operations directly.
func TestC03_TxCacheCommit(t *testing.T) {
	ev := harn.For("C03").Rule(c03Rule + " || txcache: 1..8 transactions of 1..24 ops each (same key pool and size pool, ~12 % heavy-tail values) written through storage.CacheDB over one overlay; " +
		"each transaction is committed (80 %) or abandoned (cache Reset() as the block loop does); the overlay is compared with the model of the committed ops, with an overlay that received the committed ops directly and with the minimal history; " +
		"non-trivial = at least two committed transactions and an overwrite/recreation inside a transaction or across transactions")
	ev.Floor("txc:tx-large-new-key-after-dead", "txc:cases", 0.15)
	ev.Floor("txc:block-large-new-key-after-dead", "txc:cases", 0.15)
	ev.Floor("txc:tx-abandoned", "txc:tx", 0.05)
	harn.Check(t, 3000, 150000, func(t *rapid.T) {
		keys := c03Keys(t, 24)
		ov := overlaydb.NewOverlayDB(nil)
		cache := storage.NewCacheDB(ov)
		direct := overlaydb.NewOverlayDB(nil)
		model := map[string][]byte{}
		var flat []c03Op // committed ops with the overlay keys, for messages and the direct route
		var desc strings.Builder
		ntx := rapid.IntRange(1, 8).Draw(t, "ntx")
		committed, cross, inner := 0, false, false
		blockDead := false
		for i := 0; i < ntx; i++ {
			cache.Reset()
			nops := rapid.IntRange(1, 24).Draw(t, "nops")
			ops, txModel, rewrites, classes := c03History(t, keys, nops, 12)
			for _, o := range ops {
				if o.del {
					cache.Delete(o.key)
				} else {
					cache.Put(o.key, o.val)
				}
			}
			ev.Class("txc:tx")
			ev.ClassN("ops", int64(len(ops)))
			ev.ClassN("txc:tx-large-new-key-after-dead", int64(classes["size:large-new-key-after-dead"]))
			commit := rapid.IntRange(0, 4).Draw(t, "commit") != 0
			if desc.Len() < 500 {
				fmt.Fprintf(&desc, "tx%d(commit=%v): %s| ", i, commit, c03Desc(ops))
			}
			if !commit {
				ev.Class("txc:tx-abandoned")
				continue
			}
			cache.Commit()
			committed++
			inner = inner || rewrites
			// the overlay sees the final content of the transaction, in key order
			for _, kv := range c03ModelList(txModel) {
				k := c03TxKey(kv.k)
				old, touched := model[string(k)]
				if touched {
					if len(kv.v) > 0 || len(old) > 0 {
						cross = true
					}
				} else if len(kv.v) >= c03LargeThreshold && blockDead {
					ev.Class("txc:block-large-new-key-after-dead")
				}
				if touched && (len(kv.v) > 0 || len(old) > 0) {
					blockDead = true
				}
				model[string(k)] = kv.v
			}
			for _, o := range ops {
				flat = append(flat, c03Op{key: c03TxKey(o.key), val: o.val, del: o.del})
			}
		}
		ev.Class("txc:cases")
		c03CheckAgainstModel(t, "overlay behind the transaction cache", ov, model, flat)
		c03Apply(direct, flat, nil)
		c03CheckAgainstModel(t, "committed ops written directly", direct, model, flat)
		final := c03ModelList(model)
		order := make([]int, len(final))
		for i := range order {
			order[i] = i
		}
		if len(order) > 1 {
			order = rapid.Permutation(order).Draw(t, "minimalOrder")
		}
		var minimal []c03Op
		for _, i := range order {
			minimal = append(minimal, c03Op{key: final[i].k, val: final[i].v})
		}
		least := overlaydb.NewOverlayDB(nil)
		c03Apply(least, minimal, nil)
		c03CheckAgainstModel(t, "minimal history", least, model, minimal)
		h, hd, hm := ov.ChangeHash(), direct.ChangeHash(), least.ChangeHash()
		if h != hd || h != hm {
			t.Fatalf("same final content, different ChangeHash: via transaction cache %x, direct %x, minimal %x; committed ops=%v", h[:], hd[:], hm[:], flat)
		}
		ev.Case(committed >= 2 && (cross || inner), "txcache: "+desc.String())
	})
}

// Exhaustive small space: every history of length <= 4 over 2 keys and values {delete, put-empty, "x", "y"} is
// compared with the model, and all histories are grouped by final content: one hash per group.
func TestC03_ExhaustiveTiny(t *testing.T) {
	ev := harn.For("C03").Rule("tiny: all histories of length 1..5 (thorough 1..6) over keys {\"a\",\"ab\"} x ops {Delete, Put empty, Put x, Put y}; non-trivial = length >= 2")
	keys := [][]byte{[]byte("a"), []byte("ab")}
	type opk struct {
		k   int
		typ int
	}
	var alphabet []opk
	for k := range keys {
		for typ := 0; typ < 4; typ++ {
			alphabet = append(alphabet, opk{k, typ})
		}
	}
	mk := func(o opk) c03Op {
		switch o.typ {
		case 0:
			return c03Op{key: keys[o.k], del: true}
		case 1:
			return c03Op{key: keys[o.k], val: nil}
		case 2:
			return c03Op{key: keys[o.k], val: []byte("x")}
		default:
			return c03Op{key: keys[o.k], val: []byte("y")}
		}
	}
	groups := map[string][32]byte{}
	maxLen := 5
	if harn.Thorough() {
		maxLen = 6
	}
	idx := 0
	var rec func(cur []c03Op)
	rec = func(cur []c03Op) {
		if len(cur) > 0 {
			idx++
			if idx%harn.Shards() == harn.Shard() {
				db := overlaydb.NewOverlayDB(nil)
				c03Apply(db, cur, nil)
				model := map[string][]byte{}
				for _, o := range cur {
					model[string(o.key)] = append([]byte{}, o.val...)
				}
				got, want := c03List(db), c03ModelList(model)
				if c03FmtList(got) != c03FmtList(want) {
					harn.Violation(t, "C03", fmt.Sprint(cur), "write set {%s} differs from model {%s} after %v", c03FmtList(got), c03FmtList(want), cur)
				}
				h := db.ChangeHash()
				if ref := c03RefHash(want); !bytes.Equal(h[:], ref[:]) {
					harn.Violation(t, "C03", fmt.Sprint(cur), "ChangeHash %x differs from reference %x after %v", h[:], ref[:], cur)
				}
				key := c03FmtList(want)
				if prev, ok := groups[key]; ok && prev != [32]byte(h) {
					harn.Violation(t, "C03", fmt.Sprint(cur), "two histories with final content {%s} hash differently", key)
				}
				groups[key] = [32]byte(h)
				ev.Case(len(cur) >= 2, "tiny: "+fmt.Sprint(cur))
			}
		}
		if len(cur) == maxLen {
			return
		}
		for _, o := range alphabet {
			rec(append(cur, mk(o)))
		}
	}
	rec(nil)
	ev.Class("tiny:content-groups")
	ev.Extra("tiny_content_groups", len(groups))
}
