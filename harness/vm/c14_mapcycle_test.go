package vm

// C14, map-cycle family: a reference cycle closed through ANY entry of a map is rejected.
//
// The generic cyclic generator of TestC14_Cyclic closes its back-edge through a map only now and
// then, and used to leave every such value to the recorded finding (the detector inspects one map
// entry). This family aims at exactly those values: a map of 2-6 entries whose self/ancestor
// reference sits under the smallest, a middle or the largest key (entries inserted in a generated
// order), at top level or nested 1-3 deep inside arrays/structs/maps, the reference stored directly
// or inside 1-2 small containers.
//
// What the unchanged code guarantees for them (measured, see the vm fixture): Serialize re-runs the
// detector at every value it visits, and the detector descends into the entry that Go's map
// iteration yields first - for a map that never held more than 8 entries that is every entry with
// probability >= 1/8, whatever the hash seed. So a cycle that every round of the serializer can
// see with probability >= 1/64 is rejected within a bounded number of rounds (more than 70*64 rounds:
// probability < 1e-30): an error, never a dead worker, and never a recursion that only the 1 MiB
// output limit stops. Values whose cycle NO detector run can see (hidden behind a non-first array
// element) stay with the recorded finding cycle-not-in-first-position, exactly as in TestC14_Cyclic.

import (
	"fmt"
	"sort"
	"strings"
	"testing"

	"pgregory.net/rapid"

	"verifharness/internal/harn"
)

const c14MapCycleRule = "map-cycle family: a map of 2–6 entries (small distinct primitive keys, entries inserted in a generated order) holds a reference to itself or to an ancestor under its smallest, a middle or its largest key, directly or inside 1–2 small arrays/structs/one-entry maps; the map is the root or nested 1–3 deep inside arrays/structs/maps at generated element indices / key ranks among small siblings; Serialize and BuildParamToNative run in the crash-isolating worker; oracle: an error, never a result, never a dead worker, and - when every round of the serializer through the cycle is rejected with probability >= 1/64 by the detector's random choice among the entries of small (<= 8 entries) maps - Serialize gives up within 70/p+2 rounds (bytes written at the error <= rounds x size of the value with the back-reference cut), i.e. not only at the 1 MiB output limit; non-trivial = such a value whose back-reference is NOT under the smallest key; distinct = different (canonical value, insertion order)"

// smallValue adds a small acyclic value (2-8 bytes serialized) and returns its id.
func smallValue(t *rapid.T, s *spec, label string) int {
	switch rapid.IntRange(0, 9).Draw(t, label) {
	case 0, 1, 2:
		return s.add(node{K: kInt, I: fmt.Sprint(rapid.IntRange(-2, 9).Draw(t, label+"i"))})
	case 3, 4:
		return s.add(node{K: kBool, O: rapid.Bool().Draw(t, label+"o")})
	case 5:
		return s.add(node{K: kBytes, B: []byte{}})
	case 6:
		n := rapid.IntRange(1, 4).Draw(t, label+"bn")
		return s.add(node{K: kBytes, B: rapid.SliceOfN(rapid.ByteRange('a', 'f'), n, n).Draw(t, label+"b")})
	case 7:
		return s.add(node{K: rapid.SampledFrom([]string{kArray, kStruct, kMap}).Draw(t, label+"ek")})
	case 8:
		c := s.add(node{K: kInt, I: fmt.Sprint(rapid.IntRange(0, 3).Draw(t, label+"ci"))})
		return s.add(node{K: rapid.SampledFrom([]string{kArray, kStruct}).Draw(t, label+"ck"), E: []int{c}})
	default:
		k := s.add(node{K: kInt, I: fmt.Sprint(rapid.IntRange(0, 3).Draw(t, label+"mk"))})
		v := s.add(node{K: kBool, O: true})
		return s.add(node{K: kMap, E: []int{v}, MK: []int{k}})
	}
}

// smallKeys adds n primitive keys with pairwise distinct key bytes; returns their ids in key order.
func smallKeys(t *rapid.T, s *spec, n int, label string) []int {
	seen := map[string]bool{}
	var ids []int
	for i := 0; len(ids) < n; i++ {
		var kn node
		switch rapid.IntRange(0, 5).Draw(t, fmt.Sprintf("%s%dk", label, i)) {
		case 0, 1, 2:
			kn = node{K: kInt, I: fmt.Sprint(rapid.IntRange(-1, 12).Draw(t, fmt.Sprintf("%s%di", label, i)))}
		case 3:
			kn = node{K: kBool, O: rapid.Bool().Draw(t, fmt.Sprintf("%s%do", label, i))}
		default:
			m := rapid.IntRange(0, 3).Draw(t, fmt.Sprintf("%s%dn", label, i))
			b := rapid.SliceOfN(rapid.ByteRange('a', 'd'), m, m).Draw(t, fmt.Sprintf("%s%db", label, i))
			if b == nil {
				b = []byte{}
			}
			kn = node{K: kBytes, B: b}
		}
		if i > 40 {
			kn = node{K: kBytes, B: []byte(fmt.Sprintf("z%d", i))}
		}
		tmp := spec{N: []node{kn}}
		if ks := string(tmp.keyBytes(0)); !seen[ks] {
			seen[ks] = true
			ids = append(ids, s.add(kn))
		}
	}
	sort.Slice(ids, func(a, b int) bool { return string(s.keyBytes(ids[a])) < string(s.keyBytes(ids[b])) })
	return ids
}

type mapCycle struct {
	s        *spec
	n, rank  int    // entries of the cyclic map, rank of the back-reference key in key order
	order    []int  // insertion order of the entries (ranks)
	depth    int    // containers above the map
	hops     int    // 0 = reference to the map itself, k = to its k-th ancestor
	wrappers string // kinds of the containers above the map, outermost first
	refWrap  int    // small containers between the map entry and the reference
}

func (m *mapCycle) posClass() string {
	switch {
	case m.rank == 0:
		return "smallest"
	case m.rank == m.n-1:
		return "largest"
	}
	return "middle"
}

func genMapCycle(t *rapid.T) *mapCycle {
	s := &spec{}
	mc := &mapCycle{s: s}
	mc.depth = rapid.IntRange(0, 3).Draw(t, "depth")
	mc.hops = 0
	if mc.depth > 0 && rapid.IntRange(0, 2).Draw(t, "ancestor") > 0 {
		mc.hops = rapid.IntRange(1, mc.depth).Draw(t, "hops")
	}
	// containers of the chain root .. map, created empty first so that they can be referenced
	chain := make([]int, mc.depth+1)
	for i := 0; i < mc.depth; i++ {
		k := rapid.SampledFrom([]string{kArray, kArray, kStruct, kMap}).Draw(t, fmt.Sprintf("w%dkind", i))
		chain[i] = s.add(node{K: k})
		mc.wrappers += k
	}
	mapID := s.add(node{K: kMap})
	chain[mc.depth] = mapID
	s.Root = chain[0]
	target := chain[mc.depth-mc.hops]

	// wrappers: the chain child at a generated index / key rank among small siblings; inside the
	// loop (between target and map) mostly first, where a detector run can follow it
	for i := 0; i < mc.depth; i++ {
		lbl := fmt.Sprintf("w%d", i)
		sib := rapid.IntRange(0, 3).Draw(t, lbl+"sib")
		idx := rapid.IntRange(0, sib).Draw(t, lbl+"idx")
		inLoop := i >= mc.depth-mc.hops
		if inLoop && rapid.IntRange(0, 3).Draw(t, lbl+"first") > 0 {
			idx = 0
		}
		var keys []int
		if s.N[chain[i]].K == kMap {
			keys = smallKeys(t, s, sib+1, lbl+"key")
			// insertion order of a wrapper map: the chain child first or last
			if rapid.Bool().Draw(t, lbl+"rev") {
				for a, b := 0, len(keys)-1; a < b; a, b = a+1, b-1 {
					keys[a], keys[b] = keys[b], keys[a]
				}
			}
		}
		for j := 0; j <= sib; j++ {
			c := chain[i+1]
			if j != idx {
				c = smallValue(t, s, fmt.Sprintf("%ss%d", lbl, j))
			}
			n := &s.N[chain[i]]
			n.E = append(n.E, c)
			if n.K == kMap {
				n.MK = append(n.MK, keys[j])
			}
		}
	}

	// the reference, directly or inside small containers
	ref := target
	mc.refWrap = 0
	if rapid.IntRange(0, 2).Draw(t, "refwrap") == 0 {
		mc.refWrap = rapid.IntRange(1, 2).Draw(t, "refwrapN")
		for i := 0; i < mc.refWrap; i++ {
			lbl := fmt.Sprintf("r%d", i)
			switch rapid.IntRange(0, 4).Draw(t, lbl+"kind") {
			case 0, 1, 2:
				k := kArray
				if rapid.Bool().Draw(t, lbl+"struct") {
					k = kStruct
				}
				e := []int{ref}
				switch rapid.IntRange(0, 5).Draw(t, lbl+"shape") {
				case 0: // reference NOT first: no detector run follows it
					e = []int{smallValue(t, s, lbl+"before"), ref}
				case 1, 2:
					e = []int{ref, smallValue(t, s, lbl+"after")}
				}
				ref = s.add(node{K: k, E: e})
			default:
				k := smallKeys(t, s, 1, lbl+"key")
				ref = s.add(node{K: kMap, E: []int{ref}, MK: k})
			}
		}
	}

	// the cyclic map
	mc.n = rapid.IntRange(2, 6).Draw(t, "n")
	switch rapid.IntRange(0, 2).Draw(t, "pos") {
	case 0:
		mc.rank = 0
	case 1:
		mc.rank = mc.n - 1
	default:
		mc.rank = mc.n - 1
		if mc.n > 2 {
			mc.rank = rapid.IntRange(1, mc.n-2).Draw(t, "midrank")
		}
	}
	keys := smallKeys(t, s, mc.n, "mk")
	vals := make([]int, mc.n)
	for r := range vals {
		if r == mc.rank {
			vals[r] = ref
		} else {
			vals[r] = smallValue(t, s, fmt.Sprintf("mv%d", r))
		}
	}
	// insertion order: a generated permutation of the ranks
	left := make([]int, mc.n)
	for i := range left {
		left[i] = i
	}
	for len(left) > 0 {
		j := rapid.IntRange(0, len(left)-1).Draw(t, fmt.Sprintf("ins%d", len(left)))
		mc.order = append(mc.order, left[j])
		left = append(left[:j], left[j+1:]...)
	}
	for _, r := range mc.order {
		n := &s.N[mapID]
		n.MK = append(n.MK, keys[r])
		n.E = append(n.E, vals[r])
	}
	return mc
}

func TestC14_MapCycle(t *testing.T) {
	ev := harn.For("C14").Rule(c14MapCycleRule)
	ev.Assume("Go's range over a map that never held more than 8 entries starts at a uniformly random slot of its single bucket (runtime mapiterinit; single group of the swiss-table runtime), so every entry is yielded first with probability >= 1/8 independent of the hash seed; the choices of different range statements are independent")
	ev.Floor("mapcyc:pos:smallest", "mapcyc", 0.15)
	ev.Floor("mapcyc:pos:middle", "mapcyc", 0.15)
	ev.Floor("mapcyc:pos:largest", "mapcyc", 0.15)
	ev.Floor("mapcyc:nested", "mapcyc", 0.40)
	ev.Floor("mapcyc:ancestor", "mapcyc", 0.20)
	ev.Floor("mapcyc:ser:by-chance", "mapcyc", 0.50)
	ev.Floor("mapcyc:ser:by-chance:not-smallest", "mapcyc", 0.30)
	ev.Floor("mapcyc:ser:rounds-bounded", "mapcyc:ser:by-chance", 0.80)
	w := newWorker(ev)
	defer w.Close()
	// the recorded finding (its own witness is reported by TestC14_Cyclic when it is not listed)
	still, _ := cycleWitnessStillFails(w)
	known := harn.Known("C14", "cycle-not-in-first-position", still)

	harn.Check(t, 1500, 50000, func(t *rapid.T) {
		mc := genMapCycle(t)
		s := mc.s
		if !s.isCyclic() {
			t.Fatalf("harness error: map-cycle generator produced an acyclic value: %s", s.describe())
		}
		ord := make([]string, len(mc.order))
		for i, r := range mc.order {
			ord[i] = fmt.Sprint(r)
		}
		desc := fmt.Sprintf("mapcyc %d entries, reference under key rank %d (%s), inserted in rank order %s, %d up, nested in %q, ref inside %d: %s",
			mc.n, mc.rank, mc.posClass(), strings.Join(ord, ""), mc.hops, mc.wrappers, mc.refWrap, s.describe())

		serRan, byChance := false, false
		for _, op := range []string{"ser", "nat"} {
			name := map[string]string{"ser": "Serialize", "nat": "BuildParamToNative"}[op]
			chance, low := false, 0.0
			if op == "ser" {
				if l, ok := s.serLoopRejectLow(); ok && l >= rejectLowMin {
					chance, low = true, l
				}
			}
			if known && !chance && (op == "ser" && s.serMayDiverge() || op == "nat" && s.natMayDiverge()) {
				// recorded finding: no run of the one-path detector can see this cycle
				ev.Class("mapcyc:" + op + ":excluded")
				continue
			}
			rs, ok := callOrFail(t, ev, w, &wreq{Op: op, Spec: s}, name+" of cyclic value "+desc)
			if !ok {
				return
			}
			if rs.OK {
				t.Fatalf("%s of a value containing a reference cycle returned a result (%s) instead of an error; value %s", name, harn.Hex(rs.Out), desc)
			}
			ev.Class("mapcyc:" + op + ":rejected")
			if strings.Contains(rs.Err, "circular") {
				ev.Class("mapcyc:" + op + ":rejected-as-circular")
			}
			if op == "ser" {
				serRan = true
				if chance {
					byChance = true
					ev.Class("mapcyc:ser:by-chance")
					if mc.rank > 0 {
						ev.Class("mapcyc:ser:by-chance:not-smallest")
					}
					if checkRounds(t, s, low, rs, desc) {
						ev.Class("mapcyc:ser:rounds-bounded")
					}
				} else {
					ev.Class("mapcyc:ser:certain")
				}
			}
		}
		if !serRan {
			ev.Excluded()
		}
		ev.Class("mapcyc")
		ev.Class("mapcyc:pos:" + mc.posClass())
		ev.Class(fmt.Sprintf("mapcyc:n:%d", mc.n))
		if mc.depth > 0 {
			ev.Class("mapcyc:nested")
		}
		if mc.hops > 0 {
			ev.Class("mapcyc:ancestor")
		}
		if mc.refWrap > 0 {
			ev.Class("mapcyc:ref-in-container")
		}
		ev.Case(byChance && mc.rank > 0, desc)
	})
}
