package gov

// History driver and the two oracles.
//
// C10 (fee split): at every epoch change in split2 mode, income = ONG(gov) after + dapp transfer − splitFee
// record before (= balance the contract saw, incl. ONG unbound to governance during the call, minus what
// it already owed); every SplitFeeAddress increase is >= 0 and <= income, Σ increases + dapp transfer <=
// income; always Σ SplitFeeAddress.Amount <= ONG(gov); withdrawFee by a creditor with amount > 0 succeeds
// and pays exactly that amount.
// C11 (stake custody): after every action ONT(gov) = Σ TotalStake.Stake + Σ PenaltyStake(InitPos+AuthorizePos)
// (raw storage, own decoder); per address cumulative ONT received from governance <= cumulative ONT paid in;
// a successful withdraw pays no more than the unfrozen position recorded before it.
// Recovered panics inside any native call are violations of both.

import (
	"fmt"
	"math/big"
	"os"
	"strings"

	"github.com/ontio/ontology/common"
	nutils "github.com/ontio/ontology/smartcontract/service/native/utils"
	"pgregory.net/rapid"

	"verifharness/internal/fix"
	"verifharness/internal/harn"
)

type action struct {
	kind     string
	contract common.Address
	method   string
	args     []byte
	signers  []common.Address
	desc     string
	valid    bool // built valid-by-construction from the observed state
	// expectations
	feeOf  *common.Address // withdrawFee target
	wdAddr *common.Address // withdraw: address and the (lower-cased) peers it lists
	wdPubs []string
	mod    *modelOp // what the independent release model learns when the call succeeds
	// spelling
	alt       bool // a key taken from the observed state is passed in an alternative hex spelling of the same bytes
	dup       bool // registerCandidate of a key that is already in the pool, in another spelling
	dupStaked bool // ... on which somebody other than the owner holds a position
	// rep: the call's peer list names one peer more than once; how the sum of that peer's amounts relates to what the
	// state offers for it ("below", "equal", "exceeds"; "same" for lists without amounts; "arbitrary" for arbitrary lists)
	rep string
}

type hist struct {
	t        *rapid.T
	w        *world
	n        *fix.Native
	ev       *harn.Collector
	prop     string // "C10" or "C11": which oracle is judged
	prof     *profile
	s        *snap
	log      []string
	trace    []string
	g        gen
	maxSteps int

	deposited, withdrawn map[common.Address]uint64
	goneQuit, goneBlack  map[string]bool // peers removed from the pool by normalQuit / blackQuit
	quitOrBlack          bool
	reblack              bool               // a key was black-listed a second time onto its undrained penalty record
	mdl                  *model             // independent release model (C11)
	topUp                map[pairKey]int    // 1: un-authorized more than the same epoch's top-up, 2: an epoch later
	topUpKind            map[pairKey]string // node status at that moment
	warm                 bool               // during the warm-up epochs (judged, but not counted as generated epochs)
	nt10, nt11           bool
	alt, altHit          bool // spelling mode of the step being built / a key was really respelt (actions_test.go: sp)
	dupTried, dupStaked  bool // the history offered an in-pool key again in another spelling (… of a peer others staked on)
	dupSplit             bool // ... and a split2 settlement with income followed (C10)
	repeated             bool // a list-taking call built from the state named one peer more than once
	counts               map[string]int
}

var debugFailedValid = os.Getenv("GOV_DEBUG") != ""

func (h *hist) class(c string) { h.ev.Class(c); h.counts[c]++ }

func (h *hist) fail(format string, args ...interface{}) {
	tail := h.trace
	if len(tail) > 40 {
		tail = tail[len(tail)-40:]
	}
	h.t.Fatalf("%s VIOLATION: %s\nheight=%d time=%d view=%d\nhistory (last %d of %d steps):\n  %s", h.prop, fmt.Sprintf(format, args...),
		h.n.Height, h.n.Time, h.s.view, len(tail), len(h.trace), strings.Join(tail, "\n  "))
}

func hasAddr(l []common.Address, a common.Address) bool {
	for _, x := range l {
		if x == a {
			return true
		}
	}
	return false
}

// exec performs one action as one simulated transaction and judges the resulting state.
func (h *hist) exec(a *action) bool {
	pre := h.s
	G := nutils.GovernanceContractAddress
	var gasPre, credPre uint64
	gasTracked := pre.gas != common.ADDRESS_EMPTY && pre.gas != G
	if gasTracked {
		gasPre = h.bal(nutils.OngContractAddress, pre.gas)
	}
	if a.feeOf != nil {
		credPre = h.bal(nutils.OngContractAddress, *a.feeOf)
	}

	_, err := h.n.Call(a.contract, a.method, a.args, a.signers)
	if fix.IsPanic(err) {
		h.trace = append(h.trace, a.desc+" -> PANIC")
		h.fail("native call %s panicked: %v", a.desc, err)
	}
	ok := err == nil
	res := "ok"
	if !ok {
		res = "failed"
	}
	switch {
	case a.alt:
		// steps in alternative-spelling mode are counted apart from the kind's own classes (whose ok-rates the
		// floors watch): most of them must fail, the contract finds pool entries by the exact string
		h.class("spelling:alt")
		h.class(a.kind + "(respelt)")
		h.class(a.kind + "(respelt):" + res)
		h.class("intent:respelt:" + res)
		if a.dup {
			h.class("registerCandidate(respelt):pool-key")
			h.class("registerCandidate(respelt):pool-key:" + res)
			h.dupTried = true
			if a.dupStaked {
				h.class("registerCandidate(respelt):pool-key:staked")
				h.dupStaked = true
			}
		}
	case a.valid:
		h.class(a.kind)
		h.class(a.kind + ":" + res)
		h.class(a.kind + ":valid")
		h.class(a.kind + ":valid:" + res)
		h.class("intent:valid:" + res)
	case a.rep == "exceeds":
		// built from the observed state, every entry valid on its own, but the same peer's entries add up to more than
		// the state offers: neither a valid-by-construction nor an arbitrary action
		h.class(a.kind)
		h.class(a.kind + ":" + res)
		h.class("intent:overdrawn-repeat:" + res)
	default:
		h.class(a.kind)
		h.class(a.kind + ":" + res)
		h.class("intent:arbitrary:" + res)
	}
	if a.rep != "" {
		h.class(a.kind + ":repeat")
		h.class(a.kind + ":repeat:" + a.rep)
		h.class(a.kind + ":repeat:" + a.rep + ":" + res)
		if a.rep != "arbitrary" {
			h.class("repeat:fromState")
			h.repeated = true
		}
	}
	h.log = append(h.log, a.desc+"="+res)
	if ok {
		h.trace = append(h.trace, fmt.Sprintf("[h%d] %s -> ok", h.n.Height, a.desc))
	} else {
		e := err.Error()
		if len(e) > 160 {
			e = e[len(e)-160:]
		}
		h.trace = append(h.trace, fmt.Sprintf("[h%d] %s -> failed (…%s)", h.n.Height, a.desc, e))
	}

	if !ok && a.valid && debugFailedValid {
		fmt.Println("valid-by-construction action failed:", h.trace[len(h.trace)-1])
	}
	if !ok {
		// Native.Call reset the transaction cache: the observable state is the one before the call.
		if h.prop == "C10" && a.feeOf != nil && pre.split[*a.feeOf] > 0 && hasAddr(a.signers, *a.feeOf) {
			h.fail("withdrawFee by creditor %s with credited amount %d failed: %v (ONG(gov)=%d, splitFee record=%d)",
				h.w.name(*a.feeOf), pre.split[*a.feeOf], err, pre.ongGov, pre.splitFee)
		}
		return false
	}

	post := h.readSnap()
	h.s = post
	epoch := post.view != pre.view

	// bookkeeping shared by both properties (generator coverage)
	if epoch {
		for _, pub := range pre.poolKeys {
			if _, still := post.pool[pub]; !still {
				// an epoch change removes exactly the quitting peers (normalQuit) and the black-listed ones
				// (blackQuit; a consensus node black-listed by this very call was not yet marked before it)
				if pre.pool[pub].status == stQuiting {
					h.goneQuit[pub] = true
				} else {
					h.goneBlack[pub] = true
				}
			}
		}
	}
	if (a.kind == "quitNode" || a.kind == "blackNode") && ok {
		h.quitOrBlack = true
	}
	h.mdl.apply(a.mod)
	// coverage: second life of a black-listed key whose PenaltyStake record was not drained in between
	if a.kind == "whiteNode" && a.mod != nil {
		for _, pub := range a.mod.pubs {
			if pre.apen[pub] > 0 {
				h.class("whiteNode:ok:undrained-penalty")
			}
		}
	}
	if a.kind == "registerCandidate" && pre.apen[a.mod.pubs[0]] > 0 {
		h.class("registerCandidate:ok:again-with-undrained-penalty")
	}
	if a.kind == "blackNode" {
		seen := map[string]bool{}
		for _, pub := range a.mod.pubs {
			if seen[pub] {
				continue
			}
			seen[pub] = true
			if p, in := pre.pool[pub]; in && p.status != stBlack && pre.apen[pub] > 0 {
				h.class("blackNode:ok:reblacklist-with-undrained-penalty")
				if pre.othersStaked(p) {
					h.class("blackNode:ok:reblacklist-with-undrained-penalty:authorizers")
				}
			}
		}
	}
	if epoch {
		for _, pub := range pre.poolKeys {
			if _, still := post.pool[pub]; !still && pre.pool[pub].status != stQuiting && pre.apen[pub] > 0 {
				h.class("epoch:blackQuit-onto-undrained-penalty")
				if post.apen[pub] > pre.apen[pub] {
					h.class("epoch:blackQuit-onto-undrained-penalty:adds-authorizer-penalty")
				}
				h.reblack = true
			}
		}
	}
	if epoch {
		for k, st := range h.topUp {
			if st == 1 {
				h.topUp[k] = 2
			}
		}
	}
	if a.mod != nil && a.mod.op == "unauth" {
		// coverage: un-authorizing more than what was topped up in the same epoch splits the amount between the
		// immediately unfrozen NewPos part and the part frozen until the next epoch(s)
		seen := map[string]bool{}
		for i, pub := range a.mod.pubs {
			p, in := pre.pool[pub]
			if !in || seen[pub] {
				continue
			}
			seen[pub] = true
			for j := range pre.auth {
				e := &pre.auth[j]
				if e.pub == pub && e.addr == a.mod.ad && e.newp > 0 && a.mod.amts[i] > e.newp && e.staked() >= uint64(pre.gp2.MinAuthorizePos) {
					kind := "consensus"
					if p.status == stCandidate {
						kind = "candidate"
					}
					h.class("unAuthorizeForPeer:ok:exceedsTopUp:" + kind)
					h.topUp[pairKey{e.addr, pub}], h.topUpKind[pairKey{e.addr, pub}] = 1, kind
				}
			}
		}
	}

	switch h.prop {
	case "C11":
		h.judgeC11(a, pre, post)
	case "C10":
		// dapp transfer of an epoch change = ONG received by the gas address during the call (an epoch change
		// moves no other ONG to or from an account; outside epoch changes the gas address may be a participant
		// paying or receiving ONG of its own)
		var gasDelta uint64
		if gasTracked && epoch {
			gasPost := h.bal(nutils.OngContractAddress, pre.gas)
			if gasPost < gasPre {
				h.fail("harness: ONG of gas address %s decreased during the epoch change %s", h.w.name(pre.gas), a.desc)
			}
			gasDelta = gasPost - gasPre
		}
		h.judgeC10(a, pre, post, epoch, gasDelta, credPre)
	}
	return true
}

// ---------------------------------------------------------------------------------------------
// C11

func (h *hist) judgeC11(a *action, pre, post *snap) {
	if post.ontGov != post.sumStake+post.sumPenalty {
		h.fail("after %s: ONT balance of governance = %d but Σ TotalStake = %d + Σ PenaltyStake = %d (= %d); before the action: balance %d, stakes %d, penalty %d",
			a.desc, post.ontGov, post.sumStake, post.sumPenalty, post.sumStake+post.sumPenalty, pre.ontGov, pre.sumStake, pre.sumPenalty)
	}
	for _, ad := range h.w.tracked {
		b0, b1 := pre.ont[ad], post.ont[ad]
		if b1 < b0 {
			h.deposited[ad] += b0 - b1
		} else {
			h.withdrawn[ad] += b1 - b0
		}
		if h.withdrawn[ad] > h.deposited[ad] {
			h.fail("after %s: address %s has received %d ONT from governance in total but deposited only %d", a.desc, h.w.name(ad), h.withdrawn[ad], h.deposited[ad])
		}
	}
	if a.wdAddr != nil {
		ad := *a.wdAddr
		var unfrozen uint64
		seen := map[string]bool{}
		for _, pub := range a.wdPubs {
			if seen[pub] {
				continue
			}
			seen[pub] = true
			for i := range pre.auth {
				if pre.auth[i].pub == pub && pre.auth[i].addr == ad {
					unfrozen += pre.auth[i].unfreeze
				}
			}
		}
		var paid uint64
		if b0, ok := pre.ont[ad]; ok && post.ont[ad] > b0 {
			paid = post.ont[ad] - b0
		}
		if paid > unfrozen {
			h.fail("%s paid %d ONT to %s although only %d was unfrozen for the listed peers", a.desc, paid, h.w.name(ad), unfrozen)
		}
		// per listed peer (a peer may be listed more than once; the entries are processed one after the other): all its
		// entries together take no more than was unfrozen on it, and what they take leaves the unfrozen record - ONT
		// paid out that stayed recorded as unfrozen could be withdrawn a second time
		unfOf := func(s *snap, pub string) (u uint64) {
			for i := range s.auth {
				if s.auth[i].pub == pub && s.auth[i].addr == ad {
					u += s.auth[i].unfreeze
				}
			}
			return
		}
		asked, times := map[string]uint64{}, map[string]int{}
		var askedAll uint64
		for i, pub := range a.mod.pubs {
			times[pub]++
			asked[pub] += a.mod.amts[i]
			askedAll += a.mod.amts[i]
		}
		for pub := range seen {
			u0, u1 := unfOf(pre, pub), unfOf(post, pub)
			if asked[pub] > u0 {
				h.fail("%s succeeded although its entries for %s add up to %d ONT and only %d was unfrozen on that peer for %s", a.desc, h.w.nodeName(pub), asked[pub], u0, h.w.name(ad))
			}
			if u1 != u0-asked[pub] {
				h.fail("%s took %d ONT from the unfrozen position of %s on %s (%d before), but the record now says %d instead of %d",
					a.desc, asked[pub], h.w.name(ad), h.w.nodeName(pub), u0, u1, u0-asked[pub])
			}
		}
		if _, tracked := pre.ont[ad]; tracked && paid > askedAll {
			h.fail("%s paid %d ONT to %s, more than the %d the call asked for", a.desc, paid, h.w.name(ad), askedAll)
		}
		if a.rep != "" && a.rep != "arbitrary" && paid > 0 {
			h.class("withdraw:ok:repeat:paid>0")
			for i := range pre.auth { // the pair keeps other positions: its record survives whatever the entries take
				if e := &pre.auth[i]; e.addr == ad && times[e.pub] > 1 && e.staked()+e.wcons+e.wcand > 0 {
					h.class("withdraw:ok:repeat:recordKeepsStake")
					break
				}
			}
		}
		// independent release model: per pair by the amounts of the call, per address by the ONT really received
		for i, pub := range a.mod.pubs {
			k := pairKey{ad, pub}
			if h.mdl.taken[k] > h.mdl.released[k] {
				h.fail("%s: %s has now withdrawn %d ONT from its position on %s, but the calls that succeeded so far released at most %d there (un-authorized / reduced / peer exited); %d is still staked on it",
					a.desc, h.w.name(ad), h.mdl.taken[k], h.w.nodeName(pub), h.mdl.released[k], h.mdl.staked[k])
			}
			if a.mod.amts[i] > 0 && h.topUp[k] == 2 {
				h.class("withdraw:ok:afterTopUpUnauth:" + h.topUpKind[k])
				delete(h.topUp, k)
			}
		}
		if _, tracked := pre.ont[ad]; tracked {
			if rel := h.mdl.releasedOf(ad); h.withdrawn[ad] > rel {
				h.fail("%s: %s has received %d ONT from governance in total, but the calls that succeeded so far released at most %d to it (un-authorized / reduced / peer exited)",
					a.desc, h.w.name(ad), h.withdrawn[ad], rel)
			}
		}
		if paid > 0 {
			h.class("withdraw:ok:paid>0")
			fromQuit, fromBlack := false, false
			for pub := range seen {
				fromQuit = fromQuit || h.goneQuit[pub]
				fromBlack = fromBlack || h.goneBlack[pub]
			}
			if fromQuit {
				h.class("withdraw:ok:fromQuitPeer")
			}
			if fromBlack {
				h.class("withdraw:ok:fromBlackedPeer")
			}
			if h.quitOrBlack {
				h.nt11 = true
			}
		}
	}
}

// ---------------------------------------------------------------------------------------------
// C10

func (h *hist) judgeC10(a *action, pre, post *snap, epoch bool, gasDelta, credPre uint64) {
	if post.sumSplit > post.ongGov {
		h.fail("after %s: Σ SplitFeeAddress.Amount = %d exceeds the ONG balance of governance %d (before: owed %d, balance %d)",
			a.desc, post.sumSplit, post.ongGov, pre.sumSplit, pre.ongGov)
	}
	if a.feeOf != nil && pre.split[*a.feeOf] > 0 && hasAddr(a.signers, *a.feeOf) {
		cr := *a.feeOf
		got := h.bal(nutils.OngContractAddress, cr) - credPre
		if cr != nutils.GovernanceContractAddress && got != pre.split[cr] {
			h.fail("%s succeeded but paid %d ONG units instead of the credited %d", a.desc, got, pre.split[cr])
		}
		if post.split[cr] != 0 {
			h.fail("%s succeeded but %d stays credited", a.desc, post.split[cr])
		}
		h.class("withdrawFee:ok:paid>0")
	}
	if !epoch {
		return
	}
	if h.warm {
		h.class("epoch(warm-up)")
		if pre.view <= 6 {
			return
		}
	} else {
		h.class("epoch")
	}
	if pre.view <= 6 {
		h.class("epoch:split1")
		return
	}
	if !h.warm {
		h.class("epoch:split2")
	}
	// income as the contract saw it: balance after unbinding, minus what was already owed
	income := new(big.Int).SetUint64(post.ongGov)
	income.Add(income, new(big.Int).SetUint64(gasDelta))
	income.Sub(income, new(big.Int).SetUint64(pre.splitFee))
	if income.Sign() < 0 {
		h.fail("%s: governance ONG %d (+%d paid to dapp) is below the splitFee record %d it already owed", a.desc, post.ongGov, gasDelta, pre.splitFee)
	}
	sum := new(big.Int).SetUint64(gasDelta)
	credited := map[common.Address]uint64{}
	keys := append(append([]common.Address{}, pre.splitKeys...), post.splitKeys...)
	sortAddrs(keys)
	for i, ad := range keys {
		if i > 0 && keys[i-1] == ad {
			continue
		}
		b0, b1 := pre.split[ad], post.split[ad]
		if b1 < b0 {
			h.fail("%s: credit of %s decreased from %d to %d at an epoch change", a.desc, h.w.name(ad), b0, b1)
		}
		inc := new(big.Int).SetUint64(b1 - b0)
		if inc.Cmp(income) > 0 {
			h.fail("%s: %s was credited %d, more than the whole income %s being split (ONG(gov) after=%d, dapp=%d, splitFee before=%d)",
				a.desc, h.w.name(ad), b1-b0, income, post.ongGov, gasDelta, pre.splitFee)
		}
		sum.Add(sum, inc)
		if b1 > b0 {
			credited[ad] = b1 - b0
		}
	}
	if sum.Cmp(income) > 0 {
		h.fail("%s: credits + dapp transfer = %s exceed the income %s being split (ONG(gov) after=%d, dapp=%d, splitFee before=%d)",
			a.desc, sum, income, post.ongGov, gasDelta, pre.splitFee)
	}
	// observation only (not part of C10's statement, never judged): the contract's own splitFee record should
	// equal the sum of the credits; a drift means income that is neither credited nor splittable any more
	if post.splitFee != post.sumSplit {
		h.class("observe:splitFeeRecord!=sumOfCredits")
	}
	// coverage of the interesting split situations
	if h.warm {
		return
	}
	if income.Sign() > 0 {
		h.class("epoch:split2:income>0")
		if h.dupTried {
			h.dupSplit = true
		}
	}
	if gasDelta > 0 {
		h.class("epoch:split2:dapp>0")
	}
	authz, pending, authCredited := false, false, false
	for i := range pre.auth {
		e := &pre.auth[i]
		p, ok := pre.pool[e.pub]
		if !ok || p.owner == e.addr {
			continue
		}
		if e.cons+e.cand+e.wcons+e.wcand > 0 {
			authz = true
			if e.wcons+e.wcand > 0 {
				pending = true
			}
			if credited[e.addr] > 0 {
				authCredited = true
			}
		}
	}
	if authz {
		h.class("epoch:split2:authorizers")
	}
	if pending {
		h.class("epoch:split2:withdrawPending")
	}
	if authCredited {
		h.class("epoch:split2:authorizerCredited")
	}
	if len(credited) > 0 && authz {
		h.nt10 = true
	}
}

// drain lets every creditor withdraw its fee at the end of a history (C10: every credit is withdrawable).
func (h *hist) drain() {
	keys := append([]common.Address{}, h.s.splitKeys...)
	for _, ad := range keys {
		if h.s.split[ad] == 0 {
			continue
		}
		h.tick(1, 1)
		a := h.mkWithdrawFee(ad, []common.Address{ad})
		a.kind = "withdrawFee(drain)"
		h.exec(a)
	}
	if h.s.sumSplit != 0 {
		h.fail("after every creditor withdrew its fee %d ONG units stay credited", h.s.sumSplit)
	}
}
