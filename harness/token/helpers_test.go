package token

// Shared oracle helpers of C06/C07: an independent parser of native-token balance storage items and a
// raw-storage scan of a token contract (balances = 40-byte keys, allowances = 60-byte keys).
// Nothing here calls the implementation's decoders (core/states, native/utils).

import (
	"encoding/binary"
	"fmt"
	"math/big"
	"sort"

	"github.com/ontio/ontology/common"
)

var unit9 = big.NewInt(1000000000)

// parseTokenItem decodes a serialized storage item holding a native token amount and returns the
// amount in 1e-9 units. Layout (read from the spec in NOTES.md, not from the decoder):
//   byte version ‖ varbytes value;  version 0: value = uint64 LE of whole tokens;
//   version 1: value = little-endian two's complement ("NeoBytes") of 1e-9 units.
func parseTokenItem(raw []byte) (*big.Int, error) {
	if len(raw) < 2 {
		return nil, fmt.Errorf("item too short (%d bytes)", len(raw))
	}
	ver := raw[0]
	p := raw[1:]
	var n uint64
	switch p[0] {
	case 0xfd:
		if len(p) < 3 {
			return nil, fmt.Errorf("truncated length")
		}
		n, p = uint64(binary.LittleEndian.Uint16(p[1:3])), p[3:]
	case 0xfe:
		if len(p) < 5 {
			return nil, fmt.Errorf("truncated length")
		}
		n, p = uint64(binary.LittleEndian.Uint32(p[1:5])), p[5:]
	case 0xff:
		if len(p) < 9 {
			return nil, fmt.Errorf("truncated length")
		}
		n, p = binary.LittleEndian.Uint64(p[1:9]), p[9:]
	default:
		n, p = uint64(p[0]), p[1:]
	}
	if uint64(len(p)) != n {
		return nil, fmt.Errorf("value length %d, %d bytes present", n, len(p))
	}
	switch ver {
	case 0:
		if n != 8 {
			return nil, fmt.Errorf("version-0 item with %d value bytes", n)
		}
		v := new(big.Int).SetUint64(binary.LittleEndian.Uint64(p))
		return v.Mul(v, unit9), nil
	case 1:
		if n == 0 {
			return new(big.Int), nil
		}
		be := make([]byte, n)
		for i := range p {
			be[int(n)-1-i] = p[i]
		}
		v := new(big.Int).SetBytes(be)
		if p[n-1]&0x80 != 0 { // negative two's complement
			v.Sub(v, new(big.Int).Lsh(big.NewInt(1), uint(8*n)))
		}
		return v, nil
	}
	return nil, fmt.Errorf("unknown item version %d", ver)
}

type addrPair [2]common.Address

// tokenState is what the oracle sees of one token contract.
type tokenState struct {
	Bal    map[common.Address]*big.Int
	Allow  map[addrPair]*big.Int
	RawBal map[common.Address]string // raw item bytes, for byte-identity checks
	RawAl  map[addrPair]string
}

type kvIter interface {
	First() bool
	Next() bool
	Key() []byte
	Value() []byte
	Release()
}

// scanToken reads every key under the contract prefix from an iterator whose keys start with the
// 20-byte contract address (CacheDB.NewIterator strips the store prefix byte).
func scanToken(it kvIter, contract common.Address) (*tokenState, error) {
	defer it.Release()
	ts := &tokenState{Bal: map[common.Address]*big.Int{}, Allow: map[addrPair]*big.Int{}, RawBal: map[common.Address]string{}, RawAl: map[addrPair]string{}}
	for ok := it.First(); ok; ok = it.Next() {
		k := append([]byte{}, it.Key()...)
		v := append([]byte{}, it.Value()...)
		if len(k) < 20 || string(k[:20]) != string(contract[:]) {
			return nil, fmt.Errorf("iterator left the contract prefix: key %x", k)
		}
		rest := k[20:]
		if len(rest) != 20 && len(rest) != 40 {
			continue
		}
		amt, err := parseTokenItem(v)
		if err != nil {
			return nil, fmt.Errorf("undecodable amount at key %x value %x: %v", k, v, err)
		}
		if amt.Sign() < 0 {
			return nil, fmt.Errorf("negative amount %v at key %x", amt, k)
		}
		if len(rest) == 20 {
			var a common.Address
			copy(a[:], rest)
			ts.Bal[a], ts.RawBal[a] = amt, string(v)
		} else {
			var p addrPair
			copy(p[0][:], rest[:20])
			copy(p[1][:], rest[20:])
			ts.Allow[p], ts.RawAl[p] = amt, string(v)
		}
	}
	return ts, nil
}

func (ts *tokenState) sum() *big.Int {
	s := new(big.Int)
	for _, v := range ts.Bal {
		s.Add(s, v)
	}
	return s
}

func (ts *tokenState) bal(a common.Address) *big.Int {
	if v, ok := ts.Bal[a]; ok {
		return v
	}
	return new(big.Int)
}

func (ts *tokenState) allow(from, sender common.Address) *big.Int {
	if v, ok := ts.Allow[addrPair{from, sender}]; ok {
		return v
	}
	return new(big.Int)
}

// sameBalancesAndAllowances reports the first difference of the raw balance / allowance items.
func sameBalancesAndAllowances(a, b *tokenState) string {
	for _, k := range sortedAddrs(a.RawBal, b.RawBal) {
		if a.RawBal[k] != b.RawBal[k] {
			return fmt.Sprintf("balance item of %x: %x -> %x", k[:], a.RawBal[k], b.RawBal[k])
		}
	}
	pairs := map[addrPair]bool{}
	for p := range a.RawAl {
		pairs[p] = true
	}
	for p := range b.RawAl {
		pairs[p] = true
	}
	for _, p := range sortedPairs(pairs) {
		if a.RawAl[p] != b.RawAl[p] {
			return fmt.Sprintf("allowance item %x->%x: %x -> %x", p[0][:], p[1][:], a.RawAl[p], b.RawAl[p])
		}
	}
	return ""
}

func sortedAddrs(ms ...map[common.Address]string) []common.Address {
	seen := map[common.Address]bool{}
	for _, m := range ms {
		for k := range m {
			seen[k] = true
		}
	}
	out := make([]common.Address, 0, len(seen))
	for k := range seen {
		out = append(out, k)
	}
	sort.Slice(out, func(i, j int) bool { return string(out[i][:]) < string(out[j][:]) })
	return out
}

func sortedPairs(m map[addrPair]bool) []addrPair {
	out := make([]addrPair, 0, len(m))
	for p := range m {
		out = append(out, p)
	}
	sort.Slice(out, func(i, j int) bool {
		return string(out[i][0][:])+string(out[i][1][:]) < string(out[j][0][:])+string(out[j][1][:])
	})
	return out
}
