package crash

// Generator of kind (a): NeoVM programs from a grammar (valid opcode framing, every opcode,
// bounded jumps and loops, SYSCALL of every service name behind plausibly AND wrongly typed
// arguments, APPCALL/DCALL/CALL, builders of nested / deep / self-referential values followed by
// consumers such as Runtime.Serialize, Notify, Native.Invoke, EQUAL) plus raw random bytes.

import (
	"math/big"
	"sort"

	"github.com/ontio/ontology/common"
	neosvc "github.com/ontio/ontology/smartcontract/service/neovm"
	vm "github.com/ontio/ontology/vm/neovm"
	"pgregory.net/rapid"

	"verifharness/internal/harn"
)

type neoGen struct {
	t       *rapid.T
	a       *asm
	methods map[string][]string
	// noCycleEnc: the known finding "serialize-cycle-stack-overflow" is listed and still reproduces;
	// cyclic values whose back edge is not in first position are then not sent to the recursive
	// encoders (Runtime.Serialize, Native.Invoke arguments).
	noCycleEnc bool
	noDeepEq   bool // known finding "equal-deep-struct-stack-overflow" is listed and still reproduces
	excluded   int
	tags       map[string]bool
	cyclicTop  bool // sticky: the program has built a cycle the node's detector does not see
	big        bool // thorough tier: also the very deep / long-running size classes
}

func (g *neoGen) tag(s string) { g.tags[s] = true }

func (g *neoGen) tagList() []string {
	var out []string
	for k := range g.tags {
		out = append(out, k)
	}
	sort.Strings(out)
	return out
}

var serviceNames = func() []string {
	m := map[string]bool{}
	for n := range neosvc.ServiceMap {
		m[n] = true
	}
	for n := range neosvc.ServiceMapNew {
		m[n] = true
	}
	for n := range neosvc.ServiceMapDeprecated {
		m[n] = true
	}
	var out []string
	for n := range m {
		out = append(out, n)
	}
	sort.Strings(out)
	return out
}()

func (g *neoGen) intn(lo, hi int, label string) int { return rng(g.t, lo, hi, label) }
func (g *neoGen) chance(pct int, label string) bool { return g.intn(0, 99, label) < pct }

var hostileInts = func() []*big.Int {
	p := func(n uint) *big.Int { return new(big.Int).Lsh(big.NewInt(1), n) }
	m1 := func(x *big.Int) *big.Int { return new(big.Int).Sub(x, big.NewInt(1)) }
	neg := func(x *big.Int) *big.Int { return new(big.Int).Neg(x) }
	return []*big.Int{big.NewInt(0), big.NewInt(1), big.NewInt(-1), big.NewInt(2), big.NewInt(16), big.NewInt(17), big.NewInt(75), big.NewInt(76),
		big.NewInt(255), big.NewInt(256), big.NewInt(1023), big.NewInt(1024), big.NewInt(1025), big.NewInt(2047), big.NewInt(2048), big.NewInt(2049),
		big.NewInt(65535), big.NewInt(65536), big.NewInt(1 << 20), big.NewInt(1<<20 + 1), p(31), m1(p(31)), m1(p(32)), p(32), m1(p(63)), p(63),
		m1(p(64)), p(64), neg(p(63)), neg(m1(p(63))), m1(p(255)), p(255), neg(p(255)), m1(p(256))}
}()

func (g *neoGen) pushHostileInt() {
	g.a.pushInt(hostileInts[g.intn(0, len(hostileInts)-1, "hint")])
}

func (g *neoGen) someAddr() []byte {
	switch g.intn(0, 9, "addrk") {
	case 0:
		return make([]byte, 20)
	case 1, 2:
		a, _ := addrFromHex(natAddrHex(pick(g.t, natNamesSorted(), "nat")))
		return a[:]
	case 3:
		x := neoAddr(neoRecurCode)
		return x[:]
	case 4:
		x := neoAddr(neoStoreCode)
		return x[:]
	case 5:
		x := neoAddr(neoEchoCode)
		return x[:]
	case 6:
		return rapid.SliceOfN(rapid.Byte(), 20, 20).Draw(g.t, "rndaddr")
	default:
		return zoo()[g.intn(0, zooLen-1, "zaddr")].Address[:]
	}
}

// pushBytesVal pushes a byte string of an interesting length / meaning.
func (g *neoGen) pushBytesVal() {
	switch g.intn(0, 11, "bk") {
	case 0:
		g.a.pushBytes(nil)
	case 1, 2:
		g.a.pushBytes(g.someAddr())
	case 3:
		g.a.pushBytes(zooPub(g.intn(0, zooLen-1, "pk")))
	case 4:
		g.a.pushBytes([]byte(zoo()[g.intn(0, 7, "b58")].Address.ToBase58()))
	case 5:
		g.a.pushBytes(zooID(g.intn(0, 3, "id")))
	case 6:
		n := pick(g.t, []int{1, 2, 32, 33, 64, 75, 76, 255, 256, 1024, 1025, 4096}, "blen")
		g.a.pushWith(make([]byte, n), pick(g.t, []int{0, 1, 2, 4}, "fam"))
	case 7: // large value made at run time by doubling: 2^k bytes for k <= 21 (limit is 1 MiB)
		g.a.pushBytes([]byte{0xab})
		k := g.intn(10, 21, "dbl")
		for i := 0; i < k; i++ {
			g.a.op(vm.DUP, vm.CAT)
		}
		g.tag("bigbytes")
	case 8: // a serialized VM value
		g.a.pushBytes(g.serializedValue(0))
	default:
		g.a.pushBytes(rapid.SliceOfN(rapid.Byte(), 0, 80).Draw(g.t, "rnd"))
	}
}

// serializedValue returns bytes in the Runtime.Deserialize format (valid or hostile).
func (g *neoGen) serializedValue(depth int) []byte {
	s := common.NewZeroCopySink(nil)
	k := g.intn(0, 7, "sk")
	if depth > 4 && k >= 3 && k <= 5 {
		k = 0
	}
	switch k {
	case 0:
		s.WriteByte(0x00)
		s.WriteVarBytes(rapid.SliceOfN(rapid.Byte(), 0, 10).Draw(g.t, "sv"))
	case 1:
		s.WriteByte(0x01)
		s.WriteByte(byte(g.intn(0, 2, "sb")))
	case 2:
		s.WriteByte(0x02)
		s.WriteVarBytes(common.BigIntToNeoBytes(hostileInts[g.intn(0, len(hostileInts)-1, "si")]))
	case 3, 4, 5:
		s.WriteByte([]byte{0x80, 0x81, 0x82}[k-3])
		n := g.intn(0, 3, "sn")
		if g.chance(25, "scount") {
			s.WriteVarUint(hostileU64(g.t, n))
		} else {
			s.WriteVarUint(uint64(n))
		}
		mul := 1
		if k == 5 {
			mul = 2
		}
		for i := 0; i < n*mul; i++ {
			s.WriteBytes(g.serializedValue(depth + 1))
		}
	case 6: // deep nesting beyond the decoder's depth limit
		d := pick(g.t, []int{10, 11, 1023, 1024, 1025, 1026, 5000}, "sdeep")
		for i := 0; i < d; i++ {
			s.WriteByte(0x80)
			s.WriteVarUint(1)
		}
		s.WriteByte(0x01)
		s.WriteByte(1)
	default:
		s.WriteBytes(rapid.SliceOfN(rapid.Byte(), 0, 20).Draw(g.t, "sjunk"))
	}
	return s.Bytes()
}

// pushValue pushes one value of any type.
func (g *neoGen) pushValue(depth int) {
	k := g.intn(0, 13, "vk")
	if depth > 3 && k >= 6 {
		k = g.intn(0, 5, "vk2")
	}
	switch k {
	case 0:
		g.a.pushI(int64(g.intn(-1, 16, "small")))
	case 1:
		g.pushHostileInt()
	case 2, 3:
		g.pushBytesVal()
	case 4:
		g.a.pushBool(g.chance(50, "bool"))
	case 5:
		g.a.pushBytes(zoo()[g.intn(0, 7, "za")].Address[:])
	case 6, 7: // array / struct via PACK or NEWARRAY/NEWSTRUCT + APPEND
		n := g.intn(0, 4, "n")
		if g.chance(50, "pack") {
			for i := 0; i < n; i++ {
				g.pushValue(depth + 1)
			}
			g.a.pushI(int64(n)).op(vm.PACK)
		} else {
			g.a.pushI(int64(n)).op(pick(g.t, []vm.OpCode{vm.NEWARRAY, vm.NEWSTRUCT}, "newk"))
			for i := 0; i < g.intn(0, 3, "app"); i++ {
				g.a.op(vm.DUP)
				g.pushValue(depth + 1)
				g.a.op(vm.APPEND)
			}
		}
	case 8: // map
		g.a.op(vm.NEWMAP)
		for i := 0; i < g.intn(0, 3, "mn"); i++ {
			g.a.op(vm.DUP)
			if g.chance(85, "mkey") {
				g.a.pushBytes([]byte{byte('a' + i)})
			} else {
				g.pushValue(depth + 2)
			}
			g.pushValue(depth + 1)
			g.a.op(vm.SETITEM)
		}
	case 9: // interop value
		g.pushInterop()
	case 10:
		g.pushCyclic()
	case 11:
		g.pushDeep()
	default:
		g.a.pushBytes(rapid.SliceOfN(rapid.Byte(), 0, 40).Draw(g.t, "rb"))
	}
}

func (g *neoGen) pushInterop() {
	switch g.intn(0, 6, "ik") {
	case 0:
		g.a.syscall("System.Storage.GetContext")
	case 1:
		g.a.syscall("System.Storage.GetReadOnlyContext")
	case 2:
		g.a.syscall("System.ExecutionEngine.GetScriptContainer")
	case 3:
		g.a.pushBytes(g.someAddr()).syscall("System.Blockchain.GetContract")
	case 4:
		g.a.syscall("System.Blockchain.GetHeight").syscall("System.Blockchain.GetHeader")
	case 5: // Contract.Create(code, vmtype, name, version, author, email, desc)
		for i := 0; i < 5; i++ {
			g.a.pushBytes([]byte{byte('a' + i)})
		}
		g.a.pushI(int64(g.intn(0, 3, "vmt")))
		g.a.pushBytes(rapid.SliceOfN(rapid.Byte(), 0, 30).Draw(g.t, "newcode"))
		g.a.syscall("Ontology.Contract.Create")
	default:
		g.a.pushBytes(g.someAddr()).syscall("System.Blockchain.GetContract")
	}
	g.tag("interop")
}

// pushCyclic builds a self-referential value. kind/position are generated; the detector in the
// node inspects only the first element of arrays/structs and one arbitrary map entry.
func (g *neoGen) pushCyclic() {
	n := g.intn(1, 4, "cn")
	pos := g.intn(0, n-1, "cpos")
	switch g.intn(0, 4, "ck") {
	case 0: // a[pos] = a
		g.a.pushI(int64(n)).op(vm.NEWARRAY, vm.DUP).pushI(int64(pos)).op(vm.OVER, vm.SETITEM)
		g.tag("cycle:array-self")
	case 1: // a[pos] = b ; b[pos2] = a
		pos2 := g.intn(0, 1, "cpos2")
		g.a.pushI(int64(n)).op(vm.NEWARRAY)                                // a
		g.a.pushI(2).op(vm.NEWARRAY)                                       // a b
		g.a.op(vm.DUP).pushI(int64(pos2)).pushI(3).op(vm.PICK, vm.SETITEM) // b[pos2]=a   stack: a b
		g.a.op(vm.OVER, vm.SWAP).pushI(int64(pos)).op(vm.SWAP, vm.SETITEM) // a[pos]=b    stack: a
		if pos2 > 0 {
			pos = 1
		}
		g.tag("cycle:array-indirect")
	case 2: // map: m[k] = m (with an extra first entry when pos > 0)
		g.a.op(vm.NEWMAP)
		if pos > 0 {
			g.a.op(vm.DUP).pushBytes([]byte("a")).pushI(1).op(vm.SETITEM)
		}
		g.a.op(vm.DUP).pushBytes([]byte("z")).pushI(2).op(vm.PICK, vm.SETITEM)
		pos = 1 // map entry choice in the detector is arbitrary: treat as not-first
		g.tag("cycle:map")
	case 3: // struct s containing an array that contains (a clone of) the struct that contains the array
		g.a.pushI(int64(n)).op(vm.NEWARRAY)                                // arr
		g.a.pushI(int64(n)).op(vm.NEWSTRUCT)                               // arr s
		g.a.op(vm.DUP).pushI(int64(pos)).pushI(3).op(vm.PICK, vm.SETITEM)  // s[pos]=arr  stack: arr s
		g.a.op(vm.OVER, vm.SWAP).pushI(int64(pos)).op(vm.SWAP, vm.SETITEM) // arr[pos]=clone(s) stack: arr
		g.tag("cycle:struct-array")
	default: // a.append(a)
		g.a.pushI(int64(pos)).op(vm.NEWARRAY, vm.DUP, vm.DUP, vm.APPEND)
		g.tag("cycle:append-self")
	}
	if pos > 0 {
		g.cyclicTop = true
		g.tag("cycle:not-first")
	} else {
		g.tag("cycle:first")
	}
}

// loop emits: counter on the alt stack, body executed n times (bounded backward jump).
func (g *neoGen) loop(n int64, body func()) {
	g.a.pushI(n).op(vm.TOALTSTACK)
	start := len(g.a.b)
	body()
	g.a.op(vm.FROMALTSTACK, vm.DEC, vm.DUP, vm.TOALTSTACK)
	off := start - len(g.a.b)
	g.a.jmp(vm.JMPIF, int16(off))
	g.a.op(vm.FROMALTSTACK, vm.DROP)
}

// pushDeep builds a value nested n levels deep with a loop (cheap in code size, linear in gas).
func (g *neoGen) pushDeep() {
	sizes := []int{9, 10, 11, 12, 100, 1023, 1024, 1025, 3000}
	n := int64(pick(g.t, sizes, "deepn"))
	if g.big && g.chance(6, "deepn-big") {
		n = 20000
	}
	kind := g.intn(0, 3, "deepk")
	g.a.pushI(1)
	switch kind {
	case 0: // arrays: x = [x]
		g.loop(n, func() { g.a.pushI(1).op(vm.PACK) })
		g.tag("deep:array")
	case 1: // alternating struct/array: x = struct{[x]}  (Clone only follows direct struct children)
		g.loop(n, func() { g.a.pushI(1).op(vm.PACK).pushI(0).op(vm.NEWSTRUCT, vm.DUP, vm.ROT, vm.APPEND) })
		g.tag("deep:struct-array")
	case 2: // maps: x = {k: x}
		g.loop(n, func() { g.a.op(vm.NEWMAP, vm.DUP).pushBytes([]byte("k")).pushI(3).op(vm.ROLL, vm.SETITEM) })
		g.tag("deep:map")
	default: // structs via NEWSTRUCT/APPEND (APPEND clones: bounded by the clone length limit)
		g.loop(n, func() { g.a.pushI(0).op(vm.NEWSTRUCT, vm.DUP, vm.ROT, vm.APPEND) })
		g.tag("deep:struct")
	}
}

// consumer emits an operation that consumes / traverses the value on top of the stack.
func (g *neoGen) consumer() {
	k := g.intn(0, 19, "cons")
	if g.cyclicTop && g.noCycleEnc && (k <= 5) {
		// known finding: undetected cycle -> recursive encoder. Excluded by construction.
		g.excluded++
		k = 6 + g.intn(0, 13, "cons2")
	}
	switch k {
	case 0, 1:
		g.a.syscall("System.Runtime.Serialize")
		g.tag("use:serialize")
	case 2:
		g.a.syscall("System.Runtime.Serialize").syscall("System.Runtime.Deserialize")
		g.tag("use:serialize")
	case 3, 4, 5:
		c := pick(g.t, []string{"ont", "ong", "ontid", "param", "auth", "gov"}, "natc")
		a, _ := addrFromHex(natAddrHex(c))
		ms := g.methods[natAddrHex(c)]
		m := "name"
		if len(ms) > 0 {
			m = ms[g.intn(0, len(ms)-1, "natm")]
		}
		g.a.nativeInvoke(a[:], m, int64(g.intn(0, 1, "ver")))
		g.tag("use:native")
	case 6, 7:
		g.a.syscall("System.Runtime.Notify")
		g.tag("use:notify")
	case 8:
		g.a.op(vm.DUP, vm.EQUAL)
	case 9:
		g.a.op(vm.DUP, vm.DUP, vm.APPEND)
	case 10:
		g.a.op(vm.DUP)
		g.indexArg()
		g.a.op(vm.PICKITEM)
	case 11:
		g.a.op(vm.UNPACK)
	case 12:
		g.a.op(pick(g.t, []vm.OpCode{vm.ARRAYSIZE, vm.REVERSE, vm.KEYS, vm.VALUES, vm.SIZE, vm.NOT, vm.NZ, vm.SHA256, vm.HASH160}, "cop"))
	case 13:
		g.a.syscall("System.Runtime.Log")
	case 14:
		g.a.syscall("System.Runtime.CheckWitness")
	case 15: // leave it as the transaction's result (pre-execution converts the result value)
		g.tag("use:result")
	case 16: // storage put through the prefix contract: [value key] APPCALL store
		g.a.pushBytes([]byte("key"))
		x := neoAddr(neoStoreCode)
		g.a.appcall(x[:])
	case 17: // element of another container, then serialize / notify that
		g.a.pushI(7).op(vm.SWAP).pushI(2).op(vm.PACK)
		if g.cyclicTop && g.noCycleEnc {
			g.a.syscall("System.Runtime.Notify")
		} else {
			g.a.syscall(pick(g.t, []string{"System.Runtime.Serialize", "System.Runtime.Notify"}, "wrapuse"))
		}
	case 18: // two separately built equal deep values compared with EQUAL is handled in fragment "deepEqual"
		g.a.op(vm.DUP).pushI(0).op(vm.SWAP, vm.SETITEM)
	default:
		g.a.op(vm.DROP)
	}
}

// indexArg pushes an index / count operand: small, around typical lengths, or hostile.
func (g *neoGen) indexArg() {
	if g.chance(60, "idxsmall") {
		g.a.pushI(int64(g.intn(-1, 5, "idx")))
	} else {
		g.pushHostileInt()
	}
}

// fragIndex: indexed access / slicing / removal on a freshly built container or byte string with
// boundary and hostile indices (every bounds check of the executor).
func (g *neoGen) fragIndex() {
	// operand: array, struct, map or bytes of a small known length
	n := g.intn(0, 4, "ixlen")
	kind := g.intn(0, 3, "ixkind")
	switch kind {
	case 0:
		g.a.pushI(int64(n)).op(vm.NEWARRAY)
	case 1:
		g.a.pushI(int64(n)).op(vm.NEWSTRUCT)
	case 2:
		g.a.op(vm.NEWMAP)
		for i := 0; i < n; i++ {
			g.a.op(vm.DUP).pushI(int64(i)).pushI(7).op(vm.SETITEM)
		}
	default:
		g.a.pushBytes(make([]byte, n))
	}
	switch g.intn(0, 9, "ixop") {
	case 0, 1:
		g.indexArg()
		g.a.op(vm.PICKITEM)
	case 2:
		g.a.op(vm.DUP)
		g.indexArg()
		g.pushValue(3)
		g.a.op(vm.SETITEM)
	case 3:
		g.a.op(vm.DUP)
		g.indexArg()
		g.a.op(vm.REMOVE)
	case 4:
		g.indexArg()
		g.indexArg()
		g.a.op(vm.SUBSTR)
	case 5:
		g.indexArg()
		g.a.op(pick(g.t, []vm.OpCode{vm.LEFT, vm.RIGHT}, "lr"))
	case 6:
		g.indexArg()
		g.a.op(vm.HASKEY)
	case 7: // stack indexing
		g.indexArg()
		g.a.op(pick(g.t, []vm.OpCode{vm.PICK, vm.ROLL, vm.XDROP, vm.XSWAP, vm.XTUCK}, "stackop"))
	case 8:
		g.indexArg()
		g.a.op(pick(g.t, []vm.OpCode{vm.NEWARRAY, vm.NEWSTRUCT, vm.PACK}, "sizeop"))
	default:
		g.indexArg()
		g.indexArg()
		g.a.op(pick(g.t, []vm.OpCode{vm.SHL, vm.SHR, vm.DIV, vm.MOD, vm.MUL, vm.WITHIN}, "arith"))
	}
	g.tag("index-ops")
}

// hostileRel draws from the hostile integer pool relative to a length l: 0, 1, -1, l-1, l, l+1,
// 2^31-1, 2^31, 2^32-1, 2^32, MaxInt64 (and MaxInt64-k for small k), MinInt64 (and MinInt64+k),
// 2^63, 2^64-1.
func (g *neoGen) hostileRel(l int) *big.Int {
	p2 := func(n uint) *big.Int { return new(big.Int).Lsh(big.NewInt(1), n) }
	sub := func(x *big.Int, k int64) *big.Int { return new(big.Int).Sub(x, big.NewInt(k)) }
	maxI, minI := sub(p2(63), 1), new(big.Int).Neg(p2(63))
	k := int64(g.intn(0, l+1, "hk"))
	pool := []*big.Int{big.NewInt(0), big.NewInt(1), big.NewInt(-1), big.NewInt(int64(l) - 1), big.NewInt(int64(l)), big.NewInt(int64(l) + 1),
		sub(p2(31), 1), p2(31), sub(p2(32), 1), p2(32), maxI, sub(maxI, k), sub(maxI, 1), minI, sub(minI, -k), p2(63), sub(p2(64), 1)}
	return pool[g.intn(0, len(pool)-1, "hrel")]
}

// idx pushes an integer operand for something of length l: in range, or from the hostile pool.
func (g *neoGen) idx(l int, hostile bool) {
	if hostile {
		g.a.pushInt(g.hostileRel(l))
		return
	}
	if l <= 0 {
		g.a.pushI(0)
		return
	}
	g.a.pushI(int64(g.intn(0, l-1, "vidx")))
}

// fragHostileIndex: ONE opcode that takes integer operands next to a byte string, a container or
// the stack, on an operand of small known length, with valid partners and hostile integers
// (including pairs whose sum wraps int64). Covers SUBSTR LEFT RIGHT CAT(size) PICKITEM SETITEM
// REMOVE NEWARRAY NEWSTRUCT PACK UNPACK SHL SHR ROLL PICK XDROP XSWAP XTUCK.
func (g *neoGen) fragHostileIndex() {
	l := g.intn(1, 6, "hl")
	hostile := !g.chance(20, "allvalid") // 20 %: every operand valid (the op must then succeed)
	str := func() { g.a.pushBytes([]byte("abcdef")[:l]) }
	container := func() int {
		switch k := g.intn(0, 2, "hcont"); k {
		case 0:
			g.a.pushI(int64(l)).op(vm.NEWARRAY)
		case 1:
			g.a.pushI(int64(l)).op(vm.NEWSTRUCT)
		default:
			g.a.op(vm.NEWMAP)
			for i := 0; i < l; i++ {
				g.a.op(vm.DUP).pushI(int64(i)).pushI(7).op(vm.SETITEM)
			}
		}
		return l
	}
	items := func() {
		for i := 0; i < l; i++ {
			g.a.pushI(int64(i + 2))
		}
	}
	opName := pick(g.t, []string{"SUBSTR", "SUBSTR", "SUBSTR", "LEFT", "RIGHT", "CAT", "PICKITEM", "PICKITEM-bytes", "SETITEM", "REMOVE", "NEWARRAY", "NEWSTRUCT",
		"PACK", "UNPACK", "SHL", "SHR", "ROLL", "PICK", "XDROP", "XSWAP", "XTUCK"}, "hop")
	switch opName {
	case "SUBSTR":
		str()
		mode := 0
		if hostile {
			mode = g.intn(1, 4, "submode")
		}
		switch mode {
		case 0: // valid
			st := g.intn(0, l, "st")
			g.a.pushI(int64(st)).pushI(int64(g.intn(0, l-st, "ct")))
		case 1:
			g.a.pushI(int64(g.intn(0, l, "st")))
			g.idx(l, true)
		case 2:
			g.idx(l, true)
			g.a.pushI(int64(g.intn(0, l, "ct")))
		case 3: // start + count wraps (or just fails to wrap) int64
			st := g.intn(1, l, "st")
			k := g.intn(0, st, "wrapk")
			g.a.pushI(int64(st)).pushI(int64(9223372036854775807) - int64(k))
			g.tag("index-hostile:wrap-pair")
		default:
			g.idx(l, true)
			g.idx(l, true)
		}
		g.a.op(vm.SUBSTR)
	case "LEFT", "RIGHT":
		str()
		if hostile {
			g.idx(l, true)
		} else {
			g.a.pushI(int64(g.intn(0, l, "ct")))
		}
		g.a.op(map[string]vm.OpCode{"LEFT": vm.LEFT, "RIGHT": vm.RIGHT}[opName])
	case "CAT": // result size around the 1 MiB item limit
		g.a.pushBytes([]byte{0x61})
		d := 3
		if hostile {
			d = pick(g.t, []int{19, 20, 21}, "catd")
		}
		for i := 0; i < d; i++ {
			g.a.op(vm.DUP, vm.CAT)
		}
		str()
		g.a.op(vm.CAT)
	case "PICKITEM":
		container()
		g.idx(l, hostile)
		g.a.op(vm.PICKITEM)
	case "PICKITEM-bytes":
		str()
		g.idx(l, hostile)
		g.a.op(vm.PICKITEM)
	case "SETITEM":
		container()
		g.a.op(vm.DUP)
		g.idx(l, hostile)
		g.a.pushI(5).op(vm.SETITEM)
	case "REMOVE":
		container()
		g.a.op(vm.DUP)
		g.idx(l, hostile)
		g.a.op(vm.REMOVE)
	case "NEWARRAY", "NEWSTRUCT":
		if hostile {
			g.a.pushInt(g.hostileRel(1024))
		} else {
			g.a.pushI(int64(l))
		}
		g.a.op(map[string]vm.OpCode{"NEWARRAY": vm.NEWARRAY, "NEWSTRUCT": vm.NEWSTRUCT}[opName])
	case "PACK":
		items()
		if hostile {
			g.a.pushInt(g.hostileRel(l))
		} else {
			g.a.pushI(int64(l))
		}
		g.a.op(vm.PACK)
	case "UNPACK": // then re-PACK with a hostile count on top of the unpacked items
		container()
		g.a.op(vm.UNPACK)
		if hostile {
			g.a.op(vm.DROP).pushInt(g.hostileRel(l))
		}
		g.a.op(vm.PACK)
	case "SHL", "SHR":
		g.a.pushInt(pick(g.t, []*big.Int{big.NewInt(1), big.NewInt(-1), big.NewInt(255), new(big.Int).Lsh(big.NewInt(1), 254)}, "shx"))
		if hostile {
			g.a.pushInt(g.hostileRel(256))
		} else {
			g.a.pushI(int64(g.intn(0, 200, "shn")))
		}
		g.a.op(map[string]vm.OpCode{"SHL": vm.SHL, "SHR": vm.SHR}[opName])
	default: // stack depth operands
		items()
		g.idx(l, hostile)
		g.a.op(map[string]vm.OpCode{"ROLL": vm.ROLL, "PICK": vm.PICK, "XDROP": vm.XDROP, "XSWAP": vm.XSWAP, "XTUCK": vm.XTUCK}[opName])
	}
	g.tag("index-hostile")
	g.tag("index-hostile:" + opName)
	if hostile {
		g.tag("index-hostile:hostile-operand")
	} else {
		g.tag("index-hostile:valid-operands")
	}
}

// syscallArgs pushes plausibly typed arguments for a service (top of stack is popped first).
func (g *neoGen) syscallArgs(name string) {
	switch name {
	case "System.Runtime.CheckWitness", "Ontology.Runtime.AddressToBase58":
		g.pushBytesVal()
	case "Ontology.Runtime.Base58ToAddress":
		g.a.pushBytes([]byte(zoo()[g.intn(0, 7, "b58")].Address.ToBase58()))
	case "System.Runtime.Notify", "System.Runtime.Serialize":
		g.pushValue(1)
	case "System.Runtime.Log":
		g.pushBytesVal()
	case "System.Runtime.Deserialize":
		g.a.pushBytes(g.serializedValue(0))
	case "Ontology.Runtime.VerifyMutiSig": // pops data, pubkeys, m, sigs
		ns := g.intn(0, 3, "nsig")
		for i := 0; i < ns; i++ {
			g.a.pushBytes(make([]byte, 65))
		}
		g.a.pushI(int64(ns)).op(vm.PACK)
		if g.chance(30, "mhost") {
			g.pushHostileInt()
		} else {
			g.a.pushI(int64(g.intn(0, 3, "m")))
		}
		np := g.intn(0, 3, "npk")
		for i := 0; i < np; i++ {
			g.a.pushBytes(zooPub(g.intn(0, zooLen-1, "vpk")))
		}
		g.a.pushI(int64(np)).op(vm.PACK)
		g.a.pushBytes([]byte("data"))
	case "Ontology.Native.Invoke":
		g.pushValue(1)
		c := pick(g.t, natNamesSorted(), "nc")
		ms := g.methods[natAddrHex(c)]
		m := "name"
		if len(ms) > 0 {
			m = ms[g.intn(0, len(ms)-1, "nm")]
		}
		a, _ := addrFromHex(natAddrHex(c))
		g.a.pushBytes([]byte(m)).pushBytes(a[:])
		if g.chance(20, "verhost") {
			g.pushHostileInt()
		} else {
			g.a.pushI(0)
		}
	case "Ontology.Wasm.InvokeWasm":
		g.pushBytesVal()
		g.a.pushBytes(g.someAddr())
	case "System.Storage.Get", "System.Storage.Delete":
		g.pushBytesVal()
		g.a.syscall("System.Storage.GetContext")
	case "System.Storage.Put":
		g.pushBytesVal()
		g.pushBytesVal()
		g.a.syscall("System.Storage.GetContext")
	case "System.StorageContext.AsReadOnly":
		g.a.syscall("System.Storage.GetContext")
	case "Ontology.Contract.Create", "Ontology.Contract.Migrate":
		for i := 0; i < 5; i++ {
			g.pushBytesVal()
		}
		g.a.pushI(int64(g.intn(0, 3, "vmt")))
		g.pushBytesVal()
	case "System.Contract.GetStorageContext", "Ontology.Contract.GetScript":
		g.a.pushBytes(g.someAddr()).syscall("System.Blockchain.GetContract")
	case "System.Blockchain.GetHeader", "System.Blockchain.GetBlock", "System.Blockchain.GetTransaction", "System.Blockchain.GetTransactionHeight":
		if g.chance(50, "hdrk") {
			g.a.syscall("System.Blockchain.GetHeight")
		} else {
			g.pushHostileInt()
		}
	case "System.Blockchain.GetContract":
		g.a.pushBytes(g.someAddr())
	case "System.Header.GetIndex", "System.Header.GetHash", "System.Header.GetTimestamp", "System.Header.GetPrevHash", "Ontology.Header.GetVersion",
		"Ontology.Header.GetConsensusData", "Ontology.Header.GetNextConsensus", "Ontology.Header.GetMerkleRoot",
		"System.Block.GetTransactionCount", "System.Block.GetTransactions":
		g.a.syscall("System.Blockchain.GetHeight").syscall("System.Blockchain.GetHeader")
	case "System.Block.GetTransaction":
		g.pushHostileInt()
		g.a.syscall("System.Blockchain.GetHeight").syscall("System.Blockchain.GetHeader")
	case "System.Transaction.GetHash", "Ontology.Transaction.GetType", "Ontology.Transaction.GetAttributes":
		g.a.syscall("System.ExecutionEngine.GetScriptContainer")
	}
}

// fragSyscall: a service call behind plausible or deliberately wrong arguments.
func (g *neoGen) fragSyscall() {
	name := serviceNames[g.intn(0, len(serviceNames)-1, "svc")]
	r := g.intn(0, 99, "argk")
	switch {
	case r < 55:
		g.syscallArgs(name)
		g.tag("sys:typed")
	case r < 90:
		for i := 0; i < g.intn(0, 7, "nwrong"); i++ {
			g.pushValue(1)
		}
		g.tag("sys:mistyped")
	default:
		g.tag("sys:noargs")
	}
	if g.cyclicTop && g.noCycleEnc && (name == "System.Runtime.Serialize" || name == "Ontology.Native.Invoke") {
		g.excluded++
		name = "System.Runtime.Notify"
	}
	g.a.syscall(name)
	if g.chance(40, "useres") {
		g.consumer()
	}
}

var allOps = func() []byte {
	var out []byte
	for i := 0; i < 256; i++ {
		out = append(out, byte(i))
	}
	return out
}()

// fragSoup: random opcodes with correct immediate framing.
func (g *neoGen) fragSoup() {
	n := g.intn(1, 30, "soupn")
	for i := 0; i < n; i++ {
		var op byte
		if g.chance(85, "defined") {
			// opcodes the executor implements (0x00..0x60 pushes, 0x61..0xCD, 0xF0, 0xF1)
			op = byte(pick(g.t, []int{0x00, 0x01, 0x14, 0x4b, 0x4c, 0x4d, 0x4e, 0x4f, 0x51, 0x52, 0x60, 0x61, 0x62, 0x63, 0x64, 0x65, 0x66, 0x67, 0x68, 0x69,
				0x6a, 0x6b, 0x6c, 0x6d, 0x6e, 0x72, 0x73, 0x74, 0x75, 0x76, 0x77, 0x78, 0x79, 0x7a, 0x7b, 0x7c, 0x7d, 0x7e, 0x7f, 0x80, 0x81, 0x82, 0x83, 0x84,
				0x85, 0x86, 0x87, 0x8b, 0x8c, 0x8d, 0x8f, 0x90, 0x91, 0x92, 0x93, 0x94, 0x95, 0x96, 0x97, 0x98, 0x99, 0x9a, 0x9b, 0x9c, 0x9e, 0x9f, 0xa0, 0xa1,
				0xa2, 0xa3, 0xa4, 0xa5, 0xa7, 0xa8, 0xa9, 0xaa, 0xac, 0xad, 0xae, 0xc0, 0xc1, 0xc2, 0xc3, 0xc4, 0xc5, 0xc6, 0xc7, 0xc8, 0xc9, 0xca, 0xcb, 0xcc,
				0xcd, 0xf0, 0xf1}, "op"))
		} else {
			op = byte(g.intn(0, 255, "anyop"))
		}
		o := vm.OpCode(op)
		switch {
		case op >= 0x01 && op <= 0x4b:
			g.a.raw(op).raw(rapid.SliceOfN(rapid.Byte(), int(op), int(op)).Draw(g.t, "imm")...)
		case o == vm.PUSHDATA1 || o == vm.PUSHDATA2 || o == vm.PUSHDATA4:
			b := rapid.SliceOfN(rapid.Byte(), 0, 20).Draw(g.t, "pd")
			if g.chance(15, "lie") { // length field larger than the remaining code
				g.a.raw(op)
				switch o {
				case vm.PUSHDATA1:
					g.a.raw(0xff)
				case vm.PUSHDATA2:
					g.a.raw(0xff, 0xff)
				default:
					g.a.raw(pick(g.t, [][]byte{{0xff, 0xff, 0xff, 0xff}, {0, 0, 0x10, 0}, {1, 0, 0x10, 0}, {0xff, 0xff, 0xff, 0x7f}, {0, 0, 0, 0x80}}, "lie4")...)
				}
				g.a.raw(b...)
			} else {
				g.a.pushWith(b, map[vm.OpCode]int{vm.PUSHDATA1: 1, vm.PUSHDATA2: 2, vm.PUSHDATA4: 4}[o])
			}
		case o == vm.JMP || o == vm.JMPIF || o == vm.JMPIFNOT || o == vm.CALL:
			// bounded: small forward offsets mostly, sometimes hostile
			off := int16(g.intn(3, 12, "joff"))
			if g.chance(15, "jhost") {
				off = int16(pick(g.t, []int{0, 1, 2, -1, -3, -32768, 32767, 3}, "jh"))
			}
			g.a.jmp(o, off)
		case o == vm.APPCALL || o == vm.TAILCALL:
			g.a.raw(op).raw(g.someAddr()...)
		case o == vm.SYSCALL:
			name := serviceNames[g.intn(0, len(serviceNames)-1, "ssvc")]
			if g.cyclicTop && g.noCycleEnc && (name == "System.Runtime.Serialize" || name == "Ontology.Native.Invoke") {
				g.excluded++
				name = "System.Runtime.GetTime"
			}
			g.a.syscall(name)
		default:
			g.a.raw(op)
		}
	}
	g.tag("soup")
}

func (g *neoGen) fragCalls() {
	switch g.intn(0, 5, "callk") {
	case 0: // recursive APPCALL through the prefix contract: [addr] APPCALL R  (R: DUP; APPCALL <stack>)
		x := neoAddr(neoRecurCode)
		g.a.pushBytes(x[:]).appcall(x[:])
		g.tag("call:appcall-recursive")
	case 1: // APPCALL with the address taken from the stack
		g.pushValue(2)
		g.a.pushBytes(g.someAddr()).appcall(make([]byte, 20))
		g.tag("call:appcall-dynamic")
	case 2:
		g.pushValue(2)
		g.a.appcall(g.someAddr())
		g.tag("call:appcall")
	case 3: // DCALL to a generated target
		if g.chance(50, "dck") {
			g.a.pushI(int64(g.intn(0, len(g.a.b)+4, "dct")))
		} else {
			g.pushHostileInt()
		}
		g.a.op(vm.DCALL)
		g.tag("call:dcall")
	case 4: // self-recursive CALL (invocation stack limit)
		g.a.jmp(vm.CALL, 0)
		g.tag("call:recursive")
	default: // CALL forward over a RET-terminated body
		g.a.jmp(vm.CALL, 4).op(vm.RET).op(vm.PUSH1, vm.RET)
		g.tag("call:call")
	}
}

// fragDeepEqual: two separately built equal deep values compared with EQUAL (reflect.DeepEqual
// recursion on structs) or other binary ops.
func (g *neoGen) fragDeepEqual() {
	sizes := []int{10, 500, 1024, 3000}
	n := int64(pick(g.t, sizes, "eqn"))
	if g.big && g.chance(6, "eqn-big") {
		if g.noDeepEq {
			g.excluded++ // known finding equal-deep-struct-stack-overflow: this depth already overflows a 64 MiB stack
		} else {
			n = 30000
		}
	}
	build := func() {
		g.a.pushI(1)
		g.loop(n, func() { g.a.pushI(1).op(vm.PACK).pushI(0).op(vm.NEWSTRUCT, vm.DUP, vm.ROT, vm.APPEND) })
	}
	build()
	build()
	g.a.op(vm.EQUAL)
	g.tag("deep:equal")
}

func (g *neoGen) fragLoop() {
	sizes := []int{1, 2, 100, 2047, 2048, 2049, 20000}
	n := int64(pick(g.t, sizes, "loopn"))
	if g.big && g.chance(6, "loopn-big") {
		n = 100000
	}
	k := g.intn(0, 4, "loopk")
	g.loop(n, func() {
		switch k {
		case 0:
			g.a.pushI(1) // stack growth up to the limit
		case 1:
			g.a.pushI(1).op(vm.TOALTSTACK, vm.DUPFROMALTSTACK) // alt stack growth (breaks the counter: hostile)
		case 2:
			g.a.op(vm.NEWMAP)
		case 3:
			g.a.pushBytes([]byte("x")).syscall("System.Runtime.Notify")
		default:
			g.a.pushI(16).op(vm.NEWARRAY)
		}
	})
	g.tag("loop")
}

// ---------------------------------------------------------------------------------------------
// amplification loops: container-building programs that multiply a value round by round

// ampSpec is the drawn shape of one amplification program (also its canonical description).
type ampSpec struct {
	Node    string // container kind of the node built in every round: struct | array | map
	NodeW   int    // primitive filler slots of every node next to the nested copies
	Pos     string // where the nested copies sit among the fillers: first | middle | last
	Leaf    string // container kind of the innermost value
	LeafW   int    // primitive items in the leaf (0 = with NodeW 0 the tree contains containers only)
	Method  string // append | setitem | pack | self
	Fanout  int    // copies of the previous value placed into the new node (1 = a chain)
	Rounds  int    // 1..48
	Loop    bool   // rounds as a bounded backward JMP loop instead of unrolled code
	Keep    bool   // previous values stay on the stack below the new one
	Copies  int    // final phase: the value is APPENDed this many times to a fresh array
	Use     string // what happens to the final value
	Cloning bool   // every round deep-copies the previous value (struct operand of APPEND / SETITEM)
}

// wideNonLast: a struct node with more than a handful of fillers whose nested struct is followed by
// fillers, deep-copied in every round - the shape whose size the clone counter cannot bound while
// it is compared with MAX_CLONE_LENGTH only on entry to a struct (finding keyCloneCount).
func (sp ampSpec) wideNonLast() bool {
	return sp.Node == "struct" && sp.Cloning && sp.NodeW > 3 && sp.Pos != "last"
}

func (g *neoGen) newContainer(kind string, n int) {
	switch kind {
	case "struct":
		g.a.pushI(int64(n)).op(vm.NEWSTRUCT)
	case "array":
		g.a.pushI(int64(n)).op(vm.NEWARRAY)
	default:
		g.a.op(vm.NEWMAP)
		for i := 0; i < n; i++ {
			g.a.op(vm.DUP).pushI(int64(i)).pushI(0).op(vm.SETITEM)
		}
	}
}

var (
	ampNodeWidths = []int{0, 0, 0, 0, 0, 0, 1, 2, 3, 16, 255, 1023, 1024, 1024, 1024}
	ampLeafWidths = []int{0, 0, 0, 0, 0, 0, 1, 2, 3, 16, 255, 1023, 1024, 1024, 1024}
)

// genAmp emits: leaf; rounds x { [.. s] -> [.. t] with t holding Fanout copies of / references to s
// among NodeW fillers }; optionally Copies x APPEND of the result to a fresh array.
// Structs are value types (APPEND and SETITEM deep-copy a struct operand), arrays and maps are
// shared, so depending on the drawn kinds the value is a tree whose size multiplies per round
// (bounded only by the clone-length / array-size guards) or a DAG of `rounds` nodes whose
// unfolded size multiplies (bounded by the guards of whoever traverses it).
func (g *neoGen) genAmp() ampSpec {
	kinds := []string{"struct", "struct", "array", "map"}
	sp := ampSpec{Node: pick(g.t, kinds, "ampnode"), Fanout: pick(g.t, []int{1, 1, 2, 2, 2, 3, 4}, "ampfan"),
		Rounds: g.intn(1, 48, "amprounds"), Loop: g.chance(40, "amploop"), Keep: g.chance(25, "ampkeep"),
		NodeW: pick(g.t, ampNodeWidths, "ampnodew"), LeafW: pick(g.t, ampLeafWidths, "ampleafw"),
		Pos: pick(g.t, []string{"first", "middle", "last"}, "amppos")}
	sp.Leaf = sp.Node
	if g.chance(35, "ampleafother") {
		sp.Leaf = pick(g.t, kinds, "ampleaf")
	}
	if g.chance(35, "ampcopies") {
		sp.Copies = g.intn(1, 32, "ampcopiesn")
	}
	switch sp.Node {
	case "struct":
		sp.Method = pick(g.t, []string{"append", "setitem", "setitem", "self", "pack"}, "ampm")
	case "array":
		sp.Method = pick(g.t, []string{"append", "setitem", "pack"}, "ampm")
	default:
		sp.Method = "setitem"
	}
	sp.Use = pick(g.t, []string{"result", "result", "drop", "serialize", "notify", "size", "roundtrip"}, "ampuse")
	// what the code can express cheaply (a filler costs one NEWSTRUCT/NEWARRAY operand, but 3-4 opcodes when
	// it has to be appended, pushed or set one by one)
	if sp.Leaf == "map" && sp.LeafW > 16 {
		sp.LeafW = 16
	}
	switch {
	case sp.Method == "self":
		sp.Leaf, sp.NodeW, sp.Pos = "struct", 0, "last" // appending an array or a map to itself would be a cycle, which is not the subject here
	case sp.Node == "map":
		if sp.NodeW > 16 {
			sp.NodeW = 16
		}
	case sp.Method == "pack":
		if sp.NodeW > 3 {
			sp.NodeW = 3
		}
	case sp.Method == "append" && sp.NodeW > 3:
		sp.Pos = "last"
	}
	if sp.NodeW+sp.Fanout > 1024 {
		sp.NodeW = 1024 - sp.Fanout
	}
	pre := map[string]int{"first": 0, "middle": sp.NodeW / 2, "last": sp.NodeW}[sp.Pos]
	post := sp.NodeW - pre
	// struct nodes filled by APPEND / SETITEM: from the second round on the operand is a struct, which is deep-copied
	sp.Cloning = sp.Node == "struct" && sp.Method != "pack"

	g.newContainer(sp.Leaf, sp.LeafW) // [s]
	body := func() {
		switch sp.Method {
		case "append": // t = new(pre); Fanout x t.append(s); post x t.append(false)
			g.newContainer(sp.Node, pre) // [s t]
			for i := 0; i < sp.Fanout; i++ {
				g.a.op(vm.DUP).pushI(2).op(vm.PICK, vm.APPEND)
			}
			for i := 0; i < post; i++ {
				g.a.op(vm.DUP).pushI(0).op(vm.APPEND)
			}
		case "setitem": // t = new(NodeW + Fanout); t[pre+i] = s
			if sp.Node == "map" {
				g.a.op(vm.NEWMAP)
				for i := 0; i < sp.NodeW+sp.Fanout; i++ {
					if i < pre || i >= pre+sp.Fanout {
						g.a.op(vm.DUP).pushI(int64(i)).pushI(0).op(vm.SETITEM)
					}
				}
			} else {
				g.newContainer(sp.Node, sp.NodeW+sp.Fanout)
			}
			for i := 0; i < sp.Fanout; i++ {
				g.a.op(vm.DUP).pushI(int64(pre + i)).pushI(3).op(vm.PICK, vm.SETITEM)
			}
		case "self": // s.append(s): a struct operand is copied first, so no cycle - the value doubles in place
			for i := 0; i < sp.Fanout-1 || i == 0; i++ {
				g.a.op(vm.DUP, vm.DUP, vm.APPEND)
			}
			g.a.op(vm.DUP) // [s s]: the common tail below drops or keeps one reference
		default: // pack: fillers and Fanout references to s in a new array (wrapped in a struct for struct nodes)
			for i := 0; i < post; i++ { // PACK pops item 0 first: push in reverse order
				g.a.pushI(0)
			}
			for i := 0; i < sp.Fanout; i++ {
				g.a.pushI(int64(post + i)).op(vm.PICK)
			}
			for i := 0; i < pre; i++ {
				g.a.pushI(0)
			}
			g.a.pushI(int64(sp.NodeW + sp.Fanout)).op(vm.PACK) // [s t]
			if sp.Node == "struct" {
				g.a.pushI(0).op(vm.NEWSTRUCT, vm.DUP, vm.ROT, vm.APPEND)
			}
		}
		if !sp.Keep {
			g.a.op(vm.NIP)
		}
	}
	if sp.Loop {
		g.loop(int64(sp.Rounds), body)
	} else {
		for i := 0; i < sp.Rounds; i++ {
			body()
		}
	}
	if sp.Copies > 0 { // [.. s] -> [.. s a] with a = Copies x (copy of / reference to) s
		g.a.pushI(0).op(vm.NEWARRAY)
		cp := func() { g.a.op(vm.DUP).pushI(2).op(vm.PICK, vm.APPEND) }
		if sp.Loop {
			g.loop(int64(sp.Copies), cp)
		} else {
			for i := 0; i < sp.Copies; i++ {
				cp()
			}
		}
	}
	switch sp.Use {
	case "drop":
		g.a.op(vm.DROP)
	case "serialize":
		g.a.syscall("System.Runtime.Serialize")
	case "roundtrip":
		g.a.syscall("System.Runtime.Serialize").syscall("System.Runtime.Deserialize")
	case "notify":
		g.a.syscall("System.Runtime.Notify")
	case "size":
		g.a.op(vm.ARRAYSIZE)
	}
	return sp
}

// genAmpProgram draws one amplification program.
func genAmpProgram(t *rapid.T) ([]byte, ampSpec) {
	g := &neoGen{t: t, a: &asm{}, tags: map[string]bool{}}
	sp := g.genAmp()
	return g.a.b, sp
}

// cloneChainCode is the witness of finding keyCloneCount: s = NEWSTRUCT(1024); d x { t = NEWSTRUCT(1024);
// t[0] = s; s = t } - SETITEM deep-copies s, 1025 x depth items, although MAX_CLONE_LENGTH is 1024 -
// then a = []; c x a.append(s) - each APPEND copies the whole chain again - and one service call
// (at which the worker's probe counts the live items of the node's own engine).
func cloneChainCode(d, c int) []byte {
	a := &asm{}
	a.pushI(1024).op(vm.NEWSTRUCT)
	for i := 0; i < d; i++ {
		a.pushI(1024).op(vm.NEWSTRUCT, vm.DUP).pushI(0).pushI(3).op(vm.PICK, vm.SETITEM, vm.NIP)
	}
	a.pushI(0).op(vm.NEWARRAY)
	for i := 0; i < c; i++ {
		a.op(vm.DUP).pushI(2).op(vm.PICK, vm.APPEND)
	}
	return a.syscall("System.Runtime.GetTime").b
}

// ---------------------------------------------------------------------------------------------
// cross-contract loops

// xloopSpec is the drawn shape of one cross-contract loop program.
type xloopSpec struct {
	Form string   // forever (L: body; JMP L) | counted (body N times, counter on the alt stack)
	N    int      // iterations of a counted loop
	Body []string // call:<callee> (static APPCALL), dyn:<callee> (address popped from the stack), sys (GetTime in the caller), nop
	// derived
	Calls    int  // APPCALLs per iteration into deployed contracts
	Observe  bool // every iteration enters a service handler (in the caller or in a callee)
	MustSpin bool // nothing but a resource bound ends the request: every callee exists and returns
}

var xloopCallees = map[string][]byte{"echo": neoEchoCode, "time": neoTimeCode, "chain": neoChainCode, "loop": neoLoopCode}

// genXloop emits a loop whose body calls into the contracts of the worker's ledger prefix: echo (NOP), time (one
// service call), chain (APPCALLs time), loop (16 service calls in its own bounded loop), recur (calls itself
// until the engine limit ends the request) or an address without a contract (ends the request).
func (g *neoGen) genXloop() xloopSpec {
	sp := xloopSpec{Form: pick(g.t, []string{"forever", "forever", "counted"}, "xform"), MustSpin: true}
	if sp.Form == "counted" {
		sp.N = pick(g.t, []int{1, 3, 100, 5000, 30000, 150000}, "xn")
		sp.MustSpin = false
	}
	// stratified: a third of the programs make no service call at all (only these need the finite-gas route), a
	// fifth contain one call that ends the request by itself
	elems := []string{"call:echo", "call:time", "call:time", "call:chain", "call:loop", "dyn:echo", "dyn:time", "sys", "sys", "nop"}
	if g.chance(33, "xquiet") {
		elems = []string{"call:echo", "call:echo", "dyn:echo", "nop"}
	}
	n := g.intn(1, 3, "xbodyn")
	for i := 0; i < n; i++ {
		el := pick(g.t, elems, "xelem")
		if i == 0 && (el == "sys" || el == "nop") && g.chance(70, "xfirstcall") {
			el = elems[0] // mostly at least one call
		}
		sp.Body = append(sp.Body, el)
	}
	if g.chance(20, "xterm") {
		sp.Body[g.intn(0, n-1, "xtermpos")] = pick(g.t, []string{"call:recur", "call:missing"}, "xtermk")
	}
	body := func() {
		for _, el := range sp.Body {
			switch el {
			case "sys":
				g.a.syscall("System.Runtime.GetTime").op(vm.DROP)
				sp.Observe = true
			case "nop":
				g.a.op(vm.NOP)
			case "call:recur": // [addr] APPCALL R with R = DUP; APPCALL <address from the stack>
				g.a.pushBytes(addrBytes(neoRecurCode)).appcall(addrBytes(neoRecurCode))
				sp.MustSpin = false
			case "call:missing":
				g.a.appcall(addrBytes([]byte("no such contract")))
				sp.MustSpin = false
			default:
				name := el[len("call:"):]
				if el[:4] == "dyn:" {
					name = el[len("dyn:"):]
					g.a.pushBytes(addrBytes(xloopCallees[name])).appcall(make([]byte, 20))
				} else {
					g.a.appcall(addrBytes(xloopCallees[name]))
				}
				sp.Calls++
				if name != "echo" {
					sp.Observe = true
				}
			}
		}
	}
	if sp.Form == "forever" {
		start := len(g.a.b)
		body()
		g.a.jmp(vm.JMP, int16(start-len(g.a.b)))
	} else {
		g.loop(int64(sp.N), body)
	}
	// sp.Calls etc. were accumulated by one emission of the body
	return sp
}

func genXloopProgram(t *rapid.T) ([]byte, xloopSpec) {
	g := &neoGen{t: t, a: &asm{}, tags: map[string]bool{}}
	sp := g.genXloop()
	return g.a.b, sp
}

// genProgram draws one program.
func genProgram(t *rapid.T, methods map[string][]string, noCycleEnc, noDeepEq bool) (code []byte, tags []string, excluded int) {
	g := &neoGen{t: t, a: &asm{}, methods: methods, noCycleEnc: noCycleEnc, noDeepEq: noDeepEq, tags: map[string]bool{}, big: harn.Thorough()}
	if rng(t, 0, 19, "rawprog") == 0 {
		g.tag("raw")
		return rapid.SliceOfN(rapid.Byte(), 0, 120).Draw(t, "rawcode"), g.tagList(), 0
	}
	if g.chance(15, "hostile-index-program") {
		// a program that is nothing but such an opcode: executed by construction
		g.fragHostileIndex()
		g.tag("index-hostile-only")
		return g.a.b, g.tagList(), 0
	}
	// operands for whatever follows
	for i := 0; i < g.intn(0, 3, "prefill"); i++ {
		g.pushValue(2)
	}
	nf := g.intn(1, 5, "nfrag")
	for i := 0; i < nf; i++ {
		switch g.intn(0, 18, "frag") {
		case 16:
			g.fragIndex()
		case 17, 18:
			g.fragHostileIndex()
		case 0, 1, 2, 3:
			g.fragSyscall()
		case 4, 5:
			g.pushValue(0)
			g.consumer()
			g.tag("value+consumer")
		case 6, 7:
			g.pushCyclic()
			g.consumer()
		case 8:
			g.pushDeep()
			g.consumer()
		case 9, 10:
			g.fragSoup()
		case 11:
			g.fragCalls()
		case 12:
			g.fragLoop()
		case 13:
			g.fragDeepEqual()
		case 14: // forward jump over a fragment
			g.a.pushBool(g.chance(50, "jc"))
			at := len(g.a.b)
			g.a.jmp(vm.JMPIF, 0)
			g.fragSoup()
			off := len(g.a.b) - at
			if off < 32767 {
				g.a.b[at+1], g.a.b[at+2] = byte(off), byte(off>>8)
			}
			g.tag("jump")
		default:
			g.pushInterop()
			g.consumer()
		}
	}
	if g.chance(10, "mut") {
		g.tag("mutated")
		return mutateBytes(t, g.a.b), g.tagList(), g.excluded
	}
	return g.a.b, g.tagList(), g.excluded
}
