package txval

// Thin wrapper around the code under test: decode the raw bytes as a node does and run the validator.

import (
	"fmt"
	"sort"

	"github.com/ontio/ontology/common"
	"github.com/ontio/ontology/core/types"
	"github.com/ontio/ontology/core/validation"
	ontErrors "github.com/ontio/ontology/errors"
	"github.com/ontio/ontology/smartcontract"
)

type verdict struct {
	Decoded  bool
	Accepted bool
	Code     ontErrors.ErrCode
	Err      error  // decode error
	Panic    string // non-empty when decode or validation panicked
	Tx       *types.Transaction
}

func (v verdict) String() string {
	switch {
	case v.Panic != "":
		return "PANIC " + v.Panic
	case !v.Decoded:
		return fmt.Sprintf("rejected (undecodable: %v)", v.Err)
	case v.Accepted:
		return "accepted"
	}
	return fmt.Sprintf("rejected (code %d)", v.Code)
}

// runValidator: types.TransactionFromRawBytes + validation.VerifyTransaction, panics captured.
func runValidator(raw []byte) (v verdict) {
	defer func() {
		if r := recover(); r != nil {
			v.Accepted = false
			v.Panic = fmt.Sprint(r)
		}
	}()
	tx, err := types.TransactionFromRawBytes(append([]byte{}, raw...))
	if err != nil {
		v.Err = err
		return v
	}
	v.Decoded, v.Tx = true, tx
	v.Code = validation.VerifyTransaction(tx)
	v.Accepted = v.Code == ontErrors.ErrNoError
	return v
}

func sortedAddrs(in []common.Address) []common.Address {
	seen := map[common.Address]bool{}
	var out []common.Address
	for _, a := range in {
		if !seen[a] {
			seen[a] = true
			out = append(out, a)
		}
	}
	sort.Slice(out, func(i, j int) bool { return string(out[i][:]) < string(out[j][:]) })
	return out
}

func addrsString(in []common.Address) string {
	s := "{"
	for i, a := range in {
		if i > 0 {
			s += ","
		}
		s += fmt.Sprintf("%x", a[:])
	}
	return s + "}"
}

func sameAddrSet(a, b []common.Address) bool {
	a, b = sortedAddrs(a), sortedAddrs(b)
	if len(a) != len(b) {
		return false
	}
	for i := range a {
		if a[i] != b[i] {
			return false
		}
	}
	return true
}

// checkWitness asks contract-level code whether address a signed tx.
func checkWitness(tx *types.Transaction, a common.Address) bool {
	sc := &smartcontract.SmartContract{Config: &smartcontract.Config{Tx: tx}}
	return sc.CheckWitness(a)
}
