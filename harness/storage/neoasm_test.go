package storage

// Hand assembler for the NeoVM programs used by C44(b): a dispatcher contract and the invoke scripts
// that drive it. Only raw opcodes are used; nothing from the repo's compiler tool chain.

import (
	"bytes"
	"encoding/binary"
	"math/big"

	"github.com/ontio/ontology/common"
	vm "github.com/ontio/ontology/vm/neovm"
)

const (
	sysStorageGetContext = "System.Storage.GetContext"
	sysStoragePut        = "System.Storage.Put"
	sysStorageGet        = "System.Storage.Get"
	sysStorageDelete     = "System.Storage.Delete"
	sysContractMigrate   = "Ontology.Contract.Migrate"
	sysContractCreate    = "Ontology.Contract.Create"
	sysContractDestroy   = "System.Contract.Destroy"
)

// dispatcher operation numbers (pushed on top of the arguments by the caller)
const (
	opPut            = 1 // args: value key
	opGet            = 2 // args: key                    -> leaves the value
	opDelete         = 3 // args: key
	opMigrate        = 4 // args: desc email author version name vmtype code
	opDestroy        = 5 // no args
	opDestroyThenPut = 6 // args: value key              (must fail: write after destroy)
	opMigrateThenPut = 7 // args: value key + migrate args (must fail: write through the old address)
	opInit           = 8 // no args: stores the entries embedded in the code
)

type asm struct{ bytes.Buffer }

func (a *asm) op(o vm.OpCode) *asm { a.WriteByte(byte(o)); return a }

func (a *asm) push(data []byte) *asm {
	vm.NewParamsBuilder(&a.Buffer).EmitPushByteArray(data)
	return a
}

func (a *asm) pushInt(n int64) *asm {
	vm.NewParamsBuilder(&a.Buffer).EmitPushInteger(big.NewInt(n))
	return a
}

func (a *asm) syscall(name string) *asm {
	a.WriteByte(byte(vm.SYSCALL))
	a.WriteByte(byte(len(name))) // var-string with a one-byte length (all names < 0xfd)
	a.WriteString(name)
	return a
}

func (a *asm) appcall(addr common.Address) *asm {
	a.WriteByte(byte(vm.APPCALL))
	a.Write(addr[:])
	return a
}

func (a *asm) raw(b []byte) *asm { a.Write(b); return a }

type kv struct {
	K, V []byte
}

// dispatcherCode assembles the contract. Layout: a tag (PUSHBYTES tag, DROP) that makes the code hash
// unique, then for every operation
//
//	DUP PUSH<op> NUMEQUAL JMPIFNOT <next> DROP <body> RET
//
// Falling through all comparisons ends the program with the operation number still on the stack.
func dispatcherCode(tag []byte, embedded []kv) []byte {
	putBody := func() []byte { // stack: value key
		return new(asm).syscall(sysStorageGetContext).syscall(sysStoragePut).Bytes()
	}
	migrateBody := func() []byte { // stack: desc email author version name vmtype code
		return new(asm).syscall(sysContractMigrate).op(vm.DROP).Bytes()
	}
	var initBody asm
	for _, e := range embedded {
		initBody.push(e.V).push(e.K).raw(putBody())
	}
	bodies := []struct {
		op   int64
		code []byte
	}{
		{opPut, putBody()},
		{opGet, new(asm).syscall(sysStorageGetContext).syscall(sysStorageGet).Bytes()},
		{opDelete, new(asm).syscall(sysStorageGetContext).syscall(sysStorageDelete).Bytes()},
		{opMigrate, migrateBody()},
		{opDestroy, new(asm).syscall(sysContractDestroy).Bytes()},
		{opDestroyThenPut, new(asm).syscall(sysContractDestroy).raw(putBody()).Bytes()},
		{opMigrateThenPut, new(asm).raw(migrateBody()).raw(putBody()).Bytes()},
		{opInit, initBody.Bytes()},
	}
	var a asm
	a.push(tag).op(vm.DROP)
	for _, b := range bodies {
		a.op(vm.DUP).pushInt(b.op).op(vm.NUMEQUAL)
		skip := 3 + 1 + len(b.code) + 1 // JMPIFNOT(3) DROP body RET
		a.op(vm.JMPIFNOT)
		var off [2]byte
		binary.LittleEndian.PutUint16(off[:], uint16(int16(skip)))
		a.Write(off[:])
		a.op(vm.DROP).raw(b.code).op(vm.RET)
	}
	return a.Bytes()
}

// deployMeta is the metadata pushed for Contract.Migrate / Contract.Create.
type deployMeta struct{ Name, Version, Author, Email, Desc string }

// pushDeployArgs pushes desc email author version name vmtype code (code ends on top).
func (a *asm) pushDeployArgs(code []byte, m deployMeta) *asm {
	return a.push([]byte(m.Desc)).push([]byte(m.Email)).push([]byte(m.Author)).push([]byte(m.Version)).
		push([]byte(m.Name)).pushInt(1).push(code)
}

func (a *asm) drops(n int) *asm {
	for i := 0; i < n; i++ {
		a.op(vm.DROP)
	}
	return a
}
