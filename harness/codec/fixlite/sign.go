package fix

import (
	"github.com/ontio/ontology-crypto/keypair"
	"github.com/ontio/ontology/common"
	"github.com/ontio/ontology/core/signature"
	"github.com/ontio/ontology/core/types"
)

// Sign sets the payer (first signer unless already set) and attaches one single-key Sig per signer.
// (copy of internal/fix.Sign)
func Sign(mtx *types.MutableTransaction, signers ...*ZooKey) (*types.Transaction, error) {
	if mtx.Payer == common.ADDRESS_EMPTY && len(signers) > 0 {
		mtx.Payer = signers[0].Address
	}
	h := mtx.Hash()
	mtx.Sigs = nil
	for _, s := range signers {
		sig, err := signature.Sign(s, h[:])
		if err != nil {
			return nil, err
		}
		mtx.Sigs = append(mtx.Sigs, types.Sig{PubKeys: []keypair.PublicKey{s.PublicKey}, M: 1, SigData: [][]byte{sig}})
	}
	return mtx.IntoImmutable()
}

// MultiSign attaches an m-of-n Sig signed by the given subset. (copy of internal/fix.MultiSign)
func MultiSign(mtx *types.MutableTransaction, keys []*ZooKey, m int, signWith []*ZooKey) error {
	h := mtx.Hash()
	var pks []keypair.PublicKey
	for _, k := range keys {
		pks = append(pks, k.PublicKey)
	}
	var sigs [][]byte
	for _, s := range signWith {
		sig, err := signature.Sign(s, h[:])
		if err != nil {
			return err
		}
		sigs = append(sigs, sig)
	}
	mtx.Sigs = append(mtx.Sigs, types.Sig{PubKeys: pks, M: uint16(m), SigData: sigs})
	return nil
}
