package storage

// C08 EVM snapshot revert restores exactly the observable state.
//
// Real object: storage.StateDB over CacheDB over OverlayDB over an in-memory goleveldb, with the real
// ONG balance handle. A generated base state is committed first (into the overlay, or further down
// into the persistent store), so that the transaction memdb holds overwrites and tombstones of
// committed data and not only fresh keys.
// Oracle: a plain Go struct; Snapshot pushes a deep copy on a stack, RevertToSnapshot(i) pops down to
// copy i, DiscardSnapshot(i) drops copies >= i. After EVERY step all getters must agree with the struct.

import (
	"bytes"
	"fmt"
	"math/big"
	"strings"
	"testing"

	ethcomm "github.com/ethereum/go-ethereum/common"
	"github.com/ethereum/go-ethereum/crypto"
	"github.com/ontio/ontology/core/store/overlaydb"
	"github.com/ontio/ontology/core/types"
	"github.com/ontio/ontology/smartcontract/service/native/ong"
	"github.com/ontio/ontology/smartcontract/storage"
	"pgregory.net/rapid"

	"verifharness/internal/harn"
)

const (
	c08Addrs = 4
	c08Slots = 4
)

type c08Acct struct {
	nonce    uint64
	code     []byte
	hasCode  bool
	bal      int64
	slots    map[byte]byte // slot -> last byte of the stored word (absent = never written => zero word)
	suicided bool
}

type c08State struct {
	accts  [c08Addrs]c08Acct
	logs   []int // ids of the logs in order
	refund uint64
}

func (s c08State) clone() c08State {
	c := s
	for i := range c.accts {
		m := map[byte]byte{}
		for k, v := range s.accts[i].slots {
			m[k] = v
		}
		c.accts[i].slots = m
		c.accts[i].code = append([]byte{}, s.accts[i].code...)
	}
	c.logs = append([]int{}, s.logs...)
	return c
}

var c08AddrList = [c08Addrs]ethcomm.Address{{1}, {2}, {1, 0, 0, 0, 0, 0, 0, 0, 0, 0, 0, 0, 0, 0, 0, 0, 0, 0, 0, 1}, {0xff, 0xfe}}

func c08Word(v byte) ethcomm.Hash { return ethcomm.Hash{31: v} }

var c08Kinds = []string{"state", "nonce", "code", "balance", "log", "refund", "suicide"}

type c08World struct {
	sdb       *storage.StateDB
	m         c08State
	committed [c08Addrs]map[byte]byte
	stack     []c08State
	since     []map[string]bool // mutation kinds since each open snapshot
	log       []string
	nextLog   int
	nontriv   bool
	ev        *harn.Collector
}

func (w *c08World) note(format string, args ...interface{}) {
	if len(w.log) < 120 {
		w.log = append(w.log, fmt.Sprintf(format, args...))
	}
}

func (w *c08World) mutated(kind string) {
	for _, s := range w.since {
		s[kind] = true
	}
	w.ev.Class("mut:" + kind)
}

func (w *c08World) history() string { return strings.Join(w.log, ";") }

// verify compares every getter with the model.
func (w *c08World) verify(t *rapid.T) {
	sdb, m := w.sdb, &w.m
	for i, a := range c08AddrList {
		ma := m.accts[i]
		if got := sdb.GetNonce(a); got != ma.nonce {
			t.Fatalf("GetNonce(addr%d) = %d, model %d; history: %s", i, got, ma.nonce, w.history())
		}
		if got := sdb.GetBalance(a); got.Cmp(big.NewInt(ma.bal)) != 0 {
			t.Fatalf("GetBalance(addr%d) = %v, model %d; history: %s", i, got, ma.bal, w.history())
		}
		code := sdb.GetCode(a)
		if ma.hasCode {
			if !bytes.Equal(code, ma.code) {
				t.Fatalf("GetCode(addr%d) = %x, model %x; history: %s", i, code, ma.code, w.history())
			}
			if got := sdb.GetCodeHash(a); got != crypto.Keccak256Hash(ma.code) {
				t.Fatalf("GetCodeHash(addr%d) = %x, model keccak(%x); history: %s", i, got, ma.code, w.history())
			}
		} else {
			if len(code) != 0 || sdb.GetCodeHash(a) != (ethcomm.Hash{}) {
				t.Fatalf("addr%d has no code in the model but GetCode = %x, GetCodeHash = %x; history: %s", i, code, sdb.GetCodeHash(a), w.history())
			}
		}
		if got := sdb.GetCodeSize(a); got != len(ma.code) {
			t.Fatalf("GetCodeSize(addr%d) = %d, model %d; history: %s", i, got, len(ma.code), w.history())
		}
		for s := byte(0); s < c08Slots; s++ {
			want := ethcomm.Hash{}
			if v, ok := ma.slots[s]; ok {
				want = c08Word(v)
			}
			if got := sdb.GetState(a, ethcomm.Hash{s}); got != want {
				t.Fatalf("GetState(addr%d, slot%d) = %x, model %x; history: %s", i, s, got, want, w.history())
			}
			wantC := ethcomm.Hash{}
			if v, ok := w.committed[i][s]; ok {
				wantC = c08Word(v)
			}
			if got := sdb.GetCommittedState(a, ethcomm.Hash{s}); got != wantC {
				t.Fatalf("GetCommittedState(addr%d, slot%d) = %x, committed base is %x; history: %s", i, s, got, wantC, w.history())
			}
		}
		if got := sdb.HasSuicided(a); got != ma.suicided {
			t.Fatalf("HasSuicided(addr%d) = %v, model %v; history: %s", i, got, ma.suicided, w.history())
		}
		empty := ma.nonce == 0 && !ma.hasCode
		if got, want := sdb.Empty(a), empty && ma.bal == 0; got != want {
			t.Fatalf("Empty(addr%d) = %v, model %v; history: %s", i, got, want, w.history())
		}
		if got, want := sdb.Exist(a), ma.suicided || !empty || ma.bal > 0; got != want {
			t.Fatalf("Exist(addr%d) = %v, model %v; history: %s", i, got, want, w.history())
		}
	}
	logs := sdb.GetLogs()
	if len(logs) != len(m.logs) {
		t.Fatalf("GetLogs has %d entries, model %v; history: %s", len(logs), m.logs, w.history())
	}
	for i, l := range logs {
		if l == nil || len(l.Data) != 2 || int(l.Data[0])<<8|int(l.Data[1]) != m.logs[i] {
			t.Fatalf("GetLogs[%d] = %+v, model log id %d (all: %v); history: %s", i, l, m.logs[i], m.logs, w.history())
		}
	}
	if got := sdb.GetRefund(); got != m.refund {
		t.Fatalf("GetRefund = %d, model %d; history: %s", got, m.refund, w.history())
	}
	if err := sdb.DbErr(); err != nil {
		t.Fatalf("DbErr = %v; history: %s", err, w.history())
	}
}

// mutate performs one generated mutation on both the StateDB and the model. base=true restricts it to
// the kinds used to build the committed base state (no logs/refund/suicide).
func (w *c08World) mutate(t *rapid.T, base bool) {
	sdb, m := w.sdb, &w.m
	kinds := []string{"state", "state", "state", "nonce", "code", "balance", "balance", "log", "refund", "suicide"}
	if base {
		kinds = []string{"state", "state", "state", "nonce", "code", "balance"}
	}
	i := rapid.IntRange(0, c08Addrs-1).Draw(t, "addr")
	a := c08AddrList[i]
	switch rapid.SampledFrom(kinds).Draw(t, "kind") {
	case "state":
		s, v := byte(rapid.IntRange(0, c08Slots-1).Draw(t, "slot")), byte(rapid.IntRange(0, 3).Draw(t, "word"))
		sdb.SetState(a, ethcomm.Hash{s}, c08Word(v))
		m.accts[i].slots[s] = v
		w.note("state(%d,%d)=%d", i, s, v)
		w.mutated("state")
	case "nonce":
		n := uint64(rapid.IntRange(0, 3).Draw(t, "nonce"))
		sdb.SetNonce(a, n)
		m.accts[i].nonce = n
		w.note("nonce(%d)=%d", i, n)
		w.mutated("nonce")
	case "code":
		code := rapid.SliceOfN(rapid.Byte(), 1, 4).Draw(t, "code")
		sdb.SetCode(a, code)
		m.accts[i].code, m.accts[i].hasCode = code, true
		w.note("code(%d)=%x", i, code)
		w.mutated("code")
	case "balance":
		if m.accts[i].bal > 0 && rapid.Bool().Draw(t, "sub") {
			v := rapid.Int64Range(0, m.accts[i].bal).Draw(t, "amt")
			if rapid.IntRange(0, 2).Draw(t, "all") == 0 {
				v = m.accts[i].bal
			}
			sdb.SubBalance(a, big.NewInt(v))
			m.accts[i].bal -= v
			w.note("sub(%d,%d)", i, v)
		} else {
			v := rapid.SampledFrom([]int64{0, 1, 7, 1000000000, 3000000000, 1000000001}).Draw(t, "amt")
			sdb.AddBalance(a, big.NewInt(v))
			m.accts[i].bal += v
			w.note("add(%d,%d)", i, v)
		}
		w.mutated("balance")
	case "log":
		id := w.nextLog
		w.nextLog++
		sdb.AddLog(&types.StorageLog{Address: a, Data: []byte{byte(id >> 8), byte(id)}})
		m.logs = append(m.logs, id)
		w.note("log#%d", id)
		w.mutated("log")
	case "refund":
		if m.refund > 0 && rapid.Bool().Draw(t, "sub") {
			v := rapid.Uint64Range(0, m.refund).Draw(t, "amt")
			sdb.SubRefund(v)
			m.refund -= v
			w.note("subRefund(%d)", v)
		} else {
			v := rapid.Uint64Range(0, 9).Draw(t, "amt")
			sdb.AddRefund(v)
			m.refund += v
			w.note("addRefund(%d)", v)
		}
		w.mutated("refund")
	case "suicide":
		ma := &m.accts[i]
		empty := ma.nonce == 0 && !ma.hasCode
		ok := sdb.Suicide(a)
		w.note("suicide(%d)", i)
		if ok == empty {
			t.Fatalf("Suicide(addr%d) returned %v although the account (nonce %d, hasCode %v) is empty=%v; history: %s", i, ok, ma.nonce, ma.hasCode, empty, w.history())
		}
		if ok {
			ma.suicided, ma.bal = true, 0
			w.mutated("suicide")
		} else {
			w.ev.Class("suicide:empty-account")
		}
	}
}

func (w *c08World) step(t *rapid.T) {
	acts := []string{"mut", "mut", "mut", "mut", "mut", "mut", "mut", "snapshot", "snapshot", "snapshot", "revert", "revert", "discard"}
	ev := w.ev
	act := rapid.SampledFrom(acts).Draw(t, "act")
	if (act == "revert" || act == "discard") && len(w.stack) == 0 {
		act = "snapshot" // state-aware: nothing to revert to yet
	}
	switch act {
	case "mut":
		w.mutate(t, false)
	case "snapshot":
		id := w.sdb.Snapshot()
		if id != len(w.stack) {
			t.Fatalf("Snapshot() returned id %d with %d snapshots open; history: %s", id, len(w.stack), w.history())
		}
		w.stack = append(w.stack, w.m.clone())
		w.since = append(w.since, map[string]bool{})
		w.note("snap#%d", id)
		ev.Class("snapshot")
	case "revert":
		if len(w.stack) == 0 {
			ev.Class("revert:none-open")
			return
		}
		id := rapid.IntRange(0, len(w.stack)-1).Draw(t, "id")
		kinds := len(w.since[id])
		top := id == len(w.stack)-1
		w.sdb.RevertToSnapshot(id)
		w.m = w.stack[id]
		w.stack = w.stack[:id]
		w.since = w.since[:id]
		w.note("revert#%d", id)
		ev.Class("revert")
		if top {
			ev.Class("revert:top")
		} else {
			ev.Class("revert:non-top")
		}
		if kinds >= 3 {
			ev.Class("revert:after>=3-kinds")
		}
		if kinds == len(c08Kinds) {
			ev.Class("revert:after-all-7-kinds")
		}
		if !top && kinds >= 3 {
			ev.Class("revert:nontrivial")
			w.nontriv = true
		}
	case "discard":
		if len(w.stack) == 0 {
			ev.Class("discard:none-open")
			return
		}
		id := rapid.IntRange(0, len(w.stack)-1).Draw(t, "id")
		w.sdb.DiscardSnapshot(id)
		// kinds recorded since the discarded snapshots still count for the older ones (already tracked)
		w.stack = w.stack[:id]
		w.since = w.since[:id]
		w.note("discard#%d", id)
		ev.Class("discard")
	}
}

func TestC08_SnapshotHistory(t *testing.T) {
	ev := harn.For("C08").Rule("stateful histories (avg 50 steps) on a real StateDB over a generated committed base state (0-10 mutations committed to the overlay or flushed to the persistent store): SetState/SetNonce/SetCode/AddBalance/SubBalance(<= balance)/AddLog/AddRefund/SubRefund(<= refund)/Suicide on 4 addresses x 4 slots, Snapshot, RevertToSnapshot(i) and DiscardSnapshot(i) for any open i; all getters compared with a struct model after every step. Non-trivial = the history contains a revert to a NON-top snapshot after mutations of >= 3 different kinds since that snapshot; distinct by history text")
	ev.Floor("revert:nontrivial", "revert", 0.08)
	ev.Floor("revert:non-top", "revert", 0.2)
	ev.Floor("mut:suicide", "", 0.3)
	harn.CheckSteps(t, 50, 1000, 36000, func(t *rapid.T) {
		store := freshStore()
		overlay := overlaydb.NewOverlayDB(store)
		cache := storage.NewCacheDB(overlay)
		w := &c08World{ev: ev}
		for i := range w.m.accts {
			w.m.accts[i].slots = map[byte]byte{}
		}
		// committed base state
		w.sdb = storage.NewStateDB(cache, ethcomm.Hash{}, ethcomm.Hash{}, ong.OngBalanceHandle{})
		nBase := rapid.IntRange(0, 10).Draw(t, "nbase")
		for i := 0; i < nBase; i++ {
			w.mutate(t, true)
		}
		if err := w.sdb.Commit(); err != nil {
			t.Fatal(err)
		}
		where := "overlay"
		if rapid.Bool().Draw(t, "flushBase") {
			store.NewBatch()
			overlay.CommitTo()
			if err := store.BatchCommit(); err != nil {
				t.Fatal(err)
			}
			overlay = overlaydb.NewOverlayDB(store)
			cache = storage.NewCacheDB(overlay)
			where = "persistent"
		}
		w.note("base-in-%s", where)
		for i := range w.m.accts {
			w.committed[i] = map[byte]byte{}
			for k, v := range w.m.accts[i].slots {
				w.committed[i][k] = v
			}
		}
		w.sdb = storage.NewStateDB(cache, ethcomm.Hash{1}, ethcomm.Hash{2}, ong.OngBalanceHandle{})
		w.verify(t)
		t.Repeat(map[string]func(*rapid.T){
			"step": w.step,
			"":     w.verify,
		})
		// finally unwind every open snapshot from the top and compare each time
		for len(w.stack) > 0 {
			id := len(w.stack) - 1
			w.sdb.RevertToSnapshot(id)
			w.m = w.stack[id]
			w.stack, w.since = w.stack[:id], w.since[:id]
			w.note("unwind#%d", id)
			w.verify(t)
			ev.Class("unwind")
		}
		ev.Case(w.nontriv, w.history())
	})
}

// TestC08_NestedRevertAll targets the clause "for any nesting of snapshots and reverts" with a denser
// shape: a ladder of D snapshots with a burst of mutations of every kind between consecutive rungs,
// then reverts to a generated descending sequence of rungs (re-snapshotting in between).
func TestC08_NestedRevertAll(t *testing.T) {
	ev := harn.For("C08").Rule("ladders: 2-6 nested snapshots with 1-8 mutations (all kinds) between rungs, then a generated sequence of revert(i)/re-snapshot/mutate rounds; getters compared after every call. Non-trivial as above")
	ev.Floor("ladder:revert:non-top", "ladder:revert", 0.3)
	harn.Check(t, 800, 30000, func(t *rapid.T) {
		store := freshStore()
		cache := storage.NewCacheDB(overlaydb.NewOverlayDB(store))
		w := &c08World{ev: ev}
		for i := range w.m.accts {
			w.m.accts[i].slots = map[byte]byte{}
			w.committed[i] = map[byte]byte{}
		}
		w.sdb = storage.NewStateDB(cache, ethcomm.Hash{}, ethcomm.Hash{}, ong.OngBalanceHandle{})
		burst := func() {
			for i, n := 0, rapid.IntRange(1, 8).Draw(t, "burst"); i < n; i++ {
				w.mutate(t, false)
				w.verify(t)
			}
		}
		snap := func() {
			id := w.sdb.Snapshot()
			if id != len(w.stack) {
				t.Fatalf("Snapshot() returned id %d with %d snapshots open; history: %s", id, len(w.stack), w.history())
			}
			w.stack = append(w.stack, w.m.clone())
			w.since = append(w.since, map[string]bool{})
			w.note("snap#%d", id)
		}
		burst()
		for d, depth := 0, rapid.IntRange(2, 6).Draw(t, "depth"); d < depth; d++ {
			snap()
			burst()
		}
		for r, rounds := 0, rapid.IntRange(1, 5).Draw(t, "rounds"); r < rounds && len(w.stack) > 0; r++ {
			id := rapid.IntRange(0, len(w.stack)-1).Draw(t, "id")
			top := id == len(w.stack)-1
			kinds := len(w.since[id])
			w.sdb.RevertToSnapshot(id)
			w.m = w.stack[id]
			w.stack, w.since = w.stack[:id], w.since[:id]
			w.note("revert#%d", id)
			w.verify(t)
			ev.Class("ladder:revert")
			if !top {
				ev.Class("ladder:revert:non-top")
				if kinds >= 3 {
					w.nontriv = true
				}
			}
			if kinds == len(c08Kinds) {
				ev.Class("ladder:revert:after-all-7-kinds")
			}
			if rapid.Bool().Draw(t, "again") {
				snap()
			}
			burst()
		}
		ev.Case(w.nontriv, w.history())
	})
}
