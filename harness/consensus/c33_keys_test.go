package consensus

// C33 with several key heights: a side chain's consensus peer set changes at "key headers"
// (headers carrying NewChainConfig). Histories sync 2-4 key headers IN GENERATED ORDER (also out of
// height order) and ordinary headers between / above them through the real contract entry point
// syncBlockHeader (ProcessHeader = VerifyHeader + PutBlockHeader + UpdateConsensusPeer).
//
// Harness model: the peer set governing a header of height H is the one stored by the accepted key
// header with the greatest height below H (the genesis set at height 0 otherwise). Oracle: an
// accepted header carries verifying signatures of at least ceil(2N/3) DISTINCT peers of the
// governing set.

import (
	"encoding/json"
	"fmt"
	"math"
	"sort"
	"strings"
	"testing"

	"github.com/ontio/ontology/common"
	vconfig "github.com/ontio/ontology/consensus/vbft/config"
	"github.com/ontio/ontology/core/types"
	"github.com/ontio/ontology/smartcontract"
	ccom "github.com/ontio/ontology/smartcontract/service/native/cross_chain/common"
	"github.com/ontio/ontology/smartcontract/service/native/cross_chain/header_sync"
	nutils "github.com/ontio/ontology/smartcontract/service/native/utils"
	"pgregory.net/rapid"

	"verifharness/internal/fix"
	"verifharness/internal/harn"
)

const c33KeysRule = "multi-epoch histories through syncBlockHeader: genesis peer set at height 0, then 3..9 submissions: key headers (new peer sets of 4..7 zoo keys) at distinct heights 100..400 synced in generated order — also out of height order —, each signed by a two-thirds quorum of the set governing its height (or, hostile, by outsiders / one signature short), and ordinary headers at heights below, between, at and above the key heights signed by a quorum of the governing set, of a RETIRED set, of a set whose key height lies above the header, of outsiders, or one short; judged against the harness's model (peer set of the greatest accepted key height below the header); non-trivial = history with at least two accepted key headers and a later header signed by a set that does not govern its height; distinct = different submission sequence"

type c33Epoch struct {
	height uint32
	peers  []*fix.ZooKey
}

type c33Hist struct {
	sandbox *fix.Native
	sc      smartcontract.SmartContract
	epochs  []c33Epoch // accepted key heights incl. genesis, any order
	log     []string
}

func (h *c33Hist) governing(height uint32) (c33Epoch, bool) {
	var g c33Epoch
	ok := false
	for _, e := range h.epochs {
		if e.height < height && (!ok || e.height > g.height) {
			g, ok = e, true
		}
	}
	return g, ok
}

func peerCfg(peers []*fix.ZooKey) *vconfig.ChainConfig {
	cfg := &vconfig.ChainConfig{N: uint32(len(peers)), C: uint32((len(peers) - 1) / 3)}
	for i, k := range peers {
		cfg.Peers = append(cfg.Peers, &vconfig.PeerConfig{Index: uint32(i + 1), ID: vconfig.PubkeyID(k.PublicKey)})
	}
	return cfg
}

func (e *c33Env) newHist(genesis []*fix.ZooKey) *c33Hist {
	sandbox := e.chain.NewNative()
	h := &c33Hist{sandbox: sandbox}
	h.sc = smartcontract.SmartContract{Config: &smartcontract.Config{Time: sandbox.Time, Height: sandbox.Height, Tx: &types.Transaction{}},
		CacheDB: sandbox.Cache, Store: e.chain.LS, Gas: math.MaxUint64 / 2}
	svc, err := h.sc.NewNativeService()
	if err != nil {
		panic(err)
	}
	payload, _ := json.Marshal(&vconfig.VbftBlockInfo{Proposer: 1, NewChainConfig: peerCfg(genesis)})
	if err := header_sync.UpdateConsensusPeer(svc, &ccom.Header{ChainID: c33Chain, Height: 0, ConsensusPayload: payload}); err != nil {
		panic(err)
	}
	sandbox.Cache.Commit()
	h.epochs = []c33Epoch{{0, genesis}}
	return h
}

type c33Sync struct {
	accepted bool
	err      error
	gov      c33Epoch
	hasGov   bool
	D        int
}

// sync submits one header (key header when newPeers != nil) through syncBlockHeader.
func (h *c33Hist) sync(what string, height uint32, newPeers, signers []*fix.ZooKey) c33Sync {
	info := &vconfig.VbftBlockInfo{Proposer: 1}
	if newPeers != nil {
		info.NewChainConfig = peerCfg(newPeers)
	}
	payload, _ := json.Marshal(info)
	hdr := &ccom.Header{ChainID: c33Chain, Height: height, Timestamp: 1600000000 + height, ConsensusData: uint64(len(h.log)), ConsensusPayload: payload}
	hash := hdr.Hash()
	for _, k := range signers {
		hdr.Bookkeepers = append(hdr.Bookkeepers, k.PublicKey)
		hdr.SigData = append(hdr.SigData, signFresh(k, common.Uint256(hash)))
	}
	res := c33Sync{}
	res.gov, res.hasGov = h.governing(height)
	sink := common.NewZeroCopySink(nil)
	hdr.Serialization(sink)
	p := &header_sync.SyncBlockHeaderParam{Address: fix.Key(fix.KP256, 60).Address, Headers: [][]byte{sink.Bytes()}}
	ps := common.NewZeroCopySink(nil)
	p.Serialization(ps)
	_, res.err = h.sandbox.Call(nutils.HeaderSyncContractAddress, header_sync.SYNC_BLOCK_HEADER, ps.Bytes(), nil)
	if res.err == nil {
		// the entry point silently skips a height it already stores: accepted only if OUR header is the stored one
		svc, _ := h.sc.NewNativeService()
		stored, err := header_sync.GetHeaderByHeight(svc, c33Chain, height)
		res.accepted = err == nil && stored != nil && stored.Hash() == hash
	}
	if res.hasGov {
		res.D = len(distinctValidSigners(res.gov.peers, common.Uint256(hash), hdr.SigData))
	}
	note := ""
	if newPeers != nil {
		note = fmt.Sprintf(" newPeers{%s}", names(newPeers))
	}
	h.log = append(h.log, fmt.Sprintf("%s@%d signed[%s]%s -> %v", what, height, names(signers), note, map[bool]string{true: "ACCEPTED", false: "rejected"}[res.accepted]))
	if res.accepted && newPeers != nil {
		h.epochs = append(h.epochs, c33Epoch{height, newPeers})
	}
	return res
}

func TestC33_KeyHeightHistories(t *testing.T) {
	ev := harn.For("C33").Rule(c33KeysRule)
	ev.Floor("hist:two-key-headers-accepted", "", 0.40)
	ev.Floor("hist:key-headers-out-of-height-order", "", 0.20)
	ev.Floor("hist:foreign-set-probe-after-two-keys", "", 0.30)
	e := newC33Env()
	defer e.cleanup()
	outsiders := zooRange(34, 6)
	harn.Check(t, 500, 20000, func(t *rapid.T) {
		genesis := zooRange(rapid.SampledFrom([]int{0, 2}).Draw(t, "gFrom"), rapid.IntRange(4, 7).Draw(t, "gN"))
		h := e.newHist(genesis)
		keyHeights := rapid.Permutation([]uint32{100, 200, 300, 400}).Draw(t, "keyOrder")
		nextKey := 0
		quorumOf := func(label string, set []*fix.ZooKey, short int) []*fix.ZooKey {
			need := twoThirds(len(set)) - short
			if need < 0 {
				need = 0
			}
			n := need
			if short == 0 {
				n = rapid.IntRange(need, len(set)).Draw(t, label+"N")
			}
			return append([]*fix.ZooKey{}, rapid.Permutation(set).Draw(t, label)[:n]...)
		}
		keysAccepted, outOfOrder, foreignProbe := 0, false, false
		var maxKey uint32
		steps := rapid.IntRange(3, 9).Draw(t, "steps")
		for i := 0; i < steps; i++ {
			kind := rapid.SampledFrom([]string{"key", "key", "key", "probe", "probe", "probe", "probe"}).Draw(t, "kind")
			if i < 2 && rapid.IntRange(0, 9).Draw(t, "keyEarly") < 8 {
				kind = "key"
			}
			if kind == "key" && nextKey >= len(keyHeights) {
				kind = "probe"
			}
			var r c33Sync
			var height uint32
			what := kind
			if kind == "key" {
				height = keyHeights[nextKey]
				nextKey++
				gov, _ := h.governing(height)
				newPeers := zooRange(rapid.SampledFrom([]int{8, 13, 18, 23, 5}).Draw(t, "pFrom"), rapid.IntRange(4, 7).Draw(t, "pN"))
				signers := quorumOf("keySigners", gov.peers, 0)
				switch rapid.IntRange(0, 9).Draw(t, "keyTwist") {
				case 0:
					what, signers = "key:by-outsiders", outsiders[:4]
				case 1:
					what, signers = "key:one-short", quorumOf("keyShort", gov.peers, 1)
				}
				r = h.sync(what, height, newPeers, signers)
				if r.accepted {
					keysAccepted++
					if height < maxKey {
						outOfOrder = true
					}
					if height > maxKey {
						maxKey = height
					}
				}
			} else {
				base := rapid.SampledFrom([]uint32{100, 200, 300, 400}).Draw(t, "near")
				height = uint32(int(base) + rapid.SampledFrom([]int{-50, -1, 0, 1, 50, 50, 50}).Draw(t, "off"))
				gov, _ := h.governing(height)
				var others []c33Epoch
				for _, ep := range h.epochs {
					if ep.height != gov.height {
						others = append(others, ep)
					}
				}
				sort.Slice(others, func(a, b int) bool { return others[a].height < others[b].height })
				mode := rapid.SampledFrom([]string{"gov", "gov", "other", "other", "other", "outsiders", "short"}).Draw(t, "signedBy")
				var signers []*fix.ZooKey
				switch {
				case mode == "other" && len(others) > 0:
					o := others[rapid.IntRange(0, len(others)-1).Draw(t, "which")]
					signers = quorumOf("otherSigners", o.peers, 0)
					what = fmt.Sprintf("probe:by-set@%d", o.height)
					if keysAccepted >= 2 {
						foreignProbe = true
					}
				case mode == "outsiders":
					signers, what = outsiders[:rapid.IntRange(3, 6).Draw(t, "nOut")], "probe:by-outsiders"
				case mode == "short":
					signers, what = quorumOf("short", gov.peers, 1), "probe:one-short"
				default:
					signers, what = quorumOf("govSigners", gov.peers, 0), "probe:by-governing-set"
				}
				r = h.sync(what, height, nil, signers)
			}
			if r.err != nil && fix.IsPanic(r.err) {
				t.Fatalf("%v in history: %s", r.err, strings.Join(h.log, " ; "))
			}
			ev.Class("sub:" + strings.SplitN(what, "@", 2)[0])
			if !r.accepted {
				if strings.HasSuffix(what, "by-governing-set") || what == "key" {
					ev.Class("honest-rejected") // liveness only; not part of C33
				}
				continue
			}
			ev.Class("sub:" + strings.SplitN(what, "@", 2)[0] + ":accepted")
			if !r.hasGov || r.D < twoThirds(len(r.gov.peers)) {
				t.Fatalf("header of height %d accepted with only %d distinct peer(s) of the governing set (key height %d, %d peers {%s}) having a verifying signature, need ceil(2N/3)=%d. History: %s",
					height, r.D, r.gov.height, len(r.gov.peers), names(r.gov.peers), twoThirds(len(r.gov.peers)), strings.Join(h.log, " ; "))
			}
		}
		if keysAccepted >= 2 {
			ev.Class("hist:two-key-headers-accepted")
		}
		if outOfOrder {
			ev.Class("hist:key-headers-out-of-height-order")
		}
		if foreignProbe {
			ev.Class("hist:foreign-set-probe-after-two-keys")
		}
		ev.Case(keysAccepted >= 2 && foreignProbe, shortDesc(strings.Join(h.log, ";")))
	})
}
