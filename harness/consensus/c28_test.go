package consensus

// C28 BFT quorum thresholds always intersect in an honest peer.
//
// The thresholds are MEASURED from the running code, never copied from its formulas:
//   block      q = least k such that validation.VerifyBlock accepts a block that lists N bookkeepers
//              and carries k valid signatures (real solo ledger supplies the previous header)
//   bk-address q = the m for which AddressFromMultiPubKeys(keys, m) equals AddressFromBookkeepers(keys)
//   commit     q = least number of distinct signers (proposer included) for which getCommitConsensus
//              declares consensus — pure counting (N up to 2000 enumerated, random N < 2^20), and
//              through a real BlockPool (Intake + commitDone) with genuine signatures, N <= 16
//   header     q = least number of valid member signatures in a header that
//              LedgerStoreImp.AddHeaders accepts on a VBFT ledger (N >= 7), over every listing size
// Oracle: for every measured quorum q of size-N configuration and every C >= 1 with 3C+1 <= N:
// 2q - N >= C+1 (two quorums share a peer outside any C faulty ones). q <= N - C is recorded only.
//
// This is bounded exploration of an unbounded quantifier (all N, C): the bounds are in the rule.

import (
	"fmt"
	"math"
	"testing"

	"github.com/ontio/ontology-crypto/keypair"
	"github.com/ontio/ontology/common"
	"github.com/ontio/ontology/consensus/vbft"
	"github.com/ontio/ontology/core/ledger"
	"github.com/ontio/ontology/core/types"
	"github.com/ontio/ontology/core/validation"
	"pgregory.net/rapid"

	"verifharness/internal/fix"
	"verifharness/internal/harn"
)

const c28KeyHeader = "header-threshold-no-quorum-intersection"

const c28Rule = "thresholds measured by search for the least accepted signer count (full scan of k for N <= 64, binary search plus boundary and spot checks above): block validator and bookkeeper multisig address N = 1..10 quick / 1..16 thorough (16 = MULTI_SIG_MAX_PUBKEY_SIZE) with real signatures (k signers as the first k, the last k, with garbage padding, and k signers in their own list slots with their signatures repeated in earlier slots); getCommitConsensus pure counting for every N in 4..300 quick / 4..2000 thorough (every C for N <= 64, C in {1, mid, max} above; message shapes: one committer naming endorsers, committers only, half / all / the first e committers committing for the EMPTY block, e empty commits for other proposers ahead of the plain ones, e = 1..N-1 for N <= 16 and C+1 above) and rapid-drawn N < 2^20 (log-uniform, biased to 3j+1 boundaries); commitDone through a real BlockPool with genuine signatures for every (N,C), N <= 10 quick / 16 thorough (paths: one commit message, commit messages only, all commits for the empty block, C+1 empty commits for other proposers first, endorse signatures only, every signer endorsing the block and then the empty block of the same proposer, and the reverse order); header check on VBFT ledgers for every (N,C), 7 <= N <= 10 quick / 16 thorough, every listing size L and signature count k; the quantifier over all naturals N, C is NOT exhausted — this is bounded exploration; non-trivial = a configuration with the largest admissible C (C = (N-1)/3, where the intersection inequality is tight) or a signature-carrying measurement; distinct = different (kind, shape, N, C)"

// c28Judge applies the intersection oracle to one measured quorum. It returns "" or the violation.
func c28Judge(kind string, n, c, q int) string {
	if 2*q-n < c+1 {
		return fmt.Sprintf("%s: N=%d C=%d measured least accepted signer count q=%d: two accepting signer sets overlap in only 2q-N=%d peers, fewer than C+1=%d, so they need not share a peer outside a set of C faulty ones", kind, n, c, q, 2*q-n, c+1)
	}
	return ""
}

func c28Record(ev *harn.Collector, kind, shape string, n, c, q int, signed bool) {
	ev.Class("kind:" + kind)
	if q > n-c {
		ev.Class("liveness:q>N-C:" + kind) // reported only
	}
	ev.Case(signed || c == (n-1)/3, fmt.Sprintf("%s/%s N=%d C=%d q=%d", kind, shape, n, c, q))
}

// allC calls f for every admissible fault bound of an N-peer configuration.
func allC(n int, f func(c int)) {
	for c := 1; 3*c+1 <= n; c++ {
		f(c)
	}
}

// ---------------------------------------------------------------------------------------------
// block validator and bookkeeper address

func TestC28_BlockValidator(t *testing.T) {
	ev := harn.For("C28").Rule(c28Rule)
	ev.Assume("VerifyBlock's only use of the ledger with completely=false is the previous header lookup; bookkeepers are P-256 keys")
	maxN := 10
	if harn.Thorough() {
		maxN = 16
	}
	if harn.Shard() != 0 { // small enumeration: one shard does it
		return
	}
	dir, cleanup := tempLedgerDir("verif-c28b-")
	defer cleanup()
	solo := fix.Key(fix.KP256, 30)
	chain, err := fix.NewSolo(dir, solo)
	if err != nil {
		t.Fatalf("NewSolo: %v", err)
	}
	defer chain.Close()
	ld := &ledger.Ledger{LedgerStore: chain.LS}
	keys := fix.P256(maxN)
	for n := 1; n <= maxN; n++ {
		var bks []keypair.PublicKey
		for _, k := range keys[:n] {
			bks = append(bks, k.PublicKey)
		}
		next, err := types.AddressFromBookkeepers(bks)
		if err != nil {
			t.Fatalf("AddressFromBookkeepers(%d keys): %v", n, err)
		}
		// bookkeeper multisig address: which m does the address commit to?
		qAddr := 1
		if n > 1 {
			qAddr = 0
			for m := 1; m <= n; m++ {
				a, err := types.AddressFromMultiPubKeys(bks, m)
				if err == nil && a == next {
					if qAddr != 0 {
						harn.Violation(t, "C28", map[string]int{"N": n}, "bookkeeper address of %d keys matches two thresholds %d and %d", n, qAddr, m)
					}
					qAddr = m
				}
			}
			if qAddr == 0 {
				harn.Violation(t, "C28", map[string]int{"N": n}, "bookkeeper address of %d keys matches no m-of-n multisig address", n)
			}
		}
		// a real block whose NextBookkeeper is the n-key address becomes the previous header
		b, err := chain.MakeBlock(nil, 0)
		if err != nil {
			t.Fatalf("MakeBlock: %v", err)
		}
		// the carrier must itself satisfy the ledger: listed and signed by ALL keys of the previous set
		ch := fix.RehashHeader(b.Header)
		ch.NextBookkeeper = next
		ch.Bookkeepers, ch.SigData = nil, nil
		ch = fix.RehashHeader(ch)
		chash := ch.Hash()
		prevSet := []*fix.ZooKey{solo}
		if n > 1 {
			prevSet = keys[:n-1]
		}
		for _, k := range prevSet {
			ch.Bookkeepers = append(ch.Bookkeepers, k.PublicKey)
			ch.SigData = append(ch.SigData, signFresh(k, chash))
		}
		b.Header = ch
		if _, err := chain.Apply(b); err != nil {
			t.Fatalf("apply carrier block for N=%d: %v", n, err)
		}
		prev := b.Header
		accept := func(k int, fromEnd bool, pad bool, repeat bool) bool {
			h := &types.Header{Version: 0, PrevBlockHash: prev.Hash(), Timestamp: prev.Timestamp + 1, Height: prev.Height + 1,
				ConsensusData: uint64(1000*n + k), NextBookkeeper: next}
			hash := h.Hash()
			h.Bookkeepers = bks
			mNeed := n - (n-1)/3
			if repeat && k >= 1 && k < mNeed {
				// k distinct signers, mNeed signatures: the signers are the keys listed at positions
				// mNeed-k..mNeed-1 and sign in their OWN slot; every earlier slot repeats one of those
				// signatures byte for byte (a signature placed before and in its signer's own slot)
				own := map[int][]byte{}
				for j := mNeed - k; j < mNeed; j++ {
					own[j] = signFresh(keys[j], hash)
				}
				for p := 0; p < mNeed; p++ {
					if sg, ok := own[p]; ok {
						h.SigData = append(h.SigData, sg)
					} else {
						h.SigData = append(h.SigData, own[mNeed-1-p%k])
					}
				}
			} else {
				for i := 0; i < k; i++ {
					s := keys[i]
					if fromEnd {
						s = keys[n-1-i]
					}
					h.SigData = append(h.SigData, signFresh(s, hash))
				}
			}
			if pad {
				for len(h.SigData) < n {
					h.SigData = append(h.SigData, []byte("garbage"))
				}
			}
			var verr error
			func() {
				defer func() {
					if r := recover(); r != nil {
						verr = fmt.Errorf("PANIC %v", r)
					}
				}()
				verr = validation.VerifyBlock(&types.Block{Header: h}, ld, false)
			}()
			return verr == nil
		}
		for _, variant := range []struct {
			name                 string
			fromEnd, pad, repeat bool
		}{{"first-k", false, false, false}, {"last-k", true, false, false}, {"first-k+garbage-padding", false, true, false},
			{"k-signers-in-own-slots+repeats-in-earlier-slots", false, false, true}} {
			q := -1
			for k := 0; k <= n; k++ {
				ok := accept(k, variant.fromEnd, variant.pad, variant.repeat)
				if ok && q < 0 {
					q = k
				}
				if !ok && q >= 0 {
					harn.Violation(t, "C28", map[string]int{"N": n, "k": k}, "VerifyBlock accepts %d valid signatures of %d bookkeepers but rejects %d (%s)", q, n, k, variant.name)
				}
			}
			if q < 0 {
				harn.Violation(t, "C28", map[string]int{"N": n}, "VerifyBlock rejects a block signed by all %d bookkeepers (%s)", n, variant.name)
			}
			if n < 4 {
				c28Record(ev, "block", variant.name, n, 0, q, true)
			}
			allC(n, func(c int) {
				if msg := c28Judge("block validator ("+variant.name+")", n, c, q); msg != "" {
					harn.Violation(t, "C28", map[string]int{"N": n, "C": c, "q": q}, "%s", msg)
				}
				c28Record(ev, "block", variant.name, n, c, q, true)
			})
		}
		if n < 4 {
			c28Record(ev, "bk-address", "m-of-n", n, 0, qAddr, false)
		}
		allC(n, func(c int) {
			if msg := c28Judge("bookkeeper multisig address", n, c, qAddr); msg != "" {
				harn.Violation(t, "C28", map[string]int{"N": n, "C": c, "q": qAddr}, "%s", msg)
			}
			c28Record(ev, "bk-address", "m-of-n", n, c, qAddr, false)
		})
	}
}

// ---------------------------------------------------------------------------------------------
// getCommitConsensus: pure counting

// commitShape builds commit messages in which exactly k distinct signers (proposer 1 included,
// implicit) stand behind proposer 1. Peer ids are 1..n; signer j is id j.
type commitShape struct {
	name  string
	build func(k int) []*vbft.VerifCommitMsg
}

var c28Sig = []byte{1}

func commitShapes(n, c int) []commitShape {
	mk := func(committer uint32, empty bool, from, to int) *vbft.VerifCommitMsg {
		m := &vbft.VerifCommitMsg{Committer: committer, BlockProposer: 1, BlockNum: 9, CommitForEmpty: empty}
		if to >= from {
			m.EndorsersSig = make(map[uint32][]byte, to-from+1)
			for j := from; j <= to; j++ {
				m.EndorsersSig[uint32(j)] = c28Sig
			}
		}
		return m
	}
	// the committers-only shapes are prefixes of one prebuilt list (getCommitConsensus only reads them)
	var only, half, allEmpty []*vbft.VerifCommitMsg
	for j := 2; j <= n; j++ {
		only = append(only, mk(uint32(j), false, 1, 0))
		half = append(half, mk(uint32(j), j%2 == 0, 1, 0))
		allEmpty = append(allEmpty, mk(uint32(j), true, 1, 0))
	}
	prefix := func(name string, list []*vbft.VerifCommitMsg) commitShape {
		return commitShape{name, func(k int) []*vbft.VerifCommitMsg {
			if k < 2 {
				return nil
			}
			return list[:k-1]
		}}
	}
	out := []commitShape{
		{"one-committer-naming-endorsers", func(k int) []*vbft.VerifCommitMsg {
			if k < 2 {
				return nil
			}
			return []*vbft.VerifCommitMsg{mk(2, false, 3, k)}
		}},
		prefix("committers-only", only),
		prefix("committers-only-half-empty", half),
		prefix("committers-only-all-empty", allEmpty),
		{"one-empty-committer-naming-endorsers", func(k int) []*vbft.VerifCommitMsg {
			if k < 2 {
				return nil
			}
			return []*vbft.VerifCommitMsg{mk(2, true, 3, k)}
		}},
		{"two-committers-overlapping-endorsers", func(k int) []*vbft.VerifCommitMsg {
			if k < 2 {
				return nil
			}
			if k < 3 {
				return []*vbft.VerifCommitMsg{mk(2, false, 1, 0)}
			}
			mid := 3 + (k-3)/2
			return []*vbft.VerifCommitMsg{mk(2, false, 4, mid+((k-mid)/2)), mk(3, false, mid, k)}
		}},
	}
	// e commit-for-empty messages ahead of plain ones: e = 1..n-1 for small n, around C above.
	var es []int
	if n <= 16 {
		for e := 1; e < n; e++ {
			es = append(es, e)
		}
	} else {
		es = []int{c + 1}
	}
	for _, e := range es {
		e := e
		// (a) the first e committers for proposer 1 commit for the empty block, the rest for the block
		var firstE []*vbft.VerifCommitMsg
		for j := 2; j <= n; j++ {
			firstE = append(firstE, mk(uint32(j), j-2 < e, 1, 0))
		}
		out = append(out, prefix(fmt.Sprintf("first-%d-committers-empty", e), firstE))
		// (b) e empty commits for e OTHER proposers (one each, from the highest peer ids that are not
		// among the k signers) arrive first, then plain commits for proposer 1
		var foreign []*vbft.VerifCommitMsg
		for i := 0; i < e; i++ {
			foreign = append(foreign, &vbft.VerifCommitMsg{Committer: uint32(n - i), BlockProposer: uint32(100000 + i), BlockNum: 9, CommitForEmpty: true})
		}
		out = append(out, commitShape{fmt.Sprintf("%d-empty-commits-for-other-proposers-first", e), func(k int) []*vbft.VerifCommitMsg {
			if k < 2 {
				return nil
			}
			avail := n - k // peers that are not signers for proposer 1
			if avail > e {
				avail = e
			}
			if avail < 0 {
				avail = 0
			}
			msgs := make([]*vbft.VerifCommitMsg, 0, avail+k-1)
			msgs = append(msgs, foreign[:avail]...)
			return append(msgs, only[:k-1]...)
		}})
	}
	return out
}

func commitDeclares(msgs []*vbft.VerifCommitMsg, c, n int) bool {
	p, _ := vbft.VerifGetCommitConsensus(msgs, c, n)
	return p == 1
}

// leastCommitK finds the least k in 0..n for which the shape makes getCommitConsensus declare
// proposer 1. Full scan for small n (checks monotonicity), binary search + boundary/spot checks above.
func leastCommitK(sh commitShape, c, n int) (q int, problem string) {
	ok := func(k int) bool { return commitDeclares(sh.build(k), c, n) }
	if n <= 64 {
		q = -1
		for k := 0; k <= n; k++ {
			d := ok(k)
			if d && q < 0 {
				q = k
			}
			if !d && q >= 0 {
				return q, fmt.Sprintf("declares with %d signers but not with %d", q, k)
			}
		}
		if q < 0 {
			return -1, "never declares, even with all N peers signing"
		}
		return q, ""
	}
	if !ok(n) {
		return -1, "never declares, even with all N peers signing"
	}
	lo, hi := 0, n // invariant: !ok(lo) , ok(hi)
	if ok(0) {
		return 0, ""
	}
	for hi-lo > 1 {
		mid := (lo + hi) / 2
		if ok(mid) {
			hi = mid
		} else {
			lo = mid
		}
	}
	q = hi
	for _, k := range []int{1, 2, q / 2, q - 2, q - 1} {
		if k >= 0 && k < q && ok(k) {
			return q, fmt.Sprintf("not monotone: declares with %d signers although the search found %d", k, q)
		}
	}
	for _, k := range []int{q + 1, q + 2, (q + n) / 2} {
		if k <= n && !ok(k) {
			return q, fmt.Sprintf("not monotone: declares with %d signers but not with %d", q, k)
		}
	}
	return q, ""
}

func c28CommitPure(t testing.TB, ev *harn.Collector, n int, cs []int) {
	for _, c := range cs {
		for _, sh := range commitShapes(n, c) {
			q, problem := leastCommitK(sh, c, n)
			if problem != "" {
				harn.Violation(t, "C28", map[string]interface{}{"N": n, "C": c, "shape": sh.name}, "getCommitConsensus N=%d C=%d shape %s: %s", n, c, sh.name, problem)
			}
			if msg := c28Judge("getCommitConsensus ("+sh.name+")", n, c, q); msg != "" {
				harn.Violation(t, "C28", map[string]interface{}{"N": n, "C": c, "q": q, "shape": sh.name}, "%s", msg)
			}
			c28Record(ev, "commit-count", sh.name, n, c, q, false)
		}
	}
}

func cSample(n int) []int {
	max := (n - 1) / 3
	if n <= 64 {
		var out []int
		for c := 1; c <= max; c++ {
			out = append(out, c)
		}
		return out
	}
	out := []int{1}
	if max/2 > 1 {
		out = append(out, max/2)
	}
	if max > 1 {
		out = append(out, max)
	}
	return out
}

func TestC28_CommitCountEnumerated(t *testing.T) {
	ev := harn.For("C28").Rule(c28Rule)
	maxN := 300
	if harn.Thorough() {
		maxN = 2000
	}
	for n := 4; n <= maxN; n++ {
		if n%harn.Shards() != harn.Shard() {
			continue
		}
		c28CommitPure(t, ev, n, cSample(n))
	}
	ev.Extra("commit_count_enumerated_max_N", maxN)
}

func TestC28_CommitCountRandomN(t *testing.T) {
	ev := harn.For("C28").Rule(c28Rule)
	harn.Check(t, 16, 480, func(t *rapid.T) {
		bits := rapid.IntRange(3, 20).Draw(t, "bits")
		n := rapid.IntRange(1<<(bits-1), 1<<bits-1).Draw(t, "N")
		switch rapid.IntRange(0, 3).Draw(t, "snap") {
		case 0:
			n = n - (n-1)%3 // 3j+1
		case 1:
			n = n - (n-1)%3 + 1
		}
		if n < 4 {
			n = 4
		}
		max := (n - 1) / 3
		c := rapid.SampledFrom([]int{1, max, max, rapid.IntRange(1, max).Draw(t, "cAny")}).Draw(t, "C")
		var sh commitShape
		if kind := rapid.IntRange(0, 3).Draw(t, "shape"); kind > 0 {
			// prefixes of one prebuilt committers-only list: plain / all for the empty block / the first C+1 for the empty block
			var only []*vbft.VerifCommitMsg
			for j := 2; j <= n; j++ {
				only = append(only, &vbft.VerifCommitMsg{Committer: uint32(j), BlockProposer: 1, BlockNum: 9, CommitForEmpty: kind == 2 || (kind == 3 && j-2 <= c)})
			}
			sh = commitShape{[]string{"", "committers-only", "committers-only-all-empty", "first-C+1-committers-empty"}[kind], func(k int) []*vbft.VerifCommitMsg {
				if k < 2 {
					return nil
				}
				return only[:k-1]
			}}
		} else {
			sh = commitShape{"one-committer-naming-endorsers", func(k int) []*vbft.VerifCommitMsg {
				if k < 2 {
					return nil
				}
				m := &vbft.VerifCommitMsg{Committer: 2, BlockProposer: 1, BlockNum: 9, EndorsersSig: make(map[uint32][]byte, k)}
				for j := 3; j <= k; j++ {
					m.EndorsersSig[uint32(j)] = c28Sig
				}
				return []*vbft.VerifCommitMsg{m}
			}}
		}
		q, problem := leastCommitK(sh, c, n)
		if problem != "" {
			t.Fatalf("getCommitConsensus N=%d C=%d shape %s: %s", n, c, sh.name, problem)
		}
		if msg := c28Judge("getCommitConsensus ("+sh.name+")", n, c, q); msg != "" {
			t.Fatalf("%s", msg)
		}
		ev.Class("kind:commit-count-random")
		c28Record(ev, "commit-count", sh.name, n, c, q, false)
	})
}

// ---------------------------------------------------------------------------------------------
// commitDone through a real BlockPool, genuine signatures

func TestC28_CommitPoolSigned(t *testing.T) {
	ev := harn.For("C28").Rule(c28Rule)
	maxN := 10
	if harn.Thorough() {
		maxN = 16
	}
	job := 0
	for n := 4; n <= maxN; n++ {
		for c := 1; 3*c+1 <= n; c++ {
			job++
			if job%harn.Shards() != harn.Shard() {
				continue
			}
			e := newPoolEnv(n, c)
			p := e.props[0]
			signers := append([]uint32{p.proposer}, e.others(p, n-1)...)
			foreign := e.props[1 : len(e.props)-1] // the other proposers' proposals (for the shape with empty commits for other proposers)
			for _, path := range []string{"commit-msg", "endorse-sigs", "commit-msgs-only", "commit-msgs-only-all-empty", "empty-commits-for-other-proposer-first",
				"endorse-normal-then-empty", "endorse-empty-then-normal", "endorse-empty-only"} {
				done := func(k int) bool {
					h := e.newHist(nil)
					if k >= 1 {
						if err := h.sendProposal(p); err != nil {
							t.Fatalf("genuine proposal rejected: %v", err)
						}
					}
					switch path {
					case "commit-msg": // one genuine committer bundling k-2 genuine endorsements
						if k >= 2 {
							end := map[uint32][]byte{}
							for _, s := range signers[2:k] {
								end[s] = signHash(e.key(s), p.hBlock)
							}
							if err := h.sendCommit(signers[1], e.commitMsg(signers[1], signers[1], p, false, p.hBlock, end), ""); err != nil {
								t.Fatalf("genuine commit rejected: %v", err)
							}
						}
					case "endorse-sigs": // k-1 genuine endorse messages, no commit message
						for _, s := range signers[1:max(1, k)] {
							e.honestEndorse(h, s, p, false)
						}
					case "commit-msgs-only": // k-1 genuine commit messages without endorser lists
						for _, s := range signers[1:max(1, k)] {
							if err := h.sendCommit(s, e.commitMsg(s, s, p, false, p.hBlock, nil), ""); err != nil {
								t.Fatalf("genuine commit rejected: %v", err)
							}
						}
					case "commit-msgs-only-all-empty": // k-1 genuine commit-for-empty messages
						for _, s := range signers[1:max(1, k)] {
							if err := h.sendCommit(s, e.commitMsg(s, s, p, true, p.hEmpty, nil), ""); err != nil {
								t.Fatalf("genuine empty commit rejected: %v", err)
							}
						}
					case "empty-commits-for-other-proposer-first":
						// up to C+1 peers that are NOT among the k signers first commit for the empty block of
						// another proposer (genuinely), then k-1 plain commits for p
						// (spread over the other proposers so that none of THEM reaches a quorum: at most Q-2 each)
						perForeign := (n - (n-1)/3) - 2
						placed := map[uint32]int{}
						cnt := 0
						for i := n - 1; i >= max(1, k) && cnt < c+1; i-- {
							s := signers[i]
							for _, f := range foreign {
								if s != f.proposer && placed[f.proposer] < perForeign {
									if placed[f.proposer] == 0 {
										if err := h.sendProposal(f); err != nil {
											t.Fatalf("genuine proposal rejected: %v", err)
										}
									}
									if err := h.sendCommit(s, e.commitMsg(s, s, f, true, f.hEmpty, nil), ""); err != nil {
										t.Fatalf("genuine empty commit rejected: %v", err)
									}
									placed[f.proposer]++
									cnt++
									break
								}
							}
						}
						for _, s := range signers[1:max(1, k)] {
							if err := h.sendCommit(s, e.commitMsg(s, s, p, false, p.hBlock, nil), ""); err != nil {
								t.Fatalf("genuine commit rejected: %v", err)
							}
						}
					case "endorse-normal-then-empty": // every signer endorses p's block and later p's empty block
						for _, s := range signers[1:max(1, k)] {
							e.honestEndorse(h, s, p, false)
						}
						for _, s := range signers[1:max(1, k)] {
							e.honestEndorse(h, s, p, true)
						}
					case "endorse-empty-then-normal":
						for _, s := range signers[1:max(1, k)] {
							e.honestEndorse(h, s, p, true)
							e.honestEndorse(h, s, p, false)
						}
					case "endorse-empty-only":
						for _, s := range signers[1:max(1, k)] {
							e.honestEndorse(h, s, p, true)
						}
					}
					P, _, d := h.pool.CommitDone(c31Blk, uint32(c), uint32(n))
					if d && P != p.proposer {
						harn.Violation(t, "C28", map[string]int{"N": n, "C": c, "k": k}, "commitDone declares proposer %d, all messages were for %d", P, p.proposer)
					}
					if d {
						// sanity of the measurement itself: the signers really are genuine and distinct
						if v := h.verdict(P); v.V != k {
							t.Fatalf("harness: built %d genuine signers, oracle sees %d (%s)", k, v.V, v)
						}
					}
					return d
				}
				q := -1
				for k := 0; k <= n; k++ {
					d := done(k)
					if d && q < 0 {
						q = k
					}
					if !d && q >= 0 {
						harn.Violation(t, "C28", map[string]interface{}{"N": n, "C": c, "path": path}, "commitDone (%s) declares with %d genuine signers but not with %d (N=%d C=%d)", path, q, k, n, c)
					}
				}
				if q < 0 {
					ev.Class("pool:" + path + ":never-declares") // liveness, not part of C28
					continue
				}
				if msg := c28Judge("commitDone via BlockPool ("+path+", genuine signatures)", n, c, q); msg != "" {
					harn.Violation(t, "C28", map[string]interface{}{"N": n, "C": c, "q": q, "path": path}, "%s", msg)
				}
				c28Record(ev, "commit-pool", path, n, c, q, true)
			}
		}
	}
}

// ---------------------------------------------------------------------------------------------
// header check on VBFT ledgers

// c28HeaderWitness: N=7, C=2 — two headers accepted one after the other whose valid signer sets
// are {peer0} and {peer3}: accepting signer sets that do not intersect at all.
func c28HeaderWitness() (bool, string) {
	l := newC32Ledger(7, 2)
	defer l.cleanup()
	a := l.deliver(c32Header{list: []int{0, 1, 2}, sigs: []c32Sig{{"valid", 0}}, tsDelta: 1})
	b := l.deliver(c32Header{list: []int{3, 4, 5}, sigs: []c32Sig{{"valid", 3}}, tsDelta: 1})
	return a.accepted && b.accepted && a.D == 1 && b.D == 1,
		fmt.Sprintf("N=7 C=2: header listing members {0,1,2} signed only by 0 accepted=%v; header listing {3,4,5} signed only by 3 accepted=%v", a.accepted, b.accepted)
}

func TestC28_HeaderCheck(t *testing.T) {
	ev := harn.For("C28").Rule(c28Rule)
	ev.Assume("VBFT ledgers need N >= 7 (governance genesis); header listings contain distinct members only (duplicates and non-members are C32's domain)")
	fails, wmsg := c28HeaderWitness()
	known := harn.Known("C28", c28KeyHeader, fails)
	ev.Case(true, "witness "+c28KeyHeader+": "+wmsg)
	if fails && !known {
		defer harn.Violation(t, "C28", map[string]string{"witness": c28KeyHeader}, "[%s] two accepted headers with disjoint signer sets: %s", c28KeyHeader, wmsg)
	}
	maxN := 10
	if harn.Thorough() {
		maxN = 16
	}
	job := 0
	for n := 7; n <= maxN; n++ {
		for c := 1; 3*c+1 <= n; c++ {
			job++
			if job%harn.Shards() != harn.Shard() {
				continue
			}
			l := newC32Ledger(n, c)
			qSig, qListed := math.MaxInt32, math.MaxInt32
			mk := func(L, k int) c32Header {
				spec := c32Header{tsDelta: 1}
				for i := 0; i < L; i++ {
					spec.list = append(spec.list, (i+L)%n) // vary which members are listed
				}
				for i := 0; i < k; i++ {
					spec.sigs = append(spec.sigs, c32Sig{"valid", spec.list[i]})
				}
				return spec
			}
			for L := 1; L <= n; L++ {
				for k := 0; k <= L; k++ {
					r := l.deliver(mk(L, k))
					if r.accepted {
						if r.D != k {
							l.cleanup()
							t.Fatalf("harness: built %d valid signatures, oracle sees %d", k, r.D)
						}
						if k < qSig {
							qSig = k
						}
						break // least k for this L found
					}
				}
				if qListed == math.MaxInt32 && l.deliver(mk(L, L)).accepted {
					qListed = L
				}
			}
			l.cleanup()
			if qSig == math.MaxInt32 {
				harn.Violation(t, "C28", map[string]int{"N": n, "C": c}, "AddHeaders rejects every header, even one signed by all %d members", n)
			}
			c28Record(ev, "header", "least-valid-signatures", n, c, qSig, true)
			ev.Class(fmt.Sprintf("header:qSig=%d", qSig))
			if msg := c28Judge("header check (AddHeaders)", n, c, qSig); msg != "" {
				if known && qSig == mCode(n) && qListed == max(mCode(n), c+1) {
					ev.Excluded()
					continue
				}
				harn.Violation(t, "C28", map[string]int{"N": n, "C": c, "q": qSig, "qListed": qListed}, "%s (least fully signed listing accepted: %d members; the code's formula n-6n/7 gives %d)", msg, qListed, mCode(n))
			}
		}
	}
}

var _ = common.UINT256_EMPTY
