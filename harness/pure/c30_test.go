package pure

// C30 Chain configuration is a deterministic function of the stake set.
// Oracles: metamorphic — GenesisChainConfig of two generated permutations of the same peer set must be deeply equal;
// independent predicates on the result — selected set is a top-K set by stake, every selected peer has >= 1 slot,
// slot counts are non-increasing along descending stake, the position table only names selected peers.

import (
	"fmt"
	"reflect"
	"sort"
	"strings"
	"testing"

	"github.com/ontio/ontology/common"
	"github.com/ontio/ontology/common/config"
	vconfig "github.com/ontio/ontology/consensus/vbft/config"
	"pgregory.net/rapid"

	"verifharness/internal/harn"
)

type c30Case struct {
	peers  []*config.VBFTPeerStakeInfo
	cfg    *config.VBFTConfig
	txhash common.Uint256
	height uint32
	ties   bool // a stake value occurs more than once
	skew   bool
}

func c30Copy(p []*config.VBFTPeerStakeInfo, order []int) []*config.VBFTPeerStakeInfo {
	out := make([]*config.VBFTPeerStakeInfo, len(p))
	for i, j := range order {
		c := *p[j]
		out[i] = &c
	}
	return out
}

// c30Gen draws a peer set with distinct keys and indexes, tie-heavy / zero / skewed stakes and a valid (K,L,C).
func c30Gen(t *rapid.T) *c30Case {
	n := rapid.IntRange(3, 40).Draw(t, "n")
	if rapid.IntRange(0, 3).Draw(t, "atLeast7") != 0 && n < 7 {
		n += 7
	}
	stakeKind := rapid.IntRange(0, 5).Draw(t, "stakeKind")
	pool := rapid.SliceOfN(rapid.Uint64Range(0, 1000000), 1, 4).Draw(t, "stakePool")
	c := &c30Case{}
	keyStyle := rapid.IntRange(0, 2).Draw(t, "keyStyle")
	seenKey := map[string]bool{}
	idxs := rapid.Permutation(func() []uint32 {
		base := uint32(rapid.IntRange(1, 1000).Draw(t, "indexBase"))
		o := make([]uint32, n)
		for i := range o {
			o[i] = base + uint32(i)
		}
		return o
	}()).Draw(t, "indexes")
	for i := 0; i < n; i++ {
		var key string
		for {
			var raw []byte
			switch keyStyle {
			case 0: // realistic 33-byte compressed key hex
				raw = append([]byte{byte(2 + rapid.IntRange(0, 1).Draw(t, "parity"))}, rapid.SliceOfN(rapid.Byte(), 32, 32).Draw(t, "key")...)
			case 1: // keys sharing a long prefix
				raw = append([]byte{2, 0xaa, 0xaa, 0xaa}, rapid.SliceOfN(rapid.SampledFrom([]byte{0, 1, 0xff}), 2, 6).Draw(t, "keytail")...)
			default:
				raw = rapid.SliceOfN(rapid.Byte(), 1, 4).Draw(t, "shortkey")
			}
			key = fmt.Sprintf("%x", raw)
			if rapid.IntRange(0, 7).Draw(t, "upper") == 0 {
				key = strings.ToUpper(key) // hex case is not normalised by the code under test
			}
			if lk := strings.ToLower(key); !seenKey[lk] { // distinct as keys, not only as strings
				seenKey[lk] = true
				break
			}
		}
		var stake uint64
		switch stakeKind {
		case 0: // all equal
			stake = pool[0]
		case 1: // few distinct values: many ties
			stake = rapid.SampledFrom(pool).Draw(t, "stake")
		case 2: // zeros mixed in
			if rapid.Bool().Draw(t, "zero") {
				stake = 0
			} else {
				stake = rapid.SampledFrom(pool).Draw(t, "stake")
			}
		case 3: // heavily skewed: one or two whales, dust for the rest
			if i < 2 {
				stake = rapid.Uint64Range(100000000, 1000000000000).Draw(t, "whale")
			} else {
				stake = rapid.Uint64Range(0, 3).Draw(t, "dust")
			}
		case 4: // all zero
			stake = 0
		default:
			stake = rapid.Uint64Range(0, 1000000000).Draw(t, "stake")
		}
		c.peers = append(c.peers, &config.VBFTPeerStakeInfo{Index: idxs[i], PeerPubkey: key, InitPos: stake})
	}
	// valid (K, L, C): C >= 1, 2C+1 <= K <= n, L multiple of K, L >= 2K
	k := rapid.IntRange(3, n).Draw(t, "K")
	cc := rapid.IntRange(1, (k-1)/2).Draw(t, "C")
	mult := rapid.SampledFrom([]int{2, 2, 3, 4, 16, 17, 64}).Draw(t, "LoverK")
	c.cfg = &config.VBFTConfig{N: uint32(n), C: uint32(cc), K: uint32(k), L: uint32(k * mult),
		BlockMsgDelay: 10000, HashMsgDelay: 10000, PeerHandshakeTimeout: 10, MaxBlockChangeView: 3000}
	copy(c.txhash[:], rapid.SliceOfN(rapid.Byte(), 32, 32).Draw(t, "txhash"))
	c.height = rapid.Uint32().Draw(t, "height")
	seen := map[uint64]bool{}
	for _, p := range c.peers {
		if seen[p.InitPos] {
			c.ties = true
		}
		seen[p.InitPos] = true
	}
	c.skew = stakeKind == 3
	return c
}

func c30Run(t *rapid.T, c *c30Case, order []int) *vconfig.ChainConfig {
	peers := c30Copy(c.peers, order)
	cfgCopy := *c.cfg
	var out *vconfig.ChainConfig
	var err error
	func() {
		defer func() {
			if r := recover(); r != nil {
				t.Fatalf("GenesisChainConfig panicked: %v; %s", r, c30Desc(c))
			}
		}()
		out, err = vconfig.GenesisChainConfig(&cfgCopy, peers, c.txhash, c.height)
	}()
	if err != nil {
		t.Fatalf("GenesisChainConfig rejected a valid configuration: %v; %s", err, c30Desc(c))
	}
	return out
}

func c30Desc(c *c30Case) string {
	var sb strings.Builder
	fmt.Fprintf(&sb, "K=%d L=%d C=%d h=%d tx=%x peers=", c.cfg.K, c.cfg.L, c.cfg.C, c.height, c.txhash[:4])
	for _, p := range c.peers {
		fmt.Fprintf(&sb, "%d:%s:%d ", p.Index, p.PeerPubkey, p.InitPos)
	}
	s := sb.String()
	return s
}

func c30PeerList(cc *vconfig.ChainConfig) string {
	var sb strings.Builder
	for _, p := range cc.Peers {
		fmt.Fprintf(&sb, "%d:%s ", p.Index, p.ID)
	}
	return sb.String()
}

const c30Rule = "peer sets of 3..47 peers with distinct hex keys (realistic, long shared prefix, very short; some upper case) and distinct indexes; stakes all-equal / few distinct values / zeros / " +
	"two whales and dust / all zero / uniform; valid K in [3,n], C in [1,(K-1)/2], L in K*{2,3,4,16,17,64}; two generated permutations of the input order; " +
	"non-trivial = the two permutations differ and (some stake is tied or K < n); distinct = different (peer set, K, L, C, tx hash, height)"

func c30Orders(t *rapid.T, n int) ([]int, []int) {
	id := make([]int, n)
	for i := range id {
		id[i] = i
	}
	a := rapid.Permutation(id).Draw(t, "orderA")
	var b []int
	if rapid.IntRange(0, 4).Draw(t, "reverse") == 0 {
		b = make([]int, n)
		for i := range a {
			b[n-1-i] = a[i]
		}
	} else {
		b = rapid.Permutation(id).Draw(t, "orderB")
	}
	return a, b
}

func TestC30_PermutationInvariant(t *testing.T) {
	ev := harn.For("C30").Rule(c30Rule)
	ev.Floor("case:ties", "perm:cases", 0.3)
	harn.Check(t, 15000, 200000, func(t *rapid.T) {
		c := c30Gen(t)
		a, b := c30Orders(t, len(c.peers))
		ca := c30Run(t, c, a)
		cb := c30Run(t, c, b)
		if !reflect.DeepEqual(ca, cb) {
			what := "other fields"
			if c30PeerList(ca) != c30PeerList(cb) {
				what = fmt.Sprintf("Peers: [%s] vs [%s]", c30PeerList(ca), c30PeerList(cb))
			} else if !reflect.DeepEqual(ca.PosTable, cb.PosTable) {
				what = fmt.Sprintf("PosTable: %v vs %v", ca.PosTable, cb.PosTable)
			}
			t.Fatalf("chain configuration depends on the input order of the peers (orders %v and %v): %s; %s", a, b, what, c30Desc(c))
		}
		// a third evaluation of the first order: the function is repeatable (no hidden state)
		if cc := c30Run(t, c, a); !reflect.DeepEqual(ca, cc) {
			t.Fatalf("GenesisChainConfig is not repeatable for the same input; %s", c30Desc(c))
		}
		differ := !reflect.DeepEqual(a, b)
		ev.Class("perm:cases")
		if c.ties {
			ev.Class("case:ties")
		}
		if int(c.cfg.K) < len(c.peers) {
			ev.Class("case:K<n")
		}
		ev.Case(differ && (c.ties || int(c.cfg.K) < len(c.peers)), "perm "+c30Desc(c))
	})
}

// TestC30_NarrowStakes is the permutation check over stake sets whose values lie within a factor 4
// of each other. Any mis-computed intermediate (a sum over the wrong peers, a wrong scale) then stays
// within a small factor of the right one, so a broken implementation yields a *different* table of
// ordinary size instead of a table of billions of entries that only shows as a time-out.
func TestC30_NarrowStakes(t *testing.T) {
	ev := harn.For("C30").Rule(c30Rule)
	harn.Check(t, 6000, 80000, func(t *rapid.T) {
		c := c30Gen(t)
		base := rapid.Uint64Range(1000, 1000000).Draw(t, "narrowBase")
		seen := map[uint64]bool{}
		c.ties = false
		for _, p := range c.peers {
			p.InitPos = base * uint64(100+rapid.IntRange(0, 300).Draw(t, "narrowPct")) / 100
			if seen[p.InitPos] {
				c.ties = true
			}
			seen[p.InitPos] = true
		}
		c.skew = false
		a, b := c30Orders(t, len(c.peers))
		ca := c30Run(t, c, a)
		cb := c30Run(t, c, b)
		if !reflect.DeepEqual(ca, cb) {
			what := "other fields"
			if c30PeerList(ca) != c30PeerList(cb) {
				what = fmt.Sprintf("Peers: [%s] vs [%s]", c30PeerList(ca), c30PeerList(cb))
			} else if !reflect.DeepEqual(ca.PosTable, cb.PosTable) {
				what = fmt.Sprintf("PosTable lengths %d vs %d", len(ca.PosTable), len(cb.PosTable))
			}
			t.Fatalf("chain configuration depends on the input order of the peers (orders %v and %v): %s; %s", a, b, what, c30Desc(c))
		}
		ev.Class("narrow:cases")
		if int(c.cfg.K) < len(c.peers) {
			ev.Class("narrow:K<n")
		}
		ev.Case(!reflect.DeepEqual(a, b) && int(c.cfg.K) < len(c.peers), "narrow "+c30Desc(c))
	})
}

func TestC30_TopKAndSlots(t *testing.T) {
	ev := harn.For("C30").Rule(c30Rule)
	ev.Floor("case:skewed", "topk:cases", 0.08)
	ev.Floor("case:boundary-tie", "topk:cases", 0.05)
	harn.Check(t, 15000, 200000, func(t *rapid.T) {
		c := c30Gen(t)
		a, _ := c30Orders(t, len(c.peers))
		cc := c30Run(t, c, a)
		k := int(c.cfg.K)
		if cc.N != c.cfg.K || cc.C != c.cfg.C {
			t.Fatalf("ChainConfig N=%d C=%d for K=%d C=%d; %s", cc.N, cc.C, c.cfg.K, c.cfg.C, c30Desc(c))
		}
		if len(cc.Peers) != k {
			t.Fatalf("ChainConfig lists %d peers, K=%d; %s", len(cc.Peers), k, c30Desc(c))
		}
		stake := map[uint32]uint64{}
		key := map[uint32]string{}
		for _, p := range c.peers {
			stake[p.Index] = p.InitPos
			key[p.Index] = p.PeerPubkey
		}
		selected := map[uint32]bool{}
		minSel := ^uint64(0)
		for _, p := range cc.Peers {
			if p == nil {
				t.Fatalf("nil peer in ChainConfig.Peers; %s", c30Desc(c))
			}
			if _, ok := stake[p.Index]; !ok || key[p.Index] != p.ID {
				t.Fatalf("selected peer %d:%s is not one of the input peers; %s", p.Index, p.ID, c30Desc(c))
			}
			if selected[p.Index] {
				t.Fatalf("peer %d selected twice; %s", p.Index, c30Desc(c))
			}
			selected[p.Index] = true
			if stake[p.Index] < minSel {
				minSel = stake[p.Index]
			}
		}
		// exactly the K highest-staked peers: no unselected peer has more stake than a selected one
		boundaryTie := false
		for _, p := range c.peers {
			if !selected[p.Index] {
				if p.InitPos > minSel {
					t.Fatalf("peer %d with stake %d is not selected although a selected peer has only %d; selected [%s]; %s", p.Index, p.InitPos, minSel, c30PeerList(cc), c30Desc(c))
				}
				if p.InitPos == minSel {
					boundaryTie = true
				}
			}
		}
		// independent top-K multiset of stakes
		all := make([]uint64, 0, len(c.peers))
		for _, p := range c.peers {
			all = append(all, p.InitPos)
		}
		sort.Slice(all, func(i, j int) bool { return all[i] > all[j] })
		sel := make([]uint64, 0, k)
		for _, p := range cc.Peers {
			sel = append(sel, stake[p.Index])
		}
		sorted := append([]uint64{}, sel...)
		sort.Slice(sorted, func(i, j int) bool { return sorted[i] > sorted[j] })
		if !reflect.DeepEqual(sorted, all[:k]) {
			t.Fatalf("stakes of the selected peers %v are not the K largest stakes %v; %s", sorted, all[:k], c30Desc(c))
		}
		// slots
		slots := map[uint32]int{}
		for _, idx := range cc.PosTable {
			if !selected[idx] {
				t.Fatalf("position table names peer %d which is not selected; %s", idx, c30Desc(c))
			}
			slots[idx]++
		}
		for _, p := range cc.Peers {
			if slots[p.Index] < 1 {
				t.Fatalf("selected peer %d (stake %d) has no slot in the position table %v; %s", p.Index, stake[p.Index], cc.PosTable, c30Desc(c))
			}
		}
		for _, p := range cc.Peers {
			for _, q := range cc.Peers {
				if stake[p.Index] > stake[q.Index] && slots[p.Index] < slots[q.Index] {
					t.Fatalf("peer %d with stake %d has %d slots, fewer than peer %d with stake %d and %d slots; %s",
						p.Index, stake[p.Index], slots[p.Index], q.Index, stake[q.Index], slots[q.Index], c30Desc(c))
				}
			}
		}
		ev.Class("topk:cases")
		if c.skew {
			ev.Class("case:skewed")
		}
		if boundaryTie {
			ev.Class("case:boundary-tie")
		}
		distinctSlots := map[int]bool{}
		for _, s := range slots {
			distinctSlots[s] = true
		}
		if len(distinctSlots) > 1 {
			ev.Class("case:unequal-slot-counts")
		}
		ev.Case(k < len(c.peers) || len(distinctSlots) > 1, "topk "+c30Desc(c))
	})
}
