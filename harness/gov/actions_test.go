package gov

// State-aware action generator: ~70 % of the actions are built valid-by-construction from the observed
// state (sorted candidate lists), the rest take arbitrary arguments and signer sets.

import (
	"fmt"
	"math"
	"math/bits"
	"strings"

	"github.com/ontio/ontology/common"
	gov "github.com/ontio/ontology/smartcontract/service/native/governance"
	"github.com/ontio/ontology/smartcontract/service/native/ont"
	nutils "github.com/ontio/ontology/smartcontract/service/native/utils"
	"pgregory.net/rapid"
)

type gen struct{ t *rapid.T }

// rapid's integer generators are deliberately biased towards small values and range bounds. That is what
// one wants for amounts (rng) but not for categorical choices (which action, which node, percentages): those
// are drawn uniformly, built from unbiased coin flips with rejection (shrinks towards index 0).
var uniformGens = map[int]*rapid.Generator[int]{}

func uniform(n int) *rapid.Generator[int] {
	if g, ok := uniformGens[n]; ok {
		return g
	}
	k := bits.Len(uint(n - 1))
	g := rapid.Custom(func(t *rapid.T) int {
		for {
			v := 0
			for i := 0; i < k; i++ {
				if rapid.Bool().Draw(t, "b") {
					v |= 1 << i
				}
			}
			if v < n {
				return v
			}
		}
	})
	uniformGens[n] = g
	return g
}

func (g gen) n(label string, n int) int {
	if n <= 1 {
		return 0
	}
	return uniform(n).Draw(g.t, label)
}
func (g gen) pct(label string) int { return g.n(label, 100) }
func (g gen) rng(label string, lo, hi uint64) uint64 {
	if hi <= lo {
		return lo
	}
	return rapid.Uint64Range(lo, hi).Draw(g.t, label)
}
func (g gen) of(label string, vs ...uint64) uint64 { return vs[g.n(label, len(vs))] }

type profile struct {
	name      string
	w         map[string]int
	arbitrary int // percent of arbitrary actions
	prelude   int // percent of histories that start with the candidate-node prelude
}

var kinds = []string{"registerCandidate", "unRegisterCandidate", "quitNode", "authorizeForPeer", "unAuthorizeForPeer", "withdraw",
	"withdrawOng", "withdrawFee", "addInitPos", "reduceInitPos", "setPeerCost", "changeMaxAuthorization", "setFeePercentage",
	"blackNode", "whiteNode", "updateGlobalParam", "updateGlobalParam2", "setGasAddress", "income", "commitDpos", "transferPenalty"}

var profMixed = &profile{name: "mixed", arbitrary: 30, prelude: 50, w: map[string]int{"registerCandidate": 7, "unRegisterCandidate": 1, "quitNode": 5,
	"authorizeForPeer": 13, "unAuthorizeForPeer": 8, "withdraw": 10, "withdrawOng": 2, "withdrawFee": 5, "addInitPos": 3, "reduceInitPos": 3,
	"setPeerCost": 4, "changeMaxAuthorization": 6, "setFeePercentage": 4, "blackNode": 3, "whiteNode": 2, "updateGlobalParam": 3,
	"updateGlobalParam2": 3, "setGasAddress": 2, "income": 8, "commitDpos": 17, "transferPenalty": 1}}

// fee-split focus: authorizers, costs, split parameters, income, epochs
var profSplit = &profile{name: "split", arbitrary: 25, prelude: 40, w: map[string]int{"registerCandidate": 6, "unRegisterCandidate": 1, "quitNode": 2,
	"authorizeForPeer": 16, "unAuthorizeForPeer": 11, "withdraw": 4, "withdrawOng": 1, "withdrawFee": 7, "addInitPos": 3, "reduceInitPos": 2,
	"setPeerCost": 6, "changeMaxAuthorization": 7, "setFeePercentage": 6, "blackNode": 2, "whiteNode": 1, "updateGlobalParam": 5,
	"updateGlobalParam2": 5, "setGasAddress": 3, "income": 10, "commitDpos": 20, "transferPenalty": 1}}

// custody focus: nodes come and go, stakes are frozen, unfrozen, penalised and withdrawn
var profCustody = &profile{name: "custody", arbitrary: 30, prelude: 60, w: map[string]int{"registerCandidate": 10, "unRegisterCandidate": 1, "quitNode": 8,
	"authorizeForPeer": 12, "unAuthorizeForPeer": 8, "withdraw": 14, "withdrawOng": 2, "withdrawFee": 2, "addInitPos": 4, "reduceInitPos": 4,
	"setPeerCost": 1, "changeMaxAuthorization": 6, "setFeePercentage": 1, "blackNode": 8, "whiteNode": 3, "updateGlobalParam": 3,
	"updateGlobalParam2": 2, "setGasAddress": 1, "income": 2, "commitDpos": 18, "transferPenalty": 2}}

var G = nutils.GovernanceContractAddress

// percentage of the valid-by-construction steps whose keys are passed in an alternative hex spelling
const altSpellingPct = 8

// tick advances block height and time before the next transaction.
func (h *hist) tick(dh, dt uint32) {
	h.n.Height += dh
	h.n.Time += dt
}

func (h *hist) drawTick() {
	var dh, dt uint32
	switch p := h.g.pct("dh"); {
	case p < 8:
		dh = 0
	case p < 68:
		dh = 1
	case p < 84:
		dh = uint32(h.g.rng("dhN", 2, 100))
	default:
		dh = h.s.cfg.MaxBlockChangeView
	}
	switch p := h.g.pct("dt"); {
	case p < 10:
		dt = 0
	case p < 70:
		dt = uint32(h.g.rng("dtN", 1, 30))
	case p < 90:
		dt = 3600
	default:
		dt = 86400
	}
	h.tick(dh, dt)
}

// signers: the required witness, sometimes with bystanders.
func (h *hist) sigs(req common.Address) []common.Address {
	out := []common.Address{req}
	if h.g.pct("extraSig") < 25 {
		x := h.anySigner("sigX")
		if h.g.pct("sigFront") < 50 {
			out = append([]common.Address{x}, out...)
		} else {
			out = append(out, x)
		}
	}
	return out
}

func (h *hist) anyAddr(label string) common.Address {
	pool := append(append([]common.Address{}, h.w.tracked...), h.w.admin, G, common.ADDRESS_EMPTY, h.w.dapps[0])
	return pool[h.g.n(label, len(pool))]
}

// anySigner: only accounts that can sign a transaction. Contract addresses (governance, ONT, the zero address)
// have no key: a transaction can never carry them as witness, and the contract relies on that (a forged
// governance witness would let registerCandidate record a stake whose ONT transfer is a self-transfer).
func (h *hist) anySigner(label string) common.Address {
	pool := append(append([]common.Address{}, h.w.tracked...), h.w.admin, h.w.bank, h.w.dapps[0])
	return pool[h.g.n(label, len(pool))]
}

func (h *hist) canSign(a common.Address) bool {
	return a != G && a != common.ADDRESS_EMPTY
}

func (h *hist) anySigs(hint common.Address) []common.Address {
	var out []common.Address
	if h.g.pct("sigHint") < 55 && h.canSign(hint) {
		out = append(out, hint)
	}
	for i, k := 0, h.g.n("sigN", 3); i < k; i++ {
		out = append(out, h.anySigner("sigA"))
	}
	return out
}

func (h *hist) anyPub(label string) string {
	switch p := h.g.pct(label + "K"); {
	case p < 82:
		return h.w.nodes[h.g.n(label, len(h.w.nodes))].pub
	case p < 90:
		alt, _ := h.respell(label+"Sp", h.w.nodes[h.g.n(label, len(h.w.nodes))].pub)
		return alt
	default:
		return []string{"", "zz", "0102", "03" + strings.Repeat("ab", 32)}[h.g.n(label+"Bad", 4)]
	}
}

// respell returns another hex spelling of the same key bytes: all upper-case, a single upper-case digit, or mixed
// case. The second result is false when no other spelling exists (a key without any of the digits a-f).
// hex.DecodeString accepts every such spelling, so a transaction may carry any of them; the reference model
// identifies a peer by the decoded bytes (canon), whatever the spelling.
func (h *hist) respell(label, pub string) (string, bool) {
	low := canon(pub)
	var letters []int
	for i := 0; i < len(low); i++ {
		if low[i] >= 'a' && low[i] <= 'f' {
			letters = append(letters, i)
		}
	}
	if len(letters) == 0 {
		return pub, false
	}
	b := []byte(low)
	style := "upper"
	switch h.g.n(label+"Style", 4) {
	case 2:
		style = "oneDigit"
		b[letters[h.g.n(label+"One", len(letters))]] -= 'a' - 'A'
	case 3:
		style = "mixed"
		mask := 1 + h.g.n(label+"Mask", 0xffff)
		for j, i := range letters {
			if mask>>(uint(j)%16)&1 == 1 {
				b[i] -= 'a' - 'A'
			}
		}
	default:
		b = []byte(strings.ToUpper(low))
	}
	out := string(b)
	if out == low {
		b[letters[0]] -= 'a' - 'A'
		out = string(b)
	}
	if out == pub { // the state itself held a non-canonical spelling
		out = low
	}
	h.ev.Class("spelling:" + style)
	return out, true
}

// sp spells a key taken from the observed state for the call being built: as observed, or, while the step is
// in alternative-spelling mode (h.alt, drawn per step in next), in another spelling of the same bytes.
func (h *hist) sp(pub string) string {
	if !h.alt {
		return pub
	}
	out, ok := h.respell("sp", pub)
	if ok {
		h.altHit = true
	}
	return out
}

func (h *hist) anyPos(label string) uint32 {
	return uint32(h.g.of(label, 0, 1, 499, 500, 501, 1000, 1500, 5000, 10000, 100000, 1<<31, math.MaxUint32))
}

// repeatUnits plans a list that names the SAME peer k = 2..3 times in one call (withdraw, authorizeForPeer,
// unAuthorizeForPeer take parallel lists of peers and amounts and process them entry by entry, each entry seeing what
// the entries before it left). max >= 1 is what the state offers for that peer, in units (1 ONT for withdraw,
// MinAuthorizePos for the other two). Every amount is individually valid (1..max units); their sum is below max,
// equal to max, or exceeds it (mode). A mode the state cannot carry degrades: below -> equal -> (k=2) -> exceeds.
func (h *hist) repeatUnits(label string, max uint64, exceedsPct, equalPct int) (mode string, parts []uint64) {
	g := h.g
	k := 2
	if g.pct(label+"K") < 35 {
		k = 3
	}
	switch r := g.pct(label + "Mode"); {
	case r < exceedsPct:
		mode = "exceeds"
	case r < exceedsPct+equalPct:
		mode = "equal"
	default:
		mode = "below"
	}
	if mode == "below" && max < uint64(k)+1 {
		mode = "equal"
	}
	if mode == "equal" && max < uint64(k) {
		k = 2
	}
	if mode == "equal" && max < uint64(k) {
		mode = "exceeds"
	}
	split := func(total uint64) []uint64 { // k parts >= 1 with the given sum (total >= k)
		out := make([]uint64, k)
		rest := total
		for i := 0; i < k-1; i++ {
			room := rest - uint64(k-1-i)
			out[i] = g.of(label+"Part", 1, room, (room+1)/2, g.rng(label+"PartR", 1, room))
			rest -= out[i]
		}
		out[k-1] = rest
		return out
	}
	switch mode {
	case "equal":
		parts = split(max)
	case "below":
		t := g.of(label+"Sum", uint64(k), uint64(k)+1, max-1, max-1, g.rng(label+"SumR", uint64(k), max-1))
		if t > max-1 {
			t = max - 1
		}
		parts = split(t)
	default:
		var sum uint64
		for i := 0; i < k; i++ {
			v := g.of(label+"Over", 1, max, max, (max+1)/2, g.rng(label+"OverR", 1, max))
			parts = append(parts, v)
			sum += v
		}
		if sum <= max {
			parts[k-1] = max
		}
	}
	return mode, parts
}

// tagRepeat marks an action whose list names one peer more than once.
func tagRepeat(a *action, mode string) *action {
	a.rep = mode
	if mode == "exceeds" { // the entries are valid one by one, the call as a whole is not
		a.valid = false
	}
	return a
}

func (h *hist) sigNames(s []common.Address) string {
	n := make([]string, len(s))
	for i, a := range s {
		n[i] = h.w.name(a)
	}
	return "[" + strings.Join(n, ",") + "]"
}

// ---------------------------------------------------------------------------------------------
// constructors (argument encoding through the contract's exported parameter types)

func (h *hist) mk(kind, method string, args []byte, signers []common.Address, valid bool, format string, a ...interface{}) *action {
	return &action{kind: kind, contract: G, method: method, args: args, signers: signers, valid: valid,
		desc: fmt.Sprintf("%s(%s)%s", kind, fmt.Sprintf(format, a...), h.sigNames(signers))}
}

func ser(f func(*common.ZeroCopySink)) []byte {
	s := common.NewZeroCopySink(nil)
	f(s)
	return s.Bytes()
}

func (h *hist) mkRegister(pub string, owner common.Address, initPos uint32, sg []common.Address, valid bool) *action {
	p := &gov.RegisterCandidateParam{PeerPubkey: pub, Address: owner, InitPos: initPos, Caller: []byte("did:ont:x"), KeyNo: 1}
	a := h.mk("registerCandidate", gov.REGISTER_CANDIDATE, ser(p.Serialization), sg, valid, "%s,%s,%d", h.w.nodeName(pub), h.w.name(owner), initPos)
	a.mod = &modelOp{op: "deposit", ad: owner, pubs: lowerAll([]string{pub}), amts: []uint64{uint64(initPos)}}
	return a
}

func (h *hist) mkPubOwner(kind, method, pub string, owner common.Address, sg []common.Address, valid bool) *action {
	p := &gov.QuitNodeParam{PeerPubkey: pub, Address: owner} // same layout as UnRegisterCandidateParam
	a := h.mk(kind, method, ser(p.Serialization), sg, valid, "%s,%s", h.w.nodeName(pub), h.w.name(owner))
	a.mod = &modelOp{op: "exit", pubs: lowerAll([]string{pub})} // quitNode / unRegisterCandidate: the peer leaves
	return a
}

func listStr(h *hist, pubs []string, pos []uint32) string {
	var b []string
	for i := range pubs {
		b = append(b, fmt.Sprintf("%s:%d", h.w.nodeName(pubs[i]), pos[i]))
	}
	return strings.Join(b, " ")
}

func (h *hist) mkAuthorize(kind, method string, ad common.Address, pubs []string, pos []uint32, sg []common.Address, valid bool) *action {
	p := &gov.AuthorizeForPeerParam{Address: ad, PeerPubkeyList: pubs, PosList: pos}
	s := common.NewZeroCopySink(nil)
	if err := p.Serialization(s); err != nil {
		h.t.Fatalf("harness: %v", err)
	}
	a := h.mk(kind, method, s.Bytes(), sg, valid, "%s,%s", h.w.name(ad), listStr(h, pubs, pos))
	a.mod = &modelOp{op: "deposit", ad: ad, pubs: lowerAll(pubs), amts: u64s(pos)}
	if kind == "unAuthorizeForPeer" {
		a.mod.op = "unauth"
	}
	return a
}

func (h *hist) mkWithdraw(ad common.Address, pubs []string, amts []uint32, sg []common.Address, valid bool) *action {
	p := &gov.WithdrawParam{Address: ad, PeerPubkeyList: pubs, WithdrawList: amts}
	s := common.NewZeroCopySink(nil)
	if err := p.Serialization(s); err != nil {
		h.t.Fatalf("harness: %v", err)
	}
	a := h.mk("withdraw", gov.WITHDRAW, s.Bytes(), sg, valid, "%s,%s", h.w.name(ad), listStr(h, pubs, amts))
	a.wdAddr = &ad
	a.mod = &modelOp{op: "withdraw", ad: ad, pubs: lowerAll(pubs), amts: u64s(amts)}
	for _, p := range pubs {
		a.wdPubs = append(a.wdPubs, strings.ToLower(p))
	}
	return a
}

func (h *hist) mkWithdrawFee(ad common.Address, sg []common.Address) *action {
	p := &gov.WithdrawFeeParam{Address: ad}
	a := h.mk("withdrawFee", gov.WITHDRAW_FEE, ser(p.Serialization), sg, true, "%s,credited=%d", h.w.name(ad), h.s.split[ad])
	a.feeOf = &ad
	return a
}

func (h *hist) mkInitPos(kind, method, pub string, owner common.Address, pos uint32, sg []common.Address, valid bool) *action {
	p := &gov.ChangeInitPosParam{PeerPubkey: pub, Address: owner, Pos: pos}
	a := h.mk(kind, method, ser(p.Serialization), sg, valid, "%s,%s,%d", h.w.nodeName(pub), h.w.name(owner), pos)
	a.mod = &modelOp{op: "deposit", ad: owner, pubs: lowerAll([]string{pub}), amts: []uint64{uint64(pos)}}
	if kind == "reduceInitPos" {
		a.mod.op = "reduce"
	}
	return a
}

func (h *hist) mkMaxAuth(p *peerItem, v uint32) *action {
	q := &gov.ChangeMaxAuthorizationParam{PeerPubkey: p.pub, Address: p.owner, MaxAuthorize: v}
	return h.mk("changeMaxAuthorization", gov.CHANGE_MAX_AUTHORIZATION, ser(q.Serialization), []common.Address{p.owner}, true,
		"%s,%s,%d", h.w.nodeName(p.pub), h.w.name(p.owner), v)
}

func (h *hist) mkBlack(pubs []string, sg []common.Address, valid bool) *action {
	p := &gov.BlackNodeParam{PeerPubkeyList: pubs}
	var n []string
	for _, x := range pubs {
		n = append(n, h.w.nodeName(x))
	}
	a := h.mk("blackNode", gov.BLACK_NODE, ser(p.Serialization), sg, valid, "%s", strings.Join(n, " "))
	a.mod = &modelOp{op: "exit", pubs: lowerAll(pubs)}
	return a
}

func gp2Bytes(minPos, splitNum, dapp uint64) []byte {
	s := common.NewZeroCopySink(nil)
	nutils.EncodeVarUint(s, minPos)
	nutils.EncodeVarUint(s, splitNum)
	nutils.EncodeVarUint(s, dapp)
	for i := 0; i < 5; i++ {
		s.WriteVarBytes(nil)
	}
	return s.Bytes()
}

// ---------------------------------------------------------------------------------------------
// valid-by-construction builders; each returns nil when the state offers no candidate

type pair struct {
	ad  common.Address
	pub string
}

func (h *hist) headroom(p *peerItem) uint64 {
	s := h.s
	limit := uint64(s.gp.PosLimit) * p.initPos
	if m := s.attr(p.pub).MaxAuthorize; m < limit {
		limit = m
	}
	if limit <= p.totalPos {
		return 0
	}
	return limit - p.totalPos
}

func (h *hist) validAction(kind string) *action {
	s, w, g := h.s, h.w, h.g
	minPos := uint64(s.gp2.MinAuthorizePos)
	switch kind {
	case "registerCandidate":
		if s.activeCount() >= int(s.gp.CandidateNum) {
			return nil
		}
		var c []*nodeT
		for i := range w.nodes {
			if _, in := s.pool[w.nodes[i].pub]; !in && !s.isBlack(w.nodes[i].pub) {
				c = append(c, &w.nodes[i])
			}
		}
		// A key that is already in the pool, offered again in another spelling of the same bytes. One peer whatever
		// the spelling: per-peer storage (authorize records, attributes, penalty) is keyed by the decoded bytes, so
		// the contract has to recognise the key (it canonicalises the hex string before the pool look-up) and refuse.
		// Preferred targets are the peers on which somebody else holds a position, non-consensus candidates first:
		// a second pool entry would share their authorize records while dividing by its own TotalPos.
		var dup []*peerItem
		for _, k := range s.poolKeys {
			if !s.isBlack(k) {
				dup = append(dup, s.pool[k])
			}
		}
		dupPct := 22
		switch {
		case len(c) == 0:
			dupPct = 100
		case h.alt: // otherwise a key outside the pool in another spelling: accepted and stored in canonical spelling
			dupPct = 50
		}
		if len(dup) > 0 && g.pct("regDup") < dupPct {
			var staked, stakedCand []*peerItem
			for _, p := range dup {
				if s.othersStaked(p) {
					staked = append(staked, p)
					if p.status == stCandidate {
						stakedCand = append(stakedCand, p)
					}
				}
			}
			switch r := g.pct("regDupGoal"); {
			case r < 45 && len(stakedCand) > 0:
				dup = stakedCand
			case r < 75 && len(staked) > 0:
				dup = staked
			}
			p := dup[g.n("regDupNode", len(dup))]
			alt, ok := h.respell("regDupSp", p.pub)
			owner := p.owner
			if g.pct("regDupOwnerAlt") < 25 {
				owner = w.authorizers[g.n("regDupOwner", len(w.authorizers))]
			}
			init := uint64(s.gp.MinInitStake) + g.of("regDupExtra", 0, 0, 1, 500, 5000, 40000)
			if !ok || init > s.ont[owner] || init > math.MaxUint32 {
				return nil
			}
			a := h.mkRegister(alt, owner, uint32(init), h.sigs(owner), true)
			a.alt, a.dup, a.dupStaked = true, true, s.othersStaked(p)
			return a
		}
		if len(c) == 0 {
			return nil
		}
		var again []*nodeT // keys black-listed before whose penalty record was not drained
		for _, nd := range c {
			if s.apen[nd.pub] > 0 {
				again = append(again, nd)
			}
		}
		if len(again) > 0 && g.pct("regAgain") < 80 {
			c = again
		}
		nd := c[g.n("regNode", len(c))]
		owner := nd.defOwner
		if g.pct("regOwnerAlt") < 15 {
			owner = w.authorizers[g.n("regOwner", len(w.authorizers))]
		}
		init := uint64(s.gp.MinInitStake) + g.of("regExtra", 0, 0, 1, 500, 5000, 40000)
		if init > s.ont[owner] || init > math.MaxUint32 {
			return nil
		}
		return h.mkRegister(h.sp(nd.pub), owner, uint32(init), h.sigs(owner), true)

	case "unRegisterCandidate": // only nodes in RegisterCandidateStatus qualify; on network id 3 there are none
		var c []*peerItem
		for _, k := range s.poolKeys {
			if s.pool[k].status == stRegister {
				c = append(c, s.pool[k])
			}
		}
		if len(c) == 0 {
			return nil
		}
		p := c[g.n("unregNode", len(c))]
		return h.mkPubOwner("unRegisterCandidate", gov.UNREGISTER_CANDIDATE, h.sp(p.pub), p.owner, h.sigs(p.owner), true)

	case "quitNode":
		if s.activeCount() <= int(s.cfg.K) {
			return nil
		}
		var c []*peerItem
		for _, k := range s.poolKeys {
			if s.pool[k].active() {
				c = append(c, s.pool[k])
			}
		}
		p := c[g.n("quitNode", len(c))]
		return h.mkPubOwner("quitNode", gov.QUIT_NODE, h.sp(p.pub), p.owner, h.sigs(p.owner), true)

	case "authorizeForPeer":
		var c []pair
		for _, k := range s.poolKeys {
			p := s.pool[k]
			if !p.active() || h.headroom(p) < minPos {
				continue
			}
			for _, ad := range w.authorizers {
				if ad != p.owner && s.ont[ad] >= minPos {
					c = append(c, pair{ad, k})
				}
			}
		}
		if len(c) == 0 {
			return nil
		}
		// goal-directed bias: positions on non-consensus candidate nodes, and top-ups of a position that was already
		// counted in an earlier epoch (NewPos next to ConsensusPos/CandidatePos), are what un-authorizing later splits
		var onCand, topUp, topUpCand []pair
		for _, x := range c {
			isCand := s.pool[x.pub].status == stCandidate
			if isCand {
				onCand = append(onCand, x)
			}
			for i := range s.auth {
				if e := &s.auth[i]; e.pub == x.pub && e.addr == x.ad && e.cons+e.cand > 0 && e.newp == 0 {
					topUp = append(topUp, x)
					if isCand {
						topUpCand = append(topUpCand, x)
					}
				}
			}
		}
		var onAgain []pair
		for _, x := range c {
			if s.apen[x.pub] > 0 {
				onAgain = append(onAgain, x)
			}
		}
		if len(onAgain) > 0 && g.pct("authAgain") < 50 {
			c, onCand, topUp, topUpCand = onAgain, nil, nil, nil
		}
		switch r := g.pct("authGoal"); {
		case r < 40 && len(topUpCand) > 0:
			c = topUpCand
		case r < 55 && len(topUp) > 0:
			c = topUp
		case r < 70 && len(onCand) > 0:
			c = onCand
		}
		pr := c[g.n("authPair", len(c))]
		budget := s.ont[pr.ad]
		// the same peer listed 2-3 times in one call: the entries add up against the peer's headroom and the payer's ONT
		if g.pct("authRepeat") < 18 {
			head := h.headroom(s.pool[pr.pub])
			if head > budget {
				head = budget
			}
			mode, parts := h.repeatUnits("authRep", head/minPos, 30, 10)
			var pubs []string
			var pos []uint32
			for _, u := range parts {
				if u*minPos > math.MaxUint32 {
					return nil
				}
				pubs, pos = append(pubs, h.sp(pr.pub)), append(pos, uint32(u*minPos))
			}
			if g.pct("authRepOther") < 25 { // ... with another peer in between
				var other []string
				for _, x := range c {
					if x.ad == pr.ad && x.pub != pr.pub {
						other = append(other, x.pub)
					}
				}
				if len(other) > 0 {
					at := 1 + g.n("authRepAt", len(pubs)-1)
					pubs = append(pubs[:at], append([]string{h.sp(other[g.n("authRepQ", len(other))])}, pubs[at:]...)...)
					pos = append(pos[:at], append([]uint32{uint32(minPos)}, pos[at:]...)...)
					if mode != "exceeds" {
						var sum uint64
						for _, v := range pos {
							sum += uint64(v)
						}
						if sum > budget {
							mode = "exceeds"
						}
					}
				}
			}
			return tagRepeat(h.mkAuthorize("authorizeForPeer", gov.AUTHORIZE_FOR_PEER, pr.ad, pubs, pos, h.sigs(pr.ad), true), mode)
		}
		used := map[string]uint64{}
		var pubs []string
		var pos []uint32
		add := func(pub string) {
			head := h.headroom(s.pool[pub]) - used[pub]
			if head > budget {
				head = budget
			}
			maxK := head / minPos
			if maxK == 0 {
				return
			}
			k := g.of("authK", 1, 1, 1, 2, 3, 5, 20, maxK)
			if k > maxK {
				k = maxK
			}
			if k*minPos > math.MaxUint32 {
				return
			}
			pubs, pos = append(pubs, h.sp(pub)), append(pos, uint32(k*minPos))
			used[pub] += k * minPos
			budget -= k * minPos
		}
		add(pr.pub)
		if g.pct("authMulti") < 25 {
			var same []string
			for _, x := range c {
				if x.ad == pr.ad {
					same = append(same, x.pub)
				}
			}
			add(same[g.n("authSecond", len(same))])
		}
		if len(pubs) == 0 {
			return nil
		}
		a := h.mkAuthorize("authorizeForPeer", gov.AUTHORIZE_FOR_PEER, pr.ad, pubs, pos, h.sigs(pr.ad), true)
		if len(pubs) == 2 && canon(pubs[0]) == canon(pubs[1]) {
			tagRepeat(a, "below") // the second pick fell on the same peer (budget and headroom were shared)
		}
		return a

	case "unAuthorizeForPeer":
		type cand struct {
			e     *authInfo
			avail uint64
			small bool
		}
		var c []cand
		for i := range s.auth {
			e := &s.auth[i]
			p, ok := s.pool[e.pub]
			if !ok || !p.active() {
				continue
			}
			tot := e.staked()
			avail := e.newp + e.cand
			if p.status == stConsensus {
				avail = e.newp + e.cons
			}
			switch {
			case tot >= minPos && avail >= minPos:
				c = append(c, cand{e, avail, false})
			case tot > 0 && tot < minPos && avail == tot:
				c = append(c, cand{e, avail, true})
			}
		}
		if len(c) == 0 {
			return nil
		}
		// the same peer listed 2-3 times in one call: every entry sees the position the entries before it left
		if g.pct("unauthRepeat") < 18 {
			var rc []cand
			for _, x := range c {
				if !x.small {
					rc = append(rc, x)
				}
			}
			if len(rc) > 0 {
				x := rc[g.n("unauthRepEntry", len(rc))]
				mode, parts := h.repeatUnits("unauthRep", x.avail/minPos, 30, 35)
				var pubs []string
				var pos []uint32
				for _, u := range parts {
					if u*minPos > math.MaxUint32 {
						return nil
					}
					pubs, pos = append(pubs, h.sp(x.e.pub)), append(pos, uint32(u*minPos))
				}
				return tagRepeat(h.mkAuthorize("unAuthorizeForPeer", gov.UNAUTHORIZE_FOR_PEER, x.e.addr, pubs, pos, h.sigs(x.e.addr), true), mode)
			}
		}
		// goal-directed bias: positions topped up in this epoch, un-authorizing more than the top-up
		var top, topCand []cand
		for _, x := range c {
			if !x.small && x.e.newp > 0 && (x.e.newp/minPos+1)*minPos <= x.avail {
				top = append(top, x)
				if s.pool[x.e.pub].status == stCandidate {
					topCand = append(topCand, x)
				}
			}
		}
		exceed := false
		switch r := g.pct("unauthGoal"); {
		case r < 50 && len(topCand) > 0:
			c, exceed = topCand, true
		case r < 75 && len(top) > 0:
			c, exceed = top, true
		}
		x := c[g.n("unauthEntry", len(c))]
		var pos uint64
		if exceed {
			lo, maxK := x.e.newp/minPos+1, x.avail/minPos
			k := g.of("unauthOverK", lo, lo, lo+1, maxK)
			if k > maxK {
				k = maxK
			}
			pos = k * minPos
		} else if x.small {
			pos = g.rng("unauthSmall", 1, x.avail) // any pos >= 1 redeems the whole remainder
		} else {
			maxK := x.avail / minPos
			k := g.of("unauthK", 1, 1, 2, maxK, maxK)
			if k > maxK {
				k = maxK
			}
			pos = k * minPos
		}
		if pos > math.MaxUint32 {
			return nil
		}
		return h.mkAuthorize("unAuthorizeForPeer", gov.UNAUTHORIZE_FOR_PEER, x.e.addr, []string{h.sp(x.e.pub)}, []uint32{uint32(pos)}, h.sigs(x.e.addr), true)

	case "withdraw":
		var c []*authInfo
		for i := range s.auth {
			if s.auth[i].unfreeze > 0 && s.auth[i].unfreeze <= math.MaxUint32 {
				c = append(c, &s.auth[i])
			}
		}
		if len(c) == 0 {
			return nil
		}
		var pen []*authInfo // positions left over by a black-listed peer (penalised): the rarest kind
		for _, e := range c {
			if h.goneBlack[e.pub] {
				pen = append(pen, e)
			}
		}
		var ripe []*authInfo // positions un-authorized beyond a same-epoch top-up, one epoch later
		for _, e := range c {
			if h.topUp[pairKey{e.addr, e.pub}] == 2 {
				ripe = append(ripe, e)
			}
		}
		switch r := g.pct("wdGoal"); {
		case r < 40 && len(ripe) > 0:
			c = ripe
		case r < 70 && len(pen) > 0:
			c = pen
		}
		e := c[g.n("wdEntry", len(c))]
		amt := func(e *authInfo) uint32 {
			if g.pct("wdAll") < 60 {
				return uint32(e.unfreeze)
			}
			return uint32(g.rng("wdAmt", 1, e.unfreeze))
		}
		// the same peer listed 2-3 times in one call: amounts that are each within the unfrozen position, their sum
		// below / equal to / above it (every entry has to see what the entries before it took)
		if g.pct("wdRepeat") < 30 {
			mode, parts := h.repeatUnits("wdRep", e.unfreeze, 35, 35)
			var pubs []string
			var amts []uint32
			for _, u := range parts {
				pubs, amts = append(pubs, h.sp(e.pub)), append(amts, uint32(u))
			}
			if g.pct("wdRepOther") < 25 { // ... with another peer in between
				var more []*authInfo
				for _, o := range c {
					if o.addr == e.addr && o.pub != e.pub {
						more = append(more, o)
					}
				}
				if len(more) > 0 {
					o := more[g.n("wdRepQ", len(more))]
					at := 1 + g.n("wdRepAt", len(pubs)-1)
					pubs = append(pubs[:at], append([]string{h.sp(o.pub)}, pubs[at:]...)...)
					amts = append(amts[:at], append([]uint32{amt(o)}, amts[at:]...)...)
				}
			}
			return tagRepeat(h.mkWithdraw(e.addr, pubs, amts, h.sigs(e.addr), true), mode)
		}
		pubs, amts := []string{h.sp(e.pub)}, []uint32{amt(e)}
		if g.pct("wdMulti") < 25 {
			var more []*authInfo
			for _, o := range c {
				if o.addr == e.addr && o.pub != e.pub {
					more = append(more, o)
				}
			}
			if len(more) > 0 {
				o := more[g.n("wdSecond", len(more))]
				pubs, amts = append(pubs, h.sp(o.pub)), append(amts, amt(o))
			}
		}
		return h.mkWithdraw(e.addr, pubs, amts, h.sigs(e.addr), true)

	case "withdrawOng":
		ad := w.tracked[g.n("ongAddr", len(w.tracked))]
		p := &gov.WithdrawOngParam{Address: ad}
		return h.mk("withdrawOng", gov.WITHDRAW_ONG, ser(p.Serialization), h.sigs(ad), true, "%s", w.name(ad))

	case "withdrawFee":
		var c []common.Address
		for _, ad := range s.splitKeys {
			if s.split[ad] > 0 {
				c = append(c, ad)
			}
		}
		if len(c) == 0 {
			return nil
		}
		ad := c[g.n("feeAddr", len(c))]
		return h.mkWithdrawFee(ad, h.sigs(ad))

	case "addInitPos":
		var c []*peerItem
		for _, k := range s.poolKeys {
			if p := s.pool[k]; p.status <= stConsensus && s.ont[p.owner] >= 1 {
				c = append(c, p)
			}
		}
		if len(c) == 0 {
			return nil
		}
		var reg []*peerItem
		for _, p := range c {
			if _, ok := s.promise[p.pub]; ok {
				reg = append(reg, p)
			}
		}
		if len(reg) > 0 && g.pct("addRegistered") < 60 {
			c = reg
		}
		p := c[g.n("addNode", len(c))]
		pos := g.of("addPos", 1, 500, 10000, 100000)
		if pos > s.ont[p.owner] {
			pos = s.ont[p.owner]
		}
		return h.mkInitPos("addInitPos", gov.ADD_INIT_POS, h.sp(p.pub), p.owner, uint32(pos), h.sigs(p.owner), true)

	case "reduceInitPos":
		type cand struct {
			p    *peerItem
			room uint64
		}
		var c []cand
		for _, k := range s.poolKeys {
			p := s.pool[k]
			prom, ok := s.promise[k]
			if !ok || !p.active() {
				continue
			}
			floor := (p.totalPos + uint64(s.gp.PosLimit) - 1) / uint64(s.gp.PosLimit)
			if prom > floor {
				floor = prom
			}
			if p.initPos > floor {
				c = append(c, cand{p, p.initPos - floor})
			}
		}
		if len(c) == 0 {
			return nil
		}
		x := c[g.n("redNode", len(c))]
		pos := g.of("redPos", 1, x.room, x.room, g.rng("redRnd", 1, x.room))
		if pos > x.room {
			pos = x.room
		}
		if pos > math.MaxUint32 {
			return nil
		}
		return h.mkInitPos("reduceInitPos", gov.REDUCE_INIT_POS, h.sp(x.p.pub), x.p.owner, uint32(pos), h.sigs(x.p.owner), true)

	case "setPeerCost", "setFeePercentage", "changeMaxAuthorization":
		if len(s.poolKeys) == 0 {
			return nil
		}
		p := s.pool[s.poolKeys[g.n("attrNode", len(s.poolKeys))]]
		if kind == "changeMaxAuthorization" && g.pct("maxAuthClosed") < 50 {
			var closed []*peerItem // nodes nobody can authorize for yet
			for _, k := range s.poolKeys {
				if q := s.pool[k]; q.active() && s.attr(k).MaxAuthorize == 0 {
					closed = append(closed, q)
				}
			}
			var again []*peerItem
			for _, q := range closed {
				if s.apen[q.pub] > 0 {
					again = append(again, q)
				}
			}
			if len(again) > 0 {
				closed = again
			}
			if len(closed) > 0 {
				p = closed[g.n("attrClosed", len(closed))]
			}
		}
		cost := func(l string) uint32 { return uint32(g.of(l, 0, 1, 10, 50, 90, 99, 100, g.rng(l+"R", 0, 100))) }
		spelt := h.sp(p.pub)
		switch kind {
		case "setPeerCost":
			q := &gov.SetPeerCostParam{PeerPubkey: spelt, Address: p.owner, PeerCost: cost("peerCost")}
			return h.mk(kind, gov.SET_PEER_COST, ser(func(s *common.ZeroCopySink) { q.Serialization(s) }), h.sigs(p.owner), true,
				"%s,%s,%d", w.nodeName(spelt), w.name(p.owner), q.PeerCost)
		case "setFeePercentage":
			q := &gov.SetFeePercentageParam{PeerPubkey: spelt, Address: p.owner, PeerCost: cost("peerCost"), StakeCost: cost("stakeCost")}
			return h.mk(kind, gov.SET_FEE_PERCENTAGE, ser(func(s *common.ZeroCopySink) { q.Serialization(s) }), h.sigs(p.owner), true,
				"%s,%s,%d,%d", w.nodeName(spelt), w.name(p.owner), q.PeerCost, q.StakeCost)
		default:
			limit := uint64(s.gp.PosLimit) * p.initPos
			if limit > math.MaxUint32 {
				limit = math.MaxUint32
			}
			v := g.of("maxAuth", limit, limit, limit, 0, minPos, g.rng("maxAuthR", 0, limit))
			if v > limit {
				v = limit
			}
			q := *p
			q.pub = spelt
			a := h.mkMaxAuth(&q, uint32(v))
			a.signers = h.sigs(p.owner)
			a.desc = a.desc[:strings.LastIndex(a.desc, "[")] + h.sigNames(a.signers)
			return a
		}

	case "blackNode":
		active := s.activeCount()
		sameBlock := h.n.Height == s.viewHeight // black-listing a consensus node changes the epoch: once per block
		var c []*peerItem
		for _, k := range s.poolKeys {
			p := s.pool[k]
			if sameBlock && p.status == stConsensus {
				continue
			}
			if !p.active() || active-1 >= int(s.cfg.K) {
				c = append(c, p)
			}
		}
		if len(c) == 0 {
			return nil
		}
		var staked []*peerItem // nodes somebody else has a position in: their black-listing penalises authorizers
		for _, p := range c {
			for i := range s.auth {
				if e := &s.auth[i]; e.pub == p.pub && e.addr != p.owner && e.staked()+e.wcons+e.wcand > 0 {
					staked = append(staked, p)
					break
				}
			}
		}
		var again []*peerItem // keys living their second life with the old penalty record still in place
		for _, p := range c {
			if s.apen[p.pub] > 0 && p.status != stBlack {
				again = append(again, p)
			}
		}
		switch r := g.pct("blackGoal"); {
		case r < 60 && len(again) > 0:
			c = again
		case r < 85 && len(staked) > 0:
			c = staked
		}
		p := c[g.n("blackNode", len(c))]
		pubs := []string{h.sp(p.pub)}
		if p.active() {
			active--
		}
		if g.pct("blackTwo") < 15 {
			q := c[g.n("blackSecond", len(c))]
			if q.pub != p.pub && (!q.active() || active-1 >= int(s.cfg.K)) {
				pubs = append(pubs, h.sp(q.pub))
			}
		}
		if g.pct("blackRepeat") < 15 { // the same node twice in one list: [P,P] or [P,Q,P]
			pubs = append(pubs, h.sp(p.pub))
			return tagRepeat(h.mkBlack(pubs, h.sigs(w.admin), true), "same")
		}
		return h.mkBlack(pubs, h.sigs(w.admin), true)

	case "whiteNode":
		if len(s.black) == 0 {
			return nil
		}
		bl := s.black
		var again []string
		for _, pub := range bl {
			if s.apen[pub] > 0 {
				again = append(again, pub)
			}
		}
		if len(again) > 0 && g.pct("whiteAgain") < 80 {
			bl = again
		}
		pub := h.sp(bl[g.n("whiteNode", len(bl))])
		q := &gov.WhiteNodeParam{PeerPubkey: pub}
		a := h.mk(kind, gov.WHITE_NODE, ser(q.Serialization), h.sigs(w.admin), true, "%s", w.nodeName(pub))
		a.mod = &modelOp{op: "white", pubs: lowerAll([]string{pub})} // no effect on the release model; coverage only
		return a

	case "transferPenalty":
		if len(s.penaltyKeys) == 0 {
			return nil
		}
		pk := s.penaltyKeys
		var plain []string
		for _, pub := range pk {
			if s.apen[pub] == 0 {
				plain = append(plain, pub)
			}
		}
		if len(plain) > 0 && g.pct("penPlain") < 60 {
			pk = plain
		}
		pub := h.sp(pk[g.n("penNode", len(pk))])
		q := &gov.TransferPenaltyParam{PeerPubkey: pub, Address: w.treasury}
		return h.mk(kind, gov.TRANSFER_PENALTY, ser(q.Serialization), h.sigs(w.admin), true, "%s,%s", w.nodeName(pub), w.name(w.treasury))

	case "updateGlobalParam":
		q := *s.gp
		for i, k := 0, 1+g.n("gpFields", 3); i < k; i++ {
			switch g.n("gpField", 7) {
			case 0:
				q.A = uint32(g.of("gpA", 0, 10, 50, 50, 90, 100))
				q.B = 100 - q.A
			case 1:
				q.Yita = uint32(g.of("gpYita", 1, 5, 5, 10, 50))
			case 2:
				q.Penalty = uint32(g.of("gpPenalty", 0, 1, 5, 5, 33, 100))
			case 3:
				q.PosLimit = uint32(g.of("gpPosLimit", 1, 5, 20, 20))
			case 4:
				q.CandidateFee = g.of("gpFee", 0, 1_000_000_000, 500_000_000_000)
			case 5:
				q.MinInitStake = uint32(g.of("gpMinInit", 1, 1000, 10000, 10000))
			case 6:
				q.CandidateNum = uint32(g.of("gpCandNum", uint64(4*s.cfg.K), 49))
			}
		}
		return h.mk(kind, gov.UPDATE_GLOBAL_PARAM, ser(q.Serialization), h.sigs(w.admin), true, "fee=%d,minInit=%d,num=%d,posLimit=%d,A=%d,B=%d,yita=%d,penalty=%d",
			q.CandidateFee, q.MinInitStake, q.CandidateNum, q.PosLimit, q.A, q.B, q.Yita, q.Penalty)

	case "updateGlobalParam2":
		mp, sn, df := uint64(s.gp2.MinAuthorizePos), uint64(s.gp2.CandidateFeeSplitNum), uint64(s.gp2.DappFee)
		switch g.n("gp2Field", 3) {
		case 0:
			mp = g.of("gp2Min", 1, 100, 500, 500, 1000)
		case 1:
			sn = g.of("gp2Num", uint64(s.cfg.K), uint64(s.cfg.K)+1, uint64(s.cfg.K)+2, uint64(s.gp.CandidateNum))
		case 2:
			df = g.of("gp2Dapp", 0, 1, 10, 30, 50, 100)
		}
		a := h.mk(kind, gov.UPDATE_GLOBAL_PARAM2, gp2Bytes(mp, sn, df), h.sigs(w.admin), true, "minPos=%d,splitNum=%d,dapp=%d", mp, sn, df)
		a.mod = &modelOp{op: "minpos", minPos: mp}
		return a

	case "setGasAddress":
		var ad common.Address
		switch p := g.pct("gasKind"); {
		case p < 20:
			ad = common.ADDRESS_EMPTY
		case p < 90:
			ad = w.dapps[g.n("gasDapp", len(w.dapps))]
		case p < 96:
			ad = w.users[g.n("gasUser", len(w.users))]
		default:
			ad = G
		}
		q := &gov.GasAddress{Address: ad}
		return h.mk(kind, gov.SET_GAS_ADDRESS, ser(q.Serialization), h.sigs(w.admin), true, "%s", w.name(ad))

	case "income":
		var v uint64
		switch p := g.pct("incKind"); {
		case p < 8:
			v = g.rng("incTiny", 0, 1000)
		case p < 75:
			v = g.rng("incOng", 1, 100_000) * 1_000_000_000
		case p < 95:
			v = g.rng("incRaw", 1, 100_000_000_000_000)
		default:
			v = g.rng("incHuge", 1, 50_000_000) * 1_000_000_000
		}
		st := ont.TransferStates{States: []ont.TransferState{{From: w.bank, To: G, Value: v}}}
		return &action{kind: "income", contract: nutils.OngContractAddress, method: "transfer", args: common.SerializeToBytes(&st),
			signers: []common.Address{w.bank}, valid: true, desc: fmt.Sprintf("income(%d)", v)}

	case "commitDpos":
		if h.n.Height == s.viewHeight {
			return nil
		}
		if h.n.Height-s.viewHeight >= s.cfg.MaxBlockChangeView && g.pct("commitAnyone") < 60 {
			sg := h.anySigs(w.users[0])
			return h.mk(kind, gov.COMMIT_DPOS, nil, sg, true, "cycle")
		}
		return h.mk(kind, gov.COMMIT_DPOS, nil, h.sigs(w.admin), true, "admin")
	}
	return nil
}

// ---------------------------------------------------------------------------------------------
// arbitrary actions: any node / address / amount / signer set

func (h *hist) arbitraryAction(kind string) *action {
	w, g := h.w, h.g
	ad := h.anyAddr("arbAddr")
	switch kind {
	case "registerCandidate":
		return h.mkRegister(h.anyPub("arbPub"), ad, uint32(g.of("arbInit", 0, 1, 9999, 10000, 50000, math.MaxUint32)), h.anySigs(ad), false)
	case "unRegisterCandidate":
		return h.mkPubOwner(kind, gov.UNREGISTER_CANDIDATE, h.anyPub("arbPub"), ad, h.anySigs(ad), false)
	case "quitNode":
		return h.mkPubOwner(kind, gov.QUIT_NODE, h.anyPub("arbPub"), ad, h.anySigs(ad), false)
	case "authorizeForPeer", "unAuthorizeForPeer", "withdraw":
		k := 1 + g.n("arbListN", 3)
		if g.pct("arbEmptyList") < 5 {
			k = 0
		}
		var pubs []string
		var pos []uint32
		for i := 0; i < k; i++ {
			pubs, pos = append(pubs, h.anyPub("arbPub")), append(pos, h.anyPos("arbPos"))
		}
		rep := ""
		if k > 0 && g.pct("arbRepeat") < 25 { // one of the peers once more, with an amount of its own
			pubs, pos = append(pubs, pubs[g.n("arbRepOf", k)]), append(pos, h.anyPos("arbPos"))
			rep = "arbitrary"
		}
		var a *action
		switch kind {
		case "authorizeForPeer":
			a = h.mkAuthorize(kind, gov.AUTHORIZE_FOR_PEER, ad, pubs, pos, h.anySigs(ad), false)
		case "unAuthorizeForPeer":
			a = h.mkAuthorize(kind, gov.UNAUTHORIZE_FOR_PEER, ad, pubs, pos, h.anySigs(ad), false)
		default:
			a = h.mkWithdraw(ad, pubs, pos, h.anySigs(ad), false)
		}
		a.rep = rep
		return a
	case "withdrawOng":
		p := &gov.WithdrawOngParam{Address: ad}
		return h.mk(kind, gov.WITHDRAW_ONG, ser(p.Serialization), h.anySigs(ad), false, "%s", w.name(ad))
	case "withdrawFee":
		a := h.mkWithdrawFee(ad, h.anySigs(ad))
		a.valid = false
		return a
	case "addInitPos":
		return h.mkInitPos(kind, gov.ADD_INIT_POS, h.anyPub("arbPub"), ad, h.anyPos("arbPos"), h.anySigs(ad), false)
	case "reduceInitPos":
		return h.mkInitPos(kind, gov.REDUCE_INIT_POS, h.anyPub("arbPub"), ad, h.anyPos("arbPos"), h.anySigs(ad), false)
	case "setPeerCost":
		q := &gov.SetPeerCostParam{PeerPubkey: h.anyPub("arbPub"), Address: ad, PeerCost: uint32(g.of("arbCost", 0, 50, 100, 101, math.MaxUint32))}
		return h.mk(kind, gov.SET_PEER_COST, ser(func(s *common.ZeroCopySink) { q.Serialization(s) }), h.anySigs(ad), false, "%s,%s,%d", w.nodeName(q.PeerPubkey), w.name(ad), q.PeerCost)
	case "setFeePercentage":
		q := &gov.SetFeePercentageParam{PeerPubkey: h.anyPub("arbPub"), Address: ad, PeerCost: uint32(g.of("arbCost", 0, 50, 100, 101)), StakeCost: uint32(g.of("arbCost2", 0, 50, 100, 101, 255))}
		return h.mk(kind, gov.SET_FEE_PERCENTAGE, ser(func(s *common.ZeroCopySink) { q.Serialization(s) }), h.anySigs(ad), false, "%s,%s,%d,%d", w.nodeName(q.PeerPubkey), w.name(ad), q.PeerCost, q.StakeCost)
	case "changeMaxAuthorization":
		q := &gov.ChangeMaxAuthorizationParam{PeerPubkey: h.anyPub("arbPub"), Address: ad, MaxAuthorize: h.anyPos("arbPos")}
		return h.mk(kind, gov.CHANGE_MAX_AUTHORIZATION, ser(q.Serialization), h.anySigs(ad), false, "%s,%s,%d", w.nodeName(q.PeerPubkey), w.name(ad), q.MaxAuthorize)
	case "blackNode":
		var pubs []string
		for i, k := 0, g.n("arbListN", 3); i < k; i++ {
			pubs = append(pubs, h.anyPub("arbPub"))
		}
		if len(pubs) > 0 && g.pct("arbRepeat") < 25 {
			pubs = append(pubs, pubs[g.n("arbRepOf", len(pubs))])
			a := h.mkBlack(pubs, h.anySigs(w.admin), false)
			a.rep = "arbitrary"
			return a
		}
		return h.mkBlack(pubs, h.anySigs(w.admin), false)
	case "whiteNode":
		q := &gov.WhiteNodeParam{PeerPubkey: h.anyPub("arbPub")}
		a := h.mk(kind, gov.WHITE_NODE, ser(q.Serialization), h.anySigs(w.admin), false, "%s", w.nodeName(q.PeerPubkey))
		a.mod = &modelOp{op: "white", pubs: lowerAll([]string{q.PeerPubkey})}
		return a
	case "transferPenalty":
		q := &gov.TransferPenaltyParam{PeerPubkey: h.anyPub("arbPub"), Address: w.treasury}
		return h.mk(kind, gov.TRANSFER_PENALTY, ser(q.Serialization), h.anySigs(w.admin), false, "%s,%s", w.nodeName(q.PeerPubkey), w.name(w.treasury))
	case "updateGlobalParam":
		q := *h.s.gp
		q.A, q.B = uint32(g.of("arbA", 0, 49, 50, 100, 101)), uint32(g.of("arbB", 0, 50, 51, 100))
		q.Yita = uint32(g.of("arbYita", 0, 1, 5))
		q.Penalty = uint32(g.of("arbPenalty", 5, 100, 101))
		q.PosLimit = uint32(g.of("arbPosLimit", 0, 1, 20))
		q.CandidateNum = uint32(g.of("arbCandNum", 0, 27, 28, 49))
		q.CandidateFee = g.of("arbFee", 0, 1, 999_999_999, 1_000_000_000)
		q.MinInitStake = uint32(g.of("arbMinInit", 0, 1, 10000))
		return h.mk(kind, gov.UPDATE_GLOBAL_PARAM, ser(q.Serialization), h.anySigs(w.admin), false, "fee=%d,minInit=%d,num=%d,posLimit=%d,A=%d,B=%d,yita=%d,penalty=%d",
			q.CandidateFee, q.MinInitStake, q.CandidateNum, q.PosLimit, q.A, q.B, q.Yita, q.Penalty)
	case "updateGlobalParam2":
		mp, sn, df := g.of("arbMin", 0, 1, 500), g.of("arbNum", 0, 6, 7, 49), g.of("arbDapp", 0, 50, 100, 101)
		a := h.mk(kind, gov.UPDATE_GLOBAL_PARAM2, gp2Bytes(mp, sn, df), h.anySigs(w.admin), false, "minPos=%d,splitNum=%d,dapp=%d", mp, sn, df)
		a.mod = &modelOp{op: "minpos", minPos: mp}
		return a
	case "setGasAddress":
		q := &gov.GasAddress{Address: w.dapps[g.n("gasDapp", len(w.dapps))]}
		return h.mk(kind, gov.SET_GAS_ADDRESS, ser(q.Serialization), h.anySigs(w.admin), false, "%s", w.name(q.Address))
	case "commitDpos":
		return h.mk(kind, gov.COMMIT_DPOS, nil, h.anySigs(w.admin), false, "any")
	}
	return h.validAction("income")
}

// weights are the profile's weights, raised while the state offers a short-lived opportunity (it ends with the
// next epoch change): a position topped up in this epoch invites un-authorizing more than the top-up; a counted
// position on a non-consensus candidate node invites a top-up; a position un-authorized that way an epoch ago
// invites the withdraw.
func (h *hist) weights() map[string]int {
	s, minPos := h.s, uint64(h.s.gp2.MinAuthorizePos)
	wt := map[string]int{}
	for k, v := range h.prof.w {
		wt[k] = v
	}
	topUpCand, top, ripe := false, false, false
	for i := range s.auth {
		e := &s.auth[i]
		if h.topUp[pairKey{e.addr, e.pub}] == 2 && e.unfreeze > 0 {
			ripe = true
		}
		p, ok := s.pool[e.pub]
		if !ok || !p.active() || p.owner == e.addr {
			continue
		}
		if p.status == stCandidate && e.cand > 0 && e.newp == 0 && h.headroom(p) >= minPos && s.ont[e.addr] >= minPos {
			topUpCand = true
		}
		avail := e.newp + e.cand
		if p.status == stConsensus {
			avail = e.newp + e.cons
		}
		if e.newp > 0 && e.staked() >= minPos && (e.newp/minPos+1)*minPos <= avail {
			top = true
		}
	}
	// second life of a black-listed key: white-list -> register again -> open -> authorize -> black-list -> epoch change
	for _, p := range s.pool {
		if p.status == stBlack {
			wt["commitDpos"] += 15 // a pending black-listing takes effect with the next epoch change
			break
		}
	}
	for _, pub := range s.undrained() {
		p, in := s.pool[pub]
		switch {
		case !in && s.isBlack(pub):
			wt["whiteNode"] += 30
		case !in:
			wt["registerCandidate"] += 30
		case p.status == stBlack:
			wt["commitDpos"] += 25
		case !p.active():
		case s.attr(pub).MaxAuthorize == 0:
			wt["changeMaxAuthorization"] += 20
			wt["blackNode"] += 5
		case !s.othersStaked(p):
			wt["authorizeForPeer"] += 20
			wt["blackNode"] += 8
		default:
			wt["blackNode"] += 25
		}
	}
	if topUpCand {
		wt["authorizeForPeer"] *= 2
	}
	if top {
		wt["unAuthorizeForPeer"] *= 4
	}
	if ripe {
		wt["withdraw"] *= 3
	}
	return wt
}

// undrained lists (sorted) the peers whose PenaltyStake record still holds authorizer penalties: black-listed once,
// with authorizers, and not yet drained by transferPenalty. The record is keyed by the public key and must
// accumulate when the same key is white-listed, registered again and black-listed again.
func (s *snap) undrained() []string {
	var out []string
	for _, pub := range s.penaltyKeys {
		if s.apen[pub] > 0 {
			out = append(out, pub)
		}
	}
	return out
}

func (s *snap) othersStaked(p *peerItem) bool {
	for i := range s.auth {
		if e := &s.auth[i]; e.pub == p.pub && e.addr != p.owner && e.staked()+e.wcons+e.wcand > 0 {
			return true
		}
	}
	return false
}

// next draws the next action.
func (h *hist) next() *action {
	if h.g.pct("arbitrary") < h.prof.arbitrary {
		return h.arbitraryAction(kinds[h.g.n("arbKind", len(kinds))])
	}
	// weighted choice among the kinds; a kind without candidate in the current state is redrawn, so that its
	// weight is redistributed over the kinds the state allows
	wt := h.weights()
	total := 0
	for _, k := range kinds {
		total += wt[k]
	}
	// spelling mode of this step: every key the builder takes from the observed state is passed in another hex
	// spelling of the same bytes (upper-case, one upper-case digit, mixed case)
	h.alt, h.altHit = h.g.pct("altSpelling") < altSpellingPct, false
	defer func() { h.alt = false }()
	for try := 0; try < 10; try++ {
		r := h.g.n("kind", total)
		for _, k := range kinds {
			if r < wt[k] {
				if a := h.validAction(k); a != nil {
					a.alt = a.alt || h.altHit
					return a
				}
				break
			}
			r -= wt[k]
		}
	}
	h.alt = false
	if a := h.validAction("commitDpos"); a != nil {
		return a
	}
	return h.validAction("income")
}
