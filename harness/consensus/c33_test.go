package consensus

// C33 Cross-chain header-sync needs signatures of two thirds of DISTINCT peers.
//
// A native-contract sandbox (fresh CacheDB over a real ledger's genesis state per case) stores a
// side chain's consensus peer set with the contract's own UpdateConsensusPeer, then the generated
// side-chain header is judged by header_sync.VerifyHeader (direct) or by the contract entry point
// syncBlockHeader (serialised header). Oracle, independent of the contract's counting: acceptance
// implies D >= ceil(2N/3), D = number of distinct stored peers for which some entry of SigData
// verifies under that peer's key over the header hash.

import (
	"encoding/json"
	"fmt"
	"math"
	"strings"
	"testing"

	"github.com/ontio/ontology/common"
	vconfig "github.com/ontio/ontology/consensus/vbft/config"
	"github.com/ontio/ontology/core/types"
	"github.com/ontio/ontology/smartcontract"
	"github.com/ontio/ontology/smartcontract/service/native"
	ccom "github.com/ontio/ontology/smartcontract/service/native/cross_chain/common"
	"github.com/ontio/ontology/smartcontract/service/native/cross_chain/header_sync"
	nutils "github.com/ontio/ontology/smartcontract/service/native/utils"
	"pgregory.net/rapid"

	"verifharness/internal/fix"
	"verifharness/internal/harn"
)

const c33KeyDup = "duplicate-bookkeepers-counted"

const c33Rule = "peer sets of 4..10 zoo keys (P-256; one case in six mixes SM2 / Ed25519 / P-224 keys) stored with UpdateConsensusPeer at one key height; side-chain headers above the key height whose bookkeeper list is built from peers / non-peers / duplicates (60% near-acceptance: L around ceil(2N/3) distinct peers, optionally one peer listed several times or a non-peer inserted; 40% arbitrary) and whose SigData holds valid signatures by listed peers, the same signature repeated (also with all listed keys distinct: a signature both in its signer's own list slot and in an earlier slot), garbage, signatures over another hash, by non-peers or unlisted peers; judged by VerifyHeader directly and through the syncBlockHeader entry point; non-trivial = accepted, or the number of distinct valid peer signatures is within one of ceil(2N/3); distinct = different (peer set, listing, signature pattern)"

type c33Case struct {
	n      int
	kinds  []fix.KeyKind // key kind per peer
	list   []int         // idx < n: peer; idx >= n: outsider
	sigs   []c32Sig
	height uint32
	keyH   uint32
}

func (c c33Case) String() string {
	var ss []string
	for _, s := range c.sigs {
		if s.kind == "valid" {
			ss = append(ss, fmt.Sprint(s.signer))
		} else {
			ss = append(ss, fmt.Sprintf("%s%d", s.kind[:1], s.signer))
		}
	}
	mixed := ""
	for _, k := range c.kinds {
		if k != fix.KP256 {
			mixed = fmt.Sprintf(" kinds=%v", c.kinds)
			break
		}
	}
	return fmt.Sprintf("N=%d%s keyH=%d h=%d list=[%s] sigs=[%s]", c.n, mixed, c.keyH, c.height, ints(c.list), strings.Join(ss, ","))
}

type c33Env struct {
	chain   *fix.Chain
	cleanup func()
}

func newC33Env() *c33Env {
	dir, cleanup := tempLedgerDir("verif-c33-")
	chain, err := fix.NewSolo(dir, fix.Key(fix.KP256, 31))
	if err != nil {
		cleanup()
		panic(err)
	}
	return &c33Env{chain: chain, cleanup: func() { chain.Close(); cleanup() }}
}

func (c c33Case) key(idx int) *fix.ZooKey {
	if idx < c.n {
		return fix.Key(c.kinds[idx], idx)
	}
	return fix.Key(fix.KP256, 50+idx-c.n)
}

const c33Chain = uint64(77)

type c33Result struct {
	accepted       bool
	err            error
	D              int
	allPeers       bool
	distinctListed int
	dListed        int // distinct LISTED peers with a valid signature
}

// run evaluates one case on a fresh cache. viaEntry: through NativeCall("syncBlockHeader").
func (e *c33Env) run(c c33Case, viaEntry bool) (res c33Result) {
	sandbox := e.chain.NewNative()
	sc := smartcontract.SmartContract{Config: &smartcontract.Config{Time: sandbox.Time, Height: sandbox.Height, Tx: &types.Transaction{}},
		CacheDB: sandbox.Cache, Store: e.chain.LS, Gas: math.MaxUint64 / 2}
	svc, err := sc.NewNativeService()
	if err != nil {
		panic(err)
	}
	// store the peer set
	cfg := &vconfig.ChainConfig{N: uint32(c.n), C: uint32((c.n - 1) / 3)}
	var peers []*fix.ZooKey
	for i := 0; i < c.n; i++ {
		k := c.key(i)
		peers = append(peers, k)
		cfg.Peers = append(cfg.Peers, &vconfig.PeerConfig{Index: uint32(i + 1), ID: vconfig.PubkeyID(k.PublicKey)})
	}
	payload, _ := json.Marshal(&vconfig.VbftBlockInfo{Proposer: 1, NewChainConfig: cfg})
	key := &ccom.Header{ChainID: c33Chain, Height: c.keyH, ConsensusPayload: payload}
	if err := header_sync.UpdateConsensusPeer(svc, key); err != nil {
		panic(fmt.Sprintf("UpdateConsensusPeer: %v", err))
	}
	plain, _ := json.Marshal(&vconfig.VbftBlockInfo{Proposer: 1, LastConfigBlockNum: c.keyH})
	hdr := &ccom.Header{ChainID: c33Chain, Height: c.height, Timestamp: 1600000000, ConsensusData: uint64(c.height), ConsensusPayload: plain}
	hash := hdr.Hash()
	var other common.Uint256
	other[0] = 0xdd
	for _, i := range c.list {
		hdr.Bookkeepers = append(hdr.Bookkeepers, c.key(i).PublicKey)
	}
	first := map[int][]byte{}
	for _, s := range c.sigs {
		var b []byte
		switch s.kind {
		case "valid":
			if f, ok := first[s.signer]; ok {
				b = f
			} else {
				b = signFresh(c.key(s.signer), common.Uint256(hash))
				first[s.signer] = b
			}
		case "otherhash":
			b = signHash(c.key(s.signer), other)
		case "truncated":
			b = signFresh(c.key(s.signer), common.Uint256(hash))
			b = b[:len(b)-1]
		case "garbage":
			b = []byte("garbage-signature-bytes")
		case "empty":
			b = []byte{}
		}
		hdr.SigData = append(hdr.SigData, b)
	}
	func() {
		defer func() {
			if r := recover(); r != nil {
				res.err = fmt.Errorf("PANIC: %v", r)
			}
		}()
		if viaEntry {
			sandbox.Cache.Commit()
			sink := common.NewZeroCopySink(nil)
			hdr.Serialization(sink)
			p := &header_sync.SyncBlockHeaderParam{Address: fix.Key(fix.KP256, 60).Address, Headers: [][]byte{sink.Bytes()}}
			ps := common.NewZeroCopySink(nil)
			p.Serialization(ps)
			_, res.err = sandbox.Call(nutils.HeaderSyncContractAddress, header_sync.SYNC_BLOCK_HEADER, ps.Bytes(), nil)
			if res.err == nil {
				// the entry point skips verification when a header of that height is already stored;
				// on a fresh cache it is not, so success means ProcessHeader verified it. Cross-check.
				svc2, _ := sc.NewNativeService()
				if h2, err := header_sync.GetHeaderByHeight(svc2, c33Chain, c.height); err != nil || h2 == nil {
					res.err = fmt.Errorf("HARNESS: syncBlockHeader succeeded but header not stored (%v)", err)
				}
			}
		} else {
			res.err = header_sync.VerifyHeader(svc, hdr)
		}
	}()
	res.accepted = res.err == nil
	res.D = len(distinctValidSigners(peers, common.Uint256(hash), hdr.SigData))
	res.allPeers = true
	listed := map[int]bool{}
	for _, i := range c.list {
		if i >= c.n {
			res.allPeers = false
		}
		listed[i] = true
	}
	res.distinctListed = len(listed)
	for i := range listed {
		if i < c.n && len(distinctValidSigners(peers[i:i+1], common.Uint256(hash), hdr.SigData)) == 1 {
			res.dListed++
		}
	}
	return res
}

func twoThirds(n int) int { return (2*n + 2) / 3 }

// explainedByDup: the accepted header lists only stored peers, lists at least 2N/3 entries, lists
// some peer more than once, and EVERY distinct listed peer has a valid signature — i.e. it would
// be a correct header if repeated listings were legitimate. Anything else accepted below two
// thirds (non-peer listed, listed peer without valid signature, short list) stays a violation.
func (r c33Result) explainedByDup(c c33Case) bool {
	return r.allPeers && len(c.list) >= twoThirds(c.n) && r.distinctListed < len(c.list) && r.dListed == r.distinctListed
}

// c33Witness: 4 stored peers; header lists peer 0 three times and carries its signature three times.
func c33Witness(e *c33Env) (bool, string) {
	c := c33Case{n: 4, kinds: []fix.KeyKind{0, 0, 0, 0}, list: []int{0, 0, 0}, sigs: []c32Sig{{"valid", 0}, {"valid", 0}, {"valid", 0}}, height: 10, keyH: 0}
	r := e.run(c, false)
	return r.accepted && r.D < twoThirds(4), fmt.Sprintf("%s -> VerifyHeader err=%v, distinct valid peer signatures D=%d, need ceil(2N/3)=%d", c, r.err, r.D, twoThirds(4))
}

func TestC33_Witness(t *testing.T) {
	ev := harn.For("C33").Rule(c33Rule)
	e := newC33Env()
	defer e.cleanup()
	fails, msg := c33Witness(e)
	ev.Case(true, "witness "+c33KeyDup+": "+msg)
	if !fails {
		ev.Class("witness:no-longer-fails")
		return
	}
	ev.Class("witness:fails")
	if harn.Known("C33", c33KeyDup, true) {
		ev.Excluded()
		return
	}
	harn.Violation(t, "C33", map[string]string{"witness": c33KeyDup, "case": msg}, "[%s] header accepted with fewer than two thirds of DISTINCT peers signing: %s", c33KeyDup, msg)
}

func genC33(t *rapid.T) c33Case {
	n := rapid.IntRange(4, 10).Draw(t, "N")
	c := c33Case{n: n, keyH: rapid.SampledFrom([]uint32{0, 0, 7, 100000}).Draw(t, "keyH")}
	c.height = c.keyH + uint32(rapid.SampledFrom([]int{1, 1, 2, 500}).Draw(t, "dh"))
	mixed := rapid.IntRange(0, 5).Draw(t, "mixed") == 0
	for i := 0; i < n; i++ {
		k := fix.KP256
		if mixed {
			k = rapid.SampledFrom([]fix.KeyKind{fix.KP256, fix.KSM2, fix.KEd25519, fix.KP224}).Draw(t, "kind")
		}
		c.kinds = append(c.kinds, k)
	}
	need := twoThirds(n)
	bad := []string{"garbage", "empty", "otherhash", "truncated"}
	if rapid.IntRange(0, 9).Draw(t, "mode") < 6 {
		L := rapid.SampledFrom([]int{need - 1, need, need, need + 1, n}).Draw(t, "L")
		L = max(1, min(L, n))
		perm := rapid.Permutation(seqInt(n)).Draw(t, "perm")
		c.list = append(c.list, perm[:L]...)
		signers := append([]int{}, c.list...)
		dupBeforeOwnSlot := false
		switch rapid.IntRange(0, 12).Draw(t, "twist") {
		case 0, 1: // replace the tail of the list by repetitions of listed peers (same length)
			d := rapid.IntRange(1, max(1, L-1)).Draw(t, "distinct")
			for i := d; i < L; i++ {
				c.list[i] = c.list[rapid.IntRange(0, d-1).Draw(t, "repOf")]
			}
			signers = append([]int{}, c.list...) // every entry "signs": repeated signatures
		case 2: // extra repetitions appended
			for i := rapid.IntRange(1, 3).Draw(t, "nrep"); i > 0; i-- {
				x := c.list[rapid.IntRange(0, len(c.list)-1).Draw(t, "repOf2")]
				c.list = append(c.list, x)
				signers = append(signers, x)
			}
		case 3: // a non-peer listed, signing validly with its own key
			pos := rapid.IntRange(0, L-1).Draw(t, "outPos")
			c.list[pos] = n + rapid.IntRange(0, 2).Draw(t, "out")
			signers[pos] = c.list[pos]
		case 4: // one listed peer does not sign; an unlisted peer signs instead
			if L < n {
				signers[rapid.IntRange(0, L-1).Draw(t, "swap")] = perm[L]
			}
		case 5: // one signature missing
			signers = signers[:len(signers)-1]
		case 6, 7, 8: // all listed keys distinct; 1-2 peers' signatures sit in their own list slot AND in an earlier slot
			if L >= 2 {
				for pairs := rapid.IntRange(1, 2).Draw(t, "dupPairs"); pairs > 0; pairs-- {
					j := rapid.IntRange(1, L-1).Draw(t, "ownSlot")
					i := rapid.IntRange(0, j-1).Draw(t, "earlierSlot")
					if signers[j] == c.list[j] { // slot j still holds its own signer
						signers[i] = c.list[j]
					}
				}
				dupBeforeOwnSlot = true
			}
		}
		for _, s := range signers {
			c.sigs = append(c.sigs, c32Sig{"valid", s})
		}
		if dupBeforeOwnSlot {
			return c // neither corrupted nor shuffled: the placement is the point
		}
		if rapid.IntRange(0, 6).Draw(t, "corrupt") == 0 && len(c.sigs) > 0 {
			p := rapid.IntRange(0, len(c.sigs)-1).Draw(t, "corruptPos")
			c.sigs[p].kind = rapid.SampledFrom(bad).Draw(t, "corruptKind")
		}
		if rapid.IntRange(0, 3).Draw(t, "shuffle") == 0 {
			c.sigs = rapid.Permutation(c.sigs).Draw(t, "sigOrder")
		}
	} else {
		for i := rapid.IntRange(0, n+3).Draw(t, "listLen"); i > 0; i-- {
			c.list = append(c.list, rapid.IntRange(0, n+1).Draw(t, "entry"))
		}
		for i := rapid.IntRange(0, n+3).Draw(t, "sigLen"); i > 0; i-- {
			if rapid.IntRange(0, 9).Draw(t, "sv") < 7 {
				c.sigs = append(c.sigs, c32Sig{"valid", rapid.IntRange(0, n+1).Draw(t, "signer")})
			} else {
				c.sigs = append(c.sigs, c32Sig{rapid.SampledFrom(bad).Draw(t, "bk"), rapid.IntRange(0, n-1).Draw(t, "bb")})
			}
		}
	}
	return c
}

func c33Explore(t *testing.T, viaEntry bool, quick, thorough int) {
	ev := harn.For("C33").Rule(c33Rule)
	ev.Assume("one stored key height per side chain (headers are judged against the only stored peer set); signatures checked with the repo's signature.Verify under each stored peer's key")
	ev.Floor("accepted", "", 0.08)
	ev.Floor("rejected", "", 0.20)
	e := newC33Env()
	defer e.cleanup()
	fails, _ := c33Witness(e)
	known := harn.Known("C33", c33KeyDup, fails)
	via := map[bool]string{false: "VerifyHeader", true: "syncBlockHeader"}[viaEntry]
	harn.Check(t, quick, thorough, func(t *rapid.T) {
		c := genC33(t)
		r := e.run(c, viaEntry)
		desc := via + " " + c.String()
		if r.err != nil && (strings.HasPrefix(r.err.Error(), "PANIC") || strings.HasPrefix(r.err.Error(), "HARNESS")) {
			t.Fatalf("%v on %s", r.err, desc)
		}
		need := twoThirds(c.n)
		if r.accepted {
			ev.Class("accepted")
			switch {
			case r.D >= need:
				ev.Class("accepted:D>=2N/3")
			case known && r.explainedByDup(c):
				ev.Excluded()
				ev.Class("accepted:D<2N/3:known-duplicates")
			default:
				t.Fatalf("%s accepted: only %d distinct peer(s) of the stored %d-peer set have a verifying signature, need ceil(2N/3)=%d (listed entries=%d, distinct listed=%d, distinct listed with valid signature=%d, all listed are peers=%v)",
					desc, r.D, c.n, need, len(c.list), r.distinctListed, r.dListed, r.allPeers)
			}
		} else {
			ev.Class("rejected")
		}
		if r.distinctListed < len(c.list) {
			ev.Class("list:has-duplicates")
		}
		ev.Case(r.accepted || (r.D >= need-1 && r.D <= need), desc)
	})
}

func TestC33_VerifyHeader(t *testing.T)    { c33Explore(t, false, 900, 60000) }
func TestC33_SyncBlockHeader(t *testing.T) { c33Explore(t, true, 500, 30000) }

var _ = native.Contracts
