package codec

// C21 Numeric encodings round-trip exactly.
// Oracles: decode∘encode = id; independent .NET-BigInteger reference encoder (minimality);
// exact I128 range; native varuint range; balance storage item version rule.

import (
	"bytes"
	"fmt"
	"math/big"
	"testing"

	"github.com/laizy/bigint"
	"github.com/ontio/ontology/common"
	"github.com/ontio/ontology/core/states"
	nutils "github.com/ontio/ontology/smartcontract/service/native/utils"
	"pgregory.net/rapid"

	"verifharness/internal/harn"
)

// genBig draws integers concentrated on sign and byte-length boundaries ±2^(8k-1)±d, ±2^(8k)±d.
func genBig(maxBytes int) *rapid.Generator[*big.Int] {
	return rapid.Custom(func(t *rapid.T) *big.Int {
		switch rapid.IntRange(0, 3).Draw(t, "kind") {
		case 0: // boundary
			k := rapid.IntRange(1, maxBytes).Draw(t, "k")
			bit := uint(8*k - rapid.IntRange(0, 1).Draw(t, "half"))
			v := new(big.Int).Lsh(big.NewInt(1), bit)
			v.Add(v, big.NewInt(int64(rapid.IntRange(-2, 2).Draw(t, "d"))))
			if rapid.Bool().Draw(t, "neg") {
				v.Neg(v)
			}
			return v
		case 1: // small
			return big.NewInt(int64(rapid.IntRange(-300, 300).Draw(t, "small")))
		case 2: // int64 edge
			e := []int64{-1 << 63, -1<<63 + 1, 1<<63 - 1, 1<<63 - 2, -1 << 31, 1 << 31, 1<<32 - 1}
			return big.NewInt(rapid.SampledFrom(e).Draw(t, "edge"))
		default:
			b := rapid.SliceOfN(rapid.Byte(), 0, maxBytes).Draw(t, "bytes")
			v := new(big.Int).SetBytes(b)
			if rapid.Bool().Draw(t, "neg") {
				v.Neg(v)
			}
			return v
		}
	})
}

// refNeoBytes: independent reference of System.Numerics.BigInteger.ToByteArray (shortest
// little-endian two's complement), except that zero is the empty string as the repo documents.
func refNeoBytes(v *big.Int) []byte {
	if v.Sign() == 0 {
		return []byte{}
	}
	for n := 1; ; n++ {
		lim := new(big.Int).Lsh(big.NewInt(1), uint(8*n-1)) // 2^(8n-1)
		if v.Cmp(lim) < 0 && v.Cmp(new(big.Int).Neg(lim)) >= 0 {
			m := new(big.Int).Set(v)
			if m.Sign() < 0 {
				m.Add(m, new(big.Int).Lsh(big.NewInt(1), uint(8*n)))
			}
			be := m.Bytes()
			out := make([]byte, n)
			for i := range be {
				out[len(be)-1-i] = be[i]
			}
			return out
		}
	}
}

func nearByteBoundary(v *big.Int) bool {
	a := new(big.Int).Abs(v)
	for _, d := range []int64{-2, -1, 0, 1, 2} {
		x := new(big.Int).Add(a, big.NewInt(d))
		if x.Sign() > 0 && x.BitLen()%8 <= 1 && new(big.Int).And(x, new(big.Int).Sub(x, big.NewInt(1))).Sign() == 0 {
			return true
		}
	}
	return false
}

func TestC21_NeoBytes(t *testing.T) {
	ev := harn.For("C21").Rule("big.Int from boundary pool ±2^(8k-1)±d, ±2^8k±d (k<=34), int64 edges, uniform bytes; non-trivial = within 2 of a power of two at a byte/sign boundary, or an I128/uint64 range edge, or a balance with a fractional part")
	harn.Check(t, 40000, 3000000, func(t *rapid.T) {
		v := genBig(34).Draw(t, "v")
		enc := common.BigIntToNeoBytes(v)
		ref := refNeoBytes(v)
		if !bytes.Equal(enc, ref) {
			t.Fatalf("BigIntToNeoBytes(%s) = %x, reference shortest two's complement = %x", v, enc, ref)
		}
		dec := common.BigIntFromNeoBytes(enc)
		if dec.Cmp(v) != 0 {
			t.Fatalf("BigIntFromNeoBytes(BigIntToNeoBytes(%s)) = %s", v, dec)
		}
		// minimality / uniqueness among encodings produced by the encoder: dropping the last byte changes the value
		if len(enc) > 0 {
			if common.BigIntFromNeoBytes(enc[:len(enc)-1]).Cmp(v) == 0 {
				t.Fatalf("encoding of %s is not minimal: %x", v, enc)
			}
		}
		// decoder agrees with reference two's complement on arbitrary bytes (incl. non-minimal)
		raw := rapid.SliceOfN(rapid.Byte(), 0, 40).Draw(t, "raw")
		got := common.BigIntFromNeoBytes(raw)
		want := refFromNeo(raw)
		if got.Cmp(want) != 0 {
			t.Fatalf("BigIntFromNeoBytes(%x) = %s, reference %s", raw, got, want)
		}
		ev.Case(nearByteBoundary(v), "neo:"+v.String())
	})
}

func refFromNeo(b []byte) *big.Int {
	if len(b) == 0 {
		return new(big.Int)
	}
	be := make([]byte, len(b))
	for i := range b {
		be[len(b)-1-i] = b[i]
	}
	v := new(big.Int).SetBytes(be)
	if b[len(b)-1]&0x80 != 0 {
		v.Sub(v, new(big.Int).Lsh(big.NewInt(1), uint(8*len(b))))
	}
	return v
}

func TestC21_I128(t *testing.T) {
	ev := harn.For("C21")
	max := new(big.Int).Sub(new(big.Int).Lsh(big.NewInt(1), 127), big.NewInt(1))
	min := new(big.Int).Neg(new(big.Int).Lsh(big.NewInt(1), 127))
	harn.Check(t, 30000, 2000000, func(t *rapid.T) {
		v := genBig(18).Draw(t, "v")
		in := new(big.Int).Set(v)
		i, err := common.I128FromBigInt(v)
		if v.Cmp(in) != 0 {
			t.Fatalf("I128FromBigInt mutated its argument %s -> %s", in, v)
		}
		inRange := v.Cmp(max) <= 0 && v.Cmp(min) >= 0
		if inRange != (err == nil) {
			t.Fatalf("I128FromBigInt(%s): in range=%v, err=%v", v, inRange, err)
		}
		edge := new(big.Int).Sub(new(big.Int).Abs(v), new(big.Int).Lsh(big.NewInt(1), 127))
		nontriv := edge.CmpAbs(big.NewInt(3)) <= 0
		if err == nil {
			back := i.ToBigInt()
			if back.Cmp(v) != 0 {
				t.Fatalf("I128 round trip %s -> %x -> %s", v, i[:], back)
			}
			// little-endian two's complement, 16 bytes: compare with reference
			ref := refNeoBytes(v)
			pad := byte(0)
			if v.Sign() < 0 {
				pad = 0xff
			}
			for k := 0; k < 16; k++ {
				w := pad
				if k < len(ref) {
					w = ref[k]
				}
				if i[k] != w {
					t.Fatalf("I128FromBigInt(%s) byte %d = %02x want %02x", v, k, i[k], w)
				}
			}
			// sink/source transport
			s := common.NewZeroCopySink(nil)
			s.WriteI128(i)
			j, eof := common.NewZeroCopySource(s.Bytes()).NextI128()
			if eof || j != i {
				t.Fatalf("I128 sink/source mismatch")
			}
			if v.IsInt64() {
				if common.I128FromInt64(v.Int64()) != i {
					t.Fatalf("I128FromInt64(%s) differs from I128FromBigInt", v)
				}
			}
			if v.IsUint64() {
				if common.I128FromUint64(v.Uint64()) != i {
					t.Fatalf("I128FromUint64(%s) differs from I128FromBigInt", v)
				}
			}
		}
		ev.Case(nontriv, "i128:"+v.String())
	})
}

func TestC21_NativeVarUint(t *testing.T) {
	ev := harn.For("C21")
	harn.Check(t, 30000, 2000000, func(t *rapid.T) {
		var x uint64
		switch rapid.IntRange(0, 2).Draw(t, "k") {
		case 0:
			x = rapid.Uint64().Draw(t, "x")
		case 1:
			sh := uint(rapid.IntRange(0, 63).Draw(t, "sh"))
			x = (uint64(1) << sh) + uint64(rapid.IntRange(-2, 2).Draw(t, "d"))
		default:
			x = ^uint64(0) - uint64(rapid.IntRange(0, 3).Draw(t, "d"))
		}
		s := common.NewZeroCopySink(nil)
		nutils.EncodeVarUint(s, x)
		src := common.NewZeroCopySource(s.Bytes())
		y, err := nutils.DecodeVarUint(src)
		if err != nil || y != x || src.Len() != 0 {
			t.Fatalf("DecodeVarUint(EncodeVarUint(%d)) = %d, %v, rest %d", x, y, err, src.Len())
		}
		// values outside uint64 (negative, >64 bit) must be rejected
		v := genBig(12).Draw(t, "v")
		s2 := common.NewZeroCopySink(nil)
		s2.WriteVarBytes(common.BigIntToNeoBytes(v))
		z, err := nutils.DecodeVarUint(common.NewZeroCopySource(s2.Bytes()))
		ok := v.Sign() >= 0 && v.IsUint64()
		if ok != (err == nil) || (ok && z != v.Uint64()) {
			t.Fatalf("DecodeVarUint of %s: got %d err %v, representable=%v", v, z, err, ok)
		}
		edge := new(big.Int).Sub(v, new(big.Int).Lsh(big.NewInt(1), 64))
		ev.Case(edge.CmpAbs(big.NewInt(3)) <= 0 || v.CmpAbs(big.NewInt(2)) <= 0 && v.Sign() < 0 || x > ^uint64(0)-4, fmt.Sprintf("varuint:%d/%s", x, v))
	})
}

func TestC21_BalanceStorageItem(t *testing.T) {
	ev := harn.For("C21")
	harn.Check(t, 30000, 2000000, func(t *rapid.T) {
		intPart := rapid.OneOf(rapid.Uint64(), rapid.Uint64Range(0, 5), rapid.Just(^uint64(0)), rapid.Just(uint64(1e18))).Draw(t, "int")
		frac := rapid.OneOf(rapid.Just(uint64(0)), rapid.Uint64Range(0, states.ScaleFactor-1), rapid.Just(uint64(1)), rapid.Just(uint64(states.ScaleFactor-1))).Draw(t, "frac")
		bal := states.NativeTokenBalance{Balance: bigint.Add(bigint.Mul(intPart, states.ScaleFactor), frac)}
		item := bal.MustToStorageItem()
		wantVer := byte(states.DefaultVersion)
		if frac != 0 {
			wantVer = states.ScaleDecimal9Version
		}
		if item.StateVersion != wantVer {
			t.Fatalf("balance %s stored with version %d, want %d", bal.String(), item.StateVersion, wantVer)
		}
		raw := item.ToArray()
		var it2 states.StorageItem
		if err := it2.Deserialization(common.NewZeroCopySource(raw)); err != nil {
			t.Fatalf("storage item decode: %v", err)
		}
		back, err := states.NativeTokenBalanceFromStorageItem(&it2)
		if err != nil || back.Balance.BigInt().Cmp(bal.Balance.BigInt()) != 0 {
			t.Fatalf("balance round trip %s -> %x -> %s (%v)", bal.String(), raw, back.String(), err)
		}
		if !bytes.Equal(back.MustToStorageItemBytes(), raw) {
			t.Fatalf("balance %s has two encodings", bal.String())
		}
		if bal.FloatPart() != frac || bal.IsFloat() != (frac != 0) || bal.MustToInteger64() != intPart {
			t.Fatalf("balance accessors disagree for %s", bal.String())
		}
		ev.Case(frac != 0, fmt.Sprintf("bal:%d.%09d", intPart, frac))
	})
}
