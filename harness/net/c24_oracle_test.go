package net

// C24 oracle shared by the rapid tests, the isolated worker and the native fuzz target.

import (
	"bytes"
	"encoding/binary"
	"encoding/json"
	"fmt"
	"io"
	"runtime"
	"runtime/debug"
	"sync"
	"time"

	"github.com/ontio/ontology/common"
	"github.com/ontio/ontology/common/config"
	ct "github.com/ontio/ontology/core/types"
	pcom "github.com/ontio/ontology/p2pserver/common"
	"github.com/ontio/ontology/p2pserver/message/types"

	"verifharness/internal/fix"
	"verifharness/internal/harn"
	"verifharness/internal/iso"
)

const (
	keyAddrCount = "addr-count-overflow-panic"
	keyCCSigLen  = "ccmsg-siglen-prealloc"
)

var setupOnce sync.Once

// setup fixes the process-wide parameters of the decoders.
func setup() {
	setupOnce.Do(func() {
		fix.Quiet()
		pcom.Difficulty = 1 // kad-id proof of work: 1 bit, as the repo's own tests do
		initKeys()
	})
}

// countingReader counts the bytes handed out.
type countingReader struct {
	r io.Reader
	n int
}

func (c *countingReader) Read(p []byte) (int, error) {
	n, err := c.r.Read(p)
	c.n += n
	return n, err
}

// verdict of decoding one stream.
type verdict struct {
	Kind     string // "msg" (decoded, all oracles held), "err" (rejected), or a violation: "panic", "alloc", "len", "reencode", "redecode", "idem", "header"
	Detail   string
	Cmd      string // CmdType of the decoded message
	Alloc    uint64
	Consumed int
	Canon    string `json:"-"`
	msg      types.Message
}

func (v verdict) bad() bool { return v.Kind != "msg" && v.Kind != "err" }

// hdrFields parses the 24 header bytes independently.
type hdrFields struct {
	ok     bool
	magic  uint32
	cmd    string
	length uint32
	ck     [4]byte
}

func parseHdr(stream []byte) (h hdrFields) {
	if len(stream) < 24 {
		return
	}
	h.ok = true
	h.magic = binary.LittleEndian.Uint32(stream)
	h.cmd = string(bytes.TrimRight(stream[4:16], "\x00"))
	h.length = binary.LittleEndian.Uint32(stream[16:])
	copy(h.ck[:], stream[20:24])
	return
}

// allocBound: cumulative allocation allowed while decoding one stream. The payload buffer may be as
// large as the declared length (only when that is within MAX_PAYLOAD_LEN); everything else is
// bounded, very generously, by a multiple of the bytes actually supplied.
func allocBound(stream []byte) uint64 {
	b := uint64(64*len(stream)) + 1<<20
	if h := parseHdr(stream); h.ok && h.length <= pcom.MAX_PAYLOAD_LEN {
		b += uint64(h.length)
	}
	return b
}

var memA, memB runtime.MemStats

// readMeasured runs ReadMessage on the stream with panic recovery, a counting reader and the
// allocation meter (cumulative bytes allocated by this goroutine's process during the call).
func readMeasured(stream []byte) (msg types.Message, n uint32, err error, pan interface{}, alloc uint64, consumed int) {
	cr := &countingReader{r: bytes.NewReader(stream)}
	runtime.ReadMemStats(&memA)
	func() {
		defer func() { pan = recover() }()
		msg, n, err = types.ReadMessage(cr)
	}()
	runtime.ReadMemStats(&memB)
	return msg, n, err, pan, memB.TotalAlloc - memA.TotalAlloc, cr.n
}

func encodeFrame(m types.Message) (out []byte, pan interface{}) {
	defer func() { pan = recover() }()
	s := common.NewZeroCopySink(nil)
	types.WriteMessage(s, m)
	return s.Bytes(), nil
}

// judge applies every oracle that holds for an arbitrary byte stream.
func judge(stream []byte) (v verdict) {
	h := parseHdr(stream)
	msg, n, err, pan, alloc, consumed := readMeasured(append([]byte{}, stream...))
	v.Alloc, v.Consumed = alloc, consumed
	if pan != nil {
		v.Kind, v.Detail = "panic", fmt.Sprintf("ReadMessage panicked: %v", pan)
		return
	}
	if alloc > allocBound(stream) {
		v.Kind, v.Detail = "alloc", fmt.Sprintf("ReadMessage allocated %d bytes for a %d-byte stream (bound %d)", alloc, len(stream), allocBound(stream))
		return
	}
	// header model: these streams must be rejected
	if reason := headerMustReject(stream, h); reason != "" {
		if err == nil {
			v.Kind, v.Detail = "header", "accepted a stream that must be rejected: "+reason
			return
		}
		if h.ok && h.magic == magic() && h.length > pcom.MAX_PAYLOAD_LEN && consumed > 24 {
			v.Kind, v.Detail = "header", fmt.Sprintf("oversize length %d: %d bytes consumed, only the 24 header bytes may be read", h.length, consumed)
			return
		}
	}
	if err != nil {
		v.Kind, v.Detail = "err", err.Error()
		return
	}
	if msg == nil {
		v.Kind, v.Detail = "header", "nil message without error"
		return
	}
	v.msg, v.Cmd = msg, msg.CmdType()
	if n != h.length {
		v.Kind, v.Detail = "len", fmt.Sprintf("reported payload size %d, header says %d", n, h.length)
		return
	}
	if v.Cmd != h.cmd {
		v.Kind, v.Detail = "len", fmt.Sprintf("message type %q decoded from command %q", v.Cmd, h.cmd)
		return
	}
	// semantic idempotence: decode(encode(decode(b))) == decode(b)
	c1 := canon(msg)
	v.Canon = c1
	f2, pan := encodeFrame(msg)
	if pan != nil {
		v.Kind, v.Detail = "reencode", fmt.Sprintf("re-serializing the decoded message panicked: %v", pan)
		return
	}
	m2, _, err2, pan2, _, _ := readMeasured(f2)
	if pan2 != nil || err2 != nil {
		v.Kind, v.Detail = "redecode", fmt.Sprintf("re-serialized message %x does not decode: err=%v panic=%v", f2, err2, pan2)
		return
	}
	if c2 := canon(m2); c2 != c1 {
		v.Kind, v.Detail = "idem", fmt.Sprintf("decode(encode(decode(b))) differs:\n first  %s\n second %s", c1, c2)
		return
	}
	f3, _ := encodeFrame(m2)
	if !bytes.Equal(f2, f3) {
		v.Kind, v.Detail = "idem", fmt.Sprintf("encode is not stable: %x then %x", f2, f3)
		return
	}
	v.Kind = "msg"
	return
}

func magic() uint32     { return config.DefConfig.P2PNode.NetworkMagic }
func setMagic(m uint32) { config.DefConfig.P2PNode.NetworkMagic = m }

// headerMustReject is the reference model of the frame checks: non-empty reason = the stream must
// produce an error.
func headerMustReject(stream []byte, h hdrFields) string {
	switch {
	case !h.ok:
		return "shorter than a header"
	case h.magic != magic():
		return fmt.Sprintf("magic %#x != %#x", h.magic, magic())
	case h.length > pcom.MAX_PAYLOAD_LEN:
		return fmt.Sprintf("length %d > MAX_PAYLOAD_LEN", h.length)
	case uint64(len(stream)-24) < uint64(h.length):
		return "payload shorter than the declared length"
	case refChecksum(stream[24:24+int(h.length)]) != h.ck:
		return "checksum mismatch"
	}
	return ""
}

// ---------------------------------------------------------------------------------------------
// recognisers of the recorded findings

// isAddrOverflow: addr payload whose 8-byte count is >= 2^63.
func isAddrOverflow(cmd string, pay []byte) bool {
	return cmd == pcom.ADDR_TYPE && len(pay) >= 8 && binary.LittleEndian.Uint64(pay) >= 1<<63
}

// ccSigLen: for a block payload that carries a cross-chain message, the declared number of
// signatures and the number of payload bytes that follow the count.
func ccSigLen(cmd string, pay []byte) (sigLen, remaining uint64, ok bool) {
	if cmd != pcom.BLOCK_TYPE {
		return
	}
	defer func() {
		if recover() != nil {
			ok = false
		}
	}()
	src := common.NewZeroCopySource(append([]byte{}, pay...))
	blk := new(ct.Block)
	if blk.Deserialization(src) != nil {
		return
	}
	if _, eof := src.NextHash(); eof {
		return
	}
	has, irr, eof := src.NextBool()
	if irr || eof || !has {
		return
	}
	if eof := src.Skip(1 + 4 + 32); eof {
		return
	}
	n, _, irr, eof := src.NextVarUint()
	if irr || eof {
		return
	}
	return n, src.Len(), true
}

// isCCPrealloc: the cross-chain message declares more signatures than bytes remain (each
// signature needs at least one byte), so the decoder must fail — but it pre-allocates first.
func isCCPrealloc(cmd string, pay []byte) bool {
	n, rem, ok := ccSigLen(cmd, pay)
	return ok && n > rem
}

func framePayload(stream []byte) (string, []byte, bool) {
	h := parseHdr(stream)
	if !h.ok || headerMustReject(stream, h) != "" {
		return "", nil, false
	}
	return h.cmd, stream[24 : 24+int(h.length)], true
}

var (
	knownOnce            sync.Once
	knownAddr, knownCC   bool
	addrStill, ccStill   bool
	addrDetail, ccDetail string
)

func witnessAddr() []byte { return refFrame(pcom.ADDR_TYPE, []byte{0, 0, 0, 0, 0, 0, 0, 0x80}) }

// witnessCC: an empty block followed by a cross-chain message whose signature count is n.
func witnessCC(n uint64) []byte {
	blk := &ct.Block{Header: &ct.Header{}}
	blk.RebuildMerkleRoot()
	s := common.NewZeroCopySink(nil)
	blk.Serialization(s)
	p := &pb{b: s.Bytes()}
	p.raw(make([]byte, 32))
	p.boolean(true)
	p.u8(0)
	p.u32(1)
	p.raw(make([]byte, 32))
	p.raw(refVarUint(n))
	return refFrame(pcom.BLOCK_TYPE, p.b)
}

// replayKnown replays the deterministic witnesses once per process.
func replayKnown() {
	knownOnce.Do(func() {
		setup()
		v := judge(witnessAddr())
		addrStill, addrDetail = v.bad(), v.Kind+": "+v.Detail
		knownAddr = harn.Known("C24", keyAddrCount, addrStill)
		v = judge(witnessCC(1 << 63))
		ccStill, ccDetail = v.bad(), v.Kind+": "+v.Detail
		if !ccStill {
			v = judge(witnessCC(1 << 20)) // 24 MiB of slice headers for a 200-byte frame
			ccStill, ccDetail = v.bad(), v.Kind+": "+v.Detail
		}
		knownCC = harn.Known("C24", keyCCSigLen, ccStill)
	})
}

// ---------------------------------------------------------------------------------------------
// isolated execution (fatal out-of-memory cannot be recovered in-process)

func init() {
	iso.Register("c24judge", func(in []byte) []byte {
		setup()
		debug.SetGCPercent(100)
		if len(in) >= 4 {
			setMagic(binary.LittleEndian.Uint32(in))
			in = in[4:]
		}
		v := judge(in)
		b, _ := json.Marshal(v)
		return b
	})
}

var worker = iso.New("c24judge")

func judgeIsolated(stream []byte) (v verdict, timedOut bool) {
	in := binary.LittleEndian.AppendUint32(nil, magic())
	r := worker.Do(append(in, stream...), 60*time.Second)
	if r.TimedOut {
		return verdict{Kind: "err", Detail: "worker timeout"}, true
	}
	if r.Died {
		return verdict{Kind: "panic", Detail: "decoding killed the process: " + r.Diag}, false
	}
	if err := json.Unmarshal(r.Out, &v); err != nil {
		return verdict{Kind: "panic", Detail: "worker answer unreadable: " + err.Error()}, false
	}
	return v, false
}

// judgeGuarded is judge for generated/mutated streams: streams inside a recorded finding's class
// are excluded (and counted) while the finding is listed; streams that could exhaust memory are
// judged in the worker process.
func judgeGuarded(ev *harn.Collector, stream []byte) (v verdict, excluded bool) {
	replayKnown()
	if cmd, pay, ok := framePayload(stream); ok {
		if isAddrOverflow(cmd, pay) && knownAddr {
			ev.Excluded()
			return verdict{Kind: "err", Detail: "excluded " + keyAddrCount}, true
		}
		if isCCPrealloc(cmd, pay) {
			if knownCC {
				ev.Excluded()
				return verdict{Kind: "err", Detail: "excluded " + keyCCSigLen}, true
			}
			if n, _, _ := ccSigLen(cmd, pay); n > 1<<22 {
				v, to := judgeIsolated(stream)
				if to {
					ev.Class("timeout")
				}
				return v, false
			}
		}
	}
	return judge(stream), false
}
