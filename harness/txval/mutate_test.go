package txval

// Mutators. (1) byte substitutions at a position of the raw transaction (the classes the property
// names: signed content, payer, signature bytes); (2) structural edits of a txSpec that re-encode or
// damage verification / invocation scripts while reusing the signatures already made.

import (
	"fmt"

	"pgregory.net/rapid"

	"verifharness/internal/fix"
)

// ---------------------------------------------------------------------------------------------
// byte substitutions

type byteMut struct {
	Class string // unsigned | payer | sig
	Off   int
	Xor   byte
	Sig   *span // for Class == "sig": the signature hit
}

func (m byteMut) apply(raw []byte) []byte {
	out := append([]byte{}, raw...)
	out[m.Off] ^= m.Xor
	return out
}

func (m byteMut) String() string {
	if m.Sig != nil {
		return fmt.Sprintf("sig[set%d.%d]+%d/%d^%02x", m.Sig.Set, m.Sig.Idx, m.Off-m.Sig.From, m.Sig.To-m.Sig.From, m.Xor)
	}
	return fmt.Sprintf("%s@%d^%02x", m.Class, m.Off, m.Xor)
}

func genXor(t *rapid.T) byte {
	if uniR(t, 0, 3, "xorKind") == 0 {
		return byte(1) << uint(uniR(t, 0, 7, "bit"))
	}
	return byte(uniR(t, 1, 255, "xor"))
}

func genUnsignedMut(t *rapid.T, lay *layout) byteMut {
	var off int
	switch uniR(t, 0, 5, "where") {
	case 0: // header fields: version, type, nonce, gas price, gas limit
		off = uniR(t, 0, payerOff-1, "off")
	case 1: // last byte of the signed content (attribute count) and the bytes before it
		off = lay.UnsignedLen - 1 - uniR(t, 0, 2, "back")
	case 2: // first bytes of the payload (length prefix)
		off = payerOff + 20 + uniR(t, 0, 2, "plOff")
		if off >= lay.UnsignedLen {
			off = lay.UnsignedLen - 1
		}
	default:
		off = uniR(t, 0, lay.UnsignedLen-1, "off")
	}
	cl := "unsigned"
	if off >= payerOff && off < payerOff+20 {
		cl = "payer"
	}
	return byteMut{Class: cl, Off: off, Xor: genXor(t)}
}

func genPayerMut(t *rapid.T) byteMut {
	return byteMut{Class: "payer", Off: payerOff + uniR(t, 0, 19, "payerOff"), Xor: genXor(t)}
}

func genSigMut(t *rapid.T, lay *layout) byteMut {
	i := uniR(t, 0, len(lay.SigData)-1, "sigIdx")
	sp := lay.SigData[i]
	n := sp.To - sp.From
	var rel int
	switch uniR(t, 0, 9, "sigWhere") {
	case 0:
		rel = 0
	case 1, 2:
		rel = n - 1
	case 3:
		rel = n / 2
	default:
		rel = uniR(t, 0, n-1, "sigOff")
	}
	return byteMut{Class: "sig", Off: sp.From + rel, Xor: genXor(t), Sig: &sp}
}

// ---------------------------------------------------------------------------------------------
// structural edits

type structMut struct {
	Name string
	// Apply edits tx (a private clone) and returns a short description, or "" when not applicable.
	Apply func(t *rapid.T, tx *txSpec) string
}

func pickSet(t *rapid.T, tx *txSpec, pred func(*setSpec) bool) (int, *setSpec) {
	var idx []int
	for i, s := range tx.Sets {
		if s.RawVerify == nil && s.RawInvoke == nil && pred(s) {
			idx = append(idx, i)
		}
	}
	if len(idx) == 0 {
		return -1, nil
	}
	i := idx[uniR(t, 0, len(idx)-1, "set")]
	return i, tx.Sets[i]
}

func anySet(s *setSpec) bool   { return len(s.Keys) > 0 }
func multiSet(s *setSpec) bool { return s.Multi && len(s.Keys) > 0 }
func withSigs(s *setSpec) bool { return len(s.Keys) > 0 && len(s.Sigs) > 0 }

// signedBy: the first k signatures exist and were made by zoo keys
func signedBy(s *setSpec, k int) bool {
	if len(s.Sigs) < k {
		return false
	}
	for _, g := range s.Sigs[:k] {
		if g.Signer == nil {
			return false
		}
	}
	return true
}

func isSigner(s *setSpec, z *fix.ZooKey) int {
	for i, g := range s.Sigs {
		if g.Signer == z {
			return i
		}
	}
	return -1
}

func outsider(t *rapid.T, s *setSpec) *fix.ZooKey {
	used := map[string]bool{}
	for _, k := range s.Keys {
		if k.Z != nil {
			used[keyName(k.Z)] = true
		}
	}
	return drawKey(t, used, "outsider")
}

func drawAltEnc(t *rapid.T, z *fix.ZooKey) (keyEnc, []byte, bool) {
	var alts []keyEnc
	for _, e := range acceptedEnc[z.Kind] {
		if e != encCanon {
			alts = append(alts, e)
		}
	}
	if len(alts) == 0 {
		return encCanon, nil, false
	}
	e := pick(t, alts, "enc")
	var junk []byte
	if e == encTrailing {
		junk = rapid.SliceOfN(rapid.Byte(), 1, 3).Draw(t, "junk")
	}
	return e, junk, true
}

func drawPush(t *rapid.T) pushStyle {
	return pick(t, []pushStyle{pushData1, pushData2, pushData4}, "push")
}

var structMuts = []structMut{
	{"reenc-key", func(t *rapid.T, tx *txSpec) string {
		si, s := pickSet(t, tx, func(s *setSpec) bool {
			for _, k := range s.Keys {
				if len(acceptedEnc[k.Z.Kind]) > 1 {
					return true
				}
			}
			return false
		})
		if s == nil {
			return ""
		}
		var c []int
		for i, k := range s.Keys {
			if len(acceptedEnc[k.Z.Kind]) > 1 {
				c = append(c, i)
			}
		}
		ki := c[uniR(t, 0, len(c)-1, "key")]
		e, junk, _ := drawAltEnc(t, s.Keys[ki].Z)
		s.Keys[ki].Enc, s.Keys[ki].Junk = e, junk
		return fmt.Sprintf("set%d.key%d:%s:%s", si, ki, s.Keys[ki].Z.Kind, e)
	}},
	{"unsorted", func(t *rapid.T, tx *txSpec) string {
		si, s := pickSet(t, tx, multiSet)
		if s == nil {
			return ""
		}
		before := s.describe()
		s.Keys = rapid.Permutation(s.Keys).Draw(t, "order")
		if s.describe() == before { // force a change
			s.Keys[0], s.Keys[len(s.Keys)-1] = s.Keys[len(s.Keys)-1], s.Keys[0]
		}
		return fmt.Sprintf("set%d", si)
	}},
	{"push-key", func(t *rapid.T, tx *txSpec) string {
		si, s := pickSet(t, tx, anySet)
		if s == nil {
			return ""
		}
		ki := uniR(t, 0, len(s.Keys)-1, "key")
		s.Keys[ki].Push = drawPush(t)
		return fmt.Sprintf("set%d.key%d:%s", si, ki, s.Keys[ki].Push)
	}},
	{"push-sig", func(t *rapid.T, tx *txSpec) string {
		si, s := pickSet(t, tx, withSigs)
		if s == nil {
			return ""
		}
		gi := uniR(t, 0, len(s.Sigs)-1, "sig")
		s.Sigs[gi].Push = drawPush(t)
		return fmt.Sprintf("set%d.sig%d:%s", si, gi, s.Sigs[gi].Push)
	}},
	{"n-bytes", func(t *rapid.T, tx *txSpec) string {
		si, s := pickSet(t, tx, multiSet)
		if s == nil {
			return ""
		}
		s.NStyle = pick(t, []numStyle{numBytes1, numBytesBE2, numBytesLE2, numData1}, "nstyle")
		return fmt.Sprintf("set%d:%s", si, s.NStyle)
	}},
	{"m-bytes", func(t *rapid.T, tx *txSpec) string {
		si, s := pickSet(t, tx, multiSet)
		if s == nil {
			return ""
		}
		s.MStyle = pick(t, []numStyle{numBytes1, numData1, numBytesLE2}, "mstyle")
		return fmt.Sprintf("set%d:%s", si, s.MStyle)
	}},
	{"n-wrong", func(t *rapid.T, tx *txSpec) string {
		si, s := pickSet(t, tx, multiSet)
		if s == nil {
			return ""
		}
		s.NValue = len(s.Keys) + pick(t, []int{-1, 1}, "dn")
		return fmt.Sprintf("set%d:n=%d", si, s.NValue)
	}},
	// the same key listed twice and ONE key's signature supplied twice: m distinct keys did not sign
	{"dup-key-counted", func(t *rapid.T, tx *txSpec) string {
		si, s := pickSet(t, tx, func(s *setSpec) bool {
			return s.Multi && s.M >= 2 && signedBy(s, 2) && s.Sigs[0].Signer != s.Sigs[1].Signer
		})
		if s == nil {
			return ""
		}
		a, b := s.Sigs[0].Signer, s.Sigs[1].Signer
		for i := range s.Keys {
			if s.Keys[i].Z == b {
				s.Keys[i] = keyItem{Z: a}
				if rapid.Bool().Draw(t, "altEnc") {
					if e, junk, ok := drawAltEnc(t, a); ok {
						s.Keys[i].Enc, s.Keys[i].Junk = e, junk
					}
				}
			}
		}
		s.Sigs[1] = s.Sigs[0]
		return fmt.Sprintf("set%d:%s twice", si, keyName(a))
	}},
	// the same key listed twice but m distinct keys still sign
	{"dup-key-benign", func(t *rapid.T, tx *txSpec) string {
		si, s := pickSet(t, tx, func(s *setSpec) bool { return s.Multi && s.M < len(s.Keys) && signedBy(s, 1) })
		if s == nil {
			return ""
		}
		a := s.Sigs[0].Signer
		done := false
		for i := range s.Keys {
			if isSigner(s, s.Keys[i].Z) < 0 {
				s.Keys[i] = keyItem{Z: a}
				done = true
				break
			}
		}
		if !done {
			return ""
		}
		return fmt.Sprintf("set%d:%s twice", si, keyName(a))
	}},
	{"junk-verify", func(t *rapid.T, tx *txSpec) string {
		si, s := pickSet(t, tx, anySet)
		if s == nil {
			return ""
		}
		v := append([]byte{}, s.verifyScript()...)
		how := uniR(t, 0, 6, "how")
		switch how {
		case 0:
			v = append([]byte{0x61}, v...) // NOP in front
		case 1:
			v = append(v, v[len(v)-1]) // final opcode twice
		case 2:
			v = append(v[:len(v)-1], 0x61, v[len(v)-1]) // NOP before the final opcode
		case 3:
			v = v[:uniR(t, 0, len(v)-1, "cut")]
		case 4:
			v = rapid.SliceOfN(rapid.Byte(), 0, 40).Draw(t, "random")
		case 5:
			v = append(v[:len(v)-1], 0x51, v[len(v)-1]) // extra PUSH1 before the final opcode
		default:
			v[len(v)-1] = byte(pick(t, []int{0xad, 0xaf, 0xac, 0xae, 0x00}, "endop"))
		}
		s.RawVerify = v
		if s.RawVerify == nil {
			s.RawVerify = []byte{}
		}
		return fmt.Sprintf("set%d:how%d", si, how)
	}},
	{"junk-invoke", func(t *rapid.T, tx *txSpec) string {
		si, s := pickSet(t, tx, withSigs)
		if s == nil {
			return ""
		}
		var inv []byte
		for _, g := range s.Sigs {
			inv = pushData(inv, g.Data, g.Push)
		}
		how := uniR(t, 0, 4, "how")
		switch how {
		case 0:
			inv = append(inv, 0x61)
		case 1:
			inv = append([]byte{0x51}, inv...)
		case 2:
			inv = inv[:uniR(t, 0, len(inv)-1, "cut")]
		case 3:
			inv = append(inv, 0x00)
		default:
			inv = rapid.SliceOfN(rapid.Byte(), 0, 80).Draw(t, "random")
		}
		if inv == nil {
			inv = []byte{}
		}
		s.RawInvoke = inv
		return fmt.Sprintf("set%d:how%d", si, how)
	}},
	{"drop-sig", func(t *rapid.T, tx *txSpec) string {
		si, s := pickSet(t, tx, withSigs)
		if s == nil {
			return ""
		}
		gi := uniR(t, 0, len(s.Sigs)-1, "sig")
		s.Sigs = append(s.Sigs[:gi], s.Sigs[gi+1:]...)
		return fmt.Sprintf("set%d.sig%d", si, gi)
	}},
	{"dup-sig", func(t *rapid.T, tx *txSpec) string {
		si, s := pickSet(t, tx, func(s *setSpec) bool { return len(s.Sigs) >= 2 })
		if s == nil {
			return ""
		}
		gi := uniR(t, 1, len(s.Sigs)-1, "sig")
		s.Sigs[gi] = s.Sigs[0]
		return fmt.Sprintf("set%d.sig%d:=sig0", si, gi)
	}},
	{"reorder-sigs", func(t *rapid.T, tx *txSpec) string {
		si, s := pickSet(t, tx, func(s *setSpec) bool { return len(s.Sigs) >= 2 })
		if s == nil {
			return ""
		}
		s.Sigs = rapid.Permutation(s.Sigs).Draw(t, "order")
		return fmt.Sprintf("set%d", si)
	}},
	{"extra-valid-sig", func(t *rapid.T, tx *txSpec) string {
		si, s := pickSet(t, tx, func(s *setSpec) bool { return s.Multi && s.M < len(s.Keys) })
		if s == nil {
			return ""
		}
		for _, k := range s.Keys {
			if isSigner(s, k.Z) < 0 {
				h := tx.hash()
				g := sigItem{Signer: k.Z, Data: signWith(k.Z, h[:])}
				pos := uniR(t, 0, len(s.Sigs), "pos")
				s.Sigs = append(s.Sigs[:pos], append([]sigItem{g}, s.Sigs[pos:]...)...)
				return fmt.Sprintf("set%d:+%s@%d", si, keyName(k.Z), pos)
			}
		}
		return ""
	}},
	{"extra-garbage-sig", func(t *rapid.T, tx *txSpec) string {
		si, s := pickSet(t, tx, anySet)
		if s == nil {
			return ""
		}
		g := sigItem{Data: rapid.SliceOfN(rapid.Byte(), 1, 70).Draw(t, "garbage")}
		pos := len(s.Sigs)
		if uniR(t, 0, 2, "front") == 0 {
			pos = uniR(t, 0, len(s.Sigs), "pos")
		}
		s.Sigs = append(s.Sigs[:pos], append([]sigItem{g}, s.Sigs[pos:]...)...)
		return fmt.Sprintf("set%d:+garbage%d@%d", si, len(g.Data), pos)
	}},
	{"nonmember-sig", func(t *rapid.T, tx *txSpec) string {
		si, s := pickSet(t, tx, withSigs)
		if s == nil {
			return ""
		}
		gi := uniR(t, 0, len(s.Sigs)-1, "sig")
		o := outsider(t, s)
		h := tx.hash()
		s.Sigs[gi] = sigItem{Signer: o, Data: signWith(o, h[:])}
		return fmt.Sprintf("set%d.sig%d by %s", si, gi, keyName(o))
	}},
	{"wrong-hash-sig", func(t *rapid.T, tx *txSpec) string {
		si, s := pickSet(t, tx, func(s *setSpec) bool { return withSigs(s) && signedBy(s, len(s.Sigs)) })
		if s == nil {
			return ""
		}
		gi := uniR(t, 0, len(s.Sigs)-1, "sig")
		h := tx.hash()
		h[uniR(t, 0, 31, "hbyte")] ^= 1
		s.Sigs[gi].Data = signWith(s.Sigs[gi].Signer, h[:])
		return fmt.Sprintf("set%d.sig%d", si, gi)
	}},
	{"swap-sets", func(t *rapid.T, tx *txSpec) string {
		if len(tx.Sets) < 2 {
			return ""
		}
		tx.Sets = rapid.Permutation(tx.Sets).Draw(t, "order")
		return "permuted"
	}},
	{"cross-invoke", func(t *rapid.T, tx *txSpec) string {
		if len(tx.Sets) < 2 {
			return ""
		}
		i := uniR(t, 0, len(tx.Sets)-2, "i")
		a, b := tx.Sets[i], tx.Sets[i+1]
		a.Sigs, b.Sigs = b.Sigs, a.Sigs
		return fmt.Sprintf("set%d<->set%d", i, i+1)
	}},
	{"dup-set", func(t *rapid.T, tx *txSpec) string {
		i := uniR(t, 0, len(tx.Sets)-1, "i")
		tx.Sets = append(tx.Sets, tx.Sets[i].clone())
		return fmt.Sprintf("set%d again (%d sets)", i, len(tx.Sets))
	}},
	{"drop-set", func(t *rapid.T, tx *txSpec) string {
		if len(tx.Sets) < 2 {
			return ""
		}
		i := uniR(t, 0, len(tx.Sets)-1, "i")
		tx.Sets = append(tx.Sets[:i], tx.Sets[i+1:]...)
		return fmt.Sprintf("set%d", i)
	}},
	{"m-lower", func(t *rapid.T, tx *txSpec) string {
		si, s := pickSet(t, tx, func(s *setSpec) bool { return s.Multi && s.M >= 2 })
		if s == nil {
			return ""
		}
		s.M--
		return fmt.Sprintf("set%d:m=%d", si, s.M)
	}},
	{"m-higher", func(t *rapid.T, tx *txSpec) string {
		si, s := pickSet(t, tx, func(s *setSpec) bool { return s.Multi && s.M < 16 })
		if s == nil {
			return ""
		}
		s.M++
		return fmt.Sprintf("set%d:m=%d", si, s.M)
	}},
	{"verify-byte", func(t *rapid.T, tx *txSpec) string {
		si, s := pickSet(t, tx, anySet)
		if s == nil {
			return ""
		}
		v := append([]byte{}, s.verifyScript()...)
		off := uniR(t, 0, len(v)-1, "off")
		x := genXor(t)
		v[off] ^= x
		s.RawVerify = v
		return fmt.Sprintf("set%d@%d^%02x", si, off, x)
	}},
	// an uncompressed EC key whose point is NOT on the curve (accepted by the key decoder), optionally with a
	// signature of a foreign scheme in front of it (SM2-scheme for NIST keys, ECDSA-scheme for SM2 keys)
	{"offcurve-key", func(t *rapid.T, tx *txSpec) string {
		si, s := pickSet(t, tx, func(s *setSpec) bool {
			for _, k := range s.Keys {
				if k.Raw == nil && ecPub(k.Z) != nil {
					return true
				}
			}
			return false
		})
		if s == nil {
			return ""
		}
		var c []int
		for i, k := range s.Keys {
			if k.Raw == nil && ecPub(k.Z) != nil {
				c = append(c, i)
			}
		}
		ki := c[uniR(t, 0, len(c)-1, "key")]
		z := s.Keys[ki].Z
		kb := append([]byte{}, encodeKey(z, encUncompressed, nil)...)
		kb[len(kb)-1-uniR(t, 0, 3, "ybyte")] ^= genXor(t)
		s.Keys[ki].Raw = kb
		how := fmt.Sprintf("set%d.key%d:%s", si, ki, z.Kind)
		if len(s.Sigs) > 0 && uniR(t, 0, 2, "foreignSig") > 0 {
			rs := rapid.SliceOfN(rapid.Byte(), 64, 64).Draw(t, "rs")
			rs[0] &= 0x7f
			rs[32] &= 0x7f
			var sig []byte
			if z.Kind == fix.KSM2 {
				sig = append([]byte{byte(uniR(t, 0, 3, "scheme"))}, rs...)
				how += "+ecdsa-scheme-sig"
			} else {
				sig = append([]byte{0x09, 0x00}, rs...)
				how += "+sm2-scheme-sig"
			}
			s.Sigs[0] = sigItem{Data: sig}
		}
		return how
	}},
	{"sig-alt65", func(t *rapid.T, tx *txSpec) string {
		for si, s := range tx.Sets {
			for gi, g := range s.Sigs {
				if len(g.Data) == 64 && s.RawInvoke == nil {
					s.Sigs[gi].Data = append([]byte{0x01}, g.Data...)
					return fmt.Sprintf("set%d.sig%d", si, gi)
				}
			}
		}
		return ""
	}},
	{"truncate-sig", func(t *rapid.T, tx *txSpec) string {
		si, s := pickSet(t, tx, func(s *setSpec) bool { return withSigs(s) && signedBy(s, len(s.Sigs)) })
		if s == nil {
			return ""
		}
		gi := uniR(t, 0, len(s.Sigs)-1, "sig")
		d := s.Sigs[gi].Data
		if len(d) == 0 {
			return ""
		}
		var n int
		switch uniR(t, 0, 3, "cutKind") {
		case 0:
			n = len(d) - 1 // drop the last byte only
		case 1:
			n = uniR(t, 0, minInt(4, len(d)-1), "len") // scheme byte plus almost nothing
		default:
			n = uniR(t, 0, len(d)-1, "len")
		}
		s.Sigs[gi] = sigItem{Signer: s.Sigs[gi].Signer, Push: s.Sigs[gi].Push, Data: append([]byte{}, d[:n]...)}
		return fmt.Sprintf("set%d.sig%d:%s:len%d", si, gi, keyName(s.Sigs[gi].Signer), n)
	}},
	{"extend-sig", func(t *rapid.T, tx *txSpec) string {
		si, s := pickSet(t, tx, withSigs)
		if s == nil {
			return ""
		}
		gi := uniR(t, 0, len(s.Sigs)-1, "sig")
		extra := rapid.SliceOfN(rapid.Byte(), 1, 3).Draw(t, "extra")
		s.Sigs[gi].Data = append(append([]byte{}, s.Sigs[gi].Data...), extra...)
		return fmt.Sprintf("set%d.sig%d+%x", si, gi, extra)
	}},
}

func minInt(a, b int) int {
	if a < b {
		return a
	}
	return b
}

func structMutNames() []string {
	var out []string
	for _, m := range structMuts {
		out = append(out, m.Name)
	}
	return out
}
