package chainq

// C43 Block log blooms never miss a log of the block; the per-section bloom-bit index agrees with
// the per-block blooms.
//
// Chains carry EIP-155 contract creations whose generated init code emits LOG0..LOG4 with generated
// topics/data (and then returns, reverts or faults), EIP-155 ONG transfers and calls (ONG transfer
// and fee logs), and native transfers (no EVM log). Oracle 1 (per block): every EVM log of the
// block - reconstructed from the event store through NotifyEventInfoToEvmLog, plus the logs the
// harness knows a successful creation emitted - has its address and every topic positive in
// GetBloomData(height). Oracle 2 (per completed 4096-block section): for each of the 2048 bloom
// bits the decompressed ReadBloomBits vector has bit i set exactly when the stored bloom of block
// section*4096+i has that bit (reference bit numbering computed by hand), and every log address and
// topic of the section hits its three keccak-derived bit vectors at the block's position.

import (
	"encoding/binary"
	"fmt"
	"math/big"
	"os"
	"sort"
	"strings"
	"testing"

	ethcommon "github.com/ethereum/go-ethereum/common"
	"github.com/ethereum/go-ethereum/common/bitutil"
	ethtypes "github.com/ethereum/go-ethereum/core/types"
	ethcrypto "github.com/ethereum/go-ethereum/crypto"
	"github.com/ontio/ontology/common/config"
	"github.com/ontio/ontology/core/store/ledgerstore"
	"github.com/ontio/ontology/core/types"
	"github.com/ontio/ontology/smartcontract/event"
	nutils "github.com/ontio/ontology/smartcontract/service/native/utils"
	"pgregory.net/rapid"

	"verifharness/internal/fix"
	"verifharness/internal/harn"
)

// c43Log is an address plus topics the bloom of a block must contain.
type c43Log struct {
	Addr   ethcommon.Address
	Topics []ethcommon.Hash
	Src    string
}

type c43Env struct {
	ch      *fix.Chain
	bk      *fix.ZooKey
	eth     []*fix.ZooKey
	nonce   []uint64
	created []ethcommon.Address // contracts created so far (empty or one-byte runtime)
	known   map[uint32][]c43Log // per height: logs the harness knows were emitted (successful creations)
	txs     map[uint32][]*types.Transaction
}

func c43NewEnv(ch *fix.Chain, bk *fix.ZooKey) *c43Env {
	return &c43Env{ch: ch, bk: bk, eth: []*fix.ZooKey{fix.Key(fix.KEth, 0), fix.Key(fix.KEth, 1), fix.Key(fix.KEth, 2)},
		nonce: make([]uint64, 3), known: map[uint32][]c43Log{}, txs: map[uint32][]*types.Transaction{}}
}

func (e *c43Env) fund() error {
	var txs []*types.Transaction
	for _, k := range e.eth {
		tx, err := e.ch.Transfer(nutils.OngContractAddress, e.bk, k.Address, 100000_000000000, 0, 20000)
		if err != nil {
			return err
		}
		txs = append(txs, tx)
	}
	b, _, err := e.ch.AddTxs(txs)
	if err != nil {
		return err
	}
	e.txs[b.Header.Height] = txs
	return nil
}

// c43PlannedTx is a generated transaction together with what the harness knows about its logs.
type c43PlannedTx struct {
	tx     *types.Transaction
	desc   string
	logs   []c43Log // emitted iff the tx succeeds (creation that returns)
	isEvm  bool
	topics int
}

func genTopic(t *rapid.T) ethcommon.Hash {
	var h ethcommon.Hash
	switch rapid.IntRange(0, 5).Draw(t, "topickind") {
	case 0: // small numbers (as indexed uints)
		h[31] = rapid.Byte().Draw(t, "tsmall")
	case 1: // an address-like topic
		a := rapid.SliceOfN(rapid.Byte(), 20, 20).Draw(t, "taddr")
		copy(h[12:], a)
	default:
		copy(h[:], rapid.SliceOfN(rapid.Byte(), 32, 32).Draw(t, "topic"))
	}
	return h
}

func (e *c43Env) genTx(t *rapid.T) (c43PlannedTx, error) {
	kind := rapid.SampledFrom([]string{"C", "C", "C", "C", "V", "V", "K", "N"}).Draw(t, "kind")
	from := rapid.IntRange(0, 2).Draw(t, "from")
	gp := rapid.SampledFrom([]uint64{500, 500, 2500, 1}).Draw(t, "gasprice")
	switch kind {
	case "C":
		n := rapid.IntRange(0, 4).Draw(t, "nlogs")
		var logs []evmLog
		topics := 0
		for i := 0; i < n; i++ {
			nt := rapid.IntRange(0, 4).Draw(t, "ntopics")
			l := evmLog{Data: rapid.SliceOfN(rapid.Byte(), 0, 70).Draw(t, "data")}
			for j := 0; j < nt; j++ {
				l.Topics = append(l.Topics, genTopic(t))
			}
			topics += nt
			logs = append(logs, l)
		}
		end := rapid.SampledFrom([]initEnd{endReturnEmpty, endReturnEmpty, endReturnCode, endRevert, endInvalid}).Draw(t, "end")
		code := asmInitCode(logs, nil, end)
		val := rapid.SampledFrom([]int64{0, 0, 7}).Draw(t, "cvalue")
		addr := ethcrypto.CreateAddress(ethAddr(e.eth[from]), e.nonce[from])
		tx, _, err := signEIP155(e.eth[from], e.nonce[from], nil, big.NewInt(val*1_000_000_000), 600000, gp, code)
		if err != nil {
			return c43PlannedTx{}, err
		}
		e.nonce[from]++
		p := c43PlannedTx{tx: tx, isEvm: true, topics: topics, desc: fmt.Sprintf("C%d:end%d:v%d:gp%d:", from, end, val, gp)}
		for _, l := range logs {
			p.desc += fmt.Sprintf("L%d", len(l.Topics))
			for _, tp := range l.Topics {
				p.desc += fmt.Sprintf(".%x", tp[28:])
			}
		}
		if end == endReturnEmpty || end == endReturnCode {
			for i, l := range logs {
				p.logs = append(p.logs, c43Log{Addr: addr, Topics: l.Topics, Src: fmt.Sprintf("generated LOG%d #%d of creation %x", len(l.Topics), i, addr)})
			}
		}
		return p, nil
	case "V": // ONG transfer through the EVM: transfer log + fee log
		to := ethAddr(e.eth[rapid.IntRange(0, 2).Draw(t, "to")])
		if rapid.IntRange(0, 3).Draw(t, "fresh") == 0 {
			copy(to[:], rapid.SliceOfN(rapid.Byte(), 20, 20).Draw(t, "toaddr"))
		}
		val := rapid.Uint64Range(0, 1000).Draw(t, "val")
		tx, _, err := signEIP155(e.eth[from], e.nonce[from], &to, new(big.Int).Mul(new(big.Int).SetUint64(val), big.NewInt(1_000_000_000)), 30000, gp, nil)
		if err != nil {
			return c43PlannedTx{}, err
		}
		e.nonce[from]++
		return c43PlannedTx{tx: tx, isEvm: true, desc: fmt.Sprintf("V%d>%x:%d:gp%d", from, to[:3], val, gp)}, nil
	case "K": // call of a previously created contract (or of an account without code)
		to := ethAddr(e.eth[0])
		if len(e.created) > 0 {
			to = e.created[rapid.IntRange(0, len(e.created)-1).Draw(t, "callee")]
		}
		data := rapid.SliceOfN(rapid.Byte(), 0, 36).Draw(t, "calldata")
		tx, _, err := signEIP155(e.eth[from], e.nonce[from], &to, big.NewInt(0), 60000, gp, data)
		if err != nil {
			return c43PlannedTx{}, err
		}
		e.nonce[from]++
		return c43PlannedTx{tx: tx, isEvm: true, desc: fmt.Sprintf("K%d>%x:%d", from, to[:3], len(data))}, nil
	default: // native ONG transfer: a notification that is NOT an EVM log
		tx, err := e.ch.Transfer(nutils.OngContractAddress, e.bk, e.eth[from].Address, rapid.Uint64Range(1, 1000).Draw(t, "namt"), 2500, 20000)
		return c43PlannedTx{tx: tx, desc: "N"}, err
	}
}

// addBlock commits one block with the planned txs and records the harness-known logs of successful ones.
func (e *c43Env) addBlock(plan []c43PlannedTx) (uint32, []byte, error) {
	var txs []*types.Transaction
	for _, p := range plan {
		txs = append(txs, p.tx)
	}
	b, res, err := e.ch.AddTxs(txs)
	if err != nil {
		return 0, nil, err
	}
	h := b.Header.Height
	states := make([]byte, len(plan))
	for i, p := range plan {
		states[i] = res.Notify[i].State
		if res.Notify[i].State == event.CONTRACT_STATE_SUCCESS {
			e.known[h] = append(e.known[h], p.logs...)
			if p.isEvm && res.Notify[i].CreatedContract != [20]byte{} {
				e.created = append(e.created, ethcommon.Address(res.Notify[i].CreatedContract))
			}
		}
	}
	if len(txs) > 0 {
		e.txs[h] = txs
	}
	return h, states, nil
}

// abandon offers the ledger a valid block built from plan together with a WRONG state root, the way a
// syncing node may receive one: the block is executed and refused (before anything is staged).
// Nothing of it may survive; the caller restores the senders' nonces and commits another block at the
// same height. (An abort AFTER staging — e.g. a panic injected at the pre-block-commit hook — is not
// generated: the unchanged ledger cannot continue after it, its eagerly appended merkle trees make the
// next reopen fail with "merkle tree size is inconsistent with blockheight"; see DESIGN §11.)
func (e *c43Env) abandon(plan []c43PlannedTx) error {
	var txs []*types.Transaction
	for _, p := range plan {
		txs = append(txs, p.tx)
	}
	b, err := e.ch.MakeBlock(txs, 0)
	if err != nil {
		return err
	}
	res, err := e.ch.LS.ExecuteBlock(b)
	if err != nil {
		return fmt.Errorf("harness: alternative block does not execute: %v", err)
	}
	wrong := res.MerkleRoot
	wrong[7] ^= 0x40
	if err := e.ch.LS.AddBlock(b, nil, wrong); err == nil {
		return fmt.Errorf("AddBlock accepted block %d with a state root that differs from the executed one", b.Header.Height)
	}
	return nil
}

// c43BlockLogs returns every EVM log of block h: from the event store, plus harness-known ones.
func (e *c43Env) blockLogs(h uint32) ([]c43Log, int, error) {
	var out []c43Log
	nStore := 0
	for i, tx := range e.txs[h] {
		n, err := e.ch.LS.GetEventNotifyByTx(tx.Hash())
		if err != nil {
			return nil, 0, fmt.Errorf("GetEventNotifyByTx(tx %d of block %d): %v", i, h, err)
		}
		for j, ni := range n.Notify {
			if !ni.IsEvm {
				continue
			}
			l, err := event.NotifyEventInfoToEvmLog(ni)
			if err != nil {
				return nil, 0, fmt.Errorf("tx %d of block %d, notification %d is flagged EVM but does not decode: %v", i, h, j, err)
			}
			out = append(out, c43Log{Addr: l.Address, Topics: l.Topics, Src: fmt.Sprintf("event-store log %d of tx %d", j, i)})
			nStore++
		}
	}
	out = append(out, e.known[h]...)
	return out, nStore, nil
}

// c43CheckBlock is oracle 1 for one height.
func (e *c43Env) checkBlock(h uint32) (nlogs, ntopics int, err error) {
	logs, _, err := e.blockLogs(h)
	if err != nil {
		return 0, 0, err
	}
	bloom, err := e.ch.LS.GetBloomData(h)
	if err != nil {
		return 0, 0, fmt.Errorf("GetBloomData(%d): %v", h, err)
	}
	for _, l := range logs {
		if !ethtypes.BloomLookup(bloom, l.Addr) {
			return 0, 0, fmt.Errorf("bloom of block %d misses the address %x of %s", h, l.Addr, l.Src)
		}
		for k, tp := range l.Topics {
			if !ethtypes.BloomLookup(bloom, tp) {
				return 0, 0, fmt.Errorf("bloom of block %d misses topic %d (%x) of %s", h, k, tp, l.Src)
			}
			ntopics++
		}
	}
	return len(logs), ntopics, nil
}

// refBloomBit: bit i (0..2047) of a bloom counted from the least significant bit of the 2048-bit
// big-endian number - the numbering of the yellow paper's M3:2048 and of the section index.
func refBloomBit(b *ethtypes.Bloom, i int) bool {
	return b[ethtypes.BloomByteLength-1-i/8]&(1<<uint(i%8)) != 0
}

// refBloomIdx: the three bit numbers a value sets (low 11 bits of the first three byte pairs of its keccak256).
func refBloomIdx(v []byte) [3]int {
	k := ethcrypto.Keccak256(v)
	var out [3]int
	for j := 0; j < 3; j++ {
		out[j] = int(binary.BigEndian.Uint16(k[2*j:]) & 2047)
	}
	return out
}

// c43CheckSection is oracle 2 for one completed section.
func (e *c43Env) checkSection(s uint32) (setBits int, err error) {
	const S = ledgerstore.BloomBitsBlocks
	ref := make([][]byte, ethtypes.BloomBitLength)
	for i := range ref {
		ref[i] = make([]byte, S/8)
	}
	for i := 0; i < S; i++ {
		bl, err := e.ch.LS.GetBloomData(s*S + uint32(i))
		if err != nil {
			return 0, fmt.Errorf("GetBloomData(%d): %v", s*S+uint32(i), err)
		}
		if bl == (ethtypes.Bloom{}) {
			continue
		}
		for bit := 0; bit < ethtypes.BloomBitLength; bit++ {
			if refBloomBit(&bl, bit) {
				ref[bit][i/8] |= 0x80 >> uint(i%8)
				setBits++
			}
		}
	}
	db := e.ch.LS.GetIndexStore()
	vecs := make([][]byte, ethtypes.BloomBitLength)
	for bit := 0; bit < ethtypes.BloomBitLength; bit++ {
		data, err := ledgerstore.ReadBloomBits(db, uint(bit), s)
		if err != nil {
			return 0, fmt.Errorf("ReadBloomBits(bit %d, section %d) of a completed section: %v", bit, s, err)
		}
		vec, err := bitutil.DecompressBytes(data, S/8)
		if err != nil {
			return 0, fmt.Errorf("ReadBloomBits(bit %d, section %d) does not decompress to %d bytes: %v", bit, s, S/8, err)
		}
		vecs[bit] = vec
		for j := range vec {
			if vec[j] != ref[bit][j] {
				for k := 0; k < 8; k++ {
					m := byte(0x80 >> uint(k))
					if vec[j]&m != ref[bit][j]&m {
						blk := s*S + uint32(j*8+k)
						return 0, fmt.Errorf("section %d bit %d: index says %v for block %d (position %d) but the stored bloom of that block has the bit %v",
							s, bit, vec[j]&m != 0, blk, j*8+k, ref[bit][j]&m != 0)
					}
				}
			}
		}
	}
	// every log of the section is found through the index
	for i := 0; i < S; i++ {
		h := s*S + uint32(i)
		if len(e.txs[h]) == 0 {
			continue
		}
		logs, _, err := e.blockLogs(h)
		if err != nil {
			return 0, err
		}
		for _, l := range logs {
			vals := [][]byte{l.Addr.Bytes()}
			for _, tp := range l.Topics {
				vals = append(vals, tp.Bytes())
			}
			for _, v := range vals {
				for _, bit := range refBloomIdx(v) {
					if vecs[bit][i/8]&(0x80>>uint(i%8)) == 0 {
						return 0, fmt.Errorf("section %d: value %x of %s in block %d maps to bloom bit %d, whose index vector is clear at position %d", s, v, l.Src, h, bit, i)
					}
				}
			}
		}
	}
	return setBits, nil
}

func c43Setup(t *rapid.T, bk *fix.ZooKey) (*c43Env, func()) {
	config.DefConfig.Common.EnableEventLog = true
	base, err := os.MkdirTemp("", "c43-")
	if err != nil {
		t.Fatal(err)
	}
	ch, err := fix.NewSolo(base+"/ledger", bk)
	if err != nil {
		os.RemoveAll(base)
		t.Fatal(err)
	}
	env := c43NewEnv(ch, bk)
	if err := env.fund(); err != nil {
		ch.Close()
		os.RemoveAll(base)
		t.Fatal(err)
	}
	return env, func() { ch.Close(); os.RemoveAll(base) }
}

func TestC43_BlockBloom(t *testing.T) {
	ev := harn.For("C43")
	ev.Rule("per-block bloom: chains of 15-40 blocks; block 1 funds three EVM accounts; about half of the other blocks carry 1-5 txs: EIP-155 creations whose init code emits 0-4 LOG0..LOG4 with generated topics (small ints, address-like, random) and data then returns/returns code/reverts/faults, EIP-155 ONG transfers (transfer + fee logs, incl. value 0 and fresh recipients), calls of created contracts, native ONG transfers (non-EVM notification), gas prices 1/500/2500 GWei; restarts at generated heights. Every block's EVM logs (event store via NotifyEventInfoToEvmLog, plus the logs the harness knows each successful creation emitted at CreateAddress(sender,nonce)) must be positive in GetBloomData(height) by address and by every topic, checked right after the commit and again for all heights after a final restart. Non-trivial = chain with a block holding >= 2 EVM txs whose LAST tx is a successful creation emitting >= 1 topic; distinct by the full plan")
	bk := fix.Key(fix.KP256, 0)
	harn.Check(t, 8, 320, func(t *rapid.T) {
		env, done := c43Setup(t, bk)
		defer done()
		nBlocks := rapid.IntRange(15, 40).Draw(t, "blocks")
		restartAt := map[int]bool{}
		for i := rapid.IntRange(0, 2).Draw(t, "nrestarts"); i > 0; i-- {
			restartAt[rapid.IntRange(0, nBlocks-1).Draw(t, "restartat")] = true
		}
		var plan []string
		nontrivial := false
		for b := 0; b < nBlocks; b++ {
			var ptx []c43PlannedTx
			var descs []string
			if rapid.Bool().Draw(t, "hastx") {
				n := rapid.IntRange(1, 5).Draw(t, "ntx")
				for j := 0; j < n; j++ {
					p, err := env.genTx(t)
					if err != nil {
						t.Fatal(err)
					}
					ptx = append(ptx, p)
					descs = append(descs, p.desc)
				}
			}
			h, states, err := env.addBlock(ptx)
			if err != nil {
				t.Fatalf("ledger rejected generated block [%s] after %s: %v", strings.Join(descs, ","), strings.Join(plan, "|"), err)
			}
			plan = append(plan, fmt.Sprintf("%d:[%s]", h, strings.Join(descs, ",")))
			nl, nt, err := env.checkBlock(h)
			if err != nil {
				t.Fatalf("%v\nchain: %s", err, strings.Join(plan, "|"))
			}
			evm := 0
			for i, p := range ptx {
				if p.isEvm {
					evm++
				}
				k := p.desc[:1]
				if states[i] == 1 {
					ev.Class("tx:" + k + ":ok")
				} else {
					ev.Class("tx:" + k + ":failed")
				}
				ev.Class("tx:" + k)
			}
			ev.Class("block")
			if nl > 0 {
				ev.Class("block:with-logs")
				ev.ClassN("logs", int64(nl))
				ev.ClassN("topics", int64(nt))
			}
			if n := len(ptx); n > 0 {
				last := ptx[n-1]
				if evm >= 2 && states[n-1] == 1 && len(last.logs) > 0 && last.topics > 0 {
					nontrivial = true
					ev.Class("block:last-tx-emits-topics")
				}
			}
			if restartAt[b] {
				if err := env.ch.Reopen(); err != nil {
					t.Fatalf("reopen at %d: %v", h, err)
				}
				plan = append(plan, "R")
				ev.Class("restart")
			}
		}
		if err := env.ch.Reopen(); err != nil {
			t.Fatalf("final reopen: %v", err)
		}
		top := env.ch.LS.GetCurrentBlockHeight()
		for h := uint32(0); h <= top; h++ {
			if _, _, err := env.checkBlock(h); err != nil {
				t.Fatalf("after restart: %v\nchain: %s", err, strings.Join(plan, "|"))
			}
		}
		ev.Class("chain")
		d := strings.Join(plan, "|")
		if len(d) > 580 {
			tip := env.ch.LS.GetCurrentBlockHash()
			d = d[:540] + fmt.Sprintf("…#%x", tip[:6])
		}
		ev.Case(nontrivial, d)
	})
	ev.Floor("block:with-logs", "block", 0.25)
	ev.Floor("tx:C:ok", "tx:C", 0.3)
}

// c43SectionChain builds a chain of `total` blocks above the funding block; EVM blocks are forced
// around every section boundary and sprinkled elsewhere; restarts happen at the given heights.
func c43SectionChain(t *rapid.T, ev *harn.Collector, total uint32, restarts []uint32) (*c43Env, func(), string) {
	const S = ledgerstore.BloomBitsBlocks
	bk := fix.Key(fix.KP256, 0)
	env, done := c43Setup(t, bk)
	handedOver := false
	defer func() {
		if !handedOver {
			done() // a failing or invalidated case must not leave its ledger directory behind
		}
	}()
	rs := map[uint32]bool{}
	for _, r := range restarts {
		rs[r] = true
	}
	evmBlocks := 0
	for {
		h := env.ch.LS.GetCurrentBlockHeight() + 1
		if h > total {
			break
		}
		pos := h % S
		nonceBefore := append([]uint64{}, env.nonce...)
		forced := h == 2 || pos >= S-2 || pos <= 2
		var ptx []c43PlannedTx
		if forced || rapid.IntRange(0, 59).Draw(t, "hastx") == 0 {
			n := rapid.IntRange(1, 3).Draw(t, "ntx")
			hasEvm := false
			for j := 0; j < n || (forced && !hasEvm && j < n+8); j++ {
				// a forced (section-edge) block always carries at least one EVM tx, i.e. at least a fee log:
				// the edge positions of the index are what these chains are for
				p, err := env.genTx(t)
				if err != nil {
					t.Fatal(err)
				}
				hasEvm = hasEvm || p.isEvm
				ptx = append(ptx, p)
			}
			if forced && hasEvm {
				ev.Class("section:edge-block-with-evm-tx")
			}
		}
		// now and then, and always at the last block of a section, a DIFFERENT valid block is offered
		// first with a wrong state root and refused; the block committed afterwards
		// at the same height must be indexed as if that had never happened
		if h >= 3 && (pos == S-1 || pos == S-3 || rapid.IntRange(0, 149).Draw(t, "abandon") == 0) {
			saved := append([]uint64{}, env.nonce...)
			copy(env.nonce, nonceBefore) // the alternative spends the same nonces as the real block would
			var alt []c43PlannedTx
			hasEvm := false
			for j := 0; j < 2 || (!hasEvm && j < 10); j++ {
				p, err := env.genTx(t)
				if err != nil {
					t.Fatal(err)
				}
				hasEvm = hasEvm || p.isEvm
				alt = append(alt, p)
			}
			if err := env.abandon(alt); err != nil {
				t.Fatalf("block %d, refused alternative first: %v", h, err)
			}
			copy(env.nonce, saved)
			ev.Class("section:abandoned-submit")
			if pos == S-1 {
				ev.Class("section:abandoned-submit-at-last-block")
			}
		}
		hh, _, err := env.addBlock(ptx)
		if err != nil {
			t.Fatalf("ledger rejected generated block %d: %v", h, err)
		}
		if len(ptx) > 0 {
			evmBlocks++
			if _, _, err := env.checkBlock(hh); err != nil {
					t.Fatalf("%v", err)
			}
		}
		if rs[hh] {
			if err := env.ch.Reopen(); err != nil {
					t.Fatalf("reopen at %d: %v", hh, err)
			}
			ev.Class("section:restart")
		}
	}
	handedOver = true
	return env, done, fmt.Sprintf("total=%d restarts=%v evmblocks=%d", total, restarts, evmBlocks)
}

func c43VerifySections(t *rapid.T, ev *harn.Collector, env *c43Env, stage string) int {
	const S = ledgerstore.BloomBitsBlocks
	top := env.ch.LS.GetCurrentBlockHeight()
	n := (top + 1) / S
	for s := uint32(0); s < n; s++ {
		bits, err := env.checkSection(s)
		if err != nil {
			t.Fatalf("%s (tip %d): %v", stage, top, err)
		}
		ev.Class("section:verified")
		ev.ClassN("section:set-bits", int64(bits))
	}
	var hs []uint32
	for h := range env.txs {
		hs = append(hs, h)
	}
	sort.Slice(hs, func(i, j int) bool { return hs[i] < hs[j] })
	for _, h := range hs {
		if _, _, err := env.checkBlock(h); err != nil {
			t.Fatalf("%s: %v", stage, err)
		}
	}
	return int(n)
}

func TestC43_SectionIndex(t *testing.T) {
	ev := harn.For("C43")
	ev.Rule("section index: one long chain per case. Quick: 4096+3..60 blocks (one completed section) with a restart at a generated height inside section 0. Thorough: 8192+3..200 blocks (two completed sections), restarts inside section 0 (sometimes) and inside section 1 (always). EVM-log blocks are forced at the two blocks before and three after every section boundary and at height 2, and drawn with p~1/60 elsewhere; at the last and third-last block of every section, and with p~1/150 elsewhere, a different valid block with EVM logs is first offered with a wrong state root (executed, then refused) before the real block of that height is committed. After the last block and again after a final restart: for every completed section and each of the 2048 bits, decompressed ReadBloomBits(bit, section) equals the vector recomputed from GetBloomData of the section's 4096 blocks; every log value of the section hits its 3 bit vectors at the block's position; per-block oracle for every block with txs. Non-trivial = always (>= 1 completed section holding EVM logs at both edges); distinct by lengths, restart heights and tip hash")
	harn.Check(t, 1, 8, func(t *rapid.T) {
		const S = ledgerstore.BloomBitsBlocks
		var total uint32
		var restarts []uint32
		if harn.Thorough() {
			total = 2*S + uint32(rapid.IntRange(3, 200).Draw(t, "extra"))
			if rapid.Bool().Draw(t, "restart0") {
				restarts = append(restarts, uint32(rapid.IntRange(3, S-3).Draw(t, "r0")))
			}
			restarts = append(restarts, S+uint32(rapid.IntRange(1, S-2).Draw(t, "r1")))
		} else {
			total = S + uint32(rapid.IntRange(3, 60).Draw(t, "extra"))
			restarts = append(restarts, uint32(rapid.IntRange(3, S-2).Draw(t, "r0")))
		}
		env, done, desc := c43SectionChain(t, ev, total, restarts)
		defer done()
		n := c43VerifySections(t, ev, env, "at the end of the chain")
		if err := env.ch.Reopen(); err != nil {
			t.Fatalf("final reopen: %v", err)
		}
		c43VerifySections(t, ev, env, "after the final restart")
		ev.Class("sectionchain")
		ev.Case(n >= 1, fmt.Sprintf("%s sections=%d tip=%s", desc, n, env.ch.LS.GetCurrentBlockHash().ToHexString()))
	})
}
