package codec

// C25 Cross-VM parameter codec round-trips and rejects malformed input.
// Oracles: (1) EncodeValue(v) equals an independent reference encoding and DecodeValue of it is
// structurally equal to v (ints normalised to big.Int) consuming every byte; (2) integers outside
// [-2^127, 2^127-1] are rejected by the encoder, top-level and nested; (3) for arbitrary / mutated
// bytes DecodeValue agrees with an independent reference decoder of the tagged grammar (accept
// iff the reference accepts, same value, same number of bytes consumed), never panics, also for
// deep ListType nesting and huge size fields; (4) DeserializeCallParam / DeserializeNotify wrap
// the same decoder behind their prefixes (reference stringification for notifications);
// (5) held results: every encoder-side buffer the check obtains (EncodeValue, the Encode* family
// writing into a caller's sink behind no / call-param / notify prefix, BuildResultFromNeo) is held
// while 1-6 further encodes (and optionally joined concurrent encodes) run and must afterwards be
// byte-identical to the copy taken at return time, decode to its value, and be independent of the
// argument it was made from; decoded values are held across further decodes and must not change
// (except zero-copy []byte leaves) when the input buffer is overwritten afterwards.

import (
	"bytes"
	"encoding/hex"
	"fmt"
	"math/big"
	"strings"
	"sync"
	"testing"

	"github.com/ontio/ontology/common"
	cv "github.com/ontio/ontology/vm/crossvm_codec"
	nt "github.com/ontio/ontology/vm/neovm/types"
	"pgregory.net/rapid"

	"verifharness/internal/harn"
)

const (
	c25Bytes = 0x00
	c25Str   = 0x01
	c25Addr  = 0x02
	c25Bool  = 0x03
	c25Int   = 0x04
	c25H256  = 0x05
	c25List  = 0x10
)

type c25Val struct {
	kind byte
	b    []byte // bytes, string, address(20), h256(32)
	t    bool
	i    *big.Int
	list []*c25Val
}

func (v *c25Val) String() string {
	switch v.kind {
	case c25Bytes:
		return "b:" + harn.Hex(v.b)
	case c25Str:
		return fmt.Sprintf("s:%q", harn.Hex(v.b))
	case c25Addr:
		return "a:" + hex.EncodeToString(v.b[:4])
	case c25Bool:
		return fmt.Sprintf("%v", v.t)
	case c25Int:
		return "i:" + v.i.String()
	case c25H256:
		return "h:" + hex.EncodeToString(v.b[:4])
	}
	parts := make([]string, len(v.list))
	for i, e := range v.list {
		parts[i] = e.String()
	}
	return "[" + strings.Join(parts, " ") + "]"
}

func (v *c25Val) depth() int {
	if v.kind != c25List {
		return 0
	}
	d := 0
	for _, e := range v.list {
		if x := e.depth(); x > d {
			d = x
		}
	}
	return d + 1
}

func c25Equal(a, b *c25Val) bool {
	if a.kind != b.kind {
		return false
	}
	switch a.kind {
	case c25Bool:
		return a.t == b.t
	case c25Int:
		return a.i.Cmp(b.i) == 0
	case c25List:
		if len(a.list) != len(b.list) {
			return false
		}
		for i := range a.list {
			if !c25Equal(a.list[i], b.list[i]) {
				return false
			}
		}
		return true
	}
	return bytes.Equal(a.b, b.b)
}

var (
	c25MaxI = new(big.Int).Sub(new(big.Int).Lsh(big.NewInt(1), 127), big.NewInt(1))
	c25MinI = new(big.Int).Neg(new(big.Int).Lsh(big.NewInt(1), 127))
)

func c25InRange(i *big.Int) bool { return i.Cmp(c25MaxI) <= 0 && i.Cmp(c25MinI) >= 0 }

// reference encoder
func c25RefEnc(out []byte, v *c25Val) []byte {
	le32 := func(n int) []byte { return []byte{byte(n), byte(n >> 8), byte(n >> 16), byte(n >> 24)} }
	out = append(out, v.kind)
	switch v.kind {
	case c25Bytes, c25Str:
		out = append(append(out, le32(len(v.b))...), v.b...)
	case c25Addr, c25H256:
		out = append(out, v.b...)
	case c25Bool:
		if v.t {
			out = append(out, 1)
		} else {
			out = append(out, 0)
		}
	case c25Int:
		x := new(big.Int).Set(v.i)
		if x.Sign() < 0 {
			x.Add(x, new(big.Int).Lsh(big.NewInt(1), 128))
		}
		be := x.Bytes()
		le := make([]byte, 16)
		for i := range be {
			le[len(be)-1-i] = be[i]
		}
		out = append(out, le...)
	case c25List:
		out = append(out, le32(len(v.list))...)
		for _, e := range v.list {
			out = c25RefEnc(out, e)
		}
	}
	return out
}

// reference decoder: returns value and bytes consumed, or ok=false
func c25RefDec(b []byte, pos int) (*c25Val, int, bool) {
	if pos >= len(b) {
		return nil, 0, false
	}
	kind := b[pos]
	pos++
	need := func(n int) bool { return len(b)-pos >= n }
	u32 := func() int {
		return int(uint32(b[pos]) | uint32(b[pos+1])<<8 | uint32(b[pos+2])<<16 | uint32(b[pos+3])<<24)
	}
	switch kind {
	case c25Bytes, c25Str:
		if !need(4) {
			return nil, 0, false
		}
		n := u32()
		pos += 4
		if !need(n) {
			return nil, 0, false
		}
		return &c25Val{kind: kind, b: b[pos : pos+n]}, pos + n, true
	case c25Addr, c25H256:
		n := 20
		if kind == c25H256 {
			n = 32
		}
		if !need(n) {
			return nil, 0, false
		}
		return &c25Val{kind: kind, b: b[pos : pos+n]}, pos + n, true
	case c25Bool:
		if !need(1) || b[pos] > 1 {
			return nil, 0, false
		}
		return &c25Val{kind: kind, t: b[pos] == 1}, pos + 1, true
	case c25Int:
		if !need(16) {
			return nil, 0, false
		}
		be := make([]byte, 16)
		for i := 0; i < 16; i++ {
			be[15-i] = b[pos+i]
		}
		x := new(big.Int).SetBytes(be)
		if be[0]&0x80 != 0 {
			x.Sub(x, new(big.Int).Lsh(big.NewInt(1), 128))
		}
		return &c25Val{kind: kind, i: x}, pos + 16, true
	case c25List:
		if !need(4) {
			return nil, 0, false
		}
		n := u32()
		pos += 4
		v := &c25Val{kind: kind, list: []*c25Val{}}
		for i := 0; i < n; i++ {
			e, p, ok := c25RefDec(b, pos)
			if !ok {
				return nil, 0, false
			}
			v.list = append(v.list, e)
			pos = p
		}
		return v, pos, true
	}
	return nil, 0, false
}

// c25FromGo converts a decoded value into the model; ok=false for an unexpected Go type.
func c25FromGo(x interface{}) (*c25Val, bool) {
	switch v := x.(type) {
	case []byte:
		return &c25Val{kind: c25Bytes, b: v}, true
	case string:
		return &c25Val{kind: c25Str, b: []byte(v)}, true
	case common.Address:
		return &c25Val{kind: c25Addr, b: append([]byte{}, v[:]...)}, true
	case bool:
		return &c25Val{kind: c25Bool, t: v}, true
	case *big.Int:
		return &c25Val{kind: c25Int, i: v}, true
	case common.Uint256:
		return &c25Val{kind: c25H256, b: append([]byte{}, v[:]...)}, true
	case []interface{}:
		out := &c25Val{kind: c25List, list: []*c25Val{}}
		for _, e := range v {
			m, ok := c25FromGo(e)
			if !ok {
				return nil, false
			}
			out.list = append(out.list, m)
		}
		return out, true
	}
	return nil, false
}

// c25ToGo builds the Go value handed to the encoder; intRepr chooses among the accepted integer types.
func c25ToGo(v *c25Val, top bool, intRepr func(i *big.Int, top bool) interface{}) interface{} {
	switch v.kind {
	case c25Bytes:
		return v.b
	case c25Str:
		return string(v.b)
	case c25Addr:
		var a common.Address
		copy(a[:], v.b)
		return a
	case c25Bool:
		return v.t
	case c25Int:
		return intRepr(v.i, top)
	case c25H256:
		var h common.Uint256
		copy(h[:], v.b)
		return h
	}
	out := make([]interface{}, 0, len(v.list))
	for _, e := range v.list {
		out = append(out, c25ToGo(e, false, intRepr))
	}
	return out
}

// reference stringification of notifications
func c25Stringify(v *c25Val) interface{} {
	switch v.kind {
	case c25Bytes:
		return hex.EncodeToString(v.b)
	case c25Str:
		return string(v.b)
	case c25Addr:
		var a common.Address
		copy(a[:], v.b)
		return c22RefEncode(23, a)
	case c25Bool:
		return v.t
	case c25Int:
		return v.i.String()
	case c25H256:
		r := make([]byte, 32)
		for i := range r {
			r[i] = v.b[31-i]
		}
		return hex.EncodeToString(r)
	}
	out := make([]interface{}, 0, len(v.list))
	for _, e := range v.list {
		out = append(out, c25Stringify(e))
	}
	return out
}

func c25DeepEqualIface(a, b interface{}) bool {
	la, oka := a.([]interface{})
	lb, okb := b.([]interface{})
	if oka != okb {
		return false
	}
	if oka {
		if len(la) != len(lb) {
			return false
		}
		for i := range la {
			if !c25DeepEqualIface(la[i], lb[i]) {
				return false
			}
		}
		return true
	}
	return a == b
}

func c25GenInt(t *rapid.T) *big.Int {
	switch rapid.IntRange(0, 3).Draw(t, "intKind") {
	case 0:
		return big.NewInt(int64(rapid.IntRange(-300, 300).Draw(t, "small")))
	case 1: // I128 edges (in range)
		d := big.NewInt(int64(rapid.IntRange(0, 2).Draw(t, "d")))
		if rapid.Bool().Draw(t, "neg") {
			return new(big.Int).Add(c25MinI, d)
		}
		return new(big.Int).Sub(c25MaxI, d)
	case 2:
		e := []int64{-1 << 63, 1<<63 - 1, -1 << 31, 1<<31 - 1, 1 << 31, 1<<32 - 1, 1 << 32, -1, 0, 127, 128, 255, 256, -128, -129}
		return big.NewInt(rapid.SampledFrom(e).Draw(t, "edge"))
	default:
		v := new(big.Int).SetBytes(rapid.SliceOfN(rapid.Byte(), 0, 15).Draw(t, "mag"))
		if rapid.Bool().Draw(t, "neg") {
			v.Neg(v)
		}
		return v
	}
}

func c25GenVal(t *rapid.T, depth int) *c25Val {
	k := rapid.IntRange(0, 5).Draw(t, "kind")
	if depth > 0 && rapid.IntRange(0, 99).Draw(t, "listPct") < 55 {
		k = 6
	}
	switch k {
	case 0:
		return &c25Val{kind: c25Bytes, b: rapid.SliceOfN(rapid.Byte(), 0, 40).Draw(t, "bytes")}
	case 1:
		return &c25Val{kind: c25Str, b: []byte(rapid.OneOf(rapid.String(), rapid.StringN(0, 8, 20), rapid.Just("")).Draw(t, "str"))}
	case 2:
		return &c25Val{kind: c25Addr, b: c18GenFixed(t, 20)}
	case 3:
		return &c25Val{kind: c25Bool, t: rapid.Bool().Draw(t, "bool")}
	case 4:
		return &c25Val{kind: c25Int, i: c25GenInt(t)}
	case 5:
		return &c25Val{kind: c25H256, b: c18GenFixed(t, 32)}
	default:
		n := rapid.IntRange(0, 4).Draw(t, "len")
		v := &c25Val{kind: c25List, list: []*c25Val{}}
		for i := 0; i < n; i++ {
			v.list = append(v.list, c25GenVal(t, depth-1))
		}
		return v
	}
}

func c25IntRepr(t *rapid.T) func(i *big.Int, top bool) interface{} {
	return func(i *big.Int, top bool) interface{} {
		choice := rapid.IntRange(0, 4).Draw(t, "intRepr")
		switch {
		case choice == 1 && i.IsInt64():
			return i.Int64()
		case choice == 2 && i.IsInt64():
			return int(i.Int64())
		case choice == 3 && !top && i.IsInt64() && i.Int64() >= -1<<31 && i.Int64() < 1<<31:
			return int32(i.Int64())
		case choice == 4 && !top && i.Sign() >= 0 && i.IsInt64() && i.Int64() < 1<<32:
			return uint32(i.Int64())
		}
		return new(big.Int).Set(i)
	}
}

// c25Judge: differential of DecodeValue against the reference decoder on arbitrary bytes.
func c25Judge(b []byte) (msg string, accepted bool) {
	defer func() {
		if r := recover(); r != nil {
			msg = fmt.Sprintf("DecodeValue panicked on %s: %v\n%s", harn.Hex(b), r, c18Stack())
		}
	}()
	want, n, ok := c25RefDec(b, 0)
	src := common.NewZeroCopySource(b)
	got, err := cv.DecodeValue(src)
	if (err == nil) != ok {
		return fmt.Sprintf("DecodeValue(%s): err=%v, reference decoder accepts=%v", harn.Hex(b), err, ok), err == nil
	}
	if err == nil {
		m, typed := c25FromGo(got)
		if !typed || !c25Equal(m, want) {
			return fmt.Sprintf("DecodeValue(%s) = %v, reference %s", harn.Hex(b), got, want), true
		}
		if src.Pos() != uint64(n) {
			return fmt.Sprintf("DecodeValue(%s) consumed %d bytes, reference %d", harn.Hex(b), src.Pos(), n), true
		}
	}
	// wrappers
	p, perr := cv.DeserializeCallParam(append([]byte{0}, b...))
	if (perr == nil) != ok {
		return fmt.Sprintf("DeserializeCallParam(00 %s): err=%v, reference accepts=%v", harn.Hex(b), perr, ok), ok
	}
	if ok {
		if m, typed := c25FromGo(p); !typed || !c25Equal(m, want) {
			return fmt.Sprintf("DeserializeCallParam(00 %s) = %v, reference %s", harn.Hex(b), p, want), true
		}
	}
	nb := append([]byte("evt\x00"), b...)
	note := cv.DeserializeNotify(nb)
	if ok {
		if !c25DeepEqualIface(note, c25Stringify(want)) {
			return fmt.Sprintf("DeserializeNotify(evt0 %s) = %v, reference %v", harn.Hex(b), note, c25Stringify(want)), true
		}
	} else if raw, isBytes := note.([]byte); !isBytes || !bytes.Equal(raw, nb) {
		return fmt.Sprintf("DeserializeNotify of an undecodable payload did not return the input: %v", note), false
	}
	return "", ok
}

const c25Rule = "value trees (depth <= 6) of byte arrays, strings (incl. non-UTF-8/empty), addresses, booleans, integers at int64/I128 edges in every accepted Go integer type, hashes and lists; integers just outside the I128 range; encodings mutated by byte edits, truncation, irregular booleans, size-field tampering; grammar-shaped random bytes; list nesting up to 200000 levels and 2^32-1 sizes; non-trivial = list depth >= 2, an I128/int64 edge integer, an out-of-range integer, or a mutated/arbitrary input; distinct = different value or bytes || held results: sequences of 2-7 generated values (incl. leaves above the 512-byte initial sink capacity) encoded one after the other through EncodeValue, the Encode* functions writing into a caller's sink (bare, behind the call-param version byte or the evt\\0 notify prefix; EncodeBigInt or EncodeInt128 for integers) and neovm BuildResultFromNeo, interleaved with failing encodes (out-of-range integer, unsupported nested type) and decodes, optionally followed by 2-4 joined goroutines encoding 1-3 values each; every returned buffer is held until the end of the case and must then equal the private copy taken at return time and the reference encoding, decode (DecodeValue / DeserializeCallParam / DeserializeNotify) to its value, and stay unchanged when the []byte arguments it was made from are overwritten; decoded values and notifications are held while the other buffers are decoded and while the decoder input is overwritten (only zero-copy []byte leaves may follow the input); non-trivial there = at least two held buffers with different bytes; distinct = different value/route sequence"

func TestC25_RoundTrip(t *testing.T) {
	ev := harn.For("C25").Rule(c25Rule)
	ev.Floor("value:depth>=2", "value", 0.15)
	harn.Check(t, 10000, 800000, func(t *rapid.T) {
		v := c25GenVal(t, rapid.IntRange(0, 6).Draw(t, "maxDepth"))
		ref := c25RefEnc(nil, v)
		var enc []byte
		var err error
		guard(t, "EncodeValue", func() { enc, err = cv.EncodeValue(c25ToGo(v, true, c25IntRepr(t))) })
		if err != nil {
			t.Fatalf("EncodeValue(%s) failed: %v", v, err)
		}
		if !bytes.Equal(enc, ref) {
			t.Fatalf("EncodeValue(%s) = %x, reference %x", v, enc, ref)
		}
		msg, ok := c25Judge(enc)
		if msg != "" {
			t.Fatalf("%s", msg)
		}
		if !ok {
			t.Fatalf("encoding of %s rejected by the decoder: %x", v, enc)
		}
		src := common.NewZeroCopySource(append(append([]byte{}, enc...), 0xEE))
		got, err := cv.DecodeValue(src)
		m, typed := c25FromGo(got)
		if err != nil || !typed || !c25Equal(m, v) || src.Len() != 1 {
			t.Fatalf("DecodeValue(EncodeValue(%s)) = %v (err %v, %d bytes left of 1)", v, got, err, src.Len())
		}
		// wrong call-param version / notify prefix
		if _, err := cv.DeserializeCallParam(append([]byte{byte(rapid.IntRange(1, 255).Draw(t, "ver"))}, enc...)); err == nil {
			t.Fatalf("DeserializeCallParam accepted a non-zero version byte")
		}
		if _, err := cv.DeserializeCallParam(nil); err == nil {
			t.Fatalf("DeserializeCallParam accepted empty input")
		}
		bad := append([]byte("evt\x01"), enc...)
		if r, isBytes := cv.DeserializeNotify(bad).([]byte); !isBytes || !bytes.Equal(r, bad) {
			t.Fatalf("DeserializeNotify with a wrong prefix did not return its input")
		}
		d := v.depth()
		ev.Class("value")
		if d >= 2 {
			ev.Class("value:depth>=2")
		}
		ev.Class(fmt.Sprintf("value:depth=%d", d))
		edge := v.kind == c25Int && (!v.i.IsInt64() || v.i.CmpAbs(big.NewInt(1<<31-1)) >= 0)
		ev.Case(d >= 2 || edge, "value "+v.String())
	})
}

func TestC25_IntRange(t *testing.T) {
	ev := harn.For("C25").Rule(c25Rule)
	harn.Check(t, 10000, 500000, func(t *rapid.T) {
		var i *big.Int
		switch rapid.IntRange(0, 2).Draw(t, "where") {
		case 0: // around the upper bound
			i = new(big.Int).Add(c25MaxI, big.NewInt(int64(rapid.IntRange(-3, 3).Draw(t, "d"))))
		case 1: // around the lower bound
			i = new(big.Int).Add(c25MinI, big.NewInt(int64(rapid.IntRange(-3, 3).Draw(t, "d"))))
		default: // far outside / anywhere
			i = new(big.Int).SetBytes(rapid.SliceOfN(rapid.Byte(), 0, 40).Draw(t, "mag"))
			if rapid.Bool().Draw(t, "neg") {
				i.Neg(i)
			}
		}
		in := c25InRange(i)
		depth := rapid.IntRange(0, 4).Draw(t, "nest")
		v := &c25Val{kind: c25Int, i: i}
		var g interface{} = new(big.Int).Set(i)
		for d := 0; d < depth; d++ {
			sib := &c25Val{kind: c25Bool, t: true}
			v = &c25Val{kind: c25List, list: []*c25Val{sib, v}}
			g = []interface{}{true, g}
		}
		var enc []byte
		var err error
		guard(t, "EncodeValue", func() { enc, err = cv.EncodeValue(g) })
		if in != (err == nil) {
			t.Fatalf("EncodeValue of %s (nesting %d): in I128 range=%v but err=%v", i, depth, in, err)
		}
		if in {
			if ref := c25RefEnc(nil, v); !bytes.Equal(enc, ref) {
				t.Fatalf("EncodeValue(%s) = %x, reference %x", v, enc, ref)
			}
			if msg, ok := c25Judge(enc); msg != "" || !ok {
				t.Fatalf("%s (accepted=%v)", msg, ok)
			}
			ev.Class("int:in-range")
		} else {
			ev.Class("int:rejected")
		}
		ev.Case(true, fmt.Sprintf("int %s nest=%d", i, depth))
	})
}

func TestC25_Arbitrary(t *testing.T) {
	ev := harn.For("C25").Rule(c25Rule)
	ev.Floor("arbitrary:accepted", "arbitrary", 0.10)
	ev.Floor("arbitrary:rejected", "arbitrary", 0.25)
	harn.Check(t, 20000, 1500000, func(t *rapid.T) {
		var b []byte
		shape := rapid.IntRange(0, 3).Draw(t, "shape")
		switch shape {
		case 0:
			b = rapid.SliceOfN(rapid.Byte(), 0, 60).Draw(t, "bytes")
		case 1: // grammar-shaped: tags with small sizes
			for i, n := 0, rapid.IntRange(1, 12).Draw(t, "tokens"); i < n; i++ {
				tag := rapid.SampledFrom([]byte{0, 1, 2, 3, 4, 5, 0x10, 0x10, 6, 0x11, 0xFF}).Draw(t, "tag")
				b = append(b, tag)
				switch tag {
				case 0, 1, 0x10:
					sz := rapid.OneOf(rapid.Uint32Range(0, 4), rapid.SampledFrom([]uint32{0xFFFF, 0x10000, 0x10001, 1 << 31, ^uint32(0)})).Draw(t, "size")
					b = append(b, byte(sz), byte(sz>>8), byte(sz>>16), byte(sz>>24))
					if tag != 0x10 && sz <= 4 {
						b = append(b, rapid.SliceOfN(rapid.Byte(), int(sz), int(sz)).Draw(t, "data")...)
					}
				case 3:
					b = append(b, rapid.SampledFrom([]byte{0, 1, 1, 2, 0x80, 0xFF}).Draw(t, "boolByte"))
				case 2:
					b = append(b, c18GenFixed(t, 20)...)
				case 4:
					b = append(b, c18GenFixed(t, 16)...)
				case 5:
					b = append(b, c18GenFixed(t, 32)...)
				}
			}
		default: // mutated valid encoding
			v := c25GenVal(t, rapid.IntRange(0, 4).Draw(t, "maxDepth"))
			b = c25RefEnc(nil, v)
			for i, n := 0, rapid.IntRange(0, 2).Draw(t, "muts"); i < n && len(b) > 0; i++ {
				p := rapid.IntRange(0, len(b)-1).Draw(t, "p")
				switch rapid.IntRange(0, 4).Draw(t, "mut") {
				case 0:
					b[p] ^= 1 << uint(rapid.IntRange(0, 7).Draw(t, "bit"))
				case 1:
					b[p] = rapid.SampledFrom([]byte{0, 1, 2, 3, 4, 5, 0x10, 0xFF}).Draw(t, "val")
				case 2:
					b = b[:p]
				case 3:
					b = append(b[:p:p], b[p+1:]...)
				default:
					b = append(b[:p:p], append([]byte{rapid.Byte().Draw(t, "ins")}, b[p:]...)...)
				}
			}
		}
		msg, ok := c25Judge(b)
		if msg != "" {
			t.Fatalf("%s", msg)
		}
		ev.Class("arbitrary")
		if ok {
			ev.Class("arbitrary:accepted")
		} else {
			ev.Class("arbitrary:rejected")
		}
		ev.Case(true, fmt.Sprintf("bytes shape=%d %x", shape, b))
	})
}

// TestC25_DeepNesting: hostile nesting depths and sizes (deterministic enumeration).
func TestC25_DeepNesting(t *testing.T) {
	ev := harn.For("C25").Rule(c25Rule)
	depths := []int{1, 2, 7, 100, 1000, 10000, 50000, 200000}
	k := 0
	for _, d := range depths {
		for _, tail := range []string{"complete", "truncated", "leaf", "hugeSize"} {
			k++
			if k%harn.Shards() != harn.Shard() {
				continue
			}
			var b []byte
			for i := 0; i < d; i++ {
				b = append(b, 0x10, 1, 0, 0, 0)
			}
			switch tail {
			case "complete":
				b = append(b, 0x10, 0, 0, 0, 0)
			case "leaf":
				b = append(b, 0x03, 0x01)
			case "hugeSize":
				b = append(b, 0x10, 0xFF, 0xFF, 0xFF, 0xFF, 0x03, 0x01)
			}
			msg, ok := c25Judge(b)
			if msg != "" {
				harn.Violation(t, "C25", map[string]interface{}{"depth": d, "tail": tail}, "%s", msg)
			}
			if ok != (tail == "complete" || tail == "leaf") {
				harn.Violation(t, "C25", map[string]interface{}{"depth": d, "tail": tail}, "nested list depth %d tail %s: accepted=%v", d, tail, ok)
			}
			ev.Class("deep:" + tail)
			ev.Case(true, fmt.Sprintf("deep depth=%d tail=%s", d, tail))
		}
	}
}

// ---------------------------------------------------------------------------------------------
// held results (oracle 5)

// c25Uniform draws an (almost) uniform value in [0,n), n <= 16, from boolean bits.
func c25Uniform(t *rapid.T, n int, label string) int {
	x := 0
	for i := 0; i < 6; i++ {
		x <<= 1
		if rapid.Bool().Draw(t, label) {
			x |= 1
		}
	}
	return x % n
}

func c25Clone(v *c25Val) *c25Val {
	c := &c25Val{kind: v.kind, t: v.t}
	if v.b != nil {
		c.b = append([]byte{}, v.b...)
	}
	if v.i != nil {
		c.i = new(big.Int).Set(v.i)
	}
	if v.kind == c25List {
		c.list = []*c25Val{}
		for _, e := range v.list {
			c.list = append(c.list, c25Clone(e))
		}
	}
	return c
}

// c25Scribble overwrites every byte-array leaf of v in place (the slices are the ones that were handed
// to the encoder as []byte arguments).
func c25Scribble(v *c25Val) {
	if v.kind == c25List {
		for _, e := range v.list {
			c25Scribble(e)
		}
		return
	}
	for i := range v.b {
		v.b[i] ^= 0xFF
	}
}

// c25EqualMasked: structural equality where byte-array leaves (returned zero-copy by the decoder)
// are compared by length only.
func c25EqualMasked(a, b *c25Val) bool {
	if a.kind != b.kind {
		return false
	}
	switch a.kind {
	case c25Bytes:
		return len(a.b) == len(b.b)
	case c25List:
		if len(a.list) != len(b.list) {
			return false
		}
		for i := range a.list {
			if !c25EqualMasked(a.list[i], b.list[i]) {
				return false
			}
		}
		return true
	}
	return c25Equal(a, b)
}

func c25NeoRepresentable(v *c25Val) bool {
	switch v.kind {
	case c25Bytes, c25Int, c25Bool:
		return true
	case c25List:
		for _, e := range v.list {
			if !c25NeoRepresentable(e) {
				return false
			}
		}
		return true
	}
	return false
}

func c25ToNeo(v *c25Val) (nt.VmValue, error) {
	switch v.kind {
	case c25Bytes:
		return nt.VmValueFromBytes(v.b)
	case c25Int:
		return nt.VmValueFromBigInt(new(big.Int).Set(v.i))
	case c25Bool:
		return nt.VmValueFromBool(v.t), nil
	}
	arr := nt.NewArrayValue()
	for _, e := range v.list {
		x, err := c25ToNeo(e)
		if err != nil {
			return nt.VmValue{}, err
		}
		if err := arr.Append(x); err != nil {
			return nt.VmValue{}, err
		}
	}
	return nt.VmValueFromArrayVal(arr), nil
}

const (
	c25RouteValue = iota // EncodeValue
	c25RouteSink         // Encode* into a sink of the caller
	c25RouteNeo          // neovm BuildResultFromNeo into a sink of the caller
)

var c25RouteName = []string{"EncodeValue", "sink", "neo"}

// c25Job is one encoder call, completely drawn beforehand so that it can run on any goroutine.
type c25Job struct {
	v      *c25Val
	argM   *c25Val // private clone whose byte-array leaves back the encoder's arguments
	route  int
	prefix []byte      // written into the caller's sink before the value (routes sink / neo)
	arg    interface{} // EncodeValue argument / EncodeList argument
	int128 bool        // route sink, integer: EncodeInt128 instead of EncodeBigInt
	neo    nt.VmValue
	ref    []byte // prefix + reference encoding
}

type c25Held struct {
	job   *c25Job
	buf   []byte // exactly what the encoder side returned; never touched by the harness
	snap  []byte // private copy taken at return time
	err   error
	panic string
}

func (j *c25Job) String() string {
	return fmt.Sprintf("%s/%x:%s", c25RouteName[j.route], j.prefix, j.v)
}

func c25GenJob(t *rapid.T) *c25Job {
	var v *c25Val
	if c25Uniform(t, 10, "big") == 0 {
		// a leaf above the initial capacity of a sink, alone or inside a list
		v = &c25Val{kind: c25Bytes, b: rapid.SliceOfN(rapid.Byte(), 513, 1400).Draw(t, "bigBytes")}
		if rapid.Bool().Draw(t, "wrap") {
			v = &c25Val{kind: c25List, list: []*c25Val{c25GenVal(t, 1), v}}
		}
	} else {
		v = c25GenVal(t, c25Uniform(t, 4, "maxDepth"))
	}
	j := &c25Job{v: v, argM: c25Clone(v), route: c25Uniform(t, 3, "route")}
	if j.route == c25RouteNeo && (!c25NeoRepresentable(v) || len(c25RefEnc(nil, v)) > 900) {
		j.route = c25RouteSink
	}
	switch j.route {
	case c25RouteValue:
		j.arg = c25ToGo(j.argM, true, c25IntRepr(t))
	case c25RouteSink:
		j.prefix = [][]byte{nil, {cv.VERSION}, []byte("evt\x00")}[c25Uniform(t, 3, "prefix")]
		if v.kind == c25List {
			j.arg = c25ToGo(j.argM, false, c25IntRepr(t))
		}
		j.int128 = rapid.Bool().Draw(t, "int128")
	case c25RouteNeo:
		if rapid.Bool().Draw(t, "ver") {
			j.prefix = []byte{cv.VERSION}
		}
		neo, err := c25ToNeo(j.argM)
		if err != nil {
			t.Fatalf("harness: cannot build the neovm value of %s: %v", v, err)
		}
		j.neo = neo
	}
	j.ref = c25RefEnc(append([]byte{}, j.prefix...), v)
	return j
}

// run performs the encoder call; it draws nothing and never calls into rapid.
func (j *c25Job) run() (h *c25Held) {
	h = &c25Held{job: j}
	defer func() {
		if r := recover(); r != nil {
			h.panic = fmt.Sprintf("%v\n%s", r, c18Stack())
		}
	}()
	switch j.route {
	case c25RouteValue:
		h.buf, h.err = cv.EncodeValue(j.arg)
	case c25RouteSink:
		sink := common.NewZeroCopySink(append([]byte(nil), j.prefix...)) // nil prefix: a fresh 512-byte sink
		m := j.argM
		switch m.kind {
		case c25Bytes:
			cv.EncodeBytes(sink, m.b)
		case c25Str:
			cv.EncodeString(sink, string(m.b))
		case c25Addr:
			var a common.Address
			copy(a[:], m.b)
			cv.EncodeAddress(sink, a)
		case c25Bool:
			cv.EncodeBool(sink, m.t)
		case c25H256:
			var x common.Uint256
			copy(x[:], m.b)
			cv.EncodeH256(sink, x)
		case c25Int:
			if j.int128 {
				var i128 common.I128
				i128, h.err = common.I128FromBigInt(m.i)
				if h.err == nil {
					cv.EncodeInt128(sink, i128)
				}
			} else {
				h.err = cv.EncodeBigInt(sink, m.i)
			}
		case c25List:
			h.err = cv.EncodeList(sink, j.arg.([]interface{}))
		}
		h.buf = sink.Bytes()
	case c25RouteNeo:
		sink := common.NewZeroCopySink(append([]byte(nil), j.prefix...)) // nil prefix: a fresh 512-byte sink
		h.err = nt.BuildResultFromNeo(j.neo, sink)
		h.buf = sink.Bytes()
	}
	h.snap = append([]byte{}, h.buf...)
	return h
}

// c25CheckReturned judges a result at return time.
func c25CheckReturned(h *c25Held) string {
	if h.panic != "" {
		return fmt.Sprintf("encoder %s panicked: %s", h.job, h.panic)
	}
	if h.err != nil {
		return fmt.Sprintf("encoder %s failed: %v", h.job, h.err)
	}
	if !bytes.Equal(h.snap, h.job.ref) {
		return fmt.Sprintf("encoder %s returned %x, reference %x", h.job, h.snap, h.job.ref)
	}
	return ""
}

// c25CheckHeld judges a held buffer after further encoder calls: unchanged and still decodable to its value.
func c25CheckHeld(h *c25Held, when string) (msg string) {
	defer func() {
		if r := recover(); r != nil {
			msg = fmt.Sprintf("decoding the held result of %s panicked: %v\n%s", h.job, r, c18Stack())
		}
	}()
	j := h.job
	if !bytes.Equal(h.buf, h.snap) {
		return fmt.Sprintf("the buffer returned by %s changed %s: was %x, now %x (a result must not alias state that later calls reuse)", j, when, h.snap, h.buf)
	}
	switch string(j.prefix) {
	case "":
		src := common.NewZeroCopySource(h.buf)
		got, err := cv.DecodeValue(src)
		if m, typed := c25FromGo(got); err != nil || !typed || !c25Equal(m, j.v) || src.Len() != 0 {
			return fmt.Sprintf("held result of %s decodes %s to %v (err %v, %d bytes left), want %s", j, when, got, err, src.Len(), j.v)
		}
	case "\x00":
		got, err := cv.DeserializeCallParam(h.buf)
		if m, typed := c25FromGo(got); err != nil || !typed || !c25Equal(m, j.v) {
			return fmt.Sprintf("held call param of %s deserialises %s to %v (err %v), want %s", j, when, got, err, j.v)
		}
	default:
		if got := cv.DeserializeNotify(h.buf); !c25DeepEqualIface(got, c25Stringify(j.v)) {
			return fmt.Sprintf("held notification of %s deserialises %s to %v, want %v", j, when, got, c25Stringify(j.v))
		}
	}
	return ""
}

func TestC25_HeldResults(t *testing.T) {
	ev := harn.For("C25").Rule(c25Rule)
	ev.Floor("held:distinct>=2", "held", 0.80)
	ev.Floor("held:later>=3", "held", 0.30)
	ev.Floor("held:concurrent", "held", 0.15)
	tooBig := new(big.Int).Lsh(big.NewInt(1), 127)
	harn.Check(t, 4000, 300000, func(t *rapid.T) {
		n := 2 + c25Uniform(t, 6, "further") // the first result is held over 1-6 further encodes
		var held []*c25Held
		var desc []string
		for i := 0; i < n; i++ {
			j := c25GenJob(t)
			h := j.run()
			if msg := c25CheckReturned(h); msg != "" {
				t.Fatalf("%s", msg)
			}
			held = append(held, h)
			desc = append(desc, j.String())
			ev.Class("held:route=" + c25RouteName[j.route])
			if len(h.snap) > 512 {
				ev.Class("held:buffer>512")
			}
			// noise between two encodes: failing encodes, decodes of an earlier result
			switch c25Uniform(t, 8, "noise") {
			case 0:
				var err error
				guard(t, "EncodeValue", func() { _, err = cv.EncodeValue([]interface{}{"x", new(big.Int).Set(tooBig)}) })
				if err == nil {
					t.Fatalf("EncodeValue accepted 2^127 nested in a list")
				}
				ev.Class("held:noise=out-of-range")
			case 1:
				guard(t, "EncodeValue", func() { _, _ = cv.EncodeValue([]interface{}{[]byte{1, 2, 3}, uint8(3), "y"}) })
				ev.Class("held:noise=unsupported")
			case 2:
				k := held[c25Uniform(t, len(held), "which")]
				if msg, ok := c25Judge(k.snap[len(k.job.prefix):]); msg != "" || !ok {
					t.Fatalf("%s (accepted=%v)", msg, ok)
				}
				ev.Class("held:noise=decode")
			}
		}
		for i, h := range held {
			if msg := c25CheckHeld(h, fmt.Sprintf("after %d further encoder calls on the same goroutine", n-1-i)); msg != "" {
				t.Fatalf("%s\nsequence: %s", msg, strings.Join(desc, " ; "))
			}
		}

		// optionally: joined goroutines encoding further values while everything so far is still held
		conc := 0
		if c25Uniform(t, 3, "concurrent") == 0 {
			conc = 2 + c25Uniform(t, 3, "goroutines")
			jobs := make([][]*c25Job, conc)
			for g := range jobs {
				for k, m := 0, 1+c25Uniform(t, 3, "perG"); k < m; k++ {
					jobs[g] = append(jobs[g], c25GenJob(t))
				}
			}
			res := make([][]*c25Held, conc)
			var wg sync.WaitGroup
			for g := range jobs {
				wg.Add(1)
				go func(g int) {
					defer wg.Done()
					for _, j := range jobs[g] {
						res[g] = append(res[g], j.run())
					}
				}(g)
			}
			wg.Wait()
			for g := range res {
				for _, h := range res[g] {
					if msg := c25CheckReturned(h); msg != "" {
						t.Fatalf("goroutine %d of %d: %s", g, conc, msg)
					}
					held = append(held, h)
					desc = append(desc, fmt.Sprintf("g%d:%s", g, h.job))
				}
			}
		}

		// every result is still intact, independent of its arguments, and decodes to its value
		for _, h := range held {
			if msg := c25CheckHeld(h, "by the end of the case"); msg != "" {
				t.Fatalf("%s\nsequence: %s", msg, strings.Join(desc, " ; "))
			}
		}
		for _, h := range held {
			c25Scribble(h.job.argM)
		}
		for _, h := range held {
			if !bytes.Equal(h.buf, h.snap) {
				t.Fatalf("the buffer returned by %s changed when the []byte arguments it was made from were overwritten: was %x, now %x", h.job, h.snap, h.buf)
			}
		}

		// decoder side: decoded values are held while the other buffers are decoded, then the inputs are overwritten
		type dec struct {
			in, noteIn []byte
			got, note  interface{}
		}
		decs := make([]dec, len(held))
		guard(t, "DecodeValue/DeserializeNotify", func() {
			for i, h := range held {
				d := &decs[i]
				d.in = append([]byte{}, h.job.ref[len(h.job.prefix):]...)
				var err error
				if d.got, err = cv.DecodeValue(common.NewZeroCopySource(d.in)); err != nil {
					t.Fatalf("DecodeValue(%x) failed: %v", d.in, err)
				}
				d.noteIn = append([]byte("evt\x00"), d.in...)
				d.note = cv.DeserializeNotify(d.noteIn)
			}
		})
		for i, h := range held {
			if m, typed := c25FromGo(decs[i].got); !typed || !c25Equal(m, h.job.v) {
				t.Fatalf("value decoded from %x is %v after %d further decodes, want %s", decs[i].in, decs[i].got, len(held)-1-i, h.job.v)
			}
		}
		for i := range decs {
			for k := range decs[i].in {
				decs[i].in[k] ^= 0xFF
			}
			for k := range decs[i].noteIn {
				decs[i].noteIn[k] ^= 0xFF
			}
		}
		for i, h := range held {
			if m, typed := c25FromGo(decs[i].got); !typed || !c25EqualMasked(m, h.job.v) {
				t.Fatalf("decoded value of %s changed when the decoder input was overwritten: now %v (only []byte leaves are zero-copy)", h.job.v, decs[i].got)
			}
			if !c25DeepEqualIface(decs[i].note, c25Stringify(h.job.v)) {
				t.Fatalf("notification of %s changed after further calls / when the input was overwritten: now %v, want %v", h.job.v, decs[i].note, c25Stringify(h.job.v))
			}
		}

		distinct := map[string]bool{}
		for _, h := range held[:n] {
			distinct[string(h.snap)] = true
		}
		ev.Class("held")
		ev.ClassN("held:buffers", int64(len(held)))
		if len(distinct) >= 2 {
			ev.Class("held:distinct>=2")
		}
		if n-1 >= 3 {
			ev.Class("held:later>=3")
		}
		if conc > 0 {
			ev.Class("held:concurrent")
		}
		ev.Case(len(distinct) >= 2, fmt.Sprintf("held n=%d conc=%d %s", n, conc, strings.Join(desc, " ; ")))
	})
}

func FuzzC25_Decode(f *testing.F) {
	h, _ := hex.DecodeString("1001000000010500000068656c6c6f")
	f.Add(h)
	for _, v := range []*c25Val{
		{kind: c25Int, i: new(big.Int).Set(c25MinI)},
		{kind: c25List, list: []*c25Val{{kind: c25Bool, t: true}, {kind: c25Addr, b: make([]byte, 20)}, {kind: c25H256, b: make([]byte, 32)}, {kind: c25Bytes, b: []byte{1, 2, 3}}, {kind: c25List, list: []*c25Val{}}}},
	} {
		f.Add(c25RefEnc(nil, v))
	}
	f.Add([]byte{0x03, 0x02})
	f.Fuzz(func(t *testing.T, b []byte) {
		if len(b) > 1<<16 {
			return
		}
		if msg, _ := c25Judge(b); msg != "" {
			t.Fatal(msg)
		}
	})
}
