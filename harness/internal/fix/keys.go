// Package fix holds fixtures shared by the checks: a deterministic key zoo, solo/vbft ledgers,
// the native-contract sandbox and transaction/block builders.
package fix

import (
	"crypto/ecdsa"
	"crypto/elliptic"
	"crypto/sha256"
	"encoding/binary"
	"io"
	"sync"

	ethcrypto "github.com/ethereum/go-ethereum/crypto"
	"github.com/ontio/ontology-crypto/ec"
	"github.com/ontio/ontology-crypto/keypair"
	s "github.com/ontio/ontology-crypto/signature"
	"github.com/ontio/ontology/account"
	"github.com/ontio/ontology/core/types"
	"golang.org/x/crypto/ed25519"
)

// detReader is a deterministic byte stream (sha256 in counter mode) used only to derive the
// zoo's key material; keys are not secret and must be a pure function of their index.
type detReader struct {
	seed [32]byte
	ctr  uint64
	buf  []byte
}

func newDetReader(label string, i int) *detReader {
	r := &detReader{}
	r.seed = sha256.Sum256([]byte(label + "/" + string(rune('A'+i%26)) + "/" + itoa(i)))
	return r
}

func itoa(i int) string {
	b := []byte{}
	if i == 0 {
		return "0"
	}
	for i > 0 {
		b = append([]byte{byte('0' + i%10)}, b...)
		i /= 10
	}
	return string(b)
}

func (r *detReader) Read(p []byte) (int, error) {
	for i := range p {
		if len(r.buf) == 0 {
			var c [8]byte
			binary.LittleEndian.PutUint64(c[:], r.ctr)
			r.ctr++
			h := sha256.Sum256(append(r.seed[:], c[:]...))
			r.buf = h[:]
		}
		p[i] = r.buf[0]
		r.buf = r.buf[1:]
	}
	return len(p), nil
}

var _ io.Reader = (*detReader)(nil)

// KeyKind enumerates the zoo's key types.
type KeyKind int

const (
	KP256 KeyKind = iota
	KP224
	KP384
	KP521
	KSM2
	KEd25519
	KEth
	KSecp256k1 // generic ECDSA key (algorithm byte 0x12) on the secp256k1 curve, NOT the ethereum key type
	numKinds
)

func (k KeyKind) String() string {
	return [...]string{"P256", "P224", "P384", "P521", "SM2", "Ed25519", "EthSecp256k1", "EcdsaSecp256k1"}[k]
}

// ZooKey is an account plus its kind.
type ZooKey struct {
	*account.Account
	Kind KeyKind
	Idx  int
}

var (
	zooMu sync.Mutex
	zoo   = map[[2]int]*ZooKey{}
)

// Key returns the i-th deterministic key of a kind (created on first use, cached).
func Key(kind KeyKind, i int) *ZooKey {
	zooMu.Lock()
	defer zooMu.Unlock()
	k := [2]int{int(kind), i}
	if z, ok := zoo[k]; ok {
		return z
	}
	rd := newDetReader("verif-zoo-"+kind.String(), i)
	var pri keypair.PrivateKey
	var pub keypair.PublicKey
	var scheme s.SignatureScheme
	mk := func(c elliptic.Curve, alg ec.ECAlgorithm) {
		p, q, err := ec.GenerateECKeyPair(c, rd, alg)
		if err != nil {
			panic(err)
		}
		pri, pub = p, q
	}
	switch kind {
	case KP256:
		mk(elliptic.P256(), ec.ECDSA)
		scheme = s.SHA256withECDSA
	case KP224:
		mk(elliptic.P224(), ec.ECDSA)
		scheme = s.SHA224withECDSA
	case KP384:
		mk(elliptic.P384(), ec.ECDSA)
		scheme = s.SHA384withECDSA
	case KP521:
		mk(elliptic.P521(), ec.ECDSA)
		scheme = s.SHA512withECDSA
	case KSM2:
		c, err := keypair.GetCurve(keypair.SM2P256V1)
		if err != nil {
			panic(err)
		}
		mk(c, ec.SM2)
		scheme = s.SM3withSM2
	case KEd25519:
		q, p, err := ed25519.GenerateKey(rd)
		if err != nil {
			panic(err)
		}
		pri, pub = p, q
		scheme = s.SHA512withEDDSA
	case KEth:
		var d [32]byte
		rd.Read(d[:])
		d[0] &= 0x7f
		d[31] |= 1
		pk := ec.ConstructPrivateKey(d[:], ethcrypto.S256())
		pri, pub = keypair.FromEthereumPrivateKey(pk)
		scheme = s.KECCAK256WithECDSA
	case KSecp256k1:
		mk(ethcrypto.S256(), ec.ECDSA)
		scheme = s.SHA256withECDSA
	default:
		panic("bad kind")
	}
	z := &ZooKey{Account: &account.Account{PrivateKey: pri, PublicKey: pub, Address: types.AddressFromPubKey(pub), SigScheme: scheme}, Kind: kind, Idx: i}
	zoo[k] = z
	return z
}

// EthECDSA returns the raw secp256k1 key of an ethereum-type zoo key.
func (z *ZooKey) EthECDSA() *ecdsa.PrivateKey {
	return z.PrivateKey.(*ec.EthereumPrivateKey).PrivateKey
}

// P256 returns n distinct P-256 accounts (the common case).
func P256(n int) []*ZooKey {
	out := make([]*ZooKey, n)
	for i := range out {
		out[i] = Key(KP256, i)
	}
	return out
}

// AllKinds lists the kinds.
func AllKinds() []KeyKind {
	out := make([]KeyKind, 0, int(numKinds))
	for k := KeyKind(0); k < numKinds; k++ {
		out = append(out, k)
	}
	return out
}
