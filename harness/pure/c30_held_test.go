package pure

// C30, held results. "The consensus configuration derived from a set of peer stakes" is a value of that set: a
// configuration computed for one stake set must not change because configurations for OTHER stake sets are computed
// later, it must not depend on which sets were processed before, and it must not change when the caller reuses the
// argument objects afterwards (GetPeersConfig builds them per call; genConsensusPayload hands in a private copy).
// The earlier C30 tests use every result at once (two results of the SAME set are compared with each other), so a
// result that aliases state reused by the next call is invisible to them. Here 2..9 results of different sets are
// kept next to a private deep copy while the later ones are computed, then compared, recomputed and used again.
//
// What the unchanged tree does to its arguments (established before asserting anything): GenesisChainConfig sorts
// the caller's slice in place (same pointers, other order), does not write to the pointed-to stake records, does not
// write to *conf, and returns only values (Index, the ID string, a fresh PosTable). Asserted: the slice holds the
// same set of pointers after the call, the records and *conf are unchanged, and the result does not change when
// the records, the slice and *conf are overwritten afterwards. NOT asserted: any particular order of the slice
// after the call (an implementation that sorted a copy would be just as good).

import (
	"fmt"
	"reflect"
	"sort"
	"strings"
	"testing"

	"github.com/ontio/ontology/common/config"
	vconfig "github.com/ontio/ontology/consensus/vbft/config"
	"pgregory.net/rapid"

	"verifharness/internal/harn"
)

// c30Uniform draws 0..n-1 uniformly (rapid.IntRange is biased towards small values).
func c30Uniform(t *rapid.T, n int, label string) int {
	if n <= 1 {
		return 0
	}
	return int(rapid.Uint64().Draw(t, label) % uint64(n))
}

func c30CloneConfig(cc *vconfig.ChainConfig) *vconfig.ChainConfig {
	if cc == nil {
		return nil
	}
	out := *cc
	out.Peers = make([]*vconfig.PeerConfig, len(cc.Peers))
	for i, p := range cc.Peers {
		if p != nil {
			q := *p
			q.ID = strings.Repeat(p.ID, 1) // strings are immutable; a fresh header is enough
			out.Peers[i] = &q
		}
	}
	out.PosTable = append([]uint32(nil), cc.PosTable...)
	if cc.PosTable != nil && out.PosTable == nil {
		out.PosTable = []uint32{}
	}
	return &out
}

// c30Sibling derives another input from c that deliberately collides with it in what a cache "keyed by too little"
// would look at: the same peer indexes (and for some kinds the same keys, the same K/L/C, the same number of
// peers) with different stakes, keys, transaction hash or height.
func c30Sibling(t *rapid.T, c *c30Case) (*c30Case, string) {
	s := &c30Case{txhash: c.txhash, height: c.height}
	cfg := *c.cfg
	s.cfg = &cfg
	for _, p := range c.peers {
		q := *p
		s.peers = append(s.peers, &q)
	}
	kind := []string{"stakes", "keys", "txhash", "height", "KL"}[c30Uniform(t, 5, "siblingKind")]
	switch kind {
	case "stakes": // same keys and indexes, stakes rotated and perturbed: another top-K set, other slot counts
		n := len(s.peers)
		rot := 1 + c30Uniform(t, n-1, "rot")
		old := make([]uint64, n)
		for i, p := range s.peers {
			old[i] = p.InitPos
		}
		for i, p := range s.peers {
			p.InitPos = old[(i+rot)%n] + uint64(c30Uniform(t, 3, "bump"))*uint64(1+i)
		}
	case "keys": // same indexes and stakes, every key replaced (distinct, never equal to an old one)
		for i, p := range s.peers {
			p.PeerPubkey = fmt.Sprintf("03%04x%s", i, strings.ToLower(p.PeerPubkey))
		}
	case "txhash":
		s.txhash[c30Uniform(t, 32, "hbyte")] ^= byte(1 + c30Uniform(t, 255, "hxor"))
	case "height":
		s.height = c.height + 1 + uint32(c30Uniform(t, 1000, "dh"))
	default: // another valid (K, L, C) over the same peers
		n := len(s.peers)
		k := 3 + c30Uniform(t, n-2, "K2")
		s.cfg.K = uint32(k)
		s.cfg.C = uint32(1 + c30Uniform(t, (k-1)/2, "C2"))
		s.cfg.L = uint32(k * []int{2, 3, 4, 16, 17}[c30Uniform(t, 5, "L2")])
	}
	seen := map[uint64]bool{}
	for _, p := range s.peers {
		if seen[p.InitPos] {
			s.ties = true
		}
		seen[p.InitPos] = true
	}
	return s, kind
}

type c30Held struct {
	c     *c30Case
	order []int
	out   *vconfig.ChainConfig        // what the code returned, kept untouched
	snap  *vconfig.ChainConfig        // private deep copy taken at return time
	args  []*config.VBFTPeerStakeInfo // the slice handed in (as left by the call)
	conf  *config.VBFTConfig          // the *conf handed in
}

// c30RunHeld calls GenesisChainConfig on private copies of the case's arguments, checks what the call did to them
// and returns the result together with its copy.
func c30RunHeld(t *rapid.T, c *c30Case, order []int) *c30Held {
	peers := c30Copy(c.peers, order)
	before := make([]*config.VBFTPeerStakeInfo, len(peers))
	recs := make([]config.VBFTPeerStakeInfo, len(peers))
	for i, p := range peers {
		before[i], recs[i] = p, *p
	}
	conf := *c.cfg
	var out *vconfig.ChainConfig
	var err error
	func() {
		defer func() {
			if r := recover(); r != nil {
				t.Fatalf("GenesisChainConfig panicked: %v; %s", r, c30Desc(c))
			}
		}()
		out, err = vconfig.GenesisChainConfig(&conf, peers, c.txhash, c.height)
	}()
	if err != nil || out == nil {
		t.Fatalf("GenesisChainConfig rejected a valid configuration: %v; %s", err, c30Desc(c))
	}
	// the arguments after the call
	if !reflect.DeepEqual(conf, *c.cfg) {
		t.Fatalf("GenesisChainConfig changed *conf: %+v, was %+v; %s", conf, *c.cfg, c30Desc(c))
	}
	pos := map[*config.VBFTPeerStakeInfo]int{}
	for i, p := range before {
		pos[p] = i
	}
	hit := make([]bool, len(before))
	for i, p := range peers {
		j, ok := pos[p]
		if !ok || hit[j] {
			t.Fatalf("after GenesisChainConfig the caller's slice no longer holds the stake records it was given (position %d holds a foreign or repeated record %+v); %s", i, p, c30Desc(c))
		}
		hit[j] = true
		if *p != recs[j] {
			t.Fatalf("GenesisChainConfig changed a stake record of the caller: %+v, was %+v; %s", *p, recs[j], c30Desc(c))
		}
	}
	return &c30Held{c: c, order: order, out: out, snap: c30CloneConfig(out), args: peers, conf: &conf}
}

// c30Use uses a configuration again: the position table names only listed peers, every listed peer has a slot, the
// listed peers are K distinct input peers.
func c30Use(cc *vconfig.ChainConfig, c *c30Case) string {
	if len(cc.Peers) != int(c.cfg.K) || cc.N != c.cfg.K || cc.C != c.cfg.C {
		return fmt.Sprintf("lists %d peers, N=%d C=%d for K=%d C=%d", len(cc.Peers), cc.N, cc.C, c.cfg.K, c.cfg.C)
	}
	key := map[uint32]string{}
	for _, p := range c.peers {
		key[p.Index] = p.PeerPubkey
	}
	slots := map[uint32]int{}
	for _, p := range cc.Peers {
		if p == nil {
			return "nil peer"
		}
		if k, ok := key[p.Index]; !ok || k != p.ID {
			return fmt.Sprintf("lists peer %d:%s which is not an input peer", p.Index, p.ID)
		}
		if _, dup := slots[p.Index]; dup {
			return fmt.Sprintf("lists peer %d twice", p.Index)
		}
		slots[p.Index] = 0
	}
	for i, idx := range cc.PosTable {
		if _, ok := slots[idx]; !ok {
			return fmt.Sprintf("position %d of the position table names peer %d which is not selected", i, idx)
		}
		slots[idx]++
	}
	for idx, n := range slots {
		if n == 0 {
			return fmt.Sprintf("selected peer %d has no slot", idx)
		}
	}
	return ""
}

func c30Diff(a, b *vconfig.ChainConfig) string {
	switch {
	case c30PeerList(a) != c30PeerList(b):
		return fmt.Sprintf("Peers are [%s], were [%s]", c30PeerList(a), c30PeerList(b))
	case !reflect.DeepEqual(a.PosTable, b.PosTable):
		for i := 0; i < len(a.PosTable) && i < len(b.PosTable); i++ {
			if a.PosTable[i] != b.PosTable[i] {
				return fmt.Sprintf("PosTable (length %d, was %d) differs first at position %d: %d, was %d", len(a.PosTable), len(b.PosTable), i, a.PosTable[i], b.PosTable[i])
			}
		}
		return fmt.Sprintf("PosTable has length %d, had %d", len(a.PosTable), len(b.PosTable))
	}
	return fmt.Sprintf("scalar fields: %+v, were %+v", *a, *b)
}

func c30Seq(held []*c30Held) string {
	var sb strings.Builder
	for i, h := range held {
		fmt.Fprintf(&sb, "#%d{order=%v %s} ", i, h.order, c30Desc(h.c))
	}
	return sb.String()
}

func TestC30_HeldConfigs(t *testing.T) {
	ev := harn.For("C30").Rule(c30Rule + " || held: 2..9 configurations of DIFFERENT inputs (fresh peer sets, and siblings of an earlier one: same indexes with other stakes / other keys / other tx hash / other height / other K,L,C) " +
		"are computed one after the other, some separated by a call that is refused (L = K); every returned configuration is kept untouched next to a deep copy taken at return time and, after all later calls, must equal its copy, " +
		"must still be a usable configuration of its own input, must be reproduced by a recomputation (other input order) and must not change when the argument slice, the stake records and *conf are overwritten; " +
		"the caller's slice must hold the same records after the call; non-trivial = at least two kept configurations whose position tables differ; distinct = different sequence of inputs")
	ev.Floor("held:distinct-tables>=2", "held:cases", 0.9)
	ev.Floor("held:later>=3", "held:cases", 0.4)
	ev.Floor("held:sibling", "held:results", 0.2)
	ev.Floor("held:input-reordered", "held:results", 0.5)
	harn.Check(t, 1500, 40000, func(t *rapid.T) {
		n := 2 + c30Uniform(t, 8, "results")
		var held []*c30Held
		var kinds []string
		for i := 0; i < n; i++ {
			var c *c30Case
			kind := "fresh"
			if i > 0 && c30Uniform(t, 5, "sibling") < 2 {
				c, kind = c30Sibling(t, held[c30Uniform(t, len(held), "of")].c)
				kind = "sibling:" + kind
				ev.Class("held:sibling")
			} else {
				c = c30Gen(t)
			}
			a, _ := c30Orders(t, len(c.peers))
			h := c30RunHeld(t, c, a)
			if msg := c30Use(h.out, c); msg != "" {
				t.Fatalf("configuration #%d is not usable: %s; %s", i, msg, c30Desc(c))
			}
			for j, p := range h.args {
				if p.Index != c.peers[a[j]].Index {
					ev.Class("held:input-reordered")
					break
				}
			}
			held = append(held, h)
			kinds = append(kinds, kind)
			ev.Class("held:results")
			ev.Class("held:kind=" + kind)
			// a refused call between two accepted ones
			if c30Uniform(t, 4, "refused") == 0 {
				bad := *c.cfg
				bad.L = bad.K
				func() {
					defer func() {
						if r := recover(); r != nil {
							t.Fatalf("GenesisChainConfig panicked for L = K: %v; %s", r, c30Desc(c))
						}
					}()
					if cc, err := vconfig.GenesisChainConfig(&bad, c30Copy(c.peers, a), c.txhash, c.height); err == nil {
						t.Fatalf("GenesisChainConfig accepted L = K = %d (returned %d slots); %s", bad.K, len(cc.PosTable), c30Desc(c))
					}
				}()
				ev.Class("held:refused-call-between")
			}
		}
		check := func(when string) {
			for i, h := range held {
				if !reflect.DeepEqual(h.out, h.snap) {
					t.Fatalf("configuration #%d (%s) changed %s: %s\nsequence: %s", i, kinds[i], when, c30Diff(h.out, h.snap), c30Seq(held))
				}
			}
		}
		check(fmt.Sprintf("while the %d later configurations were computed", n-1))
		for i, h := range held {
			if msg := c30Use(h.out, h.c); msg != "" {
				t.Fatalf("configuration #%d (%s), kept while later ones were computed, is no longer usable: %s\nsequence: %s", i, kinds[i], msg, c30Seq(held))
			}
		}
		// determinism against call history: recompute in a generated order of the results, with another input order
		idx := make([]int, n)
		for i := range idx {
			idx[i] = i
		}
		for _, i := range rapid.Permutation(idx).Draw(t, "recomputeOrder") {
			h := held[i]
			_, b := c30Orders(t, len(h.c.peers))
			again := c30RunHeld(t, h.c, b)
			if !reflect.DeepEqual(again.out, h.snap) {
				t.Fatalf("recomputing configuration #%d (%s) after the others (input order %v) gives another result: %s\nsequence: %s", i, kinds[i], b, c30Diff(again.out, h.snap), c30Seq(held))
			}
		}
		check("while all of them were recomputed")
		// the caller reuses its argument objects
		for _, h := range held {
			for j, p := range h.args {
				p.Index, p.PeerPubkey, p.InitPos = p.Index+100000, "ff"+p.PeerPubkey, ^p.InitPos
				if j%2 == 0 {
					h.args[j] = &config.VBFTPeerStakeInfo{Index: 77, PeerPubkey: "scribbled", InitPos: 1}
				}
			}
			h.conf.K, h.conf.L, h.conf.C, h.conf.N = 0, 0, 0, 0
		}
		check("when the argument slice, the stake records and *conf were overwritten after the calls")

		tables := map[string]bool{}
		for _, h := range held {
			tables[fmt.Sprint(h.snap.PosTable)] = true
		}
		if len(tables) >= 2 {
			ev.Class("held:distinct-tables>=2")
		}
		if n-1 >= 3 {
			ev.Class("held:later>=3")
		}
		ev.Class("held:cases")
		sort.Strings(kinds)
		ev.Case(len(tables) >= 2, "held "+c30Seq(held))
	})
}
