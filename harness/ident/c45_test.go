package ident

// C45 Only an ONT ID's authorized keys or controllers can change it.
//
// Stateful property test of the native ONT ID contract on the native sandbox. The harness keeps,
// per identity, a model of the key list (revoked? authentication?), the controller (single id or
// m-of-n group, possibly nested), the recovery (old-style address or group), attributes and
// services, and the registered/revoked flag. The oracle is ONE-DIRECTIONAL ("only when"):
//   * a SUCCESSFUL mutating call implies that the authorization predicate of that method held on
//     the pre-state: index-addressed methods — the key at that index exists, is not revoked, has
//     authentication rights and its address is in the signer set; operator-key methods — the
//     operator is such a key of the identity (or, for addKey/removeKey, the old-style recovery
//     address) and is witnessed; *ByController — the single controller's indexed key is such a key of
//     the controller identity, or the DISTINCT group members named by listed signers that verify
//     reach the group threshold (repeated entries of one member count once); regIDWithController is
//     held to the same predicate for the controller it names;
//     *ByRecovery / updateRecovery — same with the recovery group; changeRecovery — the old recovery
//     address is witnessed;
//   * every mutating call on a revoked (or never registered) identity fails, and registering an
//     existing or revoked identity fails.
// Failed calls assert nothing. The model is updated from successful calls only and is cross-checked
// after every successful call (and for all identities at the end of each history) against the
// contract's own getters (getDocumentJson, getKeyState) and the raw state flag / recovery record
// in the CacheDB, so that it cannot drift silently.
//
// A recovered panic inside a native call fails the check with the history: the one known source
// (removeKeyByController / removeKeyByRecovery with key index 0, a C12 defect of revokePkByIndex) is
// repaired in /repo, so key index 0 is generated like any other index and must yield an error.

import (
	"bytes"
	"encoding/json"
	"fmt"
	"sort"
	"strings"
	"testing"

	"github.com/ontio/ontology/common"
	"github.com/ontio/ontology/core/states"
	"pgregory.net/rapid"

	"verifharness/internal/fix"
	"verifharness/internal/harn"
)

const (
	c45N     = 4 // identities 0..3; index 4 is a well-formed ONT ID that is never registered ("ghost")
	stNone   = 0
	stValid  = 1
	stRevoke = 2
)

type c45Key struct {
	pk      *pkey
	revoked bool
	auth    bool
}

type c45ID struct {
	id        []byte
	state     int
	keys      []*c45Key
	ctlSingle []byte
	ctlGroup  *grp
	recOld    *common.Address
	recGroup  *grp
	attrs     map[string]bool
	services  map[string]bool
	former    []*c45Key // keys at the time of revocation (used to sign attempts on the revoked id)
}

type c45Model struct {
	ids [c45N + 1]*c45ID
}

func (m *c45Model) idxOf(id []byte) int {
	for i, x := range m.ids {
		if bytes.Equal(x.id, id) {
			return i
		}
	}
	return -1
}

// keyUsable: THE authorization atom — key `idx` of identity i exists, is not revoked, has
// authentication rights and its address witnesses the transaction.
func (m *c45Model) keyUsable(i int, idx uint64, s map[common.Address]bool) bool {
	if i < 0 || idx < 1 || idx > uint64(len(m.ids[i].keys)) {
		return false
	}
	k := m.ids[i].keys[idx-1]
	return !k.revoked && k.auth && s[k.pk.addr]
}

func (m *c45Model) authIdx(i int) []uint64 { // indexes of keys that could authorise (given their witness)
	var out []uint64
	for j, k := range m.ids[i].keys {
		if !k.revoked && k.auth {
			out = append(out, uint64(j+1))
		}
	}
	return out
}

// groupOK: reference semantics of an m-of-n (nested) group: a member identity counts when one of
// the listed signers names it with a usable key; a subgroup counts when it is itself satisfied.
func (m *c45Model) groupOK(g *grp, ss []signer, s map[common.Address]bool) bool {
	valid := map[string]bool{}
	for _, x := range ss {
		if m.keyUsable(m.idxOf(x.id), x.idx, s) {
			valid[string(x.id)] = true
		}
	}
	var rec func(g *grp) bool
	rec = func(g *grp) bool {
		var n uint64
		for _, mem := range g.members {
			if mem.sub != nil {
				if rec(mem.sub) {
					n++
				}
			} else if valid[string(mem.id)] {
				n++
			}
		}
		return n >= g.threshold
	}
	return rec(g)
}

// c45Auth is one generated authorisation: what goes into the arguments and who witnesses the tx.
type c45Auth struct {
	idx      uint64 // index kind
	op       []byte // operator kind (public key bytes or 20-byte address)
	psingle  bool   // controller proof: single index / signer list
	pidx     uint64
	signers  []signer // controller group proof or recovery signers
	addrs    []common.Address
	desc     string
	intended bool // built to be valid
}

func (a *c45Auth) proof() []byte {
	if a.psingle {
		return proofIndex(a.pidx)
	}
	return proofSigners(a.signers)
}

func (m *c45Model) predIndex(i int, a *c45Auth) bool { return m.keyUsable(i, a.idx, addrSet(a.addrs)) }

func (m *c45Model) predOperator(i int, a *c45Auth, allowOldRecovery bool, pool []*pkey) bool {
	s := addrSet(a.addrs)
	witnessed := false
	for _, p := range pool {
		if bytes.Equal(p.pub, a.op) && s[p.addr] {
			witnessed = true
		}
	}
	if len(a.op) == common.ADDR_LEN {
		var ad common.Address
		copy(ad[:], a.op)
		if s[ad] {
			witnessed = true
		}
	}
	if !witnessed {
		return false
	}
	for _, k := range m.ids[i].keys {
		if bytes.Equal(k.pk.pub, a.op) && k.auth && !k.revoked {
			return true
		}
	}
	if allowOldRecovery && m.ids[i].recOld != nil && bytes.Equal(m.ids[i].recOld[:], a.op) {
		return true
	}
	return false
}

func (m *c45Model) predController(i int, a *c45Auth) bool {
	x := m.ids[i]
	s := addrSet(a.addrs)
	switch {
	case x.ctlSingle != nil:
		return a.psingle && m.keyUsable(m.idxOf(x.ctlSingle), a.pidx, s)
	case x.ctlGroup != nil:
		return !a.psingle && m.groupOK(x.ctlGroup, a.signers, s)
	}
	return false
}

func (m *c45Model) predRecovery(i int, a *c45Auth) bool {
	x := m.ids[i]
	return x.recGroup != nil && m.groupOK(x.recGroup, a.signers, addrSet(a.addrs))
}

func (m *c45Model) revoke(i int) {
	x := m.ids[i]
	x.state = stRevoke
	x.former = x.keys
	x.keys, x.ctlSingle, x.ctlGroup, x.recOld, x.recGroup = nil, nil, nil, nil, nil
	x.attrs, x.services = map[string]bool{}, map[string]bool{}
}

type c45Profile struct {
	name  string
	steps int
	// multipliers on the weights of the action families
	ctl, rec, revoke int
}

func TestC45_OwnerKeys(t *testing.T) {
	runC45(t, c45Profile{name: "owner", steps: 60, ctl: 1, rec: 1, revoke: 1}, 300, 6000)
}
func TestC45_ControllerRecovery(t *testing.T) {
	runC45(t, c45Profile{name: "ctlrec", steps: 60, ctl: 4, rec: 4, revoke: 2}, 300, 6000)
}

func runC45(t *testing.T, prof c45Profile, quick, thorough int) {
	ch, done := newLedger(t)
	defer done()
	pool := keyPool(10)
	pool = append(pool[:15:15], pool[16:]...) // without the ethereum-type key: getDocumentJson cannot print it (see report)
	ev := harn.For("C45")
	ev.Rule("stateful histories (rapid t.Repeat, ~60 steps) over the real ontid native contract: 4 ONT IDs + 1 never-registered id, " +
		"key pool of 16 zoo keys (all kinds, one long-form encoding); actions = every registration and mutation method (by operator key, " +
		"by key index, *ByController with single and m-of-n / nested group controllers, *ByRecovery with group recovery, old-style recovery, " +
		"auth-key set/remove, attributes, services, contexts, removeController, revokeID*); ~70% of calls authorised by construction from the " +
		"model (right index, non-revoked authentication key, enough group signers), ~30% deliberately unauthorised (stranger, revoked key, " +
		"key without authentication rights, wrong/foreign index, threshold-1 signers, threshold-1 distinct signers padded with duplicate entries, missing witness, non-member signers). Non-trivial: a history " +
		"with successful calls under at least two authorisation kinds and at least one unauthorised attempt. Distinct: different action logs.")
	ev.Assume("the sandbox call (SignedAddr = chosen signer set, commit on success, reset on error) is how a transaction reaches a native contract")
	ev.Assume("network id 3: the new ONT ID methods are active from height 0; key indexes < 2^32 (the contract truncates index arguments to uint32)")
	ev.Floor("ok:index", "call:index", 0.25)
	ev.Floor("ok:operator", "call:operator", 0.25)
	ev.Floor("ok:controller", "call:controller", 0.15)
	ev.Floor("ok:recovery", "call:recovery", 0.10)
	ev.Floor("unauth-attempt", "call", 0.15)
	ev.Floor("attempt:revoked-key", "call", 0.005)
	ev.Floor("attempt:nonauth-key", "call", 0.005)
	ev.Floor("attempt:threshold-short", "call:group", 0.02)
	ev.Floor("attempt:threshold-short-dup", "call:group", 0.02)
	// per history; each profile is its own process, so these floors are tied to the profile's own weight of
	// controller/recovery actions (profile "owner" draws them a quarter as often as "ctlrec": a fixed floor
	// sat inside its noise and starved once in a quick run)
	grpShare := float64(prof.ctl+prof.rec) / 8.0
	ev.Floor("attempt:threshold-short-dup:ctl", "", 0.05*grpShare)
	ev.Floor("attempt:threshold-short-dup:rec", "", 0.10*grpShare)
	ev.Floor("attempt:threshold-short-dup:reg", "", 0.02*grpShare)
	ev.Floor("attempt:threshold-short-dup:nested", "", 0.01*grpShare)
	ev.Floor("call:on-revoked-id", "call", 0.02)
	ev.Floor("register:again", "call", 0.01)
	ev.Floor("revoke:ok", "", 0.10)

	harn.CheckSteps(t, prof.steps, quick, thorough, func(rt *rapid.T) {
		n := ch.NewNative()
		m := &c45Model{}
		for i := range m.ids {
			m.ids[i] = &c45ID{id: mkID("c45", i), attrs: map[string]bool{}, services: map[string]bool{}}
		}
		var logb []string
		okKinds := map[string]bool{}
		unauthFailed := 0
		logf := func(f string, a ...interface{}) { logb = append(logb, fmt.Sprintf(f, a...)) }
		history := func() string { return strings.Join(logb, "; ") }
		fail := func(f string, a ...interface{}) {
			rt.Fatalf("C45 %s\n  model: %s\n  history: %s", fmt.Sprintf(f, a...), m.String(), history())
		}

		// ---------- cross-check of one identity against the contract's getters -------------------
		encID := func(id []byte) []byte {
			return append(append(append([]byte{}, ontidAddr[:]...), byte(len(id))), id...)
		}
		crossCheck := func(i int) {
			x := m.ids[i]
			flag := byte(0)
			if raw, err := n.Cache.Get(encID(x.id)); err == nil && len(raw) > 0 {
				if v, err := states.GetValueFromRawStorageItem(raw); err == nil && len(v) > 0 {
					flag = v[0]
				}
			}
			if int(flag) != x.state {
				fail("model drift: id%d state flag in storage is %d, model says %d", i, flag, x.state)
			}
			doc, err := n.Call(ontidAddr, "getDocumentJson", aID(x.id), nil)
			if err != nil {
				fail("getDocumentJson(id%d) failed: %v", i, err)
			}
			if x.state != stValid {
				if len(doc) != 0 {
					fail("model drift: id%d is not valid in the model (state %d) but has a document %s", i, x.state, doc)
				}
				return
			}
			var d struct {
				PublicKey []struct {
					ID  string `json:"id"`
					Hex string `json:"publicKeyHex"`
				} `json:"publicKey"`
				Authentication []json.RawMessage `json:"authentication"`
				Controller     json.RawMessage   `json:"controller"`
				Recovery       json.RawMessage   `json:"recovery"`
				Service        []struct {
					ID string `json:"id"`
				} `json:"service"`
				Attribute []struct {
					Key string `json:"key"`
				} `json:"attribute"`
			}
			if err := json.Unmarshal(doc, &d); err != nil {
				fail("getDocumentJson(id%d): bad json %v: %s", i, err, doc)
			}
			var wantPK, gotPK, wantAuth, gotAuth []string
			for j, k := range x.keys {
				if k.revoked {
					continue
				}
				wantPK = append(wantPK, fmt.Sprintf("%s#keys-%d=%s", x.id, j+1, keyHexJSON(k.pk.pub)))
				if k.auth {
					wantAuth = append(wantAuth, fmt.Sprintf("%s#keys-%d", x.id, j+1))
				}
			}
			for _, p := range d.PublicKey {
				gotPK = append(gotPK, p.ID+"="+p.Hex)
			}
			for _, a := range d.Authentication {
				var s string
				if json.Unmarshal(a, &s) != nil {
					var o struct {
						ID string `json:"id"`
					}
					_ = json.Unmarshal(a, &o)
					s = o.ID
				}
				gotAuth = append(gotAuth, s)
			}
			if fmt.Sprint(wantPK) != fmt.Sprint(gotPK) {
				fail("model drift: id%d public keys: contract %v, model %v", i, gotPK, wantPK)
			}
			if fmt.Sprint(wantAuth) != fmt.Sprint(gotAuth) {
				fail("model drift: id%d authentication keys: contract %v, model %v", i, gotAuth, wantAuth)
			}
			wantCtl := "null"
			if x.ctlSingle != nil {
				wantCtl = `"` + string(x.ctlSingle) + `"`
			} else if x.ctlGroup != nil {
				wantCtl = x.ctlGroup.json()
			}
			if string(d.Controller) != wantCtl {
				fail("model drift: id%d controller: contract %s, model %s", i, d.Controller, wantCtl)
			}
			wantRec := "null"
			if x.recGroup != nil {
				wantRec = x.recGroup.json()
			}
			if string(d.Recovery) != wantRec {
				fail("model drift: id%d recovery: contract %s, model %s", i, d.Recovery, wantRec)
			}
			// raw recovery record (the old-style address is not part of the document)
			rawRec, _ := n.Cache.Get(append(encID(x.id), 3))
			switch {
			case x.recOld == nil && x.recGroup == nil:
				if len(rawRec) != 0 {
					fail("model drift: id%d has a recovery record %x, model has none", i, rawRec)
				}
			default:
				var it states.StorageItem
				if err := it.Deserialization(common.NewZeroCopySource(rawRec)); err != nil {
					fail("model drift: id%d recovery record unreadable (%v): %x", i, err, rawRec)
				}
				if x.recOld != nil && (it.StateVersion != 0 || !bytes.Equal(it.Value, x.recOld[:])) {
					fail("model drift: id%d old recovery: storage v%d %x, model %x", i, it.StateVersion, it.Value, x.recOld[:])
				}
				if x.recGroup != nil && (it.StateVersion != 1 || !bytes.Equal(it.Value, x.recGroup.bytes())) {
					fail("model drift: id%d recovery group: storage v%d %x, model %s", i, it.StateVersion, it.Value, x.recGroup)
				}
			}
			var gotA, gotS []string
			for _, a := range d.Attribute {
				gotA = append(gotA, strings.TrimPrefix(a.Key, string(x.id)+"#"))
			}
			for _, s := range d.Service {
				gotS = append(gotS, strings.TrimPrefix(s.ID, string(x.id)+"#"))
			}
			sort.Strings(gotA)
			sort.Strings(gotS)
			if fmt.Sprint(gotA) != fmt.Sprint(sortedKeys(x.attrs)) {
				fail("model drift: id%d attributes: contract %v, model %v", i, gotA, sortedKeys(x.attrs))
			}
			if fmt.Sprint(gotS) != fmt.Sprint(sortedKeys(x.services)) {
				fail("model drift: id%d services: contract %v, model %v", i, gotS, sortedKeys(x.services))
			}
			for j := 0; j <= len(x.keys); j++ {
				st, err := n.Call(ontidAddr, "getKeyState", aIDIndex(x.id, uint64(j+1)), nil)
				want := "error"
				if j < len(x.keys) {
					want = "in use"
					if x.keys[j].revoked {
						want = "revoked"
					}
				}
				got := string(st)
				if err != nil {
					got = "error"
				}
				if got != want {
					fail("model drift: id%d getKeyState(%d) = %q (err %v), model %q", i, j+1, st, err, want)
				}
			}
		}

		// ---------- generators of authorisations ----------------------------------------------------
		stranger := func(i int, label string) *pkey { // a pool key that is not in identity i's key list
			for tries := 0; ; tries++ {
				p := pickFrom(rt, label, pool)
				in := false
				for _, k := range m.ids[i].keys {
					if k.pk == p || k.pk.addr == p.addr {
						in = true
					}
				}
				if !in || tries > 8 {
					return p
				}
			}
		}
		// findKey returns the first key index of identity i matching the predicate (0 if none).
		findKey := func(i int, f func(*c45Key) bool) uint64 {
			var c []uint64
			for j, k := range m.ids[i].keys {
				if f(k) {
					c = append(c, uint64(j+1))
				}
			}
			if len(c) == 0 {
				return 0
			}
			return pickFrom(rt, "key", c)
		}
		addrOfKey := func(i int, idx uint64) []common.Address {
			if i >= 0 && idx >= 1 && idx <= uint64(len(m.ids[i].keys)) {
				return []common.Address{m.ids[i].keys[idx-1].pk.addr}
			}
			return nil
		}

		genIndex := func(i int, valid bool) *c45Auth {
			good := m.authIdx(i)
			if valid && len(good) > 0 {
				idx := pickFrom(rt, "idx", good)
				return &c45Auth{idx: idx, addrs: addrOfKey(i, idx), desc: fmt.Sprintf("k%d", idx), intended: true}
			}
			if f := m.ids[i].former; m.ids[i].state == stRevoke && len(f) > 0 && pct(rt, "formerKey") < 70 {
				idx := 1 + uni(rt, "formerIdx", len(f)) // what used to authorise before the revocation
				return &c45Auth{idx: uint64(idx), addrs: []common.Address{f[idx-1].pk.addr}, desc: fmt.Sprintf("former-k%d", idx)}
			}
			switch uni(rt, "badIndex", 6) {
			case 0: // right index, a stranger signs
				idx := uint64(1)
				if len(good) > 0 {
					idx = pickFrom(rt, "idx", good)
				}
				return &c45Auth{idx: idx, addrs: []common.Address{stranger(i, "stranger").addr}, desc: fmt.Sprintf("k%d/stranger", idx)}
			case 1: // revoked key, signed by itself
				if idx := findKey(i, func(k *c45Key) bool { return k.revoked }); idx > 0 {
					ev.Class("attempt:revoked-key")
					return &c45Auth{idx: idx, addrs: addrOfKey(i, idx), desc: fmt.Sprintf("k%d/revoked", idx)}
				}
			case 2: // key without authentication rights, signed by itself
				if idx := findKey(i, func(k *c45Key) bool { return !k.revoked && !k.auth }); idx > 0 {
					ev.Class("attempt:nonauth-key")
					return &c45Auth{idx: idx, addrs: addrOfKey(i, idx), desc: fmt.Sprintf("k%d/nonauth", idx)}
				}
			case 3: // out of range index, signed by all of the identity's keys
				idx := pickFrom(rt, "oob", []uint64{0, uint64(len(m.ids[i].keys) + 1), 255, 70000})
				var as []common.Address
				for _, k := range m.ids[i].keys {
					as = append(as, k.pk.addr)
				}
				return &c45Auth{idx: idx, addrs: as, desc: fmt.Sprintf("k%d/oob", idx)}
			case 4: // a usable key of ANOTHER identity at its own index
				o := (i + 1 + uni(rt, "other", c45N-1)) % c45N
				if g := m.authIdx(o); len(g) > 0 {
					idx := pickFrom(rt, "idx", g)
					return &c45Auth{idx: idx, addrs: addrOfKey(o, idx), desc: fmt.Sprintf("k%d/of-id%d", idx, o)}
				}
			}
			idx := uint64(1)
			if len(good) > 0 {
				idx = pickFrom(rt, "idx", good)
			}
			return &c45Auth{idx: idx, desc: fmt.Sprintf("k%d/nosig", idx)}
		}

		genOperator := func(i int, valid, allowOld bool) *c45Auth {
			x := m.ids[i]
			good := m.authIdx(i)
			if f := x.former; x.state == stRevoke && len(f) > 0 && pct(rt, "formerKey") < 70 {
				k := f[uni(rt, "formerIdx", len(f))]
				return &c45Auth{op: k.pk.pub, addrs: []common.Address{k.pk.addr}, desc: "op=former:" + k.pk.name}
			}
			if valid {
				if allowOld && x.recOld != nil && (len(good) == 0 || pct(rt, "useOldRec") < 35) {
					return &c45Auth{op: x.recOld[:], addrs: []common.Address{*x.recOld}, desc: "oldrec", intended: true}
				}
				if len(good) > 0 {
					idx := pickFrom(rt, "idx", good)
					return &c45Auth{op: x.keys[idx-1].pk.pub, addrs: addrOfKey(i, idx), desc: fmt.Sprintf("op=k%d", idx), intended: true}
				}
			}
			switch uni(rt, "badOp", 6) {
			case 0: // own key named, stranger signs
				if len(good) > 0 {
					idx := pickFrom(rt, "idx", good)
					return &c45Auth{op: x.keys[idx-1].pk.pub, addrs: []common.Address{stranger(i, "stranger").addr}, desc: fmt.Sprintf("op=k%d/stranger-sig", idx)}
				}
			case 1:
				if idx := findKey(i, func(k *c45Key) bool { return k.revoked }); idx > 0 {
					ev.Class("attempt:revoked-key")
					return &c45Auth{op: x.keys[idx-1].pk.pub, addrs: addrOfKey(i, idx), desc: fmt.Sprintf("op=k%d/revoked", idx)}
				}
			case 2:
				if idx := findKey(i, func(k *c45Key) bool { return !k.revoked && !k.auth }); idx > 0 {
					ev.Class("attempt:nonauth-key")
					return &c45Auth{op: x.keys[idx-1].pk.pub, addrs: addrOfKey(i, idx), desc: fmt.Sprintf("op=k%d/nonauth", idx)}
				}
			case 3: // a stranger's address as operator, properly witnessed
				p := stranger(i, "stranger")
				return &c45Auth{op: p.addr[:], addrs: []common.Address{p.addr}, desc: "op=stranger-addr"}
			case 4: // own key named, nobody signs
				if len(good) > 0 {
					idx := pickFrom(rt, "idx", good)
					return &c45Auth{op: x.keys[idx-1].pk.pub, desc: fmt.Sprintf("op=k%d/nosig", idx)}
				}
			}
			p := stranger(i, "stranger")
			return &c45Auth{op: p.pub, addrs: []common.Address{p.addr}, desc: "op=stranger:" + p.name}
		}

		// satisfy builds a minimal signer list satisfying group g (ok=false when impossible); the
		// (sub)group shortAt, if any, is deliberately left one DISTINCT member short of its threshold.
		var satisfy func(g *grp, shortAt *grp) ([]signer, []common.Address, bool)
		satisfy = func(g *grp, shortAt *grp) ([]signer, []common.Address, bool) {
			need := int(g.threshold)
			if g == shortAt {
				need--
			}
			var ss []signer
			var as []common.Address
			got := 0
			order := rapid.Permutation(seq(len(g.members))).Draw(rt, "memberOrder")
			if shortAt != nil && g != shortAt { // visit the subgroup that is to stay short first, so that it is really used
				for k, mi := range order {
					if g.members[mi].sub == shortAt {
						order[0], order[k] = order[k], order[0]
					}
				}
			}
			for _, mi := range order {
				if got >= need {
					break
				}
				mem := g.members[mi]
				if mem.sub != nil {
					s2, a2, ok := satisfy(mem.sub, shortAt)
					if ok {
						ss, as, got = append(ss, s2...), append(as, a2...), got+1
					}
					continue
				}
				j := m.idxOf(mem.id)
				if j < 0 {
					continue
				}
				if g := m.authIdx(j); len(g) > 0 {
					idx := pickFrom(rt, "idx", g)
					ss, as, got = append(ss, signer{mem.id, idx}), append(as, addrOfKey(j, idx)...), got+1
				}
			}
			return ss, as, got >= need
		}
		// subgroups lists g and all nested groups whose threshold is at least min.
		var subgroups func(g *grp, min uint64) []*grp
		subgroups = func(g *grp, min uint64) []*grp {
			var out []*grp
			if g.threshold >= min {
				out = append(out, g)
			}
			for _, mem := range g.members {
				if mem.sub != nil {
					out = append(out, subgroups(mem.sub, min)...)
				}
			}
			return out
		}

		genGroupSigners := func(i int, g *grp, valid bool, where string) *c45Auth {
			ev.Class("call:group")
			if valid {
				if ss, as, ok := satisfy(g, nil); ok {
					return &c45Auth{signers: ss, addrs: as, desc: "signers" + signersStr(m, ss), intended: true}
				}
			}
			switch uni(rt, "badGroup", 8) {
			case 5, 6, 7: // threshold-short padded with duplicates: one DISTINCT member short at some (sub)group,
				// then listed entries of that group's own members are repeated (same id and key index, or the
				// same id with another usable key of it) until the ENTRY count reaches the threshold again.
				// Every listed signer verifies; only counting entries instead of distinct members lets it pass.
				if cands := subgroups(g, 2); len(cands) > 0 {
					tgt := pickFrom(rt, "dupTarget", cands)
					if len(cands) > 1 && tgt == g && rapid.Bool().Draw(rt, "dupNested") { // nested groups are rarer: prefer them
						tgt = pickFrom(rt, "dupSub", cands[1:])
					}
					if ss, as, ok := satisfy(g, tgt); ok {
						var own []signer // listed entries that name a direct identity member of tgt
						for _, e := range ss {
							for _, mem := range tgt.members {
								if mem.sub == nil && bytes.Equal(mem.id, e.id) {
									own = append(own, e)
								}
							}
						}
						if len(own) > 0 {
							for pad := 1 + uni(rt, "dupPad", 2); pad > 0; pad-- {
								e := pickFrom(rt, "dupEntry", own)
								j := m.idxOf(e.id)
								if alt := m.authIdx(j); len(alt) > 1 && rapid.Bool().Draw(rt, "dupOtherKey") {
									e.idx = pickFrom(rt, "dupIdx", alt)
									as = append(as, addrOfKey(j, e.idx)...)
								}
								ss = append(ss, e)
							}
							if !m.groupOK(g, ss, addrSet(as)) {
								ev.Class("attempt:threshold-short-dup")
								ev.Class("attempt:threshold-short-dup:" + where)
								if tgt != g {
									ev.Class("attempt:threshold-short-dup:nested")
								}
							}
							return &c45Auth{signers: ss, addrs: as, desc: "short+dup" + signersStr(m, ss)}
						}
					}
				}
			case 0: // one member short of the threshold, all listed signers verify
				if g.threshold >= 1 {
					if ss, as, ok := satisfy(g, g); ok {
						ev.Class("attempt:threshold-short")
						return &c45Auth{signers: ss, addrs: as, desc: "short" + signersStr(m, ss)}
					}
				}
			case 1: // enough signers listed, one witness missing
				if ss, as, ok := satisfy(g, nil); ok && len(as) > 0 {
					drop := uni(rt, "drop", len(as))
					as = append(append([]common.Address{}, as[:drop]...), as[drop+1:]...)
					return &c45Auth{signers: ss, addrs: as, desc: "missing-witness" + signersStr(m, ss)}
				}
			case 2: // signers that verify but are not members
				var ss []signer
				var as []common.Address
				for j := 0; j < c45N; j++ {
					member := false
					var walk func(g *grp)
					walk = func(g *grp) {
						for _, mem := range g.members {
							if mem.sub != nil {
								walk(mem.sub)
							} else if bytes.Equal(mem.id, m.ids[j].id) {
								member = true
							}
						}
					}
					walk(g)
					if gi := m.authIdx(j); !member && len(gi) > 0 {
						ss, as = append(ss, signer{m.ids[j].id, gi[0]}), append(as, addrOfKey(j, gi[0])...)
					}
				}
				return &c45Auth{signers: ss, addrs: as, desc: "non-members" + signersStr(m, ss)}
			case 3: // members named with a revoked / non-authentication key (signed by that key)
				var ss []signer
				var as []common.Address
				for _, mem := range g.members {
					j := m.idxOf(mem.id)
					if mem.sub != nil || j < 0 {
						continue
					}
					if idx := findKey(j, func(k *c45Key) bool { return k.revoked || !k.auth }); idx > 0 {
						ss, as = append(ss, signer{mem.id, idx}), append(as, addrOfKey(j, idx)...)
					} else if gi := m.authIdx(j); len(gi) > 0 && len(ss) < int(g.threshold)-1 {
						ss, as = append(ss, signer{mem.id, gi[0]}), append(as, addrOfKey(j, gi[0])...)
					}
				}
				return &c45Auth{signers: ss, addrs: as, desc: "bad-member-keys" + signersStr(m, ss)}
			}
			return &c45Auth{desc: "no-signers"}
		}

		genController := func(i int, valid bool) *c45Auth {
			x := m.ids[i]
			switch {
			case x.ctlSingle != nil:
				c := m.idxOf(x.ctlSingle)
				a := genIndex(c, valid) // the controller's own key, addressed by index
				a.psingle, a.pidx, a.idx = true, a.idx, 0
				if !valid && pct(rt, "ownKey") < 25 && len(x.keys) > 0 { // the controlled id's own key is not the controller
					idx := 1 + uint64(uni(rt, "ownIdx", len(x.keys)))
					return &c45Auth{psingle: true, pidx: idx, addrs: addrOfKey(i, idx), desc: fmt.Sprintf("ctl:own-k%d", idx)}
				}
				a.desc = fmt.Sprintf("ctl:id%d.%s", c, a.desc)
				return a
			case x.ctlGroup != nil:
				a := genGroupSigners(i, x.ctlGroup, valid, "ctl")
				a.desc = "ctl:" + a.desc
				return a
			}
			// no controller: whatever is offered must fail
			if rapid.Bool().Draw(rt, "noCtlSingle") {
				a := genIndex(i, true)
				return &c45Auth{psingle: true, pidx: a.idx, addrs: a.addrs, desc: "ctl:none/" + a.desc}
			}
			return &c45Auth{desc: "ctl:none/no-signers"}
		}

		genRecovery := func(i int, valid bool) *c45Auth {
			x := m.ids[i]
			if x.recGroup != nil {
				a := genGroupSigners(i, x.recGroup, valid, "rec")
				a.desc = "rec:" + a.desc
				return a
			}
			// no group recovery: offer the identity's own key as "signer"
			if g := m.authIdx(i); len(g) > 0 {
				return &c45Auth{signers: []signer{{x.id, g[0]}}, addrs: addrOfKey(i, g[0]), desc: "rec:none/self"}
			}
			return &c45Auth{desc: "rec:none/no-signers"}
		}

		extras := func(a *c45Auth) { // unrelated extra witnesses never matter
			if pct(rt, "extraSig") < 15 {
				a.addrs = append(a.addrs, common.Address{0xee, byte(uni(rt, "extra", 250))})
			}
		}

		newKeyFor := func(i int) *pkey {
			if pct(rt, "freshKey") < 85 {
				return stranger(i, "newKey")
			}
			return pickFrom(rt, "anyKey", pool)
		}
		genAttrs := func() []attr {
			nA := 1 + uni(rt, "nAttr", 2)
			var as []attr
			for k := 0; k < nA; k++ {
				as = append(as, attr{key: []byte(pickFrom(rt, "attrKey", []string{"a", "b", "ab", "c1"})), typ: []byte("t"), val: []byte(pickFrom(rt, "attrVal", []string{"v", "w", ""}))})
			}
			return as
		}
		// genGroup builds a controller / recovery group over identities other than i that currently
		// have a usable key (valid) or over arbitrary identities incl. the ghost (otherwise).
		genGroup := func(i int, valid bool) *grp {
			var cands []int
			for j := 0; j <= c45N; j++ {
				if j == i {
					continue
				}
				if !valid || (j < c45N && m.ids[j].state == stValid && len(m.authIdx(j)) > 0) {
					cands = append(cands, j)
				}
			}
			if len(cands) == 0 {
				cands = []int{(i + 1) % c45N}
			}
			perm := rapid.Permutation(cands).Draw(rt, "groupMembers")
			k := 1 + uni(rt, "groupSize", len(perm))
			if k == 1 && len(perm) > 1 && rapid.Bool().Draw(rt, "groupBigger") { // m-of-n with m >= 2 needs n >= 2
				k = 2
			}
			if k > 3 {
				k = 3
			}
			nested := len(perm) >= 2 && pct(rt, "nested") < 40
			if nested { // leave one or two identities for the subgroup
				if rest := len(perm) - 2; rest >= 1 && k > rest && rapid.Bool().Draw(rt, "nestedPair") {
					k = rest
				} else if k > len(perm)-1 {
					k = len(perm) - 1
				}
			}
			g := &grp{}
			for _, j := range perm[:k] {
				g.members = append(g.members, gmember{id: m.ids[j].id})
			}
			if nested && len(perm) > k { // one nested subgroup over a remaining identity
				sub := &grp{members: []gmember{{id: m.ids[perm[k]].id}}}
				if len(perm) > k+1 {
					sub.members = append(sub.members, gmember{id: m.ids[perm[k+1]].id})
				}
				sub.threshold = uint64(len(sub.members)) // n-of-n, sometimes 1-of-n
				if pct(rt, "subAny") < 30 {
					sub.threshold = 1
				}
				g.members = append(g.members, gmember{sub: sub})
			}
			g.threshold = 1 + uint64(uni(rt, "threshold", len(g.members)))
			if g.threshold == 1 && len(g.members) > 1 && rapid.Bool().Draw(rt, "thresholdAtLeast2") {
				g.threshold = 2
			}
			if !valid && pct(rt, "oddThreshold") < 30 {
				g.threshold = pickFrom(rt, "thr", []uint64{0, uint64(len(g.members) + 1)})
			}
			return g
		}

		// ---------- running one mutating call with the oracle -------------------------------------
		// kind: index | operator | controller | recovery | oldrec ; pred is evaluated BEFORE the call.
		call := func(i int, method, kind string, a *c45Auth, argb []byte, pred bool, apply func()) bool {
			x := m.ids[i]
			ev.Class("call")
			ev.Class("call:" + kind)
			ev.Class(method)
			if !a.intended {
				ev.Class("unauth-attempt")
				ev.Class("unauth-attempt:" + kind + ":" + stName(x.state))
			}
			if x.state == stRevoke {
				ev.Class("call:on-revoked-id")
			} else if x.state == stNone {
				ev.Class("call:on-unregistered-id")
			}
			_, err := n.Call(ontidAddr, method, argb, a.addrs)
			logf("%s(i%d,%s)=%s", method, i, a.desc, okStr(err))
			if fix.IsPanic(err) {
				// the sandbox reset the cache, so nothing changed — but a native method must return an
				// error, not panic (C12; the index-0 defect of revokePkByIndex is repaired in /repo)
				fail("%s on id%d panicked inside the native contract: %v", method, i, err)
			}
			if err != nil {
				ev.Class(method + ":failed")
				if !pred {
					unauthFailed++
				} else {
					ev.Class("authorised-but-failed") // other preconditions (duplicate key, missing attribute, ...)
				}
				return false
			}
			ev.Class(method + ":ok")
			ev.Class("ok:" + kind)
			if x.state != stValid {
				fail("%s on id%d succeeded although the identity is %s", method, i, stName(x.state))
			}
			if !pred {
				fail("%s on id%d succeeded although the %s authorisation predicate does not hold on the pre-state (auth %s, witnesses %x)",
					method, i, kind, a.desc, a.addrs)
			}
			okKinds[kind] = true
			apply()
			crossCheck(i)
			return true
		}

		register := func(i int) {
			x := m.ids[i]
			ev.Class("call")
			ev.Class("register")
			if x.state != stNone {
				ev.Class("register:again")
				if x.state == stRevoke {
					ev.Class("call:on-revoked-id")
				}
			}
			var err error
			var apply func()
			desc := ""
			ctlPred := true // regIDWithController: adding the controller needs the controller's own authorisation
			// a registrant that would be accepted for a fresh identity
			switch w := uni(rt, "regKind", 15); {
			case w < 9:
				k := newKeyFor(i)
				if len(x.former) > 0 && rapid.Bool().Draw(rt, "regFormerKey") {
					k = x.former[0].pk
				}
				signers := []common.Address{k.addr}
				if pct(rt, "regNoSig") < 10 {
					signers = nil
				}
				_, err = n.Call(ontidAddr, "regIDWithPublicKey", aRegIDWithPublicKey(x.id, k.pub), signers)
				desc = "regIDWithPublicKey(" + k.name + ")"
				apply = func() { x.keys = []*c45Key{{pk: k, auth: true}} }
			case w < 10:
				k := newKeyFor(i)
				as := genAttrs()
				_, err = n.Call(ontidAddr, "regIDWithAttributes", aRegIDWithAttributes(x.id, k.pub, as), []common.Address{k.addr})
				desc = "regIDWithAttributes(" + k.name + ")"
				apply = func() {
					x.keys = []*c45Key{{pk: k, auth: false}} // sic: registered without authentication rights
					for _, a := range as {
						x.attrs[string(a.key)] = true
					}
				}
			case w < 12: // single controller
				var cands []int
				for j := 0; j < c45N; j++ {
					if j != i && len(m.authIdx(j)) > 0 {
						cands = append(cands, j)
					}
				}
				c := (i + 1) % c45N
				if len(cands) > 0 {
					c = pickFrom(rt, "controller", cands)
				}
				a := genIndex(c, pct(rt, "regCtlValid") < 80)
				ctlPred = m.keyUsable(c, a.idx, addrSet(a.addrs))
				_, err = n.Call(ontidAddr, "regIDWithController", aRegIDWithController(x.id, m.ids[c].id, proofIndex(a.idx)), a.addrs)
				desc = fmt.Sprintf("regIDWithController(id%d,%s)", c, a.desc)
				apply = func() { x.ctlSingle = m.ids[c].id }
			default: // group controller
				valid := pct(rt, "regGrpValid") < 65
				g := genGroup(i, valid)
				a := genGroupSigners(i, g, valid, "reg")
				ctlPred = m.groupOK(g, a.signers, addrSet(a.addrs))
				_, err = n.Call(ontidAddr, "regIDWithController", aRegIDWithController(x.id, g.bytes(), proofSigners(a.signers)), a.addrs)
				desc = fmt.Sprintf("regIDWithController(%s,%s)", g, a.desc)
				apply = func() { x.ctlGroup = g }
			}
			logf("%s(i%d)=%s", desc, i, okStr(err))
			if fix.IsPanic(err) {
				fail("%s on id%d panicked inside the native contract: %v", desc, i, err)
			}
			if err != nil {
				ev.Class("register:failed")
				return
			}
			ev.Class("register:ok")
			if x.state != stNone {
				fail("%s succeeded although id%d is %s", desc, i, stName(x.state))
			}
			if !ctlPred {
				fail("%s for id%d succeeded although the named controller did not authorise it (its indexed key is not a witnessed, non-revoked authentication key / the DISTINCT group members that verify do not reach the threshold)", desc, i)
			}
			x.state = stValid
			apply()
			crossCheck(i)
		}

		type action struct {
			name string
			w    int
			run  func(i int, valid bool)
		}
		// target key index for set/remove operations
		targetKey := func(i int, f func(*c45Key) bool, label string) uint64 {
			if pct(rt, label+"Arb") < 20 {
				return uint64(uni(rt, label, len(m.ids[i].keys)+2))
			}
			if idx := findKey(i, f); idx > 0 {
				return idx
			}
			return 1
		}
		notRevoked := func(k *c45Key) bool { return !k.revoked }
		keyAt := func(i int, idx uint64, what string) *c45Key {
			if idx < 1 || idx > uint64(len(m.ids[i].keys)) {
				fail("model drift: %s succeeded for key index %d of id%d which has %d keys in the model", what, idx, i, len(m.ids[i].keys))
			}
			return m.ids[i].keys[idx-1]
		}
		setKeyRevoked := func(i int, idx uint64) func() { return func() { keyAt(i, idx, "key removal").revoked = true } }
		// removal addressed by public key bytes: the model entry is found by bytes, as the contract does
		setPubRevoked := func(i int, pub []byte) func() {
			return func() {
				for _, k := range m.ids[i].keys {
					if bytes.Equal(k.pk.pub, pub) {
						if k.revoked {
							fail("model drift: removal of an already revoked key %s of id%d succeeded", k.pk.name, i)
						}
						k.revoked = true
						return
					}
				}
				fail("model drift: removal of key %x succeeded but id%d has no such key in the model", pub, i)
			}
		}

		actions := []action{
			{"addKey", 3, func(i int, v bool) {
				a, k := genOperator(i, v, true), newKeyFor(i)
				extras(a)
				var ctl []byte
				if rapid.Bool().Draw(rt, "withCtl") {
					ctl = m.ids[uni(rt, "ctlOf", c45N)].id
				}
				call(i, "addKey", "operator", a, aAddKey(m.ids[i].id, k.pub, a.op, ctl), m.predOperator(i, a, true, pool),
					func() { m.ids[i].keys = append(m.ids[i].keys, &c45Key{pk: k}) })
			}},
			{"removeKey", 2, func(i int, v bool) {
				a := genOperator(i, v, true)
				idx := targetKey(i, notRevoked, "rmKey")
				var pub []byte
				if idx >= 1 && idx <= uint64(len(m.ids[i].keys)) {
					pub = m.ids[i].keys[idx-1].pk.pub
				} else {
					pub = stranger(i, "rmStranger").pub
				}
				call(i, "removeKey", "operator", a, aRemoveKey(m.ids[i].id, pub, a.op), m.predOperator(i, a, true, pool), setPubRevoked(i, pub))
			}},
			{"addKeyByIndex", 2, func(i int, v bool) {
				a, k := genIndex(i, v), newKeyFor(i)
				extras(a)
				call(i, "addKeyByIndex", "index", a, aAddKeyByIndex(m.ids[i].id, k.pub, a.idx, nil), m.predIndex(i, a),
					func() { m.ids[i].keys = append(m.ids[i].keys, &c45Key{pk: k}) })
			}},
			{"removeKeyByIndex", 2, func(i int, v bool) {
				a := genIndex(i, v)
				idx := targetKey(i, notRevoked, "rmKey")
				var pub []byte
				if idx >= 1 && idx <= uint64(len(m.ids[i].keys)) {
					pub = m.ids[i].keys[idx-1].pk.pub
				} else {
					pub = stranger(i, "rmStranger").pub
				}
				call(i, "removeKeyByIndex", "index", a, aRemoveKeyByIndex(m.ids[i].id, pub, a.idx), m.predIndex(i, a), setPubRevoked(i, pub))
			}},
			{"addKeyByController", 3 * prof.ctl, func(i int, v bool) {
				a, k := genController(i, v), newKeyFor(i)
				extras(a)
				call(i, "addKeyByController", "controller", a, aAddKeyByController(m.ids[i].id, k.pub, a.proof(), nil), m.predController(i, a),
					func() { m.ids[i].keys = append(m.ids[i].keys, &c45Key{pk: k}) })
			}},
			{"removeKeyByController", 2 * prof.ctl, func(i int, v bool) {
				a := genController(i, v)
				idx := targetKey(i, notRevoked, "rmKey") // includes index 0 and len+1 (C12: index 0 used to panic)
				call(i, "removeKeyByController", "controller", a, aRemoveKeyByController(m.ids[i].id, idx, a.proof()), m.predController(i, a), setKeyRevoked(i, idx))
			}},
			{"addKeyByRecovery", 2 * prof.rec, func(i int, v bool) {
				a, k := genRecovery(i, v), newKeyFor(i)
				call(i, "addKeyByRecovery", "recovery", a, aAddKeyByRecovery(m.ids[i].id, k.pub, a.signers, nil), m.predRecovery(i, a),
					func() { m.ids[i].keys = append(m.ids[i].keys, &c45Key{pk: k}) })
			}},
			{"removeKeyByRecovery", 2 * prof.rec, func(i int, v bool) {
				a := genRecovery(i, v)
				idx := targetKey(i, notRevoked, "rmKey") // includes index 0 and len+1 (C12: index 0 used to panic)
				call(i, "removeKeyByRecovery", "recovery", a, aRemoveKeyByRecovery(m.ids[i].id, idx, a.signers), m.predRecovery(i, a), setKeyRevoked(i, idx))
			}},
			{"addNewAuthKey", 3, func(i int, v bool) {
				a, k := genIndex(i, v), newKeyFor(i)
				call(i, "addNewAuthKey", "index", a, aAddNewAuthKey(m.ids[i].id, k.pub, m.ids[i].id, a.idx), m.predIndex(i, a),
					func() { m.ids[i].keys = append(m.ids[i].keys, &c45Key{pk: k, auth: true}) })
			}},
			{"addNewAuthKeyByRecovery", 2 * prof.rec, func(i int, v bool) {
				a, k := genRecovery(i, v), newKeyFor(i)
				extras(a)
				call(i, "addNewAuthKeyByRecovery", "recovery", a, aAddNewAuthKeyByRecovery(m.ids[i].id, k.pub, m.ids[i].id, a.signers), m.predRecovery(i, a),
					func() { m.ids[i].keys = append(m.ids[i].keys, &c45Key{pk: k, auth: true}) })
			}},
			{"addNewAuthKeyByController", 3 * prof.ctl, func(i int, v bool) {
				a, k := genController(i, v), newKeyFor(i)
				call(i, "addNewAuthKeyByController", "controller", a, aAddNewAuthKeyByController(m.ids[i].id, k.pub, m.ids[i].id, a.proof()), m.predController(i, a),
					func() { m.ids[i].keys = append(m.ids[i].keys, &c45Key{pk: k, auth: true}) })
			}},
		}
		// set / remove authentication rights: three authorisation forms each
		for _, on := range []bool{true, false} {
			on := on
			base := "setAuthKey"
			want := func(k *c45Key) bool { return !k.revoked && !k.auth }
			if !on {
				base = "removeAuthKey"
				want = func(k *c45Key) bool { return !k.revoked && k.auth }
			}
			eff := func(i int, idx uint64) func() { return func() { keyAt(i, idx, base).auth = on } }
			actions = append(actions,
				action{base, 2, func(i int, v bool) {
					a := genIndex(i, v)
					idx := targetKey(i, want, "authTarget")
					call(i, base, "index", a, aAuthKeyByIndex(m.ids[i].id, idx, a.idx), m.predIndex(i, a), eff(i, idx))
				}},
				action{base + "ByRecovery", 1 * prof.rec, func(i int, v bool) {
					a := genRecovery(i, v)
					idx := targetKey(i, want, "authTarget")
					call(i, base+"ByRecovery", "recovery", a, aAuthKeyByRecovery(m.ids[i].id, idx, a.signers), m.predRecovery(i, a), eff(i, idx))
				}},
				action{base + "ByController", 2 * prof.ctl, func(i int, v bool) {
					a := genController(i, v)
					idx := targetKey(i, want, "authTarget")
					call(i, base+"ByController", "controller", a, aAuthKeyByController(m.ids[i].id, idx, a.proof()), m.predController(i, a), eff(i, idx))
				}})
		}
		addAttrs := func(i int, as []attr) func() {
			return func() {
				for _, a := range as {
					m.ids[i].attrs[string(a.key)] = true
				}
			}
		}
		attrPath := func(i int) []byte {
			if ks := sortedKeys(m.ids[i].attrs); len(ks) > 0 && pct(rt, "existingAttr") < 80 {
				return []byte(pickFrom(rt, "path", ks))
			}
			return []byte(pickFrom(rt, "pathAny", []string{"a", "b", "zz"}))
		}
		delAttr := func(i int, p []byte) func() { return func() { delete(m.ids[i].attrs, string(p)) } }
		actions = append(actions,
			action{"addAttributes", 2, func(i int, v bool) {
				a, as := genOperator(i, v, false), genAttrs()
				call(i, "addAttributes", "operator", a, aAddAttributes(m.ids[i].id, as, a.op), m.predOperator(i, a, false, pool), addAttrs(i, as))
			}},
			action{"removeAttribute", 1, func(i int, v bool) {
				a, p := genOperator(i, v, false), attrPath(i)
				call(i, "removeAttribute", "operator", a, aRemoveAttribute(m.ids[i].id, p, a.op), m.predOperator(i, a, false, pool), delAttr(i, p))
			}},
			action{"addAttributesByIndex", 1, func(i int, v bool) {
				a, as := genIndex(i, v), genAttrs()
				call(i, "addAttributesByIndex", "index", a, aAddAttributesByIndex(m.ids[i].id, as, a.idx), m.predIndex(i, a), addAttrs(i, as))
			}},
			action{"removeAttributeByIndex", 1, func(i int, v bool) {
				a, p := genIndex(i, v), attrPath(i)
				call(i, "removeAttributeByIndex", "index", a, aRemoveAttributeByIndex(m.ids[i].id, p, a.idx), m.predIndex(i, a), delAttr(i, p))
			}},
			action{"addAttributesByController", 1 * prof.ctl, func(i int, v bool) {
				a, as := genController(i, v), genAttrs()
				call(i, "addAttributesByController", "controller", a, aAddAttributesByController(m.ids[i].id, as, a.proof()), m.predController(i, a), addAttrs(i, as))
			}},
			action{"removeAttributeByController", 1 * prof.ctl, func(i int, v bool) {
				a, p := genController(i, v), attrPath(i)
				call(i, "removeAttributeByController", "controller", a, aRemoveAttributeByController(m.ids[i].id, p, a.proof()), m.predController(i, a), delAttr(i, p))
			}},
			action{"addRecovery", 1, func(i int, v bool) {
				a := genOperator(i, v, false)
				rec := stranger(i, "recAddr").addr
				call(i, "addRecovery", "operator", a, aAddRecovery(m.ids[i].id, rec, a.op), m.predOperator(i, a, false, pool),
					func() { m.ids[i].recOld, m.ids[i].recGroup = &rec, nil })
			}},
			action{"changeRecovery", 1, func(i int, v bool) {
				x := m.ids[i]
				newRec := stranger(i, "recAddr").addr
				a := &c45Auth{}
				var old common.Address
				switch {
				case v && x.recOld != nil:
					old = *x.recOld
					a.addrs, a.desc, a.intended = []common.Address{old}, "oldrec", true
				case x.recOld != nil && rapid.Bool().Draw(rt, "oldNoSig"):
					old = *x.recOld
					a.addrs, a.desc = []common.Address{newRec}, "oldrec/other-sig"
				default: // somebody claims to be the recovery
					old = stranger(i, "claimed").addr
					a.addrs, a.desc = []common.Address{old}, "claimed-recovery"
				}
				pred := x.recOld != nil && *x.recOld == old && addrSet(a.addrs)[old]
				call(i, "changeRecovery", "oldrec", a, aChangeRecovery(x.id, newRec, old), pred, func() { x.recOld = &newRec })
			}},
			action{"setRecovery", 3 * prof.rec, func(i int, v bool) {
				a := genIndex(i, v)
				g := genGroup(i, pct(rt, "grpValid") < 85)
				call(i, "setRecovery", "index", a, aSetRecovery(m.ids[i].id, g.bytes(), a.idx), m.predIndex(i, a),
					func() { m.ids[i].recGroup, m.ids[i].recOld = g, nil })
			}},
			action{"updateRecovery", 1 * prof.rec, func(i int, v bool) {
				a := genRecovery(i, v)
				g := genGroup(i, pct(rt, "grpValid") < 85)
				call(i, "updateRecovery", "recovery", a, aUpdateRecovery(m.ids[i].id, g.bytes(), a.signers), m.predRecovery(i, a),
					func() { m.ids[i].recGroup = g })
			}},
			action{"removeRecovery", 1, func(i int, v bool) {
				a := genIndex(i, v)
				call(i, "removeRecovery", "index", a, aIDIndex(m.ids[i].id, a.idx), m.predIndex(i, a),
					func() { m.ids[i].recGroup, m.ids[i].recOld = nil, nil })
			}},
			action{"removeController", 1, func(i int, v bool) {
				a := genIndex(i, v)
				call(i, "removeController", "index", a, aIDIndex(m.ids[i].id, a.idx), m.predIndex(i, a),
					func() { m.ids[i].ctlSingle, m.ids[i].ctlGroup = nil, nil })
			}},
			action{"revokeID", 1 * prof.revoke, func(i int, v bool) {
				a := genIndex(i, v)
				if call(i, "revokeID", "index", a, aIDIndex(m.ids[i].id, a.idx), m.predIndex(i, a), func() { m.revoke(i) }) {
					ev.Class("revoke:ok")
				}
			}},
			action{"revokeIDByController", 1 * prof.revoke * prof.ctl, func(i int, v bool) {
				a := genController(i, v)
				if call(i, "revokeIDByController", "controller", a, aIDProof(m.ids[i].id, a.proof()), m.predController(i, a), func() { m.revoke(i) }) {
					ev.Class("revoke:ok")
				}
			}},
			action{"addService", 1, func(i int, v bool) {
				a := genIndex(i, v)
				sid := pickFrom(rt, "sid", []string{"s1", "s2"})
				call(i, "addService", "index", a, aAddService(m.ids[i].id, []byte(sid), []byte("T"), []byte("https://e/"+sid), a.idx), m.predIndex(i, a),
					func() { m.ids[i].services[sid] = true })
			}},
			action{"removeService", 1, func(i int, v bool) {
				a := genIndex(i, v)
				sid := pickFrom(rt, "sid", []string{"s1", "s2"})
				call(i, "removeService", "index", a, aRemoveService(m.ids[i].id, []byte(sid), a.idx), m.predIndex(i, a),
					func() { delete(m.ids[i].services, sid) })
			}},
			action{"addContext", 1, func(i int, v bool) {
				a := genIndex(i, v)
				call(i, "addContext", "index", a, aContext(m.ids[i].id, [][]byte{[]byte("https://ctx/" + pickFrom(rt, "ctx", []string{"1", "2"}))}, a.idx), m.predIndex(i, a), func() {})
			}},
			action{"removeContext", 1, func(i int, v bool) {
				a := genIndex(i, v)
				call(i, "removeContext", "index", a, aContext(m.ids[i].id, [][]byte{[]byte("https://ctx/1")}, a.idx), m.predIndex(i, a), func() {})
			}},
		)
		kindOf := func(name string) string {
			switch {
			case strings.HasSuffix(name, "ByController"):
				return "controller"
			case strings.HasSuffix(name, "ByRecovery"), name == "updateRecovery":
				return "recovery"
			case name == "changeRecovery":
				return "oldrec"
			}
			return ""
		}

		step := func(rt *rapid.T) {
			// target: prefer bringing identities to life early
			i := uni(rt, "id", c45N)
			if m.ids[i].state == stRevoke && pct(rt, "skipRevoked") < 55 { // revoked ids must not eat the history
				i = (i + 1 + uni(rt, "idAgain", c45N-1)) % c45N
			}
			x := m.ids[i]
			hasKey := len(m.authIdx(i)) > 0
			switch x.state {
			case stNone:
				if pct(rt, "regFirst") < 85 {
					register(i)
					return
				}
			case stRevoke:
				if pct(rt, "reRegister") < 45 {
					register(i)
					return
				}
			default:
				if pct(rt, "regAgain") < 3 {
					register(i)
					return
				}
			}
			// weights: families whose principal does not exist for this identity are mostly skipped
			total := 0
			ws := make([]int, len(actions))
			for k, a := range actions {
				w := a.w * 4
				switch kindOf(a.name) {
				case "controller":
					if x.ctlSingle == nil && x.ctlGroup == nil {
						w = (w + 15) / 16
					} else {
						w *= 2
					}
				case "recovery":
					if x.recGroup == nil {
						w = (w + 15) / 16
					} else {
						w *= 2
					}
				case "oldrec":
					if x.recOld == nil {
						w = (w + 3) / 4
					} else {
						w *= 3
					}
				default: // index / operator kinds need a usable key of the identity itself
					if !hasKey && !(x.recOld != nil && (a.name == "addKey" || a.name == "removeKey")) {
						w = (w + 5) / 6
					}
				}
				// destructive actions on an identity that is down to its last usable key are kept rare,
				// otherwise most identities end up frozen and nothing can be authorised any more
				if len(m.authIdx(i)) <= 1 && (strings.HasPrefix(a.name, "removeKey") || strings.HasPrefix(a.name, "removeAuthKey") || strings.HasPrefix(a.name, "revokeID")) {
					w = (w + 3) / 4
				}
				ws[k] = w
				total += w
			}
			r := uni(rt, "action", total)
			k := 0
			for ; k < len(ws) && r >= ws[k]; k++ {
				r -= ws[k]
			}
			valid := pct(rt, "valid") < 70
			if valid {
				ev.Class("want-valid:" + stName(x.state))
			}
			actions[k].run(i, valid)
		}
		rt.Repeat(map[string]func(*rapid.T){"step": step})

		for i := 0; i <= c45N; i++ {
			crossCheck(i)
		}
		desc := history()
		if len(desc) > 590 {
			desc = desc[:590]
		}
		ev.Case(len(okKinds) >= 2 && unauthFailed >= 1, prof.name+": "+desc)
	})
}

func seq(n int) []int {
	out := make([]int, n)
	for i := range out {
		out[i] = i
	}
	return out
}

func okStr(err error) string {
	switch {
	case err == nil:
		return "ok"
	case fix.IsPanic(err):
		return "PANIC"
	}
	return "err"
}

func stName(s int) string { return [...]string{"not registered", "valid", "revoked"}[s] }

func signersStr(m *c45Model, ss []signer) string {
	var out []string
	for _, s := range ss {
		out = append(out, fmt.Sprintf("i%d.k%d", m.idxOf(s.id), s.idx))
	}
	return "[" + strings.Join(out, ",") + "]"
}

func (m *c45Model) String() string {
	var sb strings.Builder
	for i, x := range m.ids {
		fmt.Fprintf(&sb, "id%d{%s", i, stName(x.state))
		for j, k := range x.keys {
			f := ""
			if k.auth {
				f += "A"
			}
			if k.revoked {
				f += "R"
			}
			fmt.Fprintf(&sb, " k%d:%s/%s", j+1, k.pk.name, f)
		}
		if x.ctlSingle != nil {
			fmt.Fprintf(&sb, " ctl=id%d", m.idxOf(x.ctlSingle))
		}
		if x.ctlGroup != nil {
			fmt.Fprintf(&sb, " ctl=%s", x.ctlGroup)
		}
		if x.recOld != nil {
			fmt.Fprintf(&sb, " oldrec=%x", x.recOld[:4])
		}
		if x.recGroup != nil {
			fmt.Fprintf(&sb, " rec=%s", x.recGroup)
		}
		sb.WriteString("} ")
	}
	return sb.String()
}
