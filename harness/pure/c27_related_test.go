package pure

import (
	"bytes"
	"fmt"
	"testing"

	"github.com/ontio/ontology/common"
	"github.com/ontio/ontology/merkle"
	"pgregory.net/rapid"

	"verifharness/internal/harn"
)

// Histories of related lists (round 5b): a base list and 1..5 siblings derived from it by small edits that keep
// the length and most of the content (one middle value replaced, two values swapped, first or last replaced) or
// change the length by one; paths are requested list after list, then again in another order. Every path must
// prove its member against ITS list's root and must not prove against a sibling's different root. The property
// speaks of one list at a time, so any state carried from one MerkleLeafPath call to the next is a violation.
func TestC27_RelatedLists(t *testing.T) {
	ev := harn.For("C27").Rule(c27Rule)
	harn.Check(t, 3000, 60000, func(t *rapid.T) {
		n := rapid.IntRange(3, 40).Draw(t, "n")
		base := c27Values(rapid.Uint64().Draw(t, "fill"), n)
		lists := [][][]byte{base}
		k := rapid.IntRange(1, 5).Draw(t, "siblings")
		sameShape := 0
		for s := 0; s < k; s++ {
			src := lists[rapid.IntRange(0, len(lists)-1).Draw(t, "from")]
			l := make([][]byte, len(src))
			copy(l, src)
			fresh := append([]byte{0xEE, byte(s)}, rapid.SliceOfN(rapid.Byte(), 0, 40).Draw(t, "fresh")...)
			switch rapid.IntRange(0, 6).Draw(t, "edit") {
			case 0, 1: // one middle value replaced: same length, same first and last
				if len(l) >= 3 {
					l[rapid.IntRange(1, len(l)-2).Draw(t, "mid")] = fresh
					sameShape++
				}
			case 2: // two middle values swapped
				if len(l) >= 4 {
					i := rapid.IntRange(1, len(l)-3).Draw(t, "i")
					l[i], l[i+1] = l[i+1], l[i]
					sameShape++
				}
			case 3:
				l[0] = fresh
			case 4:
				l[len(l)-1] = fresh
			case 5:
				l = append(l, fresh)
			default:
				if len(l) > 3 {
					l = l[:len(l)-1]
				}
			}
			lists = append(lists, l)
		}
		type tree struct {
			hashes []common.Uint256
			root   common.Uint256
		}
		trees := make([]tree, len(lists))
		for i, l := range lists {
			hs := make([]common.Uint256, len(l))
			for j, v := range l {
				hs[j] = c27LeafHash(v)
			}
			trees[i] = tree{hs, merkle.TreeHasher{}.HashFullTreeWithLeafHash(hs)}
		}
		order := rapid.Permutation(append(seqInts(len(lists)), seqInts(len(lists))...)).Draw(t, "order")
		for _, li := range order {
			l, tr := lists[li], trees[li]
			members := []int{0, len(l) - 1, rapid.IntRange(0, len(l)-1).Draw(t, "member")}
			for _, m := range members {
				path, err := merkle.MerkleLeafPath(l[m], append([]common.Uint256{}, tr.hashes...))
				if err != nil {
					t.Fatalf("list %d of the history (%d values): MerkleLeafPath for member %d: %v", li, len(l), m, err)
				}
				got, err := c27Prove(t, path, tr.root)
				if err != nil || !bytes.Equal(got, l[m]) {
					t.Fatalf("list %d of a history of %d related lists (%d values): the path of member %d does not prove against this list's root: got %x err %v", li, len(lists), len(l), m, got, err)
				}
				for oi, ot := range trees {
					if ot.root == tr.root {
						continue
					}
					if v, err := c27Prove(t, path, ot.root); err == nil {
						has := false
						for _, h := range ot.hashes {
							has = has || h == c27LeafHash(v)
						}
						if !has {
							t.Fatalf("path of list %d proves value %x against the root of list %d, which does not contain it", li, v, oi)
						}
					}
				}
			}
		}
		ev.Case(true, fmt.Sprintf("related n=%d siblings=%d sameshape=%d", n, k, sameShape))
		ev.Class("related:histories")
		if sameShape > 0 {
			ev.Class("related:same-length-first-last")
		}
	})
	ev.Floor("related:same-length-first-last", "related:histories", 0.3)
}

func seqInts(n int) []int {
	out := make([]int, n)
	for i := range out {
		out[i] = i
	}
	return out
}
