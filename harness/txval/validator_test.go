package txval

// Thin wrapper around the code under test: decode the raw bytes as a node does and run the validator.

import (
	"fmt"
	"sort"

	"github.com/ontio/ontology/common"
	"github.com/ontio/ontology/core/types"
	"github.com/ontio/ontology/core/validation"
	ontErrors "github.com/ontio/ontology/errors"
	"github.com/ontio/ontology/smartcontract"
)

// intake: how the transaction object reaches the validator. The verdict must never depend on it.
type intake int

const (
	intakePlain         intake = iota // decode, VerifyTransaction
	intakeSigAddrsFirst               // decode, GetSignatureAddresses() (as txnpool preExecCheck / sender limiting does), VerifyTransaction
	intakeVerifyTwice                 // decode, VerifyTransaction, VerifyTransaction again on the same object: same verdict
	numIntake
)

func (i intake) String() string { return [...]string{"plain", "sigaddrs-first", "verify-twice"}[i] }

type verdict struct {
	Inconsistent string // non-empty: the same object got two different verdicts
	Decoded      bool
	Accepted     bool
	Code         ontErrors.ErrCode
	Err          error  // decode error
	Panic        string // non-empty when decode or validation panicked
	Tx           *types.Transaction
}

func (v verdict) String() string {
	switch {
	case v.Panic != "":
		return "PANIC " + v.Panic
	case !v.Decoded:
		return fmt.Sprintf("rejected (undecodable: %v)", v.Err)
	case v.Accepted:
		return "accepted"
	}
	return fmt.Sprintf("rejected (code %d)", v.Code)
}

// runValidator: types.TransactionFromRawBytes + validation.VerifyTransaction, panics captured.
func runValidator(raw []byte) verdict { return runValidatorMode(raw, intakePlain) }

func runValidatorMode(raw []byte, mode intake) (v verdict) {
	defer func() {
		if r := recover(); r != nil {
			v.Accepted = false
			v.Panic = fmt.Sprint(r)
		}
	}()
	tx, err := types.TransactionFromRawBytes(append([]byte{}, raw...))
	if err != nil {
		v.Err = err
		return v
	}
	v.Decoded, v.Tx = true, tx
	if mode == intakeSigAddrsFirst {
		_ = tx.GetSignatureAddresses()
	}
	v.Code = validation.VerifyTransaction(tx)
	v.Accepted = v.Code == ontErrors.ErrNoError
	if mode == intakeVerifyTwice {
		if c2 := validation.VerifyTransaction(tx); c2 != v.Code {
			v.Inconsistent = fmt.Sprintf("first VerifyTransaction returned code %d, the second one on the same object code %d", v.Code, c2)
		}
	}
	return v
}

// reverify runs the validator again on an object that was validated before (panics captured).
func reverify(tx *types.Transaction) (accepted bool, pan string) {
	defer func() {
		if r := recover(); r != nil {
			accepted, pan = false, fmt.Sprint(r)
		}
	}()
	return validation.VerifyTransaction(tx) == ontErrors.ErrNoError, ""
}

func sortedAddrs(in []common.Address) []common.Address {
	seen := map[common.Address]bool{}
	var out []common.Address
	for _, a := range in {
		if !seen[a] {
			seen[a] = true
			out = append(out, a)
		}
	}
	sort.Slice(out, func(i, j int) bool { return string(out[i][:]) < string(out[j][:]) })
	return out
}

func addrsString(in []common.Address) string {
	s := "{"
	for i, a := range in {
		if i > 0 {
			s += ","
		}
		s += fmt.Sprintf("%x", a[:])
	}
	return s + "}"
}

func sameAddrSet(a, b []common.Address) bool {
	a, b = sortedAddrs(a), sortedAddrs(b)
	if len(a) != len(b) {
		return false
	}
	for i := range a {
		if a[i] != b[i] {
			return false
		}
	}
	return true
}

// checkWitness asks contract-level code whether address a signed tx.
func checkWitness(tx *types.Transaction, a common.Address) bool {
	sc := &smartcontract.SmartContract{Config: &smartcontract.Config{Tx: tx}}
	return sc.CheckWitness(a)
}
