package pure

// C09, history independence. "The amount issued never depends on when balances change or when governance settles ...
// on every network configuration": CalcUnbindOng and CalcGovernanceUnbindOng are functions of (network id, balance,
// start, end) alone. A node evaluates them for thousands of accounts and intervals per block, test suites and tools
// evaluate them for several networks in one process (config.DefConfig.P2PNode.NetworkId is a plain variable), so a
// result must not depend on which other (network, balance, interval) questions were asked before.
// The additivity tests compare results obtained back to back for ONE network and the same balance; a remembered
// intermediate (a schedule position, a deadline, a result remembered under too small a key) that is consistently
// stale satisfies additivity. Oracles here:
//   * re-evaluation: 3..10 questions, many of them deliberately equal in everything but the network id (or but the
//     balance, or but one offset), are evaluated in one order, then again in another order with the network id
//     switched in between: every question has one answer;
//   * the answer belongs to the network that is selected NOW: the holder release is cut at the holder deadline of the
//     selected network, which the harness derives from the constants (mainnet and polaris change dates, 0 elsewhere),
//     not from the config package: f(1, hd-1, hd) = rate > 0, f(bal, hd, x) = 0, governance f(a, hd) = 0 and
//     f(hd, hd+1) > 0; for two networks with holder deadlines hd1 < hd2 and the same (balance, a, b) the holder
//     release on the second is the release on the first plus the release of the second over [max(a,hd1), b);
//   * the governance deadline reported by config.GetGovUnboundDeadline for the selected network is where the
//     governance release ends: f(gd-1, gd) > 0, f(gd, x) = 0.

import (
	"fmt"
	"math"
	"strings"
	"testing"

	"github.com/ontio/ontology/common/config"
	"github.com/ontio/ontology/common/constants"
	"pgregory.net/rapid"

	"verifharness/internal/harn"
)

// c09HolderDeadline is the harness's own derivation of the holder deadline of a network.
func c09HolderDeadline(net uint32) uint32 {
	switch net {
	case config.NETWORK_ID_MAIN_NET:
		return constants.CHANGE_UNBOUND_TIMESTAMP_MAINNET - constants.GENESIS_BLOCK_TIMESTAMP
	case config.NETWORK_ID_POLARIS_NET:
		return constants.CHANGE_UNBOUND_TIMESTAMP_POLARIS - constants.GENESIS_BLOCK_TIMESTAMP
	}
	return 0
}

type c09Q struct {
	net  uint32
	gov  bool
	bal  uint64
	a, b uint32
}

func (q c09Q) String() string {
	if q.gov {
		return fmt.Sprintf("gov(net=%d,%d,%d)", q.net, q.a, q.b)
	}
	return fmt.Sprintf("holder(net=%d,bal=%d,%d,%d)", q.net, q.bal, q.a, q.b)
}

func c09Eval(t *rapid.T, q c09Q) uint64 {
	c09SetNet(q.net)
	if q.gov {
		return c09Gov(t, q.a, q.b)
	}
	return c09Holder(t, q.bal, q.a, q.b)
}

func c09Uniform(t *rapid.T, n int, label string) int {
	if n <= 1 {
		return 0
	}
	return int(rapid.Uint64().Draw(t, label) % uint64(n))
}

var c09Nets = []uint32{config.NETWORK_ID_MAIN_NET, config.NETWORK_ID_POLARIS_NET, config.NETWORK_ID_SOLO_NET}

func c09OtherNet(t *rapid.T, not uint32) uint32 {
	for {
		var n uint32
		if c09Uniform(t, 5, "othernetkind") == 0 {
			n = rapid.Uint32().Draw(t, "othernet")
		} else {
			n = c09Nets[c09Uniform(t, len(c09Nets), "othernamed")]
		}
		if n != not {
			return n
		}
	}
}

// c09Probe checks that the schedule in force is the one of the network selected now.
func c09Probe(t *rapid.T, ev *harn.Collector, net uint32, bal uint64, far uint32) {
	c09SetNet(net)
	hd := c09HolderDeadline(net)
	if got := config.GetOntHolderUnboundDeadline(); got != hd {
		t.Fatalf("network %d: config reports the holder deadline %d, the change date of this network gives %d", net, got, hd)
	}
	gd, _ := config.GetGovUnboundDeadline()
	if far < 1 {
		far = 1
	}
	end := hd + far
	if end < hd {
		end = math.MaxUint32
	}
	if hd > 0 {
		rate := constants.UNBOUND_GENERATION_AMOUNT[(hd-1)/constants.UNBOUND_TIME_INTERVAL]
		if v := c09Holder(t, 1, hd-1, hd); v != rate {
			t.Fatalf("network %d (holder deadline %d): holders of 1 ONT receive %d in the last second before the deadline, the table says %d", net, hd, v, rate)
		}
	}
	if v := c09Holder(t, bal, hd, end); v != 0 {
		t.Fatalf("network %d (holder deadline %d): holders of %d ONT receive %d over [%d,%d), after the deadline", net, hd, bal, v, hd, end)
	}
	if hd > 0 {
		if v := c09Gov(t, hd-uint32(c09Uniform(t, int(hd), "before")), hd); v != 0 {
			t.Fatalf("network %d (holder deadline %d): governance receives %d before the holder deadline", net, hd, v)
		}
	}
	if hd < gd {
		if v := c09Gov(t, hd, hd+1); v == 0 {
			t.Fatalf("network %d (holder deadline %d, governance deadline %d): governance receives nothing in the first second after the holder deadline", net, hd, gd)
		}
	}
	if v := c09Gov(t, gd-1, gd); v == 0 {
		t.Fatalf("network %d: governance receives nothing in the last second before its deadline %d", net, gd)
	}
	gend := gd + far
	if gend < gd {
		gend = math.MaxUint32
	}
	if gend > gd {
		if v := c09Gov(t, gd, gend); v != 0 {
			t.Fatalf("network %d: governance receives %d over [%d,%d), after its deadline %d", net, v, gd, gend, gd)
		}
	}
	ev.Class("hist:probe")
}

func TestC09_HistoryIndependent(t *testing.T) {
	ev := harn.For("C09").Rule(c09Rule + " || history: 3..10 questions (function, network, balance, a, b): fresh ones and variants of an earlier one that differ ONLY in the network id (40 %), only in the balance, only in one offset or only in the function; " +
		"evaluated in one order, then all again in a generated other order (network id switched before every call), with deadline probes of generated networks in between: every question must have one answer; " +
		"the holder release must be cut at the holder deadline of the network selected at the time of the call (derived by the harness from the change dates), pairs of networks must differ exactly by the release between their deadlines; " +
		"non-trivial = at least two questions that differ only in the network id and have different answers; distinct = different question list")
	ev.Floor("hist:same-args-other-net", "hist:questions", 0.2)
	ev.Floor("hist:net-changes-answer", "hist:cases", 0.5)
	ev.Floor("hist:cross-net-pair", "hist:cases", 0.4)
	harn.Check(t, 30000, 1500000, func(t *rapid.T) {
		n := 3 + c09Uniform(t, 8, "questions")
		var qs []c09Q
		var res []uint64
		for i := 0; i < n; i++ {
			var q c09Q
			kind := c09Uniform(t, 10, "qkind")
			if i == 0 || kind >= 7 {
				q.net = c09Net(t)
				c09SetNet(q.net)
				bounds := c09Boundaries()
				x, y := c09Offset(t, "x", bounds), c09Offset(t, "y", bounds)
				if x > y {
					x, y = y, x
				}
				q.a, q.b, q.bal, q.gov = x, y, c09Balance(t), rapid.Bool().Draw(t, "gov")
				ev.Class("hist:fresh")
			} else {
				q = qs[c09Uniform(t, len(qs), "of")]
				switch {
				case kind <= 3:
					q.net = c09OtherNet(t, q.net)
					ev.Class("hist:same-args-other-net")
				case kind == 4:
					q.bal = c09Balance(t)
					ev.Class("hist:same-args-other-balance")
				case kind == 5:
					c09SetNet(q.net)
					v := c09Offset(t, "v", c09Boundaries())
					if rapid.Bool().Draw(t, "moveEnd") {
						q.b = v
					} else {
						q.a = v
					}
					if q.a > q.b {
						q.a, q.b = q.b, q.a
					}
					ev.Class("hist:same-args-other-offset")
				default:
					q.gov = !q.gov
					ev.Class("hist:same-args-other-function")
				}
			}
			qs = append(qs, q)
			res = append(res, c09Eval(t, q))
			ev.Class("hist:questions")
			if c09Uniform(t, 6, "probe") == 0 {
				c09Probe(t, ev, c09OtherNet(t, q.net), c09Balance(t), uint32(1+c09Uniform(t, 100000000, "far")))
			}
		}
		// every question has one answer: again, in another order
		idx := make([]int, n)
		for i := range idx {
			idx[i] = i
		}
		order := rapid.Permutation(idx).Draw(t, "again")
		for _, i := range order {
			if v := c09Eval(t, qs[i]); v != res[i] {
				t.Fatalf("%s = %d when asked as question %d of %v, but %d when asked again after the others (order %v)", qs[i], res[i], i, qs, v, order)
			}
		}
		c09Probe(t, ev, qs[order[0]].net, qs[order[0]].bal, uint32(1+c09Uniform(t, 100000000, "far")))
		// the selected network decides: holder questions that differ only in the network id
		netChanges, crossPairs := false, 0
		for i := range qs {
			for j := range qs {
				qi, qj := qs[i], qs[j]
				if i == j || qi.gov != qj.gov || qi.bal != qj.bal || qi.a != qj.a || qi.b != qj.b || qi.net == qj.net {
					continue
				}
				if res[i] != res[j] {
					netChanges = true
				}
				if qi.gov {
					continue
				}
				h1, h2 := c09HolderDeadline(qi.net), c09HolderDeadline(qj.net)
				if h1 > h2 {
					continue
				}
				from := qi.a
				if h1 > from {
					from = h1
				}
				extra := uint64(0)
				if from < qi.b {
					extra = c09Eval(t, c09Q{net: qj.net, bal: qi.bal, a: from, b: qi.b})
				}
				if res[j] != res[i]+extra {
					t.Fatalf("holder deadlines %d (network %d) <= %d (network %d): %s = %d and %s = %d, but the second network releases %d over [%d,%d), the part after the first deadline; questions %v",
						h1, qi.net, h2, qj.net, qi, res[i], qj, res[j], extra, from, qi.b, qs)
				}
				if h1 < h2 && qi.bal > 0 && from < qi.b && from < h2 && extra == 0 {
					t.Fatalf("network %d releases nothing to %d ONT over [%d,%d) although its holder deadline is %d", qj.net, qi.bal, from, qi.b, h2)
				}
				crossPairs++
			}
		}
		if netChanges {
			ev.Class("hist:net-changes-answer")
		}
		if crossPairs > 0 {
			ev.Class("hist:cross-net-pair")
		}
		ev.Class("hist:cases")
		var sb strings.Builder
		for _, q := range qs {
			sb.WriteString(q.String())
			sb.WriteByte(' ')
		}
		ev.Case(netChanges, "history "+sb.String())
	})
}
