package gov

// World of the C10/C11 harness: one VBFT ledger per process (7 genesis consensus peers, network id 3),
// the cast of accounts, and the per-history set-up (stated assumptions + warm-up epochs).

import (
	"encoding/hex"
	"fmt"
	"os"
	"path/filepath"
	"sort"
	"strings"
	"testing"

	"github.com/ontio/ontology-crypto/keypair"
	"github.com/ontio/ontology/common"
	"github.com/ontio/ontology/common/config"
	"github.com/ontio/ontology/common/constants"
	"github.com/ontio/ontology/core/types"
	"github.com/ontio/ontology/smartcontract/service/native/ont"
	nutils "github.com/ontio/ontology/smartcontract/service/native/utils"

	"verifharness/internal/fix"
)

type nodeT struct {
	name     string
	pub      string // lower-case hex of the serialized peer public key
	defOwner common.Address
	genesis  bool
}

type world struct {
	chain       *fix.Chain
	admin       common.Address // ONT owner multisig = operator of the param contract = governance admin
	rich        common.Address // bookkeeper 0: owns the whole ONG supply on network id 3
	bank        common.Address // harness account paying "income" and funding
	treasury    common.Address // receiver of transferPenalty (not a participant)
	dapps       []common.Address
	nodes       []nodeT
	nodeByPub   map[string]*nodeT
	authorizers []common.Address // extra owners and users: everybody who may stake
	users       []common.Address
	tracked     []common.Address // every participant whose ONT is followed (C11)
	names       map[common.Address]string
	genesisPos  uint64
}

const (
	nGenesis   = 7
	nExtra     = 3
	nOwners    = 2
	nUsers     = 4
	fundOnt    = 2_000_000
	fundOng    = 3_000 * 1_000_000_000
	ongPool    = 500_000_000 * 1_000_000_000 // moved to the ONT contract address: pays unbound ONG
	bankOng    = 400_000_000 * 1_000_000_000
	baseHeight = 3_000_000
)

func newWorld(t *testing.T) *world {
	fix.Quiet()
	dir, err := os.MkdirTemp("", "verif-gov-")
	if err != nil {
		t.Fatal(err)
	}
	peers := fix.P256(nGenesis)
	chain, err := fix.NewVbft(filepath.Join(dir, "ledger"), peers, 2)
	if err != nil {
		os.RemoveAll(dir)
		t.Fatalf("harness: vbft ledger: %v", err)
	}
	t.Cleanup(func() { chain.Close(); os.RemoveAll(dir) })

	w := &world{chain: chain, names: map[common.Address]string{}, nodeByPub: map[string]*nodeT{}, genesisPos: 10000}
	var pks []keypair.PublicKey
	for _, p := range peers {
		pks = append(pks, p.PublicKey)
	}
	w.admin, err = types.AddressFromMultiPubKeys(pks, (5*len(pks)+6)/7)
	if err != nil {
		t.Fatal(err)
	}
	bks, err := config.DefConfig.GetBookkeepers() // sorted: bookkeeper 0 is not necessarily peer 0
	if err != nil {
		t.Fatal(err)
	}
	w.rich = types.AddressFromPubKey(bks[0])
	w.bank = fix.Key(fix.KP256, 40).Address
	w.treasury = fix.Key(fix.KP256, 41).Address
	w.dapps = []common.Address{fix.Key(fix.KP256, 42).Address, fix.Key(fix.KP256, 43).Address}
	w.names[w.admin], w.names[w.bank], w.names[w.treasury] = "adm", "bank", "tre"
	w.names[w.dapps[0]], w.names[w.dapps[1]] = "d0", "d1"
	w.names[nutils.GovernanceContractAddress] = "GOV"
	w.names[common.ADDRESS_EMPTY] = "nil"

	for i, p := range peers {
		w.nodes = append(w.nodes, nodeT{name: fmt.Sprintf("n%d", i), pub: hex.EncodeToString(keypair.SerializePublicKey(p.PublicKey)),
			defOwner: p.Address, genesis: true})
		w.names[p.Address] = fmt.Sprintf("g%d", i)
		w.tracked = append(w.tracked, p.Address)
	}
	var owners []common.Address
	for i := 0; i < nOwners; i++ {
		a := fix.Key(fix.KP256, 20+i).Address
		owners = append(owners, a)
		w.names[a] = fmt.Sprintf("o%d", i)
	}
	for i := 0; i < nExtra; i++ {
		k := fix.Key(fix.KP256, 10+i)
		// o0 owns two nodes, o1 one: TotalStake aggregates per address, not per node
		w.nodes = append(w.nodes, nodeT{name: fmt.Sprintf("n%d", nGenesis+i), pub: hex.EncodeToString(keypair.SerializePublicKey(k.PublicKey)),
			defOwner: owners[i*nOwners/nExtra]})
	}
	for i := range w.nodes {
		w.nodeByPub[w.nodes[i].pub] = &w.nodes[i]
	}
	for i := 0; i < nUsers; i++ {
		a := fix.Key(fix.KP256, 30+i).Address
		w.users = append(w.users, a)
		w.names[a] = fmt.Sprintf("u%d", i)
	}
	w.authorizers = append(append([]common.Address{}, owners...), w.users...)
	w.tracked = append(w.tracked, w.authorizers...)
	return w
}

func (w *world) name(a common.Address) string {
	if n, ok := w.names[a]; ok {
		return n
	}
	return a.ToHexString()[:8]
}

func (w *world) nodeName(pub string) string {
	if n, ok := w.nodeByPub[pub]; ok {
		return n.name
	}
	if n, ok := w.nodeByPub[canon(pub)]; ok { // another spelling of a cast key: ^ all upper-case, ~ mixed case
		if pub == strings.ToUpper(pub) {
			return n.name + "^"
		}
		return n.name + "~"
	}
	if len(pub) > 10 {
		return "pk:" + pub[:10] + "…"
	}
	return "pk:" + pub
}

func sortAddrs(a []common.Address) {
	sort.Slice(a, func(i, j int) bool { return string(a[i][:]) < string(a[j][:]) })
}

// transfer is a plain token transfer signed by its sender (set-up and "income").
func (h *hist) transfer(token, from, to common.Address, v uint64) error {
	st := ont.TransferStates{States: []ont.TransferState{{From: from, To: to, Value: v}}}
	_, err := h.n.Call(token, "transfer", common.SerializeToBytes(&st), []common.Address{from})
	return err
}

// setup establishes the state every production network has. The two groups of transfers are the
// stated assumptions of C10/C11; nothing here goes through the governance contract.
func (h *hist) setup() {
	w, G := h.w, nutils.GovernanceContractAddress
	must := func(what string, err error) {
		if err != nil {
			h.t.Fatalf("harness set-up (%s): %v", what, err)
		}
	}
	h.n.Height, h.n.Time = 1, constants.GENESIS_BLOCK_TIMESTAMP
	// (1) initConfig only records the genesis stakes; the ONT itself is moved here
	must("genesis stakes to governance", h.transfer(nutils.OntContractAddress, w.admin, G, nGenesis*w.genesisPos))
	// (2) network id 3 mints all ONG to bookkeeper 0: give the ONT contract its unbound pool, fund the cast
	must("ONG pool", h.transfer(nutils.OngContractAddress, w.rich, nutils.OntContractAddress, ongPool))
	must("ONG bank", h.transfer(nutils.OngContractAddress, w.rich, w.bank, bankOng))
	for _, a := range w.authorizers {
		must("fund ONT", h.transfer(nutils.OntContractAddress, w.admin, a, fundOnt))
		must("fund ONG", h.transfer(nutils.OngContractAddress, w.bank, a, fundOng))
	}
	for _, nd := range w.nodes[:nGenesis] {
		must("fund ONT", h.transfer(nutils.OntContractAddress, w.admin, nd.defOwner, fundOnt/10))
		must("fund ONG", h.transfer(nutils.OngContractAddress, w.bank, nd.defOwner, fundOng))
		h.deposited[nd.defOwner] = w.genesisPos
	}
}
