package consensus

// C29 Each round selects well-formed proposer, endorser and committer sets.
// Oracle (structural invariants, not the implementation): |proposers| = C+1 and distinct;
// >= 2C+1 distinct endorsers; >= 2C+1 distinct committers; every selected index is a member of the
// configuration; same (seed, configuration) twice => same output (also on a deep copy; inputs are
// not modified); getParticipantSelectionSeed is a function of (height, proposer, vrf value).
// Retained selections (TestC29_RetainedSelections): the selections of 2..20 rounds (other seeds /
// heights, other configurations incl. disjoint peer sets) are computed back to back and KEPT as
// returned (as Server.currentParticipantConfig keeps them) next to a private deep copy taken at
// return time; after all calls every kept selection must still equal its copy, must still be
// well-formed for its OWN configuration, and recomputing round i after the other rounds must give
// the copy again (the selection is a function of (seed, configuration) only, not of call history).
// Seed sequences (TestC29_SeedSequences): getParticipantSelectionSeed itself is put under the
// "function of its input alone" oracle: the seeds of 2..10 blocks - with fork siblings that agree in
// height and proposer and differ only in the VRF value, and blocks that agree in all seed inputs and
// differ in VrfProof / other fields - are requested back to back, in permuted order and again after
// all others; every answer must equal an independent re-derivation of the seed (hand-written JSON,
// double SHA-512), and the selection computed from it must equal the one from the reference seed.

import (
	"bytes"
	"crypto/sha512"
	"encoding/base64"
	"fmt"
	"math"
	"reflect"
	"strconv"
	"strings"
	"testing"

	"github.com/ontio/ontology/common"
	"github.com/ontio/ontology/common/config"
	"github.com/ontio/ontology/consensus/vbft"
	vconfig "github.com/ontio/ontology/consensus/vbft/config"
	"github.com/ontio/ontology/core/types"
	"pgregory.net/rapid"

	"verifharness/internal/harn"
)

const c29Rule = "C in 1..5, N in 3C+1..3C+6, distinct peer indices (1..N | arbitrary uint32 < MaxUint32 | edge values), position table either any table over the members (length 2N..16N, sometimes up to 700 to cross the 512-draw cap; number of distinct members in the table biased to 1,3C-1,3C,3C+1,N; uniform or skewed slot weights) or derived by the real GenesisChainConfig from generated stakes (ties, zeros, heavy skew, more candidates than K); 64-byte seeds random/all-zero/all-FF/one repeated byte/sparse or produced by getParticipantSelectionSeed; non-trivial = the table reaches <= 3C distinct members so the fill-from-Peers path decides well-formedness, or N = 3C+1 (no slack), or a degenerate seed; distinct = different (C, indices, table, seed). Retained-selection sequences: 1..4 configurations (C in 1..4, N in 3C+1..3C+5; peer sets identical / overlapping / pairwise disjoint; tables reaching all members or <= 3C of them) and 2..20 rounds computed back to back (each round: one of the configurations - a configuration change in about every third round - with a fresh seed, a seed derived by getParticipantSelectionSeed from a generated (height, proposer, vrf value), or the seed of an earlier round), every returned selection kept as returned plus a private deep copy taken at return time; after all rounds each kept selection must equal its copy, be well-formed for its own configuration and be reproduced by recomputing that round; non-trivial = at least two rounds with different selections; distinct = different (configurations, round sequence). Seed sequences (TestC29_SeedSequences): 2..10 previous blocks (height small or any uint32 < MaxUint32, proposer small or any, VRF value nil/empty/64 zero bytes/0..80 random bytes/mostly 64 random bytes; VrfProof, LastConfigBlockNum, timestamp, previous hash generated too), each after the first either fresh or derived from an earlier block (mostly the one just before it): a fork sibling (same height and proposer, other VRF value: other random value, one flipped bit, one byte more or less, nil<->empty), the same seed inputs with other non-input fields, an equal copy, the same VRF value at another height or with another proposer; 1..2 configurations (C in 1..3); the seed of every block is requested from getParticipantSelectionSeed in generated order, then in a generated permutation, then once more in reverse order (some requests on a freshly built equal block object) and each result must equal the harness's own derivation sha512(sha512(hand-written JSON of (height+1, proposer, base64 VRF value))), the block must be unmodified, and the selection computed from the returned seed must equal the one computed from the reference seed beforehand; non-trivial = some fork sibling is requested directly after its sibling and the sequence has >= 2 different seeds; distinct = different (blocks, configurations)"

type c29Out struct{ P, E, K []uint32 }

func c29Run(t *rapid.T, chain *vconfig.ChainConfig, vrf vconfig.VRFValue, desc string) (out c29Out) {
	defer func() {
		if r := recover(); r != nil {
			t.Fatalf("calcParticipantPeers panicked (%v) on %s", r, desc)
		}
	}()
	cfg := &vbft.BlockParticipantConfig{BlockNum: 7, Vrf: vrf, ChainConfig: chain}
	out.P, out.E, out.K = vbft.VerifCalcParticipantPeers(cfg, chain)
	return
}

func copyChain(c *vconfig.ChainConfig) *vconfig.ChainConfig {
	d := *c
	d.Peers = make([]*vconfig.PeerConfig, len(c.Peers))
	for i, p := range c.Peers {
		q := *p
		d.Peers[i] = &q
	}
	d.PosTable = append([]uint32{}, c.PosTable...)
	return &d
}

func distinctCount(v []uint32) int {
	m := map[uint32]bool{}
	for _, x := range v {
		m[x] = true
	}
	return len(m)
}

// c29Oracle checks one selection; returns the number of distinct members reachable in the table.
func c29Oracle(t *rapid.T, chain *vconfig.ChainConfig, vrf vconfig.VRFValue, desc string) {
	c := int(chain.C)
	members := map[uint32]bool{}
	for _, p := range chain.Peers {
		members[p.Index] = true
	}
	snapshot := copyChain(chain)
	o1 := c29Run(t, chain, vrf, desc)
	// copy the outputs before the second call (slices may alias internal arrays)
	o1 = c29Out{append([]uint32{}, o1.P...), append([]uint32{}, o1.E...), append([]uint32{}, o1.K...)}
	if !reflect.DeepEqual(snapshot, chain) {
		t.Fatalf("calcParticipantPeers modified its chain configuration: %s", desc)
	}
	if len(o1.P) != c+1 || distinctCount(o1.P) != c+1 {
		t.Fatalf("proposers %v: want exactly C+1=%d distinct peers; %s", o1.P, c+1, desc)
	}
	if distinctCount(o1.E) < 2*c+1 {
		t.Fatalf("endorsers %v: %d distinct, want >= 2C+1=%d; %s", o1.E, distinctCount(o1.E), 2*c+1, desc)
	}
	if distinctCount(o1.K) < 2*c+1 {
		t.Fatalf("committers %v: %d distinct, want >= 2C+1=%d; %s", o1.K, distinctCount(o1.K), 2*c+1, desc)
	}
	for _, set := range [][]uint32{o1.P, o1.E, o1.K} {
		for _, x := range set {
			if !members[x] {
				t.Fatalf("selected peer %d is not a member of the configuration; P=%v E=%v K=%v; %s", x, o1.P, o1.E, o1.K, desc)
			}
		}
	}
	o2 := c29Run(t, chain, vrf, desc)
	o3 := c29Run(t, copyChain(snapshot), vrf, desc)
	if !reflect.DeepEqual(o1, o2) || !reflect.DeepEqual(o1, o3) {
		t.Fatalf("selection is not deterministic: %v / %v / %v; %s", o1, o2, o3, desc)
	}
}

func genVrf() *rapid.Generator[vconfig.VRFValue] {
	return rapid.Custom(func(t *rapid.T) vconfig.VRFValue {
		var v vconfig.VRFValue
		switch rapid.IntRange(0, 7).Draw(t, "vrfKind") {
		case 0: // all zero
		case 1:
			for i := range v {
				v[i] = 0xff
			}
		case 2:
			b := rapid.Byte().Draw(t, "rep")
			for i := range v {
				v[i] = b
			}
		case 3: // sparse
			n := rapid.IntRange(1, 4).Draw(t, "nset")
			for i := 0; i < n; i++ {
				v[rapid.IntRange(0, 63).Draw(t, "pos")] = rapid.Byte().Draw(t, "val")
			}
		default:
			b := rapid.SliceOfN(rapid.Byte(), 64, 64).Draw(t, "vrf")
			copy(v[:], b)
		}
		return v
	})
}

func degenerateVrf(v vconfig.VRFValue) bool {
	nz := 0
	same := true
	for i := range v {
		if v[i] != 0 {
			nz++
		}
		if v[i] != v[0] {
			same = false
		}
	}
	return same || nz <= 4
}

func genIndices(t *rapid.T, n int) []uint32 {
	out := make([]uint32, 0, n)
	seen := map[uint32]bool{}
	add := func(x uint32) {
		if x != math.MaxUint32 && !seen[x] && len(out) < n {
			seen[x] = true
			out = append(out, x)
		}
	}
	switch rapid.IntRange(0, 2).Draw(t, "idxKind") {
	case 0:
		for i := 1; i <= n; i++ {
			add(uint32(i))
		}
	case 1:
		for _, e := range rapid.Permutation([]uint32{0, 1, math.MaxUint32 - 1, math.MaxUint32 - 2, 1 << 31, 1<<31 - 1, 255, 256, 65535, 65536}).Draw(t, "edges") {
			if rapid.Bool().Draw(t, "useEdge") {
				add(e)
			}
		}
	}
	for len(out) < n {
		add(rapid.Uint32Range(0, math.MaxUint32-1).Draw(t, "idx"))
	}
	return out
}

// reachable computes, independently of calcParticipantPeers' bookkeeping, how many distinct
// members the seed can reach in the table (16-bit windows of the seed, at most 512 draws).
func reachable(vrf vconfig.VRFValue, table []uint32) int {
	m := map[uint32]bool{}
	for i := 0; i < len(table) && i < 512; i++ {
		bIdx, b1 := i/8, uint(i%8)
		v1 := uint32(vrf[bIdx]) >> b1
		var v2 uint32
		if bIdx+1 < len(vrf) {
			v2 = uint32(vrf[bIdx+1])
		} else {
			v2 = uint32(vrf[0])
		}
		v2 &= (1 << (8 + b1)) - 1
		v := (v2 << (8 - b1)) + v1
		m[table[v%uint32(len(table))]] = true
	}
	return len(m)
}

func TestC29_ArbitraryTable(t *testing.T) {
	ev := harn.For("C29").Rule(c29Rule)
	ev.Assume("peer index MaxUint32 is the code's documented 'no peer' sentinel and is not generated as a member index")
	ev.Floor("path:fill", "", 0.10)
	ev.Floor("path:table-only", "", 0.10)
	harn.Check(t, 8000, 1200000, func(t *rapid.T) {
		c := rapid.IntRange(1, 5).Draw(t, "C")
		n := 3*c + 1 + rapid.IntRange(0, 5).Draw(t, "slack")
		idx := genIndices(t, n)
		peers := make([]*vconfig.PeerConfig, n)
		for i, x := range idx {
			peers[i] = &vconfig.PeerConfig{Index: x, ID: fmt.Sprintf("peer-%d", x)}
		}
		// table
		var d int
		switch rapid.IntRange(0, 8).Draw(t, "dKind") {
		case 0:
			d = 1
		case 1:
			d = 3*c - 1
		case 2:
			d = 3 * c
		case 3:
			d = 3*c + 1
		case 4, 6, 7:
			d = n
		default:
			d = rapid.IntRange(1, n).Draw(t, "d")
		}
		if d < 1 {
			d = 1
		}
		sub := rapid.Permutation(idx).Draw(t, "subset")[:d]
		var l int
		if rapid.IntRange(0, 9).Draw(t, "long") == 0 {
			l = rapid.IntRange(16*n, 700).Draw(t, "L")
		} else {
			l = rapid.IntRange(2*n, 16*n).Draw(t, "L")
		}
		skew := rapid.IntRange(0, 2).Draw(t, "skew")
		w := make([]int, d)
		tot := 0
		for i := range w {
			switch skew {
			case 0:
				w[i] = 1
			case 1:
				w[i] = 1 << uint(min(10, d-1-i))
			default:
				w[i] = 1
				if i == 0 {
					w[i] = 50 * d
				}
			}
			tot += w[i]
		}
		table := make([]uint32, 0, l)
		table = append(table, sub...) // every chosen member has at least one slot
		for _, r := range rapid.SliceOfN(rapid.IntRange(0, tot-1), l-d, l-d).Draw(t, "slots") {
			k := 0
			for r >= w[k] {
				r -= w[k]
				k++
			}
			table = append(table, sub[k])
		}
		if rapid.Bool().Draw(t, "shuffle") {
			table = rapid.Permutation(table).Draw(t, "table")
		}
		vrf := genVrf().Draw(t, "vrf")
		chain := &vconfig.ChainConfig{Version: 1, View: 1, N: uint32(n), C: uint32(c), Peers: peers, PosTable: table}
		desc := fmt.Sprintf("arb C=%d N=%d idx=[%s] d=%d L=%d vrf=%x table=[%s]", c, n, u32s(idx), d, l, vrf[:12], u32s(table))
		c29Oracle(t, chain, vrf, desc)
		r := reachable(vrf, table)
		fill := r <= 3*c
		if fill {
			ev.Class("path:fill")
		} else {
			ev.Class("path:table-only")
		}
		if r == 3*c {
			ev.Class("reach:exactly-3C")
		}
		if l > 512 {
			ev.Class("table:>512")
		}
		ev.Case(fill || n == 3*c+1 || degenerateVrf(vrf), shortDesc(desc))
	})
}

func TestC29_GenesisTableAndSeed(t *testing.T) {
	ev := harn.For("C29").Rule(c29Rule)
	harn.Check(t, 4000, 600000, func(t *rapid.T) {
		c := rapid.IntRange(1, 5).Draw(t, "C")
		k := 3*c + 1 + rapid.IntRange(0, 5).Draw(t, "slack")
		cand := k + rapid.IntRange(0, 4).Draw(t, "extra")
		l := k * rapid.IntRange(2, 16).Draw(t, "Lmul")
		stakeGen := rapid.OneOf(rapid.Just(uint64(0)), rapid.Just(uint64(10000)), rapid.Uint64Range(0, 50), rapid.Uint64Range(1, 1_000_000_000_000), rapid.Just(uint64(1)))
		peers := make([]*config.VBFTPeerStakeInfo, cand)
		for i := range peers {
			peers[i] = &config.VBFTPeerStakeInfo{Index: uint32(i + 1), PeerPubkey: fmt.Sprintf("%02x%s", rapid.IntRange(0, 255).Draw(t, "keyPrefix"), fmt.Sprintf("key%03d", i)), InitPos: stakeGen.Draw(t, "stake")}
		}
		conf := &config.VBFTConfig{N: uint32(k), K: uint32(k), C: uint32(c), L: uint32(l), BlockMsgDelay: 10000, HashMsgDelay: 10000, PeerHandshakeTimeout: 10, MaxBlockChangeView: 1000}
		var txh common.Uint256
		copy(txh[:], rapid.SliceOfN(rapid.Byte(), 32, 32).Draw(t, "txhash"))
		height := rapid.Uint32Range(0, 100).Draw(t, "cfgHeight")
		chain, err := func() (cc *vconfig.ChainConfig, err error) {
			defer func() {
				if r := recover(); r != nil {
					err = fmt.Errorf("panic %v", r)
				}
			}()
			return vconfig.GenesisChainConfig(conf, peers, txh, height)
		}()
		if err != nil {
			t.Fatalf("GenesisChainConfig failed on a valid (K=%d,L=%d,C=%d): %v", k, l, c, err)
		}
		// seed from a previous block, through the real seed function; must be a function of its inputs
		prevH := rapid.Uint32Range(0, math.MaxUint32-1).Draw(t, "prevHeight")
		prevP := rapid.Uint32Range(0, math.MaxUint32).Draw(t, "prevProposer")
		vv := rapid.OneOf(rapid.SliceOfN(rapid.Byte(), 0, 80), rapid.Just([]byte(nil)), rapid.Just(make([]byte, 64))).Draw(t, "vrfValue")
		mk := func() *vbft.Block {
			return &vbft.Block{Block: &types.Block{Header: &types.Header{Height: prevH}},
				Info: &vconfig.VbftBlockInfo{Proposer: prevP, VrfValue: append([]byte(nil), vv...)}}
		}
		s1 := vbft.VerifGetParticipantSelectionSeed(mk())
		b := mk()
		s2 := vbft.VerifGetParticipantSelectionSeed(b)
		s3 := vbft.VerifGetParticipantSelectionSeed(b)
		if s1 != s2 || s2 != s3 {
			t.Fatalf("getParticipantSelectionSeed not deterministic for height=%d proposer=%d vrf=%x: %x / %x / %x", prevH, prevP, vv, s1[:8], s2[:8], s3[:8])
		}
		desc := fmt.Sprintf("gen C=%d K=%d cand=%d L=%d tableLen=%d prev=(%d,%d,%x) seed=%x stakes=%v", c, k, cand, l, len(chain.PosTable), prevH, prevP, vv, s1[:8], func() []uint64 {
			o := []uint64{}
			for _, p := range peers {
				o = append(o, p.InitPos)
			}
			return o
		}())
		if int(chain.N) != k || len(chain.Peers) != k {
			t.Fatalf("GenesisChainConfig returned N=%d with %d peers for K=%d", chain.N, len(chain.Peers), k)
		}
		c29Oracle(t, chain, s1, desc)
		r := reachable(s1, chain.PosTable)
		fill := r <= 3*c
		if fill {
			ev.Class("path:fill")
			ev.Class("genesis:fill")
		} else {
			ev.Class("path:table-only")
		}
		ev.Class("genesis-table")
		ev.Case(fill || k == 3*c+1, shortDesc(desc))
	})
}

// ---------------------------------------------------------------------------------------------
// retained selections of several rounds

type c29Round struct {
	cfg   int
	chain *vconfig.ChainConfig
	vrf   vconfig.VRFValue
	blk   uint32
	kept  c29Out // exactly the slices calcParticipantPeers returned (never touched by the harness)
	snap  c29Out // private deep copy taken at return time
}

func (o c29Out) clone() c29Out {
	return c29Out{append([]uint32{}, o.P...), append([]uint32{}, o.E...), append([]uint32{}, o.K...)}
}

func (o c29Out) String() string {
	return fmt.Sprintf("P=[%s] E=[%s] K=[%s]", u32s(o.P), u32s(o.E), u32s(o.K))
}

// c29WellFormed: the structural part of the property for one selection and its own configuration.
func c29WellFormed(chain *vconfig.ChainConfig, o c29Out) error {
	c := int(chain.C)
	members := map[uint32]bool{}
	for _, p := range chain.Peers {
		members[p.Index] = true
	}
	if len(o.P) != c+1 || distinctCount(o.P) != c+1 {
		return fmt.Errorf("proposers %v: want exactly C+1=%d distinct peers", o.P, c+1)
	}
	if distinctCount(o.E) < 2*c+1 {
		return fmt.Errorf("endorsers %v: %d distinct, want >= 2C+1=%d", o.E, distinctCount(o.E), 2*c+1)
	}
	if distinctCount(o.K) < 2*c+1 {
		return fmt.Errorf("committers %v: %d distinct, want >= 2C+1=%d", o.K, distinctCount(o.K), 2*c+1)
	}
	for _, set := range [][]uint32{o.P, o.E, o.K} {
		for _, x := range set {
			if !members[x] {
				return fmt.Errorf("selected peer %d is not a member of the configuration (members [%s])", x, u32s(sortedU32(members)))
			}
		}
	}
	return nil
}

// genC29Chain draws one configuration over the given member indices.
func genC29Chain(t *rapid.T, c int, idx []uint32, view uint32) *vconfig.ChainConfig {
	n := len(idx)
	peers := make([]*vconfig.PeerConfig, n)
	for i, x := range idx {
		peers[i] = &vconfig.PeerConfig{Index: x, ID: fmt.Sprintf("peer-%d", x)}
	}
	var d int
	switch rapid.IntRange(0, 5).Draw(t, "dKind") {
	case 0:
		d = 3 * c
	case 1:
		d = rapid.IntRange(1, n).Draw(t, "d")
	default:
		d = n
	}
	sub := rapid.Permutation(idx).Draw(t, "subset")[:d]
	l := rapid.IntRange(2*n, 8*n).Draw(t, "L")
	table := append(make([]uint32, 0, l), sub...)
	for _, k := range rapid.SliceOfN(rapid.IntRange(0, d-1), l-d, l-d).Draw(t, "slots") {
		table = append(table, sub[k])
	}
	if rapid.Bool().Draw(t, "shuffle") {
		table = rapid.Permutation(table).Draw(t, "table")
	}
	return &vconfig.ChainConfig{Version: 1, View: view, N: uint32(n), C: uint32(c), Peers: peers, PosTable: table}
}

func TestC29_RetainedSelections(t *testing.T) {
	ev := harn.For("C29").Rule(c29Rule)
	ev.Assume("a selection returned by calcParticipantPeers is kept by its caller (Server.currentParticipantConfig) while later rounds are computed; calls are sequential (the server computes them under metaLock)")
	ev.Floor("seq:different-selections", "", 0.60)
	ev.Floor("seq:config-change", "", 0.25)
	ev.Floor("seq:disjoint-configs", "", 0.10)
	ev.Floor("seq:same-config-other-seed", "", 0.40)
	harn.Check(t, 6000, 600000, func(t *rapid.T) {
		// configurations
		nCfg := rapid.SampledFrom([]int{1, 2, 2, 3, 4}).Draw(t, "nCfg")
		rel := rapid.SampledFrom([]string{"disjoint", "disjoint", "same", "overlap"}).Draw(t, "peerSets")
		chains := make([]*vconfig.ChainConfig, nCfg)
		var cdesc []string
		var firstIdx []uint32
		plainIdx := rapid.Bool().Draw(t, "plainIdx")
		for k := range chains {
			c := rapid.IntRange(1, 4).Draw(t, "C")
			n := 3*c + 1 + rapid.IntRange(0, 4).Draw(t, "slack")
			var idx []uint32
			switch {
			case k == 0 || rel == "disjoint":
				if plainIdx {
					for i := 1; i <= n; i++ {
						idx = append(idx, uint32(k)*100+uint32(i))
					}
				} else {
					// arbitrary indices inside a per-configuration residue class mod 4: disjoint across k
					for _, x := range genIndices(t, n) {
						idx = append(idx, x/4*4+uint32(k))
					}
					idx = dedupFill(idx, n, uint32(k))
				}
			case rel == "same": // same members, possibly another C and another table
				idx = append(idx, firstIdx...)
				n = len(idx)
				c = rapid.IntRange(1, min(4, (n-1)/3)).Draw(t, "Csame")
			default: // overlap: about half of the first configuration's members plus new ones
				for i, x := range firstIdx {
					if i%2 == 0 && len(idx) < n-1 {
						idx = append(idx, x)
					}
				}
				for i := uint32(1); len(idx) < n; i++ {
					idx = dedupFill(append(idx, 7000+uint32(k)*400+i*4), len(idx)+1, 0)
				}
			}
			if k == 0 {
				firstIdx = idx
			}
			chains[k] = genC29Chain(t, c, idx, uint32(k+1))
			cdesc = append(cdesc, fmt.Sprintf("cfg%d{C=%d N=%d idx=[%s] table=[%s]}", k, c, len(idx), u32s(idx), u32s(chains[k].PosTable)))
		}
		snaps := make([]*vconfig.ChainConfig, nCfg)
		for k, ch := range chains {
			snaps[k] = copyChain(ch)
		}
		// rounds, back to back
		nRounds := 2 + rapid.IntRange(0, 18).Draw(t, "rounds")
		var rounds []*c29Round
		var rdesc []string
		cur := 0
		for i := 0; i < nRounds; i++ {
			if nCfg > 1 && rapid.IntRange(0, 2).Draw(t, "change") == 0 {
				cur = rapid.IntRange(0, nCfg-1).Draw(t, "cfg")
			}
			r := &c29Round{cfg: cur, chain: chains[cur], blk: rapid.Uint32Range(1, math.MaxUint32-1).Draw(t, "blk")}
			switch sk := rapid.IntRange(0, 9).Draw(t, "seedKind"); {
			case sk == 0 && len(rounds) > 0: // the seed of an earlier round again (maybe under another configuration)
				r.vrf = rounds[rapid.IntRange(0, len(rounds)-1).Draw(t, "again")].vrf
			case sk <= 4: // the real seed function over the previous block of that height
				vv := rapid.SliceOfN(rapid.Byte(), 0, 70).Draw(t, "vrfValue")
				r.vrf = vbft.VerifGetParticipantSelectionSeed(&vbft.Block{Block: &types.Block{Header: &types.Header{Height: r.blk - 1}},
					Info: &vconfig.VbftBlockInfo{Proposer: rapid.Uint32().Draw(t, "prevProposer"), VrfValue: vv}})
			default:
				r.vrf = genVrf().Draw(t, "vrf")
			}
			desc := fmt.Sprintf("round %d (cfg%d blk=%d seed=%x)", i, r.cfg, r.blk, r.vrf[:8])
			func() {
				defer func() {
					if p := recover(); p != nil {
						t.Fatalf("calcParticipantPeers panicked (%v) in %s; %s", p, desc, strings.Join(cdesc, " "))
					}
				}()
				cfg := &vbft.BlockParticipantConfig{BlockNum: r.blk, Vrf: r.vrf, ChainConfig: r.chain}
				r.kept.P, r.kept.E, r.kept.K = vbft.VerifCalcParticipantPeers(cfg, r.chain)
			}()
			r.snap = r.kept.clone()
			if err := c29WellFormed(r.chain, r.snap); err != nil {
				t.Fatalf("%s: fresh selection is malformed: %v; %s", desc, err, strings.Join(cdesc, " "))
			}
			rounds = append(rounds, r)
			rdesc = append(rdesc, fmt.Sprintf("%d:cfg%d/%x", i, r.cfg, r.vrf[:6]))
		}
		full := fmt.Sprintf("retained %s rounds=[%s] %s", rel, strings.Join(rdesc, " "), strings.Join(cdesc, " "))
		// 1. every kept selection is still what was returned, and still well-formed for its own configuration
		for i, r := range rounds {
			if !reflect.DeepEqual(r.kept, r.snap) {
				t.Fatalf("the selection of round %d (cfg%d, seed %x) was {%v} when calcParticipantPeers returned it and is {%v} after %d later call(s): a kept selection must not be rewritten by later rounds; %s",
					i, r.cfg, r.vrf[:8], r.snap, r.kept, len(rounds)-1-i, full)
			}
			if err := c29WellFormed(r.chain, r.kept); err != nil {
				t.Fatalf("the kept selection of round %d is no longer well-formed for its own configuration cfg%d: %v; %s", i, r.cfg, err, full)
			}
		}
		for k := range chains {
			if !reflect.DeepEqual(snaps[k], chains[k]) {
				t.Fatalf("calcParticipantPeers modified configuration cfg%d; %s", k, full)
			}
		}
		// 2. determinism across call history: recomputing round i after all other rounds (in generated order)
		for _, i := range rapid.Permutation(seqInts(len(rounds))).Draw(t, "recomputeOrder") {
			r := rounds[i]
			again := c29Run(t, r.chain, r.vrf, full).clone()
			if !reflect.DeepEqual(again, r.snap) {
				t.Fatalf("recomputing round %d (cfg%d, seed %x) after other rounds gives {%v}, the first computation gave {%v}: not a function of (seed, configuration); %s", i, r.cfg, r.vrf[:8], again, r.snap, full)
			}
		}
		for i, r := range rounds { // recomputation must not have disturbed the kept ones either
			if !reflect.DeepEqual(r.kept, r.snap) {
				t.Fatalf("the kept selection of round %d was rewritten while other rounds were recomputed: was {%v}, is {%v}; %s", i, r.snap, r.kept, full)
			}
		}
		// classification
		distinctSel := map[string]bool{}
		cfgUsed := map[int]bool{}
		sameCfgOtherSeed, fillRound := false, false
		seedsOf := map[int]map[vconfig.VRFValue]bool{}
		for _, r := range rounds {
			distinctSel[r.snap.String()] = true
			cfgUsed[r.cfg] = true
			if seedsOf[r.cfg] == nil {
				seedsOf[r.cfg] = map[vconfig.VRFValue]bool{}
			}
			seedsOf[r.cfg][r.vrf] = true
			if len(seedsOf[r.cfg]) > 1 {
				sameCfgOtherSeed = true
			}
			if reachable(r.vrf, r.chain.PosTable) <= 3*int(r.chain.C) {
				fillRound = true
			}
		}
		if len(distinctSel) > 1 {
			ev.Class("seq:different-selections")
		}
		if len(cfgUsed) > 1 {
			ev.Class("seq:config-change")
			if rel == "disjoint" {
				ev.Class("seq:disjoint-configs")
			}
		}
		if sameCfgOtherSeed {
			ev.Class("seq:same-config-other-seed")
		}
		if fillRound {
			ev.Class("seq:has-fill-path-round")
		}
		ev.ClassN("retained:rounds", int64(len(rounds)))
		ev.Case(len(distinctSel) > 1, shortDesc(full))
	})
}

// ---------------------------------------------------------------------------------------------
// the seed function over sequences of blocks (forks: same height and proposer, other VRF value)

// c29RefSeed re-derives the selection seed of the round after `height` independently of
// getParticipantSelectionSeed: sha512(sha512(J)) where J is the JSON object with the members
// block_num = height+1 (uint32 arithmetic), prev_block_proposer and vrf_value (the block's VRF
// value as a JSON byte string: standard base64 with padding, null for a nil slice), spelled out
// here by hand instead of through encoding/json and the code's seedData type.
func c29RefSeed(height, proposer uint32, vrfValue []byte) vconfig.VRFValue {
	vv := "null"
	if vrfValue != nil {
		vv = `"` + base64.StdEncoding.EncodeToString(vrfValue) + `"`
	}
	j := `{"block_num":` + strconv.FormatUint(uint64(height+1), 10) +
		`,"prev_block_proposer":` + strconv.FormatUint(uint64(proposer), 10) +
		`,"vrf_value":` + vv + `}`
	h := sha512.New()
	h.Write([]byte(j))
	first := h.Sum(nil)
	h.Reset()
	h.Write(first)
	var out vconfig.VRFValue
	copy(out[:], h.Sum(nil))
	return out
}

type c29SeedBlock struct {
	height, proposer uint32
	vrfValue         []byte
	vrfProof         []byte
	lastCfg          uint32
	ts               uint32
	prevHash         common.Uint256
	how              string // how it was generated
	rel              int    // the earlier block it was derived from (-1: none)
	cfg              int
	blk              *vbft.Block // the object handed to the code (built once, requested many times)
	ref              vconfig.VRFValue
	refSel           c29Out
}

func (b *c29SeedBlock) build() *vbft.Block {
	var vv, vp []byte
	if b.vrfValue != nil {
		vv = append([]byte{}, b.vrfValue...)
	}
	if b.vrfProof != nil {
		vp = append([]byte{}, b.vrfProof...)
	}
	return &vbft.Block{
		Block: &types.Block{Header: &types.Header{Height: b.height, PrevBlockHash: b.prevHash, Timestamp: b.ts}},
		Info:  &vconfig.VbftBlockInfo{Proposer: b.proposer, VrfValue: vv, VrfProof: vp, LastConfigBlockNum: b.lastCfg},
	}
}

func (b *c29SeedBlock) String() string {
	vv := "nil"
	if b.vrfValue != nil {
		vv = fmt.Sprintf("%x", b.vrfValue)
		if len(vv) > 16 {
			vv = fmt.Sprintf("%s..(%dB)", vv[:16], len(b.vrfValue))
		}
	}
	return fmt.Sprintf("{h=%d p=%d vrf=%s proof=%x cfgblk=%d ts=%d prev=%x %s}", b.height, b.proposer, vv, b.vrfProof, b.lastCfg, b.ts, b.prevHash[:2], b.how)
}

// forkOf: same (height, proposer), another VRF value - the two tips of a fork.
func (b *c29SeedBlock) forkOf(o *c29SeedBlock) bool {
	return b.height == o.height && b.proposer == o.proposer && (!bytes.Equal(b.vrfValue, o.vrfValue) || (b.vrfValue == nil) != (o.vrfValue == nil))
}

func genC29VrfValue(t *rapid.T) []byte {
	switch rapid.IntRange(0, 9).Draw(t, "vvKind") {
	case 0:
		return nil
	case 1:
		return []byte{}
	case 2:
		return make([]byte, 64)
	case 3:
		return rapid.SliceOfN(rapid.Byte(), 0, 80).Draw(t, "vvAny")
	default: // what a real block carries: a 64-byte VRF output
		return rapid.SliceOfN(rapid.Byte(), 64, 64).Draw(t, "vv64")
	}
}

// otherVrfValue: a VRF value different from v (another random one, one flipped bit, one byte
// more/less, nil <-> empty).
func otherVrfValue(t *rapid.T, v []byte) []byte {
	for {
		var o []byte
		switch k := rapid.IntRange(0, 5).Draw(t, "otherKind"); {
		case k == 0 && len(v) > 0:
			o = append([]byte{}, v...)
			o[rapid.IntRange(0, len(v)-1).Draw(t, "flipAt")] ^= 1 << uint(rapid.IntRange(0, 7).Draw(t, "flipBit"))
		case k == 1 && len(v) > 0:
			o = append([]byte{}, v[:len(v)-1]...)
		case k == 2:
			o = append(append([]byte{}, v...), rapid.Byte().Draw(t, "extra"))
		case k == 3 && len(v) == 0:
			if v == nil {
				o = []byte{}
			}
		default:
			o = genC29VrfValue(t)
		}
		if !bytes.Equal(o, v) || (o == nil) != (v == nil) {
			return o
		}
	}
}

func TestC29_SeedSequences(t *testing.T) {
	ev := harn.For("C29").Rule(c29Rule)
	ev.Assume("the seed of a round is derived from the previous block as sha512(sha512(JSON{block_num: height+1, prev_block_proposer, vrf_value})) - re-derived by hand in the harness from the unchanged getParticipantSelectionSeed; seed requests are sequential")
	ev.Floor("seedseq:fork-requested-right-after-sibling", "", 0.50)
	ev.Floor("seedseq:same-inputs-other-fields", "", 0.30)
	ev.Floor("seedseq:different-seeds", "", 0.85)
	harn.Check(t, 5000, 500000, func(t *rapid.T) {
		nCfg := rapid.IntRange(1, 2).Draw(t, "nCfg")
		chains := make([]*vconfig.ChainConfig, nCfg)
		var cdesc []string
		for k := range chains {
			c := rapid.IntRange(1, 3).Draw(t, "C")
			n := 3*c + 1 + rapid.IntRange(0, 3).Draw(t, "slack")
			var idx []uint32
			for i := 1; i <= n; i++ {
				idx = append(idx, uint32(k)*50+uint32(i))
			}
			chains[k] = genC29Chain(t, c, idx, uint32(k+1))
			cdesc = append(cdesc, fmt.Sprintf("cfg%d{C=%d N=%d table=[%s]}", k, c, n, u32s(chains[k].PosTable)))
		}
		// blocks
		nBlocks := rapid.IntRange(2, 10).Draw(t, "blocks")
		var blocks []*c29SeedBlock
		for i := 0; i < nBlocks; i++ {
			b := &c29SeedBlock{rel: -1, cfg: rapid.IntRange(0, nCfg-1).Draw(t, "cfg")}
			kind := "fresh"
			if i > 0 {
				kind = rapid.SampledFrom([]string{"fresh", "fresh", "fork", "fork", "fork", "other-fields", "other-fields", "copy", "other-height", "other-proposer"}).Draw(t, "kind")
			}
			if kind == "fresh" {
				b.height = rapid.OneOf(rapid.Uint32Range(0, 40), rapid.Uint32Range(0, math.MaxUint32-1)).Draw(t, "height")
				b.proposer = rapid.OneOf(rapid.Uint32Range(0, 8), rapid.Uint32()).Draw(t, "proposer")
				b.vrfValue = genC29VrfValue(t)
			} else {
				b.rel = i - 1 // mostly the block before it (the two tips are looked at one after the other)
				if rapid.IntRange(0, 2).Draw(t, "relAny") == 0 {
					b.rel = rapid.IntRange(0, i-1).Draw(t, "rel")
				}
				o := blocks[b.rel]
				b.height, b.proposer, b.vrfValue, b.cfg = o.height, o.proposer, o.vrfValue, o.cfg
				if b.vrfValue != nil {
					b.vrfValue = append([]byte{}, o.vrfValue...)
				}
				switch kind {
				case "fork":
					b.vrfValue = otherVrfValue(t, o.vrfValue)
				case "other-height":
					for b.height == o.height {
						b.height = rapid.OneOf(rapid.Just(o.height+1), rapid.Just(o.height-1), rapid.Uint32Range(0, math.MaxUint32-1)).Draw(t, "height")
					}
					if b.height == math.MaxUint32 {
						b.height = 0
						if o.height == 0 {
							b.height = 1
						}
					}
				case "other-proposer":
					for b.proposer == o.proposer {
						b.proposer = rapid.OneOf(rapid.Just(o.proposer+1), rapid.Uint32Range(0, 8), rapid.Uint32()).Draw(t, "proposer")
					}
				}
				if kind == "copy" {
					b.vrfProof, b.lastCfg, b.ts, b.prevHash = o.vrfProof, o.lastCfg, o.ts, o.prevHash
				}
			}
			if kind != "copy" { // everything that is NOT an input of the seed
				b.vrfProof = rapid.OneOf(rapid.Just([]byte(nil)), rapid.SliceOfN(rapid.Byte(), 1, 12)).Draw(t, "vrfProof")
				b.lastCfg = rapid.Uint32Range(0, 50).Draw(t, "lastCfg")
				b.ts = rapid.Uint32().Draw(t, "ts")
				copy(b.prevHash[:], rapid.SliceOfN(rapid.Byte(), 4, 4).Draw(t, "prevHash"))
			}
			b.how = kind
			if b.rel >= 0 {
				b.how = fmt.Sprintf("%s-of-%d", kind, b.rel)
			}
			b.blk = b.build()
			b.ref = c29RefSeed(b.height, b.proposer, b.vrfValue)
			blocks = append(blocks, b)
		}
		var bdesc []string
		for i, b := range blocks {
			bdesc = append(bdesc, fmt.Sprintf("%d:%v/cfg%d", i, b, b.cfg))
		}
		full := fmt.Sprintf("seedseq blocks=[%s] %s", strings.Join(bdesc, " "), strings.Join(cdesc, " "))
		// reference selections, from the reference seeds (before the code's seed function is called at all)
		for _, b := range blocks {
			b.refSel = c29Run(t, chains[b.cfg], b.ref, full).clone()
			if err := c29WellFormed(chains[b.cfg], b.refSel); err != nil {
				t.Fatalf("selection from the reference seed %x is malformed: %v; %s", b.ref[:8], err, full)
			}
		}
		// request order: the blocks as generated, then a generated permutation, then every block once more
		// after all the others (last pass: reverse order), some requests on a freshly built equal block object
		var order []int
		order = append(order, seqInts(len(blocks))...)
		order = append(order, rapid.Permutation(seqInts(len(blocks))).Draw(t, "secondPass")...)
		for i := len(blocks) - 1; i >= 0; i-- {
			order = append(order, i)
		}
		forkAdjacent, sameInputsAdjacent := false, false
		var odesc []string
		for n, i := range order {
			b := blocks[i]
			obj := b.blk
			if n >= len(blocks) && rapid.IntRange(0, 3).Draw(t, "rebuild") == 0 {
				obj = b.build()
			}
			var got vconfig.VRFValue
			func() {
				defer func() {
					if p := recover(); p != nil {
						t.Fatalf("getParticipantSelectionSeed panicked (%v) on block %d; %s", p, i, full)
					}
				}()
				got = vbft.VerifGetParticipantSelectionSeed(obj)
			}()
			odesc = append(odesc, fmt.Sprint(i))
			if !reflect.DeepEqual(obj, b.build()) {
				t.Fatalf("getParticipantSelectionSeed modified block %d; %s", i, full)
			}
			sel := c29Run(t, chains[b.cfg], got, full).clone()
			if got != b.ref {
				prev := "nothing in this case (earlier cases of this process requested the seeds of other blocks)"
				if n > 0 {
					prev = fmt.Sprintf("block %d %v (its seed: %x)", order[n-1], blocks[order[n-1]], blocks[order[n-1]].ref[:8])
				}
				t.Fatalf("request #%d (order %s): the seed of block %d %v is %x, but sha512(sha512(json(height+1=%d, proposer=%d, vrf value))) = %x; the request before it was for %s; selection from the returned seed {%v}, from the derived seed {%v}: the seed (and the round's participants) must be a function of the block alone, not of the requests made before; %s",
					n, strings.Join(odesc, ","), i, b, got[:8], b.height+1, b.proposer, b.ref[:8], prev, sel, b.refSel, full)
			}
			if !reflect.DeepEqual(sel, b.refSel) {
				t.Fatalf("request #%d: selection from the seed of block %d is {%v}, from the reference seed {%v}; %s", n, i, sel, b.refSel, full)
			}
			if n > 0 {
				pb := blocks[order[n-1]]
				if b.forkOf(pb) {
					forkAdjacent = true
				}
				if pb != b && pb.ref == b.ref {
					sameInputsAdjacent = true
				}
			}
		}
		// classification
		seeds := map[vconfig.VRFValue]bool{}
		sels := map[string]bool{}
		forkPair, sameInputs := false, false
		for i, b := range blocks {
			seeds[b.ref] = true
			sels[fmt.Sprintf("cfg%d %v", b.cfg, b.refSel)] = true
			for _, o := range blocks[:i] {
				if b.forkOf(o) {
					forkPair = true
				}
				if o.ref == b.ref {
					sameInputs = true
				}
			}
		}
		if forkPair {
			ev.Class("seedseq:fork-pair")
		}
		if forkAdjacent {
			ev.Class("seedseq:fork-requested-right-after-sibling")
		}
		if sameInputs {
			ev.Class("seedseq:same-inputs-other-fields")
		}
		if sameInputsAdjacent {
			ev.Class("seedseq:same-inputs-requested-back-to-back")
		}
		if len(seeds) > 1 {
			ev.Class("seedseq:different-seeds")
		}
		if len(sels) > 1 {
			ev.Class("seedseq:different-selections")
		}
		ev.ClassN("seedseq:requests", int64(len(order)))
		ev.Case(forkAdjacent && len(seeds) > 1, shortDesc(full))
	})
}

// dedupFill makes idx a list of `n` distinct values != MaxUint32 (keeping order), adding values of
// residue class `res` mod 4 when duplicates had to be dropped.
func dedupFill(idx []uint32, n int, res uint32) []uint32 {
	seen := map[uint32]bool{}
	out := make([]uint32, 0, n)
	for _, x := range idx {
		if x != math.MaxUint32 && !seen[x] && len(out) < n {
			seen[x] = true
			out = append(out, x)
		}
	}
	for next := uint32(9000)*4 + res; len(out) < n; next += 4 {
		if !seen[next] {
			seen[next] = true
			out = append(out, next)
		}
	}
	return out
}

func seqInts(n int) []int {
	out := make([]int, n)
	for i := range out {
		out[i] = i
	}
	return out
}
