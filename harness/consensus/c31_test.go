package consensus

// C31 Commit is declared only with a verifiable two-thirds signer quorum.
//
// The check drives a real BlockPool (vbft.VerifPool: Intake mirrors Server.run's receive path —
// msg.Verify with the key of the peer the message came from, then newBlockProposal /
// newBlockEndorsement / newBlockCommitment) with generated histories of proposal / endorse / commit
// messages from N-F honest and F <= C faulty peers, and asks commitDone after every message.
//
// Oracle (independent of the implementation's counting): whenever commitDone reports (P, _, true),
// V := number of distinct configuration peers i for which the pool HOLDS a signature attributed to
// i for proposer P (EndorseSigs[i], commit messages' CommitterSig / EndorsersSig[i] / ProposerSig,
// P's proposal signatures) that verifies under i's public key over P's block hash or empty-block
// hash, and V must be >= N-(N-1)/3. Only BLOCK signatures count: the optional cross-chain fields of
// the messages (c31_optfields_test.go) are generated for honest and faulty senders but never enter V.

import (
	"encoding/json"
	"fmt"
	"math"
	"sort"
	"strings"
	"testing"

	"github.com/ontio/ontology/common"
	"github.com/ontio/ontology/consensus/vbft"
	vconfig "github.com/ontio/ontology/consensus/vbft/config"
	"github.com/ontio/ontology/core/types"
	"pgregory.net/rapid"

	"verifharness/internal/fix"
	"verifharness/internal/harn"
)

const (
	c31KeyEndorserSigs = "unverified-endorser-sigs-in-commit-msg"
	c31KeySender       = "msg-signer-field-not-bound-to-sender"
	c31KeyHash         = "signed-hash-not-bound-to-proposal"
	c31KeyProposer     = "proposer-counted-unconditionally"
	c31Blk             = uint32(5)
)

const c31Rule = "one height, N in {4,7,10}, C=(N-1)/3, 0..C faulty peers (one history in four is an empty-block round: 80% of the honest endorse/commit messages are for the EMPTY block, so more than C commit-for-empty messages occur); histories of up to 3N+6 messages fed in generated order: proposals (2-3 proposers, one equivocating variant), honest endorse/commit messages with genuine signatures over the named proposal's (empty-)block hash and EndorsersSig copied from genuine endorsements already in the history, faulty commit/endorse messages with arbitrary claimed endorser indices (members, the proposer, itself, non-members) and signatures (garbage, empty, genuine, copied from another proposal), a Committer/Endorser field that differs from the sending peer, a signed hash that is not the named proposal's, badly signed messages (rejected at intake), duplicates; commitDone evaluated after every message; non-trivial = history in which at least one forged claim passed intake and which ends with the verifiable-signer count of some proposer within one of the quorum; distinct = different message sequence." + c31OptRule

type c31Prop struct {
	proposer       uint32
	variant        int
	msg            *vbft.VerifProposalMsg
	msgCCM         *vbft.VerifProposalMsg // the same blocks, carrying the round's cross-chain message signed by the proposer
	hBlock, hEmpty common.Uint256
}

type c31Env struct {
	n, c, q int
	peers   []*fix.ZooKey // peers[i] has consensus index i+1
	chain   *vconfig.ChainConfig
	part    *vbft.BlockParticipantConfig
	props   []*c31Prop
	ccm     *types.CrossChainMsg // the round's cross-chain message (content only; every proposer signs its own copy)
	ccmHash common.Uint256
}

func (e *c31Env) key(idx uint32) *fix.ZooKey {
	if idx >= 1 && int(idx) <= e.n {
		return e.peers[idx-1]
	}
	return nil
}

func newC31Env(n int) *c31Env { return newPoolEnv(n, (n-1)/3) }

// newPoolEnv builds the configuration, participant sets and signed proposals for a VerifPool with
// n peers and fault bound c.
func newPoolEnv(n, c int) *c31Env {
	fix.Quiet()
	e := &c31Env{n: n, c: c}
	e.q = n - (n-1)/3
	e.peers = fix.P256(n)
	var pcs []*vconfig.PeerConfig
	var table []uint32
	for i, p := range e.peers {
		pcs = append(pcs, &vconfig.PeerConfig{Index: uint32(i + 1), ID: pubHex(p.PublicKey)})
	}
	for r := 0; r < 4; r++ {
		for i := range e.peers {
			table = append(table, uint32((i*3+r)%n+1))
		}
	}
	e.chain = &vconfig.ChainConfig{Version: 1, View: 1, N: uint32(n), C: uint32(e.c), Peers: pcs, PosTable: table}
	var vrf vconfig.VRFValue
	for i := range vrf {
		vrf[i] = byte(37*i + 11)
	}
	e.part = &vbft.BlockParticipantConfig{BlockNum: c31Blk, Vrf: vrf, ChainConfig: e.chain}
	e.part.Proposers, e.part.Endorsers, e.part.Committers = vbft.VerifCalcParticipantPeers(e.part, e.chain)
	e.ccm = &types.CrossChainMsg{Version: 0, Height: c31Blk - 1}
	e.ccm.StatesRoot[0], e.ccm.StatesRoot[31] = 0xcc, byte(n)
	e.ccmHash = e.ccm.Hash()
	// proposals: the first up to three proposers, plus an equivocating second variant of the first
	np := len(e.part.Proposers)
	if np > 3 {
		np = 3
	}
	for i := 0; i < np; i++ {
		e.props = append(e.props, e.mkProposal(e.part.Proposers[i], 0))
	}
	e.props = append(e.props, e.mkProposal(e.part.Proposers[0], 1))
	return e
}

func (e *c31Env) mkProposal(proposer uint32, variant int) *c31Prop {
	info := &vconfig.VbftBlockInfo{Proposer: proposer, VrfValue: []byte{byte(variant), 1}, VrfProof: []byte{2}, LastConfigBlockNum: 0}
	payload, _ := json.Marshal(info)
	mk := func(salt uint64) *types.Block {
		h := &types.Header{Version: 0, Timestamp: 1600000000 + uint32(variant), Height: c31Blk, ConsensusData: salt, ConsensusPayload: payload}
		h.PrevBlockHash[0] = 0x31
		hh := h.Hash()
		h.SigData = [][]byte{signHash(e.key(proposer), hh)}
		return &types.Block{Header: h}
	}
	blk := mk(uint64(proposer)*100 + uint64(variant)*10 + 1)
	empty := mk(uint64(proposer)*100 + uint64(variant)*10 + 2)
	p := &c31Prop{proposer: proposer, variant: variant, hBlock: blk.Hash(), hEmpty: empty.Hash()}
	p.msg = &vbft.VerifProposalMsg{Block: &vbft.Block{Block: blk, EmptyBlock: empty, Info: info},
		BlockProposerSig: blk.Header.SigData[0], EmptyBlockProposerSig: empty.Header.SigData[0]}
	ccm := &types.CrossChainMsg{Version: e.ccm.Version, Height: e.ccm.Height, StatesRoot: e.ccm.StatesRoot,
		SigData: [][]byte{signHash(e.key(proposer), e.ccmHash)}}
	p.msgCCM = &vbft.VerifProposalMsg{Block: &vbft.Block{Block: blk, EmptyBlock: empty, Info: info, CrossChainMsg: ccm},
		BlockProposerSig: blk.Header.SigData[0], EmptyBlockProposerSig: empty.Header.SigData[0]}
	return p
}

// hashesOf: every block / empty-block hash the harness ever created for proposer p.
func (e *c31Env) hashesOf(p uint32) []common.Uint256 {
	var out []common.Uint256
	for _, pr := range e.props {
		if pr.proposer == p {
			out = append(out, pr.hBlock, pr.hEmpty)
		}
	}
	return out
}

// ---------------------------------------------------------------------------------------------
// a running history

type c31Sent struct {
	sender uint32
	hash   common.Uint256
	sigOK  bool // the block signature verifies under the SENDER's key over the hash the message names
}

type c31Hist struct {
	e        *c31Env
	pool     *vbft.VerifPool
	faulty   map[uint32]bool
	log      []string
	commitBy map[*vbft.VerifCommitMsg]uint32 // accepted commit message -> sending peer
	// accepted commit message -> its CommitterSig verifies under the SENDER's key over CommitBlockHash
	// (what intake is supposed to guarantee; the known-finding recognisers rely on it)
	commitSigOK map[*vbft.VerifCommitMsg]bool
	ccmRound    bool               // honest messages of this history carry genuine cross-chain fields
	cls         []string           // optional-field classes of the faulty messages of this history
	badOpt      int                // faulty messages with an invalid block signature or invalid cross-chain field
	endBySig    map[string]c31Sent // accepted endorse message signature -> sender, claimed hash
	// genuine endorsements produced so far: (proposer,forEmpty) -> endorser -> sig
	endorsed map[string]map[uint32][]byte
	// signatures honest peers produced in this history (may be replayed by faulty peers)
	honestSigs   []c31HonestSig
	hasEndorsed  map[uint32]bool
	hasCommitted map[uint32]bool
	forgedIn     int // forged claims that passed intake
	rejected     int
	all          []func() error // re-sendable intakes (duplicates)
}

type c31HonestSig struct {
	peer uint32
	hash common.Uint256
	sig  []byte
}

func (e *c31Env) newHist(faulty map[uint32]bool) *c31Hist {
	self := uint32(e.n) // the observing node is the last peer
	pool, err := vbft.NewVerifPool(self, e.chain, e.part)
	if err != nil {
		panic(err)
	}
	return &c31Hist{e: e, pool: pool, faulty: faulty, commitBy: map[*vbft.VerifCommitMsg]uint32{}, commitSigOK: map[*vbft.VerifCommitMsg]bool{}, endBySig: map[string]c31Sent{},
		endorsed: map[string]map[uint32][]byte{}, hasEndorsed: map[uint32]bool{}, hasCommitted: map[uint32]bool{}}
}

func ekey(p uint32, empty bool) string { return fmt.Sprintf("%d/%v", p, empty) }

func (h *c31Hist) note(f string, a ...interface{}) { h.log = append(h.log, fmt.Sprintf(f, a...)) }

func (h *c31Hist) intake(from uint32, m vbft.ConsensusMsg) (err error) {
	defer func() {
		if r := recover(); r != nil {
			err = fmt.Errorf("PANIC %v", r)
		}
	}()
	return h.pool.Intake(from, m)
}

func (h *c31Hist) sendProposal(p *c31Prop) error {
	if h.ccmRound {
		return h.sendProposalMsg(p, p.msgCCM, "+ccm")
	}
	return h.sendProposalMsg(p, p.msg, "")
}

func okStr(err error) string {
	if err != nil {
		if strings.HasPrefix(err.Error(), "PANIC") {
			return ":" + err.Error()
		}
		return ":rej"
	}
	return ""
}

// sendEndorse delivers an endorse message. named = Endorser field, from = sending peer, signer =
// whose key signs `hash` (nil = use raw), raw = explicit signature bytes.
func (h *c31Hist) sendEndorse(from, named, proposer uint32, empty bool, hash common.Uint256, sig []byte, tag string) error {
	m := &vbft.VerifEndorseMsg{Endorser: named, EndorsedProposer: proposer, BlockNum: c31Blk, EndorsedBlockHash: hash, EndorseForEmpty: empty, EndorserSig: sig}
	return h.sendEndorseMsg(from, m, tag)
}

func (h *c31Hist) sendEndorseMsg(from uint32, m *vbft.VerifEndorseMsg, tag string) error {
	err := h.intake(from, m)
	h.note("end%s(from=%d as=%d for=%d e=%v h=%x)%s", tag, from, m.Endorser, m.EndorsedProposer, m.EndorseForEmpty, m.EndorsedBlockHash[:3], okStr(err))
	if err == nil {
		k := h.e.key(from)
		h.endBySig[string(m.EndorserSig)] = c31Sent{from, m.EndorsedBlockHash, k != nil && sigOK(k.PublicKey, m.EndorsedBlockHash, m.EndorserSig)}
	}
	return err
}

func (h *c31Hist) sendCommit(from uint32, m *vbft.VerifCommitMsg, tag string) error {
	err := h.intake(from, m)
	var es []string
	for _, k := range sortedKeys(m.EndorsersSig) {
		es = append(es, fmt.Sprintf("%d:%s", k, sigTag(m.EndorsersSig[k])))
	}
	h.note("com%s(from=%d as=%d for=%d e=%v h=%x E={%s})%s", tag, from, m.Committer, m.BlockProposer, m.CommitForEmpty, m.CommitBlockHash[:3], strings.Join(es, " "), okStr(err))
	if err == nil {
		h.commitBy[m] = from
		k := h.e.key(from)
		h.commitSigOK[m] = k != nil && sigOK(k.PublicKey, m.CommitBlockHash, m.CommitterSig)
	}
	return err
}

func sigTag(s []byte) string {
	if len(s) == 0 {
		return "nil"
	}
	if len(s) < 40 {
		return fmt.Sprintf("g%x", s[:min(3, len(s))])
	}
	return fmt.Sprintf("s%x", s[len(s)-2:])
}

func sortedKeys(m map[uint32][]byte) []uint32 {
	out := make([]uint32, 0, len(m))
	for k := range m {
		out = append(out, k)
	}
	sort.Slice(out, func(i, j int) bool { return out[i] < out[j] })
	return out
}

// ---------------------------------------------------------------------------------------------
// oracle

type c31Verdict struct {
	P          uint32
	V          int      // distinct peers with a held signature that verifies over one of P's hashes
	verifiable []uint32 // sorted
	// peers that are NOT verifiable but are claimed as signers for P, by the way they are claimed
	byEndorserSig []uint32 // named in a commit message's EndorsersSig
	bySender      []uint32 // Committer/Endorser field of a message that another peer sent and signed
	byHash        []uint32 // own message, own valid signature, but over a hash that is not P's
	commitPath    bool     // getCommitConsensus alone declares P
	proposerNamed bool     // P appears among the counted signers of the commit messages
	proposerOK    bool
}

func (h *c31Hist) verdict(P uint32) c31Verdict {
	e := h.e
	cand := h.pool.Candidate(c31Blk)
	v := c31Verdict{P: P}
	hashes := e.hashesOf(P)
	attributed := map[uint32][][]byte{}
	add := func(i uint32, s []byte) {
		if e.key(i) != nil && len(s) > 0 {
			attributed[i] = append(attributed[i], s)
		}
	}
	endClaim, sendClaim, hashClaim := map[uint32]bool{}, map[uint32]bool{}, map[uint32]bool{}
	inHashes := func(x common.Uint256) bool {
		for _, y := range hashes {
			if x == y {
				return true
			}
		}
		return false
	}
	if cand != nil {
		for i, sigs := range cand.EndorseSigs {
			for _, s := range sigs {
				if s.EndorsedProposer != P {
					continue
				}
				add(i, s.Signature)
				if rec, ok := h.endBySig[string(s.Signature)]; ok && rec.sigOK {
					if rec.sender != i {
						sendClaim[i] = true
					} else if !inHashes(rec.hash) {
						hashClaim[i] = true
					}
				}
			}
		}
		for _, m := range cand.CommitMsgs {
			if m.BlockProposer != P {
				continue
			}
			add(m.Committer, m.CommitterSig)
			add(P, m.ProposerSig)
			// the two recognisers below describe messages that carry the SENDER's valid block
			// signature (under a foreign Committer field / over a foreign hash); a message whose
			// block signature is not the sender's at all is neither
			if from, ok := h.commitBy[m]; !ok || h.commitSigOK[m] {
				if ok && from != m.Committer {
					sendClaim[m.Committer] = true
				} else if !inHashes(m.CommitBlockHash) {
					hashClaim[m.Committer] = true
				}
			}
			if m.Committer == P {
				v.proposerNamed = true
			}
			for i, s := range m.EndorsersSig {
				add(i, s)
				endClaim[i] = true
				if i == P {
					v.proposerNamed = true
				}
			}
		}
		for _, p := range cand.Proposals {
			if p.Block.Info.Proposer == P {
				add(P, p.BlockProposerSig)
				add(P, p.EmptyBlockProposerSig)
			}
		}
		cp, _ := vbft.VerifGetCommitConsensus(cand.CommitMsgs, e.c, e.n)
		v.commitPath = cp == P
	}
	ok := map[uint32]bool{}
	for i, sigs := range attributed {
		pk := e.key(i).PublicKey
	outer:
		for _, s := range sigs {
			for _, hh := range hashes {
				if sigOK(pk, hh, s) {
					ok[i] = true
					break outer
				}
			}
		}
	}
	v.verifiable = sortedU32(ok)
	v.V = len(ok)
	v.proposerOK = ok[P]
	// claimed-but-unverifiable signers, members or not (the code counts any claimed index)
	for _, i := range sortedU32(endClaim) {
		if !ok[i] {
			v.byEndorserSig = append(v.byEndorserSig, i)
		}
	}
	for _, i := range sortedU32(sendClaim) {
		if !ok[i] {
			v.bySender = append(v.bySender, i)
		}
	}
	for _, i := range sortedU32(hashClaim) {
		if !ok[i] {
			v.byHash = append(v.byHash, i)
		}
	}
	return v
}

type c31Known struct{ endorserSigs, sender, hash, proposer bool }

// explained: would the verifiable count reach the quorum if the claims that the LISTED known
// findings let through were genuine? Only then is a sub-quorum commit excluded.
func (v c31Verdict) explained(k c31Known, q int) bool {
	credit := map[uint32]bool{}
	if k.endorserSigs {
		for _, i := range v.byEndorserSig {
			credit[i] = true
		}
	}
	if k.sender {
		for _, i := range v.bySender {
			credit[i] = true
		}
	}
	if k.hash {
		for _, i := range v.byHash {
			credit[i] = true
		}
	}
	total := v.V + len(credit)
	if k.proposer && v.commitPath && (v.proposerNamed || (!v.proposerOK && !credit[v.P])) {
		total++
	}
	return total >= q
}

func (v c31Verdict) String() string {
	return fmt.Sprintf("proposer %d: verifiable signers %v (V=%d); unverifiable claims: via commit-msg EndorsersSig %v, via Committer/Endorser field of another sender %v, via own signature over a foreign hash %v; commitPath=%v proposerNamed=%v proposerVerifiable=%v",
		v.P, v.verifiable, v.V, v.byEndorserSig, v.bySender, v.byHash, v.commitPath, v.proposerNamed, v.proposerOK)
}

// check asks commitDone and applies the oracle. Returns (done, excluded, violation message).
func (h *c31Hist) check(k c31Known) (bool, bool, string) {
	P, forEmpty, done := h.pool.CommitDone(c31Blk, uint32(h.e.c), uint32(h.e.n))
	if !done {
		return false, false, ""
	}
	v := h.verdict(P)
	if v.V >= h.e.q {
		return true, false, ""
	}
	if v.explained(k, h.e.q) {
		return true, true, ""
	}
	return true, false, fmt.Sprintf("commitDone(blk=%d,C=%d,N=%d) = (proposer %d, forEmpty=%v, done=true) but only %d < %d distinct peers have a held, verifiable signature for that proposal. %s. History: %s",
		c31Blk, h.e.c, h.e.n, P, forEmpty, v.V, h.e.q, v.String(), strings.Join(h.log, " ; "))
}

// ---------------------------------------------------------------------------------------------
// deterministic witnesses of the four root causes (N=7, C=2, quorum 5)

type c31Witness struct {
	key, what string
	run       func(h *c31Hist)
}

func (e *c31Env) honestEndorse(h *c31Hist, who uint32, p *c31Prop, empty bool) {
	hash := p.hBlock
	if empty {
		hash = p.hEmpty
	}
	sig := signHash(e.key(who), hash)
	m := &vbft.VerifEndorseMsg{Endorser: who, EndorsedProposer: p.proposer, BlockNum: c31Blk, EndorsedBlockHash: hash, EndorseForEmpty: empty, EndorserSig: sig}
	h.honestCCMEndorse(m, who)
	if h.sendEndorseMsg(who, m, "") == nil {
		k := ekey(p.proposer, empty)
		if h.endorsed[k] == nil {
			h.endorsed[k] = map[uint32][]byte{}
		}
		h.endorsed[k][who] = sig
		h.honestSigs = append(h.honestSigs, c31HonestSig{who, hash, sig})
	}
}

func (e *c31Env) commitMsg(named uint32, signer uint32, p *c31Prop, empty bool, hash common.Uint256, end map[uint32][]byte) *vbft.VerifCommitMsg {
	psig := p.msg.BlockProposerSig
	if empty {
		psig = p.msg.EmptyBlockProposerSig
	}
	return &vbft.VerifCommitMsg{Committer: named, BlockProposer: p.proposer, BlockNum: c31Blk, CommitBlockHash: hash, CommitForEmpty: empty,
		ProposerSig: psig, EndorsersSig: end, CommitterSig: signHash(e.key(signer), hash)}
}

// others returns n peers that are neither the proposer of p nor in skip, ascending.
func (e *c31Env) others(p *c31Prop, n int, skip ...uint32) []uint32 {
	var out []uint32
	for i := uint32(1); int(i) <= e.n && len(out) < n; i++ {
		bad := i == p.proposer
		for _, s := range skip {
			bad = bad || i == s
		}
		if !bad {
			out = append(out, i)
		}
	}
	return out
}

func c31Witnesses(e *c31Env) []c31Witness {
	p0 := e.props[0]
	other := e.props[1]
	return []c31Witness{
		{c31KeyEndorserSigs, "proposal delivered; ONE commit message from peer f (own signature genuine) whose EndorsersSig names the six other peers with the bytes \"garbage\"", func(h *c31Hist) {
			h.sendProposal(p0)
			f := e.others(p0, 1)[0]
			end := map[uint32][]byte{}
			for i := uint32(1); int(i) <= e.n; i++ {
				if i != f {
					end[i] = []byte("garbage")
				}
			}
			h.sendCommit(f, e.commitMsg(f, f, p0, false, p0.hBlock, end), "!")
		}},
		{c31KeySender, "proposal delivered; peer f sends four commit messages signed with its own key whose Committer field names f and three other peers (no endorser claims)", func(h *c31Hist) {
			h.sendProposal(p0)
			o := e.others(p0, 4)
			f := o[0]
			for _, named := range o {
				h.sendCommit(f, e.commitMsg(named, f, p0, false, p0.hBlock, nil), "!")
			}
		}},
		{c31KeyHash, "proposal delivered; honest e1 endorses, honest c1 commits with {e1}; faulty f1 and f2 each send a commit message naming that proposer but carrying (and signing) the block hash of ANOTHER proposal", func(h *c31Hist) {
			h.sendProposal(p0)
			o := e.others(p0, 4, other.proposer)
			e.honestEndorse(h, o[0], p0, false)
			h.sendCommit(o[1], e.commitMsg(o[1], o[1], p0, false, p0.hBlock, map[uint32][]byte{o[0]: signHash(e.key(o[0]), p0.hBlock)}), "")
			for _, f := range o[2:4] {
				h.sendCommit(f, e.commitMsg(f, f, p0, false, other.hBlock, nil), "!")
			}
		}},
		{c31KeyProposer, "proposal delivered; honest e1, e2 endorse; one commit message from f with genuine EndorsersSig {e1, e2} plus the proposer's own genuine block signature under the proposer's index: 4 distinct genuine signers, proposer counted twice", func(h *c31Hist) {
			h.sendProposal(p0)
			o := e.others(p0, 3)
			e.honestEndorse(h, o[0], p0, false)
			e.honestEndorse(h, o[1], p0, false)
			end := map[uint32][]byte{o[0]: signHash(e.key(o[0]), p0.hBlock), o[1]: signHash(e.key(o[1]), p0.hBlock), p0.proposer: p0.msg.BlockProposerSig}
			h.sendCommit(o[2], e.commitMsg(o[2], o[2], p0, false, p0.hBlock, end), "!")
		}},
	}
}

// c31Replay runs one witness on a fresh pool with nothing excluded; it "still fails" when
// commitDone is declared below the verifiable quorum.
func c31Replay(e *c31Env, w c31Witness) (bool, string) {
	h := e.newHist(nil)
	w.run(h)
	done, _, msg := h.check(c31Known{})
	return done && msg != "", msg
}

var c31Env7 *c31Env

func c31KnownSet() c31Known {
	if c31Env7 == nil {
		c31Env7 = newC31Env(7)
	}
	var k c31Known
	for _, w := range c31Witnesses(c31Env7) {
		fails, _ := c31Replay(c31Env7, w)
		on := harn.Known("C31", w.key, fails)
		switch w.key {
		case c31KeyEndorserSigs:
			k.endorserSigs = on
		case c31KeySender:
			k.sender = on
		case c31KeyHash:
			k.hash = on
		case c31KeyProposer:
			k.proposer = on
		}
	}
	return k
}

// c31WitnessTest replays the deterministic witness of one root cause (each in its own Test function,
// i.e. its own process and replay file). A witness that still reproduces and is not a listed known
// finding is a violation of C31.
func c31WitnessTest(t *testing.T, key string) {
	ev := harn.For("C31").Rule(c31Rule)
	e := newC31Env(7)
	for _, w := range c31Witnesses(e) {
		if w.key != key {
			continue
		}
		fails, msg := c31Replay(e, w)
		ev.Case(true, "witness "+w.key+": "+w.what)
		if !fails {
			ev.Class("witness:" + w.key + ":no-longer-fails")
			return
		}
		ev.Class("witness:" + w.key + ":fails")
		if harn.Known("C31", w.key, true) {
			ev.Excluded()
			return
		}
		harn.Violation(t, "C31", map[string]string{"witness": w.key, "history": w.what}, "[%s] %s", w.key, msg)
	}
}

func TestC31_WitnessEndorserSigs(t *testing.T)  { c31WitnessTest(t, c31KeyEndorserSigs) }
func TestC31_WitnessSenderField(t *testing.T)   { c31WitnessTest(t, c31KeySender) }
func TestC31_WitnessForeignHash(t *testing.T)   { c31WitnessTest(t, c31KeyHash) }
func TestC31_WitnessProposerPlus1(t *testing.T) { c31WitnessTest(t, c31KeyProposer) }

// ---------------------------------------------------------------------------------------------
// generated histories

func c31History(t *testing.T, n int, quick, thorough int) {
	ev := harn.For("C31").Rule(c31Rule)
	ev.Assume("signatures are ECDSA P-256 over the 32-byte block hash as in constructEndorseMsg/constructCommitMsg; in a cross-chain round every honest peer signs the same cross-chain message hash (the cross-states root of the previous height)")
	ev.Floor("hist:cross-chain-round:done-with-quorum", "hist:cross-chain-round", 0.10)
	ev.Floor("hist:done-with-quorum", "", 0.12)
	ev.Floor("hist:forged-claim-passed-intake", "", 0.30)
	known := c31KnownSet()
	e := newC31Env(n)
	harn.Check(t, quick, thorough, func(t *rapid.T) {
		// faulty set
		nf := rapid.SampledFrom([]int{0, e.c, e.c, e.c, 1}).Draw(t, "nFaulty")
		if nf > e.c {
			nf = e.c
		}
		perm := rapid.Permutation(seqU32(e.n)).Draw(t, "perm")
		faulty := map[uint32]bool{}
		var fl, hl []uint32
		for i, p := range perm {
			if i < nf {
				faulty[p] = true
				fl = append(fl, p)
			} else {
				hl = append(hl, p)
			}
		}
		sort.Slice(fl, func(i, j int) bool { return fl[i] < fl[j] })
		sort.Slice(hl, func(i, j int) bool { return hl[i] < hl[j] })
		h := e.newHist(faulty)
		h.note("N=%d faulty=%v", n, fl)
		main := e.props[rapid.SampledFrom([]int{0, 0, 0, 1}).Draw(t, "main")]
		steps := rapid.IntRange(3, 3*n+6).Draw(t, "steps")
		// share (in tenths) of honest endorsements / commits that are for the proposal's EMPTY block:
		// one history in four is a round that falls back to the empty block
		emptyBias := rapid.SampledFrom([]int{1, 1, 1, 8}).Draw(t, "emptyBias")
		h.ccmRound = rapid.IntRange(0, 2).Draw(t, "ccmRound") == 0
		h.note("emptyBias=%d ccmRound=%v", emptyBias, h.ccmRound)
		excludedCase, doneCase := false, false
		pickProp := func(label string) *c31Prop {
			if rapid.IntRange(0, 9).Draw(t, label+"Main") < 7 {
				return main
			}
			return e.props[rapid.IntRange(0, len(e.props)-1).Draw(t, label)]
		}
		for s := 0; s < steps && !doneCase; s++ {
			kind := rapid.IntRange(0, 99).Draw(t, "kind")
			switch {
			case kind < 8: // a proposal arrives
				p := pickProp("prop")
				if p.variant == 1 && !faulty[p.proposer] {
					p = e.props[0] // only a faulty proposer equivocates
				}
				if faulty[p.proposer] && rapid.Bool().Draw(t, "forgedProposal") {
					m, bs, ccm := h.forgedProposal(t, p, 4, 4)
					err := h.sendProposalMsg(p, m, fmt.Sprintf("![bs=%s,ccm=%s]", bs, ccm))
					h.optClass(optProposal, bs, ccm, err == nil)
				} else {
					h.sendProposal(p)
				}
			case kind < 38 || len(fl) == 0 && kind < 55: // honest endorsement
				var cands []uint32
				for _, x := range hl {
					if !h.hasEndorsed[x] {
						cands = append(cands, x)
					}
				}
				if len(cands) == 0 {
					continue
				}
				who := rapid.SampledFrom(cands).Draw(t, "endorser")
				p := pickProp("eprop")
				if p.variant == 1 || p.proposer == who {
					p = main
				}
				if p.proposer == who {
					continue
				}
				empty := rapid.IntRange(0, 9).Draw(t, "empty") < emptyBias
				h.hasEndorsed[who] = true
				e.honestEndorse(h, who, p, empty)
			case kind < 62 || len(fl) == 0: // honest commit bundling genuine endorsements seen so far
				var cands []uint32
				for _, x := range hl {
					if !h.hasCommitted[x] {
						cands = append(cands, x)
					}
				}
				if len(cands) == 0 {
					continue
				}
				who := rapid.SampledFrom(cands).Draw(t, "committer")
				p := pickProp("cprop")
				if p.variant == 1 || p.proposer == who {
					p = main
				}
				if p.proposer == who {
					continue
				}
				empty := rapid.IntRange(0, 9).Draw(t, "cempty") < emptyBias
				hash := p.hBlock
				if empty {
					hash = p.hEmpty
				}
				end := map[uint32][]byte{}
				seen := h.endorsed[ekey(p.proposer, empty)]
				for _, i := range sortedKeys(seen) {
					if i != who && rapid.IntRange(0, 9).Draw(t, "incl") < 8 {
						end[i] = seen[i]
					}
				}
				h.hasCommitted[who] = true
				m := e.commitMsg(who, who, p, empty, hash, end)
				m.ProposerSig = h.heldProposerSig(p, empty, m.ProposerSig)
				h.honestCCMCommit(m, who)
				if h.sendCommit(who, m, "") == nil {
					h.honestSigs = append(h.honestSigs, c31HonestSig{who, hash, m.CommitterSig})
				}
			case kind < 82: // forged commit from a faulty peer
				f := rapid.SampledFrom(fl).Draw(t, "fc")
				p := pickProp("fprop")
				named := f
				if rapid.IntRange(0, 9).Draw(t, "imp") < 3 {
					named = uint32(rapid.IntRange(1, n+1).Draw(t, "impAs"))
					if int(named) > n {
						named = 1000
					}
				}
				hash := p.hBlock
				switch rapid.IntRange(0, 9).Draw(t, "fhash") {
				case 0:
					hash = p.hEmpty
				case 1, 2:
					hash = e.props[(indexOfProp(e, p)+1)%len(e.props)].hBlock
				case 3:
					copy(hash[:], rapid.SliceOfN(rapid.Byte(), 32, 32).Draw(t, "rndHash"))
				}
				end := map[uint32][]byte{}
				ne := rapid.IntRange(0, n).Draw(t, "nClaims")
				for i := 0; i < ne; i++ {
					var idx uint32
					switch rapid.IntRange(0, 11).Draw(t, "claimIdx") {
					case 0:
						idx = p.proposer
					case 1:
						idx = f
					case 2:
						idx = uint32(1000 + rapid.IntRange(0, 3).Draw(t, "nonMember"))
					default:
						idx = uint32(rapid.IntRange(1, n).Draw(t, "member"))
					}
					end[idx] = h.forgedSig(t, idx, p, hash, f)
				}
				m := e.commitMsg(named, f, p, hash == p.hEmpty, hash, end)
				switch rapid.IntRange(0, 11).Draw(t, "ownSig") {
				case 0:
					m.CommitterSig = []byte("garbage")
				case 1:
					m.CommitterSig = signHash(e.key(f), p.hEmpty) // valid signature, other hash than claimed (unless claimed)
				}
				if rapid.IntRange(0, 5).Draw(t, "psig") == 0 {
					m.ProposerSig = []byte("garbage")
				}
				forged := named != f || (hash != p.hBlock && hash != p.hEmpty)
				for _, idx := range sortedKeys(end) {
					if k := e.key(idx); k == nil || !(sigOK(k.PublicKey, p.hBlock, end[idx]) || sigOK(k.PublicKey, p.hEmpty, end[idx])) {
						forged = true
					}
				}
				// half of the forged commits are first tried with generated optional fields: block
				// signature kind x cross-chain field kind; when that variant is rejected at intake the
				// faulty peer falls back to the plain message
				sent := false
				if rapid.Bool().Draw(t, "optFields") {
					v := *m
					var bs, ccm string
					v.CommitterSig, bs = h.drawBlockSig(t, "own", f, hash, p, 4)
					v.CommitCCMHash, v.CrossChainMsgCommitterSig, ccm = h.drawCCM(t, "own", f, hash, 2, 6)
					if ccm != ccmAbsent && len(end) > 0 && rapid.Bool().Draw(t, "endCcm") {
						v.CrossChainMsgEndorserSig = map[uint32][]byte{}
						for _, idx := range sortedKeys(end) {
							v.CrossChainMsgEndorserSig[idx] = h.forgedSig(t, idx, p, e.ccmHash, f)
						}
					}
					verr := h.sendCommit(f, &v, fmt.Sprintf("![bs=%s,ccm=%s/%x]", bs, ccm, v.CommitCCMHash[:2]))
					h.optClass(optCommit, bs, ccm, verr == nil)
					if verr == nil {
						sent = true
						if forged {
							h.forgedIn++
						}
					} else {
						h.rejected++
					}
				}
				if !sent {
					if h.sendCommit(f, m, "!") == nil {
						if forged {
							h.forgedIn++
						}
					} else {
						h.rejected++
					}
				}
			case kind < 94: // forged endorsement from a faulty peer
				f := rapid.SampledFrom(fl).Draw(t, "fe")
				p := pickProp("feprop")
				named := f
				if rapid.IntRange(0, 9).Draw(t, "eimp") < 4 {
					named = uint32(rapid.IntRange(1, n).Draw(t, "eimpAs"))
				}
				hash := p.hBlock
				switch rapid.IntRange(0, 9).Draw(t, "fehash") {
				case 0, 1, 2:
					hash = e.props[(indexOfProp(e, p)+1)%len(e.props)].hBlock
				case 3:
					copy(hash[:], rapid.SliceOfN(rapid.Byte(), 32, 32).Draw(t, "rndHashE"))
				}
				sig := signHash(e.key(f), hash)
				if rapid.IntRange(0, 9).Draw(t, "ebad") == 0 {
					sig = []byte("garbage")
				}
				forged := named != f || (hash != p.hBlock && hash != p.hEmpty)
				em := &vbft.VerifEndorseMsg{Endorser: named, EndorsedProposer: p.proposer, BlockNum: c31Blk, EndorsedBlockHash: hash, EndorserSig: sig}
				tag := "!"
				// half of the forged endorsements are first tried with generated optional fields
				// (fall back to the plain message when rejected at intake)
				eerr := fmt.Errorf("not sent")
				if rapid.Bool().Draw(t, "eOptFields") {
					v := *em
					var bs, ccm string
					v.EndorserSig, bs = h.drawBlockSig(t, "fe", f, hash, p, 4)
					v.CrossChainMsgHash, v.CrossChainMsgEndorserSig, ccm = h.drawCCM(t, "fe", f, hash, 2, 6)
					eerr = h.sendEndorseMsg(f, &v, fmt.Sprintf("![bs=%s,ccm=%s/%x]", bs, ccm, v.CrossChainMsgHash[:2]))
					h.optClass(optEndorse, bs, ccm, eerr == nil)
					if eerr == nil {
						em = &v
						if bs != sigValid {
							forged = true // (only on a tree that lets such a message pass)
						}
					} else {
						h.rejected++
					}
				}
				if eerr != nil {
					eerr = h.sendEndorseMsg(f, em, tag)
				}
				if eerr == nil {
					if forged {
						h.forgedIn++
					}
					if !forged {
						k := ekey(p.proposer, false)
						if h.endorsed[k] == nil {
							h.endorsed[k] = map[uint32][]byte{}
						}
						h.endorsed[k][f] = em.EndorserSig
					}
				} else {
					h.rejected++
				}
			default: // duplicate of an earlier commit message (same committer): dropped or errDupCommit
				cand := h.pool.Candidate(c31Blk)
				if cand == nil || len(cand.CommitMsgs) == 0 {
					continue
				}
				m := cand.CommitMsgs[rapid.IntRange(0, len(cand.CommitMsgs)-1).Draw(t, "dup")]
				cp := *m
				if rapid.Bool().Draw(t, "dupOtherProp") {
					o := e.props[(indexOfPropByProposer(e, m.BlockProposer)+1)%len(e.props)]
					cp.BlockProposer, cp.CommitBlockHash = o.proposer, o.hBlock
					if k := e.key(h.commitBy[m]); k != nil {
						cp.CommitterSig = signHash(k, o.hBlock)
					}
				}
				h.intake(h.commitBy[m], &cp)
				h.note("dup(as=%d)", cp.Committer)
			}
			done, excl, viol := h.check(known)
			if viol != "" {
				t.Fatalf("%s", viol)
			}
			if done {
				doneCase = true
				excludedCase = excl
			}
		}
		// classification of the finished history
		best, bestP := -1, uint32(math.MaxUint32)
		for _, pr := range e.props[:len(e.props)-1] {
			if v := h.verdict(pr.proposer); v.V > best {
				best, bestP = v.V, pr.proposer
			}
		}
		_ = bestP
		if len(fl) > 0 {
			ev.Class("hist:with-faulty-peers")
		}
		if h.forgedIn > 0 {
			ev.Class("hist:forged-claim-passed-intake")
		}
		if h.rejected > 0 {
			ev.Class("hist:some-message-rejected-at-intake")
		}
		switch {
		case excludedCase:
			ev.Excluded()
			ev.Class("hist:done-below-quorum-known")
		case doneCase:
			ev.Class("hist:done-with-quorum")
			if h.forgedIn > 0 {
				ev.Class("hist:done-with-quorum-despite-forgeries")
			}
		default:
			ev.Class("hist:not-done")
			if best >= e.q {
				// liveness is not part of C31; recorded only
				ev.Class("hist:not-done-although-quorum-held")
			}
		}
		ev.Class(fmt.Sprintf("faulty:%d", len(fl)))
		if h.ccmRound {
			ev.Class("hist:cross-chain-round")
			if doneCase && !excludedCase {
				ev.Class("hist:cross-chain-round:done-with-quorum")
			}
		}
		sort.Strings(h.cls)
		for _, c := range h.cls {
			ev.Class(c)
		}
		if emptyBias > 5 {
			ev.Class("hist:empty-block-round")
			if doneCase && !excludedCase {
				ev.Class("hist:empty-block-round:done-with-quorum")
			}
		}
		near := best >= e.q-1 && best <= e.q
		ev.Case(h.forgedIn > 0 && near, shortDesc(strings.Join(h.log, ";")))
	})
}

// forgedSig draws the signature bytes a faulty committer puts under a claimed endorser index.
func (h *c31Hist) forgedSig(t *rapid.T, idx uint32, p *c31Prop, hash common.Uint256, f uint32) []byte {
	e := h.e
	switch rapid.IntRange(0, 9).Draw(t, "sigKind") {
	case 0:
		return nil
	case 1, 2, 3:
		return []byte("garbage")
	case 4:
		return rapid.SliceOfN(rapid.Byte(), 1, 70).Draw(t, "rndSig")
	case 5: // the faulty peer's own signature under somebody else's index
		return signHash(e.key(f), hash)
	case 6, 7: // a signature that peer really produced in this history (any proposal) / any signature of a faulty peer
		if h.faulty[idx] && e.key(idx) != nil {
			return signHash(e.key(idx), hash)
		}
		var own [][]byte
		for _, s := range h.honestSigs {
			if s.peer == idx {
				own = append(own, s.sig)
			}
		}
		if idx == p.proposer {
			own = append(own, p.msg.BlockProposerSig, p.msg.EmptyBlockProposerSig)
		}
		if len(own) == 0 {
			return []byte("garbage")
		}
		return own[rapid.IntRange(0, len(own)-1).Draw(t, "replay")]
	default: // somebody's genuine signature over a different proposal's hash ("copied from another proposal")
		var pool [][]byte
		for _, s := range h.honestSigs {
			if s.hash != hash {
				pool = append(pool, s.sig)
			}
		}
		if len(pool) == 0 {
			return []byte("garbage")
		}
		return pool[rapid.IntRange(0, len(pool)-1).Draw(t, "copied")]
	}
}

func seqU32(n int) []uint32 {
	out := make([]uint32, n)
	for i := range out {
		out[i] = uint32(i + 1)
	}
	return out
}

func indexOfProp(e *c31Env, p *c31Prop) int {
	for i, x := range e.props {
		if x == p {
			return i
		}
	}
	return 0
}

func indexOfPropByProposer(e *c31Env, proposer uint32) int {
	for i, x := range e.props {
		if x.proposer == proposer {
			return i
		}
	}
	return 0
}

func TestC31_HistoriesN4(t *testing.T)  { c31History(t, 4, 1000, 60000) }
func TestC31_HistoriesN7(t *testing.T)  { c31History(t, 7, 800, 50000) }
func TestC31_HistoriesN10(t *testing.T) { c31History(t, 10, 500, 30000) }
