#!/usr/bin/env python3
"""Write seeded/INDEX.md and refresh DESIGN.md §11 from seeded/*/meta.json."""
import json,glob,os,re
ROOT=os.path.dirname(os.path.dirname(os.path.abspath(__file__)))
rows=[];cnt={}
for d in sorted(glob.glob(os.path.join(ROOT,'seeded','C*'))):
    mp=os.path.join(d,'meta.json')
    if not os.path.exists(mp): continue
    m=json.load(open(mp)); k=os.path.basename(d)
    vr=m.get('verif_result',{})
    s=vr.get('status','?'); cnt[s]=cnt.get(s,0)+1
    cl=lambda x,n: (x or '').replace('|','/').replace('\n',' ')[:n]
    rows.append('| %s | %s | %s | %s | %s |'%(k,cl(m.get('summary'),230),cl(m.get('needs_to_manifest'),200),s,cl(vr.get('note'),260)))
hdr='| seed | change | needs to manifest | verdict | note |\n|---|---|---|---|---|\n'
total=sum(cnt.values())
summ='%d seeded changes (two independent rounds; round 2 = `-r2`, written to differ in kind and site from round 1): '%total+', '.join('%d %s'%(v,k) for k,v in sorted(cnt.items()))+'.'
open(os.path.join(ROOT,'seeded','INDEX.md'),'w').write('# Seeded breaking changes\n\n'+summ+'\n\nEach directory holds patch.diff, the author\'s demonstration (fails with the change, passes without), demo.sh and meta.json (incl. verif_result).\n\n'+hdr+'\n'.join(rows)+'\n')
p=os.path.join(ROOT,'DESIGN.md'); s=open(p).read()
sec='''## 11. Seeded-change campaign (which checks catch which changes)

Fresh sub-agents were given only the text of one property (statement, quantifier, anchors) and a
scratch worktree of /repo — nothing from /verif — and asked for a small, realistic change that
breaks the property, still compiles, passes the existing tests, and needs something specific to
manifest (a particular interleaving, crash point, multi-step history, boundary input, or two
cooperating sites), together with a demonstration that fails with the change and passes without it.
I confirmed each one in its worktree (`tools/verify_seed.sh`: the patch equals the worktree diff,
the demonstration fails with and passes without the change, the touched packages build) and then ran
the property's quick check against the changed tree (`VERIF_REPO=<worktree> ./check <id>`). Two
rounds were run for every claimed property; round-2 authors were told what round 1 had changed and
had to pick a different mechanism. Where a check missed a change, the generator or the oracle was
strengthened (never loosened, never special-cased to the seed) until the change was killed in the
quick tier at seeds 1, 2 and 3 while the unchanged tree stayed green; those are marked "caught after
strengthening" with what was added.

'''+summ+'''

'''+hdr+'\n'.join(rows)+'''

What the misses had in common, and what was changed because of them: generators that never produced
the boundary or the history the change needs (whole-balance transfers that delete a state key,
post-execution balance below the fee, contract-level writes in a failed transaction, maps wider than
1024 entries, integer operands near 2^63 next to byte strings, list-count prefixes with nothing
behind them, more than C empty commits, configuration-change headers, out-of-order key headers,
header-first delivery, duplicated signer entries, re-blacklisting life cycles) and oracles that read
the implementation's own records instead of an independent model (the governance "unfrozen" bound).
Two misses needed techniques beyond plain generation: an injected save failure (C38) and a
harness-owned interleaving through the crash-point hook (C42).
'''
if '## 11. Seeded-change campaign' in s:
    s=s[:s.index('## 11. Seeded-change campaign')]+sec
else:
    s=s.rstrip('\n')+'\n\n'+sec
open(p,'w').write(s)
print(summ)
