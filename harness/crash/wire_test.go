package crash

// Wire format between the rapid property (parent) and the crash-isolating worker (child), plus the
// shared deterministic "zoo" both sides derive (keys, addresses, ONT IDs, contract addresses).

import (
	"encoding/hex"
	"encoding/json"
	"fmt"
	"sort"
	"strings"

	"github.com/ontio/ontology-crypto/keypair"
	"github.com/ontio/ontology/account"
	"github.com/ontio/ontology/common"
	nutils "github.com/ontio/ontology/smartcontract/service/native/utils"

	"verifharness/internal/fix"
)

// natCall is one native-contract invocation (= one simulated transaction).
type natCall struct {
	Contract string `json:"c"`           // hex of the 20 address bytes
	Method   string `json:"m"`           //
	Args     []byte `json:"a"`           // raw argument bytes handed to the native service
	Signers  []int  `json:"s"`           // zoo key indices whose witness the transaction carries
	Caller   string `json:"k,omitempty"` // sandbox only: calling-contract context (auth.initContractAdmin)
}

func (c natCall) String() string {
	return fmt.Sprintf("%s.%s(%x)signers%v", contractName(c.Contract), c.Method, clip(c.Args, 96), c.Signers)
}

func clip(b []byte, n int) []byte {
	if len(b) > n {
		return b[:n]
	}
	return b
}

type evmCase struct {
	Init     []byte `json:"i"`           // data of a contract-creation tx (To == nil)
	Call     bool   `json:"c"`           // also send a second tx
	Target   string `json:"t,omitempty"` // hex address called by the second tx ("" = the address created by the first)
	CallData []byte `json:"d"`
	Value    uint64 `json:"v"`
	Gas      uint64 `json:"g"`
	GasPrice uint64 `json:"p"` // in GWei units of the ontology tx (x 1e9 wei)
}

type wcase struct {
	Kind string `json:"kind"` // neo | amp | xloop | native | evm | pool | validate
	// neo
	Code     []byte `json:"code,omitempty"`
	GasLimit uint64 `json:"gl,omitempty"`
	GasPrice uint64 `json:"gp,omitempty"`
	Signers  []int  `json:"sg,omitempty"`
	Probe    bool   `json:"probe,omitempty"` // amp: enter the node routes even when the metered run went over its bound
	Observe  bool   `json:"obs,omitempty"`   // xloop: every loop iteration enters a service handler, so the probe can count (and stop) the real PreExecuteContract
	// native
	History []natCall `json:"hist,omitempty"`
	Call    *natCall  `json:"call,omitempty"`
	Height  uint32    `json:"h,omitempty"` // sandbox block height
	NoBlock bool      `json:"nb,omitempty"`
	// evm
	Evm *evmCase `json:"evm,omitempty"`
	// validate: raw transaction bytes as received from a peer
	Raw []byte `json:"raw,omitempty"`
}

func (c wcase) enc() []byte { b, _ := json.Marshal(c); return b }

// pathRes is what one execution path (block execution, pre-execution, sandbox, eth_call) reported.
type pathRes struct {
	Ran     bool     `json:"ran"`
	Err     string   `json:"err,omitempty"`
	State   int      `json:"st"`
	Gas     uint64   `json:"gas"`
	Notifs  int      `json:"nt"`
	Reached []string `json:"rc,omitempty"` // syscall / native handlers entered (sorted, distinct)
	Ms      int64    `json:"ms"`
	Panic   string   `json:"panic,omitempty"` // recovered Go panic value
	Abort   string   `json:"abort,omitempty"` // the worker's probe stopped the request: its deterministic counter passed the stated bound
	Stack   string   `json:"stack,omitempty"`
}

type wreply struct {
	Harness string    `json:"harness,omitempty"` // the worker could not even build the case (harness problem, not a finding)
	Block   pathRes   `json:"block"`
	Pre     pathRes   `json:"pre"`
	Sandbox pathRes   `json:"sandbox"`
	EthCall pathRes   `json:"ethcall"`
	Pool    pathRes   `json:"pool"`
	HistOK  []bool    `json:"hok,omitempty"`
	HistErr []string  `json:"herr,omitempty"`
	BlockTx []pathRes `json:"btx,omitempty"`    // per-transaction state of the block route (native/evm kinds)
	EvmGas  []uint64  `json:"evmgas,omitempty"` // gas used by each EVM transaction of the case
	Valid   pathRes   `json:"valid"`            // raw-bytes decoding + stateless/stateful validation route
	Amp     *ampRes   `json:"amp,omitempty"`    // kind amp: deterministic resource counters of the metered run
	PreSB   pathRes   `json:"presb"`            // kind xloop: pre-execution on a SmartContract built as PreExecuteContract builds it, but with a finite gas budget
	Loop    *loopRes  `json:"loop,omitempty"`   // kind xloop: service calls / steps counted per request
}

// ampRes: counters of the metered run of an amplification program (worker side: meterAmp) and of
// the probe inside the node routes (liveItems of the NeoVmService's own executor on entry to every
// service handler).
type ampRes struct {
	Ops    int    `json:"ops"`            // opcodes executed (each is charged at least 1 gas by the node)
	Peak   int    `json:"peak"`           // largest number of live VM items seen (distinct containers + their slots + stack slots)
	PeakAt int    `json:"at"`             // Ops when Peak was seen
	Bound  int    `json:"bound"`          // ampBound(PeakAt)
	Over   bool   `json:"over,omitempty"` // Peak > Bound: the run was stopped there and (unless wcase.Probe) the node routes were NOT entered
	End    string `json:"end"`            // end | syscall | fault:<error> | stepcap | over
	Final  int    `json:"final"`          // live items when the metered run ended (not counted beyond 4 x ampBound(Ops))
	// probe: live items on entry to the FIRST service call (-1 = no service call) and the largest count at any
	BlockFirst int `json:"bf"`
	BlockPeak  int `json:"bp"`
	PreFirst   int `json:"pf"`
	PrePeak    int `json:"pp"`
}

// loopRes: per-request counters of a cross-contract loop case. Calls = service-handler entries of ALL
// nested engines of the request (each is one executed opcode); Steps = SmartContract.ExecStep as read
// at the last service call (pre-execution only).
type loopRes struct {
	BlockCalls int    `json:"bc"`
	PreCalls   int    `json:"pc"`
	PreSteps   int    `json:"ps"`
	SBCalls    int    `json:"sc"`
	SBSteps    int    `json:"ss"` // ExecStep when the finite-gas pre-execution ended
	SBGas      uint64 `json:"sg"` // gas it consumed
	SBBudget   uint64 `json:"sb"`
}

// xloopStepSlack: service calls a pre-execution request may be seen to enter beyond VM_STEP_LIMIT before the probe stops it.
const xloopStepSlack = 1024

// xloopGasBudget is the finite budget of the sandboxed pre-execution: more than VM_STEP_LIMIT (400000) steps can
// cost with the most expensive opcode of the family (APPCALL, 10 gas).
const xloopGasBudget = 6000000

// ampBound is the number of live VM items a program may hold after `ops` executed opcodes.
func ampBound(ops int) int { return 65536 + 1024*ops }

// ---------------------------------------------------------------------------------------------
// zoo

const (
	nP256  = 8
	zP224  = 8
	zP384  = 9
	zP521  = 10
	zSM2   = 11
	zEd    = 12
	zEth0  = 13
	zEth1  = 14
	zooLen = 15
)

var zooCache []*fix.ZooKey

// zoo returns the key list both sides index into: 0 = solo bookkeeper (owns ONT/ONG, param-contract
// admin), 1..7 P-256 users, then one key of every other supported kind, then two ethereum keys.
func zoo() []*fix.ZooKey {
	if zooCache != nil {
		return zooCache
	}
	var z []*fix.ZooKey
	for i := 0; i < nP256; i++ {
		z = append(z, fix.Key(fix.KP256, i))
	}
	z = append(z, fix.Key(fix.KP224, 0), fix.Key(fix.KP384, 0), fix.Key(fix.KP521, 0), fix.Key(fix.KSM2, 0),
		fix.Key(fix.KEd25519, 0), fix.Key(fix.KEth, 0), fix.Key(fix.KEth, 1))
	zooCache = z
	return z
}

func zooPub(i int) []byte { return keypair.SerializePublicKey(zoo()[i].PublicKey) }

var idCache = map[int]string{}

// zooID is the deterministic ONT ID number i ("did:ont:..." with a valid checksum).
func zooID(i int) []byte {
	if s, ok := idCache[i]; ok {
		return []byte(s)
	}
	s, err := account.CreateID([]byte(fmt.Sprintf("verif-c12-ontid-%d", i)))
	if err != nil {
		panic(err)
	}
	idCache[i] = s
	return []byte(s)
}

var natNames = func() map[string]string {
	m := map[string]string{}
	for n, a := range map[string]common.Address{
		"ont": nutils.OntContractAddress, "ong": nutils.OngContractAddress, "ontid": nutils.OntIDContractAddress,
		"param": nutils.ParamContractAddress, "auth": nutils.AuthContractAddress, "gov": nutils.GovernanceContractAddress,
		"hsync": nutils.HeaderSyncContractAddress, "ccm": nutils.CrossChainContractAddress, "lockproxy": nutils.LockProxyContractAddress,
		"ontfs": nutils.OntFSContractAddress, "system": nutils.SystemContractAddress,
	} {
		m[hex.EncodeToString(a[:])] = n
	}
	return m
}()

func contractName(hexAddr string) string {
	if n, ok := natNames[hexAddr]; ok {
		return n
	}
	return "0x" + hexAddr
}

func natAddrHex(name string) string {
	for h, n := range natNames {
		if n == name {
			return h
		}
	}
	panic("no native contract " + name)
}

func natNamesSorted() []string {
	var out []string
	for _, n := range natNames {
		out = append(out, n)
	}
	sort.Strings(out)
	return out
}

func addrFromHex(h string) (common.Address, error) {
	b, err := hex.DecodeString(h)
	if err != nil {
		return common.Address{}, err
	}
	return common.AddressParseFromBytes(b)
}

// errClass normalises an error text to a short class (hex runs, digits and addresses removed).
func errClass(s string) string {
	if s == "" {
		return "ok"
	}
	var b strings.Builder
	run := 0
	for _, r := range s {
		isHex := (r >= '0' && r <= '9') || (r >= 'a' && r <= 'f') || (r >= 'A' && r <= 'F')
		if isHex {
			run++
			if run > 1 {
				continue
			}
			if r >= '0' && r <= '9' {
				b.WriteRune('#')
				continue
			}
		} else {
			run = 0
		}
		b.WriteRune(r)
		if b.Len() > 110 {
			break
		}
	}
	return b.String()
}
