package pure

// C37 DHT routing table stays structurally valid.
// Oracle: model-based. The model is the set of ids whose Update succeeded and that were not removed since; after every
// step every bucket of the real table is inspected: ids unique over the whole table, bucket length <= bucket size,
// bucket index = common prefix length with the local id (computed by the harness from the raw bytes) or the last bucket,
// table content == model. NearestPeers answers: distinct table members, ascending XOR distance (computed by the harness).

import (
	"bytes"
	"fmt"
	"math/bits"
	"sort"
	"strings"
	"testing"

	ocommon "github.com/ontio/ontology/common"
	pcommon "github.com/ontio/ontology/p2pserver/common"
	"github.com/ontio/ontology/p2pserver/dht/kbucket"
	"pgregory.net/rapid"

	"verifharness/internal/harn"
)

func c37ID(b []byte) pcommon.PeerId {
	var id pcommon.PeerId
	if err := id.Deserialization(ocommon.NewZeroCopySource(b)); err != nil {
		panic(err)
	}
	return id
}

func c37Raw(id pcommon.PeerId) []byte {
	s := ocommon.NewZeroCopySink(nil)
	id.Serialization(s)
	return s.Bytes()
}

// independent common-prefix length and XOR distance on raw 20-byte ids
func c37Cpl(a, b []byte) int {
	for i := range a {
		if x := a[i] ^ b[i]; x != 0 {
			return i*8 + bits.LeadingZeros8(x)
		}
	}
	return len(a) * 8
}

func c37Dist(a, b []byte) []byte {
	out := make([]byte, len(a))
	for i := range a {
		out[i] = a[i] ^ b[i]
	}
	return out
}

// c37Close returns a copy of raw whose first cpl bits equal local's and whose bit number cpl differs (so the common
// prefix length with local is exactly cpl, for cpl <= 159).
func c37Close(local, raw []byte, cpl int) []byte {
	out := append([]byte{}, raw...)
	for i := 0; i < cpl; i++ {
		mask := byte(0x80 >> uint(i%8))
		out[i/8] = (out[i/8] &^ mask) | (local[i/8] & mask)
	}
	mask := byte(0x80 >> uint(cpl%8))
	out[cpl/8] = (out[cpl/8] &^ mask) | (^local[cpl/8] & mask)
	return out
}

type c37State struct {
	local   []byte
	bs      int
	rt      *kbucket.RouteTable
	model   map[string]bool // raw id -> in table
	pool    [][]byte
	ev      *harn.Collector
	maxBkts int
	table   map[string]int // raw id -> occurrences, from the last inspection
	log     []string
}

func (s *c37State) note(format string, a ...interface{}) {
	if len(s.log) < 400 {
		s.log = append(s.log, fmt.Sprintf(format, a...))
	}
}

// c37NewState draws the local id, the bucket size and a pool of candidate ids: uniformly random ones and many that
// share an exact, generated number of prefix bits with the local id (several per prefix length).
func c37NewState(t *rapid.T, ev *harn.Collector, deep bool) *c37State {
	s := &c37State{ev: ev, model: map[string]bool{}}
	s.local = rapid.SliceOfN(rapid.Byte(), 20, 20).Draw(t, "local")
	s.bs = rapid.IntRange(1, 8).Draw(t, "bucketsize")
	s.rt = kbucket.NewRoutingTable(s.bs, c37ID(s.local))
	npool := rapid.IntRange(2, 60).Draw(t, "npool")
	maxCpl := 24
	if deep {
		maxCpl = 159
	}
	// a few prefix lengths get many ids each (overflowing one bucket), others get one
	hot := rapid.SliceOfN(rapid.IntRange(0, maxCpl), 1, 4).Draw(t, "hotCpls")
	seen := map[string]bool{string(s.local): true}
	for len(s.pool) < npool {
		raw := rapid.SliceOfN(rapid.Byte(), 20, 20).Draw(t, "raw")
		var id []byte
		switch rapid.IntRange(0, 3).Draw(t, "idkind") {
		case 0:
			id = raw
		case 1:
			id = c37Close(s.local, raw, rapid.IntRange(0, maxCpl).Draw(t, "cpl"))
		default:
			id = c37Close(s.local, raw, rapid.SampledFrom(hot).Draw(t, "hotcpl"))
		}
		if !seen[string(id)] {
			seen[string(id)] = true
			s.pool = append(s.pool, id)
		}
	}
	return s
}

// check inspects the whole table.
func (s *c37State) check(t *rapid.T) {
	seen := map[string]int{}
	nb := len(s.rt.Buckets)
	if nb > s.maxBkts {
		s.maxBkts = nb
	}
	for bi, b := range s.rt.Buckets {
		ps := b.Peers()
		if len(ps) > s.bs {
			t.Fatalf("bucket %d of %d holds %d peers, bucket size is %d; history: %s", bi, nb, len(ps), s.bs, s.history())
		}
		for _, p := range ps {
			raw := c37Raw(p.ID)
			cpl := c37Cpl(raw, s.local)
			if bi < nb-1 && cpl != bi {
				t.Fatalf("peer %x (common prefix length %d with local %x) sits in bucket %d of %d; history: %s", raw, cpl, s.local, bi, nb, s.history())
			}
			if bi == nb-1 && cpl < bi {
				t.Fatalf("peer %x (common prefix length %d) sits in the last bucket %d; history: %s", raw, cpl, bi, s.history())
			}
			seen[string(raw)]++
		}
	}
	for k, n := range seen {
		if n > 1 {
			t.Fatalf("peer %x appears %d times in the table; history: %s", k, n, s.history())
		}
		if !s.model[k] {
			t.Fatalf("peer %x is in the table but was never added (or was removed); history: %s", k, s.history())
		}
	}
	if len(seen) != len(s.model) {
		// a successfully added peer that silently left the table is not covered by the property statement: counted only
		s.ev.Class("check:added-peer-missing")
	}
	s.table = seen
}

func (s *c37State) history() string { return strings.Join(s.log, " ") }

func (s *c37State) update(t *rapid.T) (rejected bool) {
	raw := rapid.SampledFrom(s.pool).Draw(t, "id")
	present := s.model[string(raw)]
	err := s.rt.Update(c37ID(raw), "addr")
	s.note("U(%x)=%v", raw[:4], err == nil)
	switch {
	case err == nil && present:
		s.ev.Class("update:refresh")
	case err == nil:
		s.model[string(raw)] = true
		s.ev.Class("update:added")
	case present:
		t.Fatalf("Update of peer %x that is already in the table failed: %v; history: %s", raw, err, s.history())
	default:
		s.ev.Class("update:rejected-full")
		return true
	}
	return false
}

func (s *c37State) remove(t *rapid.T) {
	var raw []byte
	if len(s.model) > 0 && rapid.IntRange(0, 3).Draw(t, "removePresent") != 0 {
		keys := make([]string, 0, len(s.model))
		for k := range s.model {
			keys = append(keys, k)
		}
		sort.Strings(keys)
		raw = []byte(rapid.SampledFrom(keys).Draw(t, "present"))
	} else {
		raw = rapid.SampledFrom(s.pool).Draw(t, "id")
	}
	if s.model[string(raw)] {
		s.ev.Class("remove:present")
	} else {
		s.ev.Class("remove:absent")
	}
	s.rt.Remove(c37ID(raw))
	delete(s.model, string(raw))
	s.note("R(%x)", raw[:4])
}

func (s *c37State) target(t *rapid.T) []byte {
	switch rapid.IntRange(0, 3).Draw(t, "targetkind") {
	case 0:
		return rapid.SliceOfN(rapid.Byte(), 20, 20).Draw(t, "target")
	case 1:
		return rapid.SampledFrom(s.pool).Draw(t, "targetFromPool")
	case 2:
		return c37Close(s.local, rapid.SliceOfN(rapid.Byte(), 20, 20).Draw(t, "traw"), rapid.IntRange(0, 159).Draw(t, "tcpl"))
	default:
		return append([]byte{}, s.local...)
	}
}

func (s *c37State) nearest(t *rapid.T) {
	target := s.target(t)
	k := rapid.IntRange(0, 20).Draw(t, "k")
	s.check(t) // refresh s.table
	res := s.rt.NearestPeers(c37ID(target), k)
	s.note("N(%x,%d)=%d", target[:4], k, len(res))
	if len(res) > k {
		t.Fatalf("NearestPeers(%x, %d) returned %d peers; history: %s", target, k, len(res), s.history())
	}
	dup := map[string]bool{}
	var prev []byte
	for i, p := range res {
		raw := c37Raw(p.ID)
		if dup[string(raw)] {
			t.Fatalf("NearestPeers(%x, %d) returned peer %x twice; history: %s", target, k, raw, s.history())
		}
		if s.table[string(raw)] == 0 {
			t.Fatalf("NearestPeers(%x, %d) returned %x which is not in the table; history: %s", target, k, raw, s.history())
		}
		dup[string(raw)] = true
		d := c37Dist(raw, target)
		if i > 0 && bytes.Compare(prev, d) > 0 {
			t.Fatalf("NearestPeers(%x, %d) not sorted by XOR distance to the target: position %d has distance %x, position %d has %x; history: %s", target, k, i-1, prev, i, d, s.history())
		}
		prev = d
	}
	want := k
	if len(s.table) < k {
		want = len(s.table)
	}
	if len(res) == want {
		s.ev.Class("nearest:len=min(k,size)")
	} else {
		s.ev.Class("nearest:shorter")
	}
	if len(res) >= 2 {
		s.ev.Class("nearest:two-or-more")
	}
	s.ev.Class("nearest")
}

func (s *c37State) find(t *rapid.T) {
	raw := rapid.SampledFrom(s.pool).Draw(t, "id")
	s.check(t) // refresh s.table
	pair, ok := s.rt.Find(c37ID(raw))
	if ok {
		if !bytes.Equal(c37Raw(pair.ID), raw) || s.table[string(raw)] == 0 {
			t.Fatalf("Find(%x) returned %x (in table: %v); history: %s", raw, c37Raw(pair.ID), s.table[string(raw)] != 0, s.history())
		}
		s.ev.Class("find:found")
	} else if s.table[string(raw)] != 0 {
		s.ev.Class("find:present-not-found")
	} else {
		s.ev.Class("find:absent")
	}
}

func (s *c37State) desc() string {
	return fmt.Sprintf("local=%x bs=%d pool=%d buckets=%d size=%d ops=%s", s.local[:6], s.bs, len(s.pool), s.maxBkts, len(s.model), s.history())
}

const c37Rule = "stateful histories (about 60 steps) over a routing table with bucket size 1..8: Update / Remove (mostly of present peers) / NearestPeers(target, k<=20) / Find; ids from a pool of 2..60: uniform, " +
	"or sharing exactly c prefix bits with the local id (c in 0..24, 0..159 in the deep test), 1..4 'hot' prefix lengths get many ids so buckets overflow and unfold; " +
	"non-trivial = the table unfolded to >= 3 buckets and at least one Update was rejected or one peer removed; distinct = different (local id, bucket size, history)"

func c37Run(t *testing.T, deep bool, weights map[string]int, steps, quick, thorough int) {
	ev := harn.For("C37").Rule(c37Rule)
	ev.Floor("update:added", "steps", 0.10)
	ev.Floor("remove:present", "steps", 0.03)
	harn.CheckSteps(t, steps, quick, thorough, func(t *rapid.T) {
		s := c37NewState(t, ev, deep)
		removed, rejected := false, false
		actions := map[string]func(*rapid.T){
			"": func(t *rapid.T) { s.check(t); ev.Class("steps") },
		}
		add := func(name string, n int, f func(*rapid.T)) {
			for i := 0; i < n; i++ {
				actions[fmt.Sprintf("%s%d", name, i)] = f
			}
		}
		add("update", weights["update"], func(t *rapid.T) {
			if s.update(t) {
				rejected = true
			}
		})
		add("remove", weights["remove"], func(t *rapid.T) {
			before := len(s.model)
			s.remove(t)
			if len(s.model) < before {
				removed = true
			}
		})
		add("nearest", weights["nearest"], s.nearest)
		add("find", weights["find"], s.find)
		t.Repeat(actions)
		s.check(t)
		if s.maxBkts >= 3 {
			ev.Class("case:unfolded>=3")
		}
		if deep {
			ev.Class("deep:cases")
			if s.maxBkts >= 30 {
				ev.Class("deep:unfolded>=30")
			}
		}
		ev.Case(s.maxBkts >= 3 && (removed || rejected), s.desc())
	})
}

func TestC37_Structure(t *testing.T) {
	c37Run(t, false, map[string]int{"update": 5, "remove": 2, "nearest": 1, "find": 1}, 60, 4000, 50000)
}

func TestC37_Nearest(t *testing.T) {
	harn.For("C37").Floor("nearest:two-or-more", "nearest", 0.3)
	c37Run(t, false, map[string]int{"update": 3, "remove": 1, "nearest": 4, "find": 1}, 60, 4000, 50000)
}

// ids sharing up to 159 prefix bits with the local id: the last bucket unfolds dozens of levels in one Update.
func TestC37_DeepUnfold(t *testing.T) {
	harn.For("C37").Floor("deep:unfolded>=30", "deep:cases", 0.2)
	c37Run(t, true, map[string]int{"update": 5, "remove": 2, "nearest": 2, "find": 1}, 60, 3000, 30000)
}
