package txval

// C17 A transaction authorizes the same accounts on every node.
//
// Oracle (differential between two objects holding the same bytes):
//   built := types.TransactionFromRawBytes(raw); validation.VerifyTransaction(built) accepted; S_val = built.SignedAddr
//   fresh := types.TransactionFromRawBytes(built.ToArray())  (what a node has after decoding a block);  S_raw = fresh.GetSignatureAddresses()
//   require S_val == S_raw as sets, and SmartContract.CheckWitness(a) identical on both objects for every a in S_val ∪ S_raw.
// The same oracle over histories (an accepted object keeps its signer set while the validator judges other transactions): c17_held_test.go.

import (
	"bytes"
	"fmt"
	"testing"

	"github.com/ontio/ontology-crypto/ec"
	"github.com/ontio/ontology-crypto/keypair"
	"github.com/ontio/ontology/common"
	"github.com/ontio/ontology/core/payload"
	"github.com/ontio/ontology/core/types"
	"pgregory.net/rapid"

	"verifharness/internal/fix"
	"verifharness/internal/harn"
)

const c17Key = "raw-script-vs-parsed-key-address"

const c17Rule = "accepted txs over every zoo key kind: (a) built by the repo's canonical builders (fix.Sign / fix.MultiSign over types.MutableTransaction) with keys in generated order, " +
	"(b) harness-serialised txs signed once and re-encoded (alternative accepted key encodings, generated key order, PUSHDATA1/2/4 pushes, n as bytes, alternative signature encodings, permuted/duplicated sets); " +
	"non-trivial = some verification script is not the canonical script of its keys, or an ethereum-type key, or a multisig whose generated key order is not the canonical order, or a non-canonical invocation script; " +
	"(c) held signer sets (TestC17_HeldSigners): histories of 2-8 small transactions (1-3 sets, single and m-of-n<=4, canonical / re-encoded / rejected by a damaged signature, a changed payer byte or a payer nobody signed for) validated back to back on one goroutine, with re-validation of an earlier object as noise, optionally followed by 2-4 joined goroutines validating further ones; every accepted object is held with a private copy of its SignedAddr taken at return and must, after the later validations, still report exactly that set (SignedAddr, GetSignatureAddresses, CheckWitness for every account generated in the history), equal to what a fresh decode of its bytes derives; non-trivial there = at least two accepted transactions with different signer sets held over a later validation; " +
	"distinct = different (tx hash, encoding) description, for (c) different history description"

func c17Ev() *harn.Collector {
	ev := harn.For("C17").Rule(c17Rule)
	ev.Floor("intake:sigaddrs-first", "tx", 0.3)
	ev.Floor("intake:plain", "tx", 0.3)
	ev.Assume("the block-sync path holds a transaction object freshly decoded from the serialized bytes (types.TransactionFromRawBytes) and never validated; the proposing path holds the object the validator filled")
	return ev
}

// c17InKnownClass: recogniser of the recorded finding — some verification script is NOT byte-identical to the
// canonical script rebuilt from its parsed keys, or is a single-key script whose key is ethereum-type (the account
// of such a key is its keccak address, never hash160 of a script).
func c17InKnownClass(raw []byte) bool {
	tx, err := parseEnvelope(raw)
	if err != nil {
		return false
	}
	for _, st := range tx.Sets {
		pv, err := parseVerify(st.Verify)
		if err != nil {
			continue
		}
		var keys []keypair.PublicKey
		bad := false
		for _, kb := range pv.Keys {
			k, err := decodeKey(kb)
			if err != nil {
				bad = true
				break
			}
			keys = append(keys, k)
		}
		if bad || len(keys) == 0 || pv.M < 1 || int(pv.M) > len(keys) {
			continue
		}
		if !pv.Multi {
			if _, ok := keys[0].(*ec.EthereumPublicKey); ok {
				return true
			}
		}
		if !bytes.Equal(canonicalScript(keys, int(pv.M), pv.Multi), st.Verify) {
			return true
		}
	}
	return false
}

type c17Outcome struct {
	Accepted bool
	Verdict  verdict
	SVal     []common.Address
	SRaw     []common.Address
	Diff     string // non-empty = property violated
}

// c17Eval applies the oracle to one serialized transaction.
func c17Eval(raw []byte) c17Outcome { return c17EvalMode(raw, intakePlain) }

func c17EvalMode(raw []byte, mode intake) (o c17Outcome) {
	o.Verdict = runValidatorMode(raw, mode)
	if o.Verdict.Panic != "" || !o.Verdict.Accepted {
		return o
	}
	o.Accepted = true
	built := o.Verdict.Tx
	o.SVal = sortedAddrs(built.SignedAddr)
	fresh, err := types.TransactionFromRawBytes(built.ToArray())
	if err != nil {
		o.Diff = fmt.Sprintf("accepted transaction does not decode again from its own bytes: %v", err)
		return o
	}
	o.SRaw = sortedAddrs(fresh.GetSignatureAddresses())
	if !sameAddrSet(o.SVal, o.SRaw) {
		o.Diff = fmt.Sprintf("signer set established by the validator %s != signer set of the freshly decoded bytes %s", addrsString(o.SVal), addrsString(o.SRaw))
		return o
	}
	for _, a := range sortedAddrs(append(append([]common.Address{}, o.SVal...), o.SRaw...)) {
		if w1, w2 := checkWitness(built, a), checkWitness(fresh, a); w1 != w2 {
			o.Diff = fmt.Sprintf("CheckWitness(%x) = %v on the validated object, %v on the freshly decoded one", a[:], w1, w2)
			return o
		}
	}
	return o
}

// ---------------------------------------------------------------------------------------------
// deterministic witnesses (all one root cause)

func c17WitnessSpecs() []struct {
	Name string
	Tx   *txSpec
} {
	A, B, C := fix.Key(fix.KP256, 0), fix.Key(fix.KP256, 1), fix.Key(fix.KP256, 2)
	E := fix.Key(fix.KEth, 0)
	single := func(k keyItem) *txSpec {
		s := &setSpec{M: 1, Keys: []keyItem{k}, Sigs: []sigItem{{Signer: k.Z}}}
		tx := &txSpec{Body: witnessBody(), Sets: []*setSpec{s}}
		tx.Payer = specSetAddress(s)
		return tx
	}
	multi := func(f func(s *setSpec)) *txSpec {
		s := &setSpec{Multi: true, M: 2, Sigs: []sigItem{{Signer: A}, {Signer: B}}}
		for _, z := range sortZoo([]*fix.ZooKey{A, B, C}) {
			s.Keys = append(s.Keys, keyItem{Z: z})
		}
		f(s)
		tx := &txSpec{Body: witnessBody(), Sets: []*setSpec{s}}
		tx.Payer = specSetAddress(s)
		return tx
	}
	out := []struct {
		Name string
		Tx   *txSpec
	}{
		{"p256-key-0x12-0x02-prefixed", single(keyItem{Z: A, Enc: encPrefixed})},
		{"ethereum-type-key-canonical-script", single(keyItem{Z: E})},
		{"p256-key-uncompressed", single(keyItem{Z: A, Enc: encUncompressed})},
		{"p256-key-pushed-with-PUSHDATA1", single(keyItem{Z: A, Push: pushData1})},
		{"multisig-keys-not-in-canonical-order", multi(func(s *setSpec) { s.Keys[0], s.Keys[2] = s.Keys[2], s.Keys[0] })},
		{"multisig-n-pushed-as-bytes", multi(func(s *setSpec) { s.NStyle = numBytes1 })},
	}
	for _, w := range out {
		w.Tx.sign()
	}
	return out
}

// c17Replay: the listed witness (0x12 0x02-prefixed P-256 key) replayed against the real code.
func c17Replay() bool {
	fix.Quiet()
	w := c17WitnessSpecs()[0]
	raw, _ := w.Tx.raw()
	o := c17Eval(raw)
	return harn.Known("C17", c17Key, o.Accepted && o.Diff != "")
}

func TestC17_KnownWitnesses(t *testing.T) {
	ev := c17Ev()
	fix.Quiet()
	for _, w := range c17WitnessSpecs() {
		w := w
		t.Run(w.Name, func(t *testing.T) {
			raw, _ := w.Tx.raw()
			o := c17Eval(raw)
			ev.Case(true, "witness:"+w.Name)
			ev.Class(fmt.Sprintf("witness:%s:accepted=%v:differs=%v", w.Name, o.Accepted, o.Diff != ""))
			if !c17InKnownClass(raw) {
				t.Fatalf("HARNESS: witness %s is not recognised by the known-class recogniser", w.Name)
			}
			if o.Accepted && o.Diff != "" && !harn.Known("C17", c17Key, true) {
				harn.Violation(t, "C17", map[string]string{"witness": w.Name, "raw_tx": fmt.Sprintf("%x", raw), "verify_script": fmt.Sprintf("%x", w.Tx.Sets[0].verifyScript())},
					"tx [%s]: %s", w.Tx.describe(), o.Diff)
			}
		})
	}
}

// ---------------------------------------------------------------------------------------------

func c17Judge(t *rapid.T, ev *harn.Collector, known bool, raw []byte, nontrivial bool, what string, id string) {
	if known && c17InKnownClass(raw) {
		ev.Excluded()
		return
	}
	// the signer set must not depend on whether GetSignatureAddresses() was called before validation (tx pool does)
	mode := intake(uniR(t, 0, 1, "intake"))
	o := c17EvalMode(raw, mode)
	ev.Class("intake:" + mode.String())
	if o.Verdict.Panic != "" {
		t.Fatalf("C17: decoder/validator PANICKED (%s) on %s\nraw tx %x", o.Verdict.Panic, what, raw)
	}
	ev.Class("tx")
	if !o.Accepted {
		ev.Class("tx:rejected") // outside the quantifier (accepted transactions)
		return
	}
	ev.Class("tx:accepted")
	if o.Diff != "" {
		t.Fatalf("C17: %s\ncase: %s\nraw tx %x", o.Diff, what, raw)
	}
	if nontrivial {
		ev.Class("tx:nontrivial")
	}
	ev.Case(nontrivial, id)
}

// (a) transactions produced by the repo's own canonical builders
func TestC17_CanonicalBuilders(t *testing.T) {
	ev := c17Ev()
	known := c17Replay()
	ev.Floor("tx:accepted", "tx", 0.9)
	ev.Floor("canon:eth-in-multisig", "canon", 0.05)
	ev.Floor("canon:unsorted-generation-order", "canon", 0.1)
	harn.Check(t, 600, 4800, func(t *rapid.T) {
		body := genBody(t)
		var pl types.Payload
		probe := &txSpec{Body: body}
		ptx, err := types.TransactionFromRawBytes(append(probe.unsigned(), 0x00))
		if err != nil {
			t.Fatalf("HARNESS: body does not decode: %v", err)
		}
		pl = ptx.Payload
		if _, ok := pl.(*payload.DeployCode); !ok {
			if _, ok := pl.(*payload.InvokeCode); !ok {
				t.Fatalf("HARNESS: unexpected payload type %T", pl)
			}
		}
		mtx := &types.MutableTransaction{TxType: types.TransactionType(body.TxType), Nonce: body.Nonce, GasPrice: body.GasPrice, GasLimit: body.GasLimit, Payload: pl}
		ns := genNSets(t)
		if ns > 8 {
			ns = 8
		}
		type setk struct {
			keys []*fix.ZooKey
			m    int
			sign []*fix.ZooKey
		}
		var sets []setk
		desc := ""
		eth, ethMulti, unsortedGen := false, false, false
		for i := 0; i < ns; i++ {
			s := genSet(t, fmt.Sprintf("set%d", i), 8)
			var sk setk
			sk.m = s.M
			ks := make([]*fix.ZooKey, len(s.Keys))
			for j, k := range s.Keys {
				ks[j] = k.Z
			}
			if s.Multi {
				order := rapid.Permutation(ks).Draw(t, fmt.Sprintf("set%d.order", i))
				for j := range order {
					if order[j] != ks[j] {
						unsortedGen = true
					}
				}
				ks = order
			}
			sk.keys = ks
			for _, g := range s.Sigs {
				sk.sign = append(sk.sign, g.Signer)
			}
			for _, z := range ks {
				if z.Kind == fix.KEth {
					eth = true
					if s.Multi {
						ethMulti = true
					}
				}
			}
			sets = append(sets, sk)
			desc += fmt.Sprintf(" %d/%d(", sk.m, len(ks))
			for _, z := range ks {
				desc += keyName(z) + ","
			}
			desc += ")"
		}
		// payer = account of one set (validator semantics: account of the parsed keys)
		pi := uniR(t, 0, ns-1, "payerSet")
		{
			var pks []keypair.PublicKey
			for _, z := range sets[pi].keys {
				pks = append(pks, z.PublicKey)
			}
			a, ok := indepSetAddress(pks, sets[pi].m, len(pks) > 1)
			if !ok {
				t.Fatalf("HARNESS: no account")
			}
			mtx.Payer = a
		}
		for _, sk := range sets {
			if len(sk.keys) == 1 {
				h := mtx.Hash()
				sig := signWith(sk.keys[0], h[:])
				mtx.Sigs = append(mtx.Sigs, types.Sig{PubKeys: []keypair.PublicKey{sk.keys[0].PublicKey}, M: 1, SigData: [][]byte{sig}})
				continue
			}
			sigsBefore := mtx.Sigs
			mtx.Sigs = nil // fix.MultiSign hashes the tx through IntoImmutable; the hash does not cover Sigs
			if err := fix.MultiSign(mtx, sk.keys, sk.m, sk.sign); err != nil {
				t.Fatalf("HARNESS: MultiSign: %v", err)
			}
			mtx.Sigs = append(sigsBefore, mtx.Sigs...)
		}
		tx, err := mtx.IntoImmutable()
		if err != nil {
			t.Fatalf("HARNESS: canonical builder failed: %v (%s)", err, desc)
		}
		raw := tx.ToArray()
		ev.Class("canon")
		if ethMulti {
			ev.Class("canon:eth-in-multisig")
		}
		if unsortedGen {
			ev.Class("canon:unsorted-generation-order")
		}
		for _, sk := range sets {
			for _, z := range sk.keys {
				ev.Class("canon:kind:" + z.Kind.String())
			}
		}
		h := tx.Hash()
		id := fmt.Sprintf("canon %x type=%02x payer=set%d sets=[%s ]", h[:6], body.TxType, pi, desc)
		c17Judge(t, ev, known, raw, eth || unsortedGen, "tx built by MutableTransaction: "+id, id)
	})
}

// edits that keep a valid transaction acceptable (they only re-encode it)
var c17EditNames = map[string]bool{"reenc-key": true, "unsorted": true, "push-key": true, "push-sig": true, "n-bytes": true, "sig-alt65": true,
	"swap-sets": true, "dup-set": true, "reorder-sigs": true, "extra-valid-sig": true, "extra-garbage-sig": true, "dup-key-benign": true}

// (b) harness-serialised transactions, signed once, re-encoded several ways
func TestC17_Reencoded(t *testing.T) {
	ev := c17Ev()
	known := c17Replay()
	var edits []structMut
	for _, m := range structMuts {
		if c17EditNames[m.Name] {
			edits = append(edits, m)
			ev.Floor("edit:"+m.Name, "edit", 0.02)
		}
	}
	harn.Check(t, 400, 3000, func(t *rapid.T) {
		tx := genValidTx(t)
		raw, _ := tx.raw()
		h := tx.hash()
		id := fmt.Sprintf("%x", h[:6])
		eth := false
		for _, k := range kindsOf(tx) {
			ev.Class("base:kind:" + k)
			if k == fix.KEth.String() {
				eth = true
			}
		}
		c17Judge(t, ev, known, raw, eth, "canonical harness-serialised tx ["+tx.describe()+"]", "base "+id+" "+tx.describe())
		for i := 0; i < 6; i++ {
			mtx := tx.clone()
			depth := uniR(t, 1, 3, "depth")
			applied := ""
			for d := 0; d < depth; d++ {
				start := uniR(t, 0, len(edits)-1, "edit")
				for k := 0; k < len(edits); k++ {
					e := edits[(start+k)%len(edits)]
					if how := e.Apply(t, mtx); how != "" {
						ev.Class("edit")
						ev.Class("edit:" + e.Name)
						applied += e.Name + "(" + how + ") "
						break
					}
				}
			}
			if applied == "" {
				continue
			}
			mraw, _ := mtx.raw()
			c17Judge(t, ev, known, mraw, true, "re-encoding "+applied+"of tx ["+tx.describe()+"] giving ["+mtx.describe()+"]", "reenc "+id+" "+applied)
		}
	})
}
