#!/bin/bash
# verify_seed.sh <Cxx> [extra check ids...]: confirm a seeded breaking change produced in /tmp/seed-<Cxx>
#  1. SEED/patch.diff equals the worktree's source diff and applies to a clean checkout
#  2. the demonstration fails with the change and passes without it
#  3. run the /verif check(s) against the changed tree (VERIF_REPO) and report the exit codes
#  4. store patch, demo and meta under /verif/seeded/<Cxx>/
set -u
ID=$1; shift
WT=/tmp/seed-$ID
OUT=/verif/seeded/$ID${SEED_SUFFIX:-}
export GOFLAGS=-mod=mod GOPROXY=off GOSUMDB=off GOTOOLCHAIN=local
cd $WT || exit 2
[ -f SEED/patch.diff ] || { echo "no patch.diff"; exit 2; }
git diff > /tmp/seed-$ID.actual.diff
if ! diff -q <(grep -v '^index ' SEED/patch.diff) <(grep -v '^index ' /tmp/seed-$ID.actual.diff) >/dev/null; then
  echo "NOTE: SEED/patch.diff differs from worktree diff; using worktree diff"; cp /tmp/seed-$ID.actual.diff SEED/patch.diff
fi
echo "== patch"; cat SEED/patch.diff | head -80
echo "== demo WITH change"
bash SEED/demo.sh > /tmp/seed-$ID.with.log 2>&1; RC_WITH=$?
tail -5 /tmp/seed-$ID.with.log
git apply -R SEED/patch.diff || { echo "cannot reverse patch"; exit 2; }
echo "== demo WITHOUT change"
bash SEED/demo.sh > /tmp/seed-$ID.without.log 2>&1; RC_WITHOUT=$?
tail -3 /tmp/seed-$ID.without.log
git apply SEED/patch.diff || { echo "cannot re-apply patch"; exit 2; }
echo "demo rc with=$RC_WITH without=$RC_WITHOUT"
echo "== build"
PKGS=$(git diff --name-only | xargs -n1 dirname | sort -u | sed 's|^|./|')
go build $PKGS 2>&1 | tail -3
RESULTS=""
for C in $ID "$@"; do
  echo "== check $C against changed tree"
  (cd /verif && VERIF_REPO=$WT ./check $C > /tmp/seed-$ID.check.$C.log 2>&1); RC=$?
  grep -E "^(OK|VIOLATION|INCONCLUSIVE|KNOWN)" /tmp/seed-$ID.check.$C.log | cut -c1-200 | head -4
  grep -E "failed after|VERIF-VIOLATION" /tmp/seed-$ID.check.$C.log | head -2 | cut -c1-400
  RESULTS="$RESULTS $C:rc=$RC"
done
echo "RESULT $ID demo_with=$RC_WITH demo_without=$RC_WITHOUT checks:$RESULTS"
mkdir -p $OUT
cp SEED/patch.diff SEED/meta.json SEED/demo.sh $OUT/ 2>/dev/null
for f in SEED/*; do case "$f" in *property.json|*TASK.md|*patch.diff|*meta.json|*demo.sh) ;; *) cp -r "$f" $OUT/ ;; esac; done
echo "$RESULTS" > $OUT/check_results.txt
TAG=$(echo $WT | sed 's/[^A-Za-z0-9]\+/_/g; s/^_//; s/_$//')
rm -rf /verif/build/alt/$TAG /verif/build/bin/$TAG /verif/build/mod/$TAG /verif/build/logs/$TAG
