package wallet

// C38 Wallet persists its accounts and only opens them with the current password.
//
// Stateful histories on a wallet file (account.Open / ClientImpl) with the wallet's DEFAULT scrypt
// parameters. Oracles after every reopen (generated, and always at the end):
//   (1) save/reload differential: everything the getters show just before the reopen (count, metadata by
//       index / address / label, default) is shown identically by the freshly loaded client;
//   (2) reference model (address, label, default flag, scheme, current password, private key) driven by
//       the results of the operations: the reloaded wallet lists exactly the model's accounts, in order,
//       with the model's metadata;
//   (3) every account decrypts, with its current password, to the private key it was created with
//       (through a drawn getter: by address / index / label / default);
//   (4) generated other passwords (the previous one, near misses, the empty one) are refused.
// Fault injection: before a drawn quarter of the saving operations the next WalletData.Save is made to fail
// ("<wallet>~", the temporary file Save writes and renames, is a directory); every operation documents
// "report the error and roll the in-memory change back", so the model keeps the pre-operation state
// whenever an operation reports an error, the fault is removed, and the same oracles judge the rest.
// The model only follows what an operation reported (nil error => applied, error => no change) plus the
// documented ImportAccount rename rule (label -> label_1 when taken); nothing else is predicted.

import (
	"bytes"
	"encoding/hex"
	"fmt"
	"os"
	"path/filepath"
	"strings"
	"sync"
	"testing"

	"github.com/ontio/ontology-crypto/keypair"
	s "github.com/ontio/ontology-crypto/signature"
	"github.com/ontio/ontology/account"
	"pgregory.net/rapid"

	"verifharness/internal/harn"
)

// uniform draws an (almost exactly) uniform integer in [0, n); rapid's integer generators are biased
// towards small values, which would distort operation weights.
func uniform(t *rapid.T, n int, label string) int {
	u := 0
	for i := 0; i < 10; i++ {
		if rapid.Bool().Draw(t, label) {
			u |= 1 << i
		}
	}
	return u * n / 1024
}

type c38Spec struct {
	name   string
	kt     keypair.KeyType
	curve  byte
	scheme s.SignatureScheme
	family int // 0 ECDSA, 1 SM2, 2 EdDSA
}

var c38Specs = []c38Spec{
	{"P256", keypair.PK_ECDSA, keypair.P256, s.SHA256withECDSA, 0},
	{"SM2", keypair.PK_SM2, keypair.SM2P256V1, s.SM3withSM2, 1},
	{"Ed25519", keypair.PK_EDDSA, keypair.ED25519, s.SHA512withEDDSA, 2},
	{"P224", keypair.PK_ECDSA, keypair.P224, s.SHA224withECDSA, 0},
	{"P384", keypair.PK_ECDSA, keypair.P384, s.SHA384withECDSA, 0},
	{"P521", keypair.PK_ECDSA, keypair.P521, s.SHA512withECDSA, 0},
}

var c38FamilySchemes = [][]s.SignatureScheme{
	{s.SHA224withECDSA, s.SHA256withECDSA, s.SHA384withECDSA, s.SHA512withECDSA, s.SHA3_224withECDSA,
		s.SHA3_256withECDSA, s.SHA3_384withECDSA, s.SHA3_512withECDSA, s.RIPEMD160withECDSA},
	{s.SM3withSM2},
	{s.SHA512withEDDSA},
}

// schemes that are invalid for a family (the other families' schemes and the ethereum one)
func c38Invalid(family int) []s.SignatureScheme {
	var out []s.SignatureScheme
	for f, l := range c38FamilySchemes {
		if f != family {
			out = append(out, l[0], l[len(l)-1])
		}
	}
	return append(out, s.KECCAK256WithECDSA)
}

func c38Family(keyType string) int {
	switch strings.ToUpper(keyType) {
	case "ECDSA":
		return 0
	case "SM2":
		return 1
	}
	return 2
}

var c38Labels = []string{"", "t1", "t2", "main", "λ-wallet", "a b\"<&>", "t1_1", "main_1"}

var c38PwPool = [][]byte{[]byte("123456"), []byte("pw"), []byte("passw0rd"), []byte("Passw0rd"), []byte("пароль"),
	[]byte("a b"), []byte("x"), bytes.Repeat([]byte("z"), 40), {1, 2, 3}, {0xff, 0xfe}}

func c38DrawPw(t *rapid.T) []byte {
	if uniform(t, 10, "pw-kind") < 6 {
		return append([]byte{}, c38PwPool[uniform(t, len(c38PwPool), "pw")]...)
	}
	// no NUL bytes and shorter than the HMAC block: see the Assume text in c38Run
	return rapid.SliceOfN(rapid.ByteRange(1, 255), 1, 16).Draw(t, "pw-bytes")
}

type c38Acct struct {
	id     int
	addr   string
	label  string
	def    bool
	scheme string
	pw     []byte
	prev   [][]byte
	failed [][]byte // new passwords of ChangePassword calls that reported an error
	priv   []byte
	pub    string
	family int
	dirty  bool // created / imported / password changed since its key was last checked
}

// an importable item: metadata exported from a wallet together with what the harness knows about it
type c38Export struct {
	meta   account.AccountMetadata
	pw     []byte
	priv   []byte
	origin string
}

type c38Profile struct {
	name   string
	w      [8]int // new, import, delete, setdefault, setlabel, changepw, changescheme, reopen
	allK   bool   // all six key specs instead of mostly the first three
	steps  int    // average number of operations per history (default 8)
	faults int    // one in `faults` saving operations gets a failing save (default 4)
}

type c38World struct {
	t    *rapid.T
	ev   *harn.Collector
	p    c38Profile
	path string
	cli  account.Client

	accts   []*c38Acct
	nextID  int
	known   []string // every address that ever was in the wallet
	exports []*c38Export

	log       []string
	everAccts int
	mutations int
	reopens   int
	fault     bool // the next save fails
}

func (w *c38World) logf(f string, a ...interface{}) { w.log = append(w.log, fmt.Sprintf(f, a...)) }

func (w *c38World) fail(f string, a ...interface{}) {
	w.t.Fatalf("%s\nprofile=%s history: %s", fmt.Sprintf(f, a...), w.p.name, strings.Join(w.log, " | "))
}

func (w *c38World) class(op string, ok bool) {
	w.ev.Class("op")
	if ok {
		w.ev.Class("op:" + op + ":ok")
	} else {
		w.ev.Class("op:" + op + ":refused")
	}
}

func (w *c38World) find(addr string) *c38Acct {
	for _, a := range w.accts {
		if a.addr == addr {
			return a
		}
	}
	return nil
}

func (w *c38World) hasLabel(l string) bool {
	for _, a := range w.accts {
		if a.label == l {
			return true
		}
	}
	return false
}

func (w *c38World) remember(addr string) {
	for _, k := range w.known {
		if k == addr {
			return
		}
	}
	w.known = append(w.known, addr)
}

// ---------------------------------------------------------------------------------------------
// source wallet: three accounts created once per process in another wallet file; only their exported
// metadata is kept (what `ontology account import` reads from a source wallet).

var (
	c38SrcOnce sync.Once
	c38Src     []*c38Export
	c38SrcErr  error
)

func c38Source() ([]*c38Export, error) {
	c38SrcOnce.Do(func() {
		dir, err := os.MkdirTemp("", "c38-src-")
		if err != nil {
			c38SrcErr = err
			return
		}
		defer os.RemoveAll(dir)
		cli, err := account.Open(filepath.Join(dir, "source.dat"))
		if err != nil {
			c38SrcErr = err
			return
		}
		for i, it := range []struct {
			label string
			spec  int
			pw    string
		}{{"t1", 0, "source-pw-1"}, {"", 1, "пароль"}, {"main", 2, "123456"}} {
			sp := c38Specs[it.spec]
			acc, err := cli.NewAccount(it.label, sp.kt, sp.curve, sp.scheme, []byte(it.pw))
			if err != nil {
				c38SrcErr = err
				return
			}
			m := cli.GetAccountMetadataByIndex(i + 1)
			if m == nil || m.Address != acc.Address.ToBase58() {
				c38SrcErr = fmt.Errorf("source wallet metadata %d missing", i+1)
				return
			}
			c38Src = append(c38Src, &c38Export{meta: *m, pw: []byte(it.pw), priv: keypair.SerializePrivateKey(acc.PrivateKey),
				origin: fmt.Sprintf("src%d", i)})
		}
	})
	return c38Src, c38SrcErr
}

// ---------------------------------------------------------------------------------------------
// observation

func c38Meta(m *account.AccountMetadata) string {
	if m == nil {
		return "<nil>"
	}
	return fmt.Sprintf("{addr=%s label=%q default=%v type=%s curve=%s scheme=%s pub=%s enc=%s hash=%s salt=%x key=%x}",
		m.Address, m.Label, m.IsDefault, m.KeyType, m.Curve, m.SigSch, m.PubKey, m.EncAlg, m.Hash, m.Salt, m.Key)
}

func (w *c38World) labelUniverse() []string {
	var out []string
	for _, l := range c38Labels {
		out = append(out, l, l+"_1", l+"_1_1")
	}
	return out
}

func (w *c38World) snapshot(c account.Client) []string {
	n := c.GetAccountNum()
	out := []string{fmt.Sprintf("num=%d", n)}
	for i := 0; i <= n+2; i++ {
		out = append(out, fmt.Sprintf("index %d: %s", i, c38Meta(c.GetAccountMetadataByIndex(i))))
	}
	out = append(out, "default: "+c38Meta(c.GetDefaultAccountMetadata()))
	for _, a := range w.known {
		out = append(out, fmt.Sprintf("address %s: %s", a, c38Meta(c.GetAccountMetadataByAddress(a))))
	}
	for _, l := range w.labelUniverse() {
		out = append(out, fmt.Sprintf("label %q: %s", l, c38Meta(c.GetAccountMetadataByLabel(l))))
	}
	return out
}

// wrongPasswords returns want non-empty passwords that are not the current one (first the password of a
// change that reported failure, then the previous password, then near misses) and the empty one.
func (w *c38World) wrongPasswords(a *c38Acct, want int) [][]byte {
	var out [][]byte
	for i := len(a.failed) - 1; i >= 0 && len(out) < want; i-- {
		if !bytes.Equal(a.failed[i], a.pw) && len(a.failed[i]) > 0 {
			out = append(out, a.failed[i])
			w.ev.Class("wrongpw:of-failed-change")
			break
		}
	}
	for i := len(a.prev) - 1; i >= 0 && len(out) < want; i-- {
		if !bytes.Equal(a.prev[i], a.pw) && len(a.prev[i]) > 0 && (len(out) == 0 || !bytes.Equal(out[0], a.prev[i])) {
			out = append(out, a.prev[i])
			w.ev.Class("wrongpw:previous")
			break
		}
	}
	for len(out) < want {
		var p []byte
		switch uniform(w.t, 4, "wrong-kind") {
		case 0:
			p = append(append([]byte{}, a.pw...), 'x')
			w.ev.Class("wrongpw:suffix")
		case 1:
			if len(a.pw) > 1 {
				p = append([]byte{}, a.pw[:len(a.pw)-1]...)
				w.ev.Class("wrongpw:truncated")
			} else {
				p = append([]byte{'x'}, a.pw...)
				w.ev.Class("wrongpw:prefix")
			}
		case 2:
			p = append([]byte{}, a.pw...)
			p[0] ^= 0x20
			w.ev.Class("wrongpw:bitflip")
		default:
			p = c38DrawPw(w.t)
			w.ev.Class("wrongpw:other")
		}
		if bytes.Equal(p, a.pw) || len(p) == 0 {
			continue
		}
		out = append(out, p)
	}
	return append(out, []byte{})
}

func (w *c38World) checkKey(c account.Client, idx int, a *c38Acct, final bool) {
	type getter struct {
		name string
		f    func(pw []byte) (*account.Account, error)
	}
	gs := []getter{
		{"GetAccountByAddress", func(pw []byte) (*account.Account, error) { return c.GetAccountByAddress(a.addr, pw) }},
		{"GetAccountByIndex", func(pw []byte) (*account.Account, error) { return c.GetAccountByIndex(idx+1, pw) }},
	}
	if a.label != "" {
		gs = append(gs, getter{"GetAccountByLabel", func(pw []byte) (*account.Account, error) { return c.GetAccountByLabel(a.label, pw) }})
	}
	if a.def {
		gs = append(gs, getter{"GetDefaultAccount", func(pw []byte) (*account.Account, error) { return c.GetDefaultAccount(pw) }})
	}
	g := gs[uniform(w.t, len(gs), "getter")]
	w.ev.Class("keycheck:" + g.name)
	acc, err := g.f(a.pw)
	if err != nil || acc == nil {
		w.fail("after reload, account #%d (%s, label %q) does not open with its current password %q through %s: acc=%v err=%v",
			a.id, a.addr, a.label, a.pw, g.name, acc, err)
	}
	if got := keypair.SerializePrivateKey(acc.PrivateKey); !bytes.Equal(got, a.priv) {
		w.fail("after reload, account #%d (%s) decrypts to a different private key: %x, created with %x", a.id, a.addr, got, a.priv)
	}
	if got := hex.EncodeToString(keypair.SerializePublicKey(acc.PublicKey)); got != a.pub {
		w.fail("after reload, account #%d (%s) has public key %s, want %s", a.id, a.addr, got, a.pub)
	}
	if acc.Address.ToBase58() != a.addr || !strings.EqualFold(acc.SigScheme.Name(), a.scheme) {
		w.fail("after reload, account #%d opens as address %s scheme %s, want %s %s", a.id, acc.Address.ToBase58(), acc.SigScheme.Name(), a.addr, a.scheme)
	}
	// scrypt dominates the cost of a history: between reopens only accounts with a password history get a
	// wrong-password probe; at the end every account gets one, those with a history two
	hist := len(a.prev) > 0 || len(a.failed) > 0
	probes := 0
	if final || hist {
		probes = 1
	}
	if final && hist {
		probes = 2
	}
	for _, wp := range w.wrongPasswords(a, probes) {
		acc, err := c.GetAccountByAddress(a.addr, wp)
		if err == nil || acc != nil {
			w.fail("after reload, account #%d (%s) whose current password is %q opens with the other password %q (earlier passwords %q)",
				a.id, a.addr, a.pw, wp, a.prev)
		}
		w.ev.Class("wrongpw:refused")
	}
	a.dirty = false
}

// reopen saves nothing itself (every operation saved); it reloads the file and checks the oracles.
func (w *c38World) reopen(final bool) {
	w.reopens++
	pre := w.snapshot(w.cli)
	c2, err := account.Open(w.path)
	if err != nil {
		w.fail("the wallet file cannot be reloaded: %v", err)
	}
	post := w.snapshot(c2)
	for i := range pre {
		if i >= len(post) {
			w.fail("save+reload changed what the wallet shows:\n before: %s\n after:  (nothing)", pre[i])
		}
		if pre[i] != post[i] {
			w.fail("save+reload changed what the wallet shows:\n before: %s\n after:  %s", pre[i], post[i])
		}
	}
	// reference model
	if n := c2.GetAccountNum(); n != len(w.accts) {
		w.fail("after reload the wallet holds %d accounts, the operations that reported success leave %d", n, len(w.accts))
	}
	defaults := 0
	for i, a := range w.accts {
		for _, src := range []struct {
			how string
			m   *account.AccountMetadata
		}{{fmt.Sprintf("index %d", i+1), c2.GetAccountMetadataByIndex(i + 1)}, {"address", c2.GetAccountMetadataByAddress(a.addr)}} {
			m := src.m
			if m == nil {
				w.fail("after reload, account #%d (%s) is not found by %s", a.id, a.addr, src.how)
			}
			if m.Address != a.addr || m.Label != a.label || m.IsDefault != a.def || !strings.EqualFold(m.SigSch, a.scheme) || m.PubKey != a.pub ||
				c38Family(m.KeyType) != a.family {
				w.fail("after reload, metadata by %s is %s; the model has account #%d addr=%s label=%q default=%v scheme=%s pub=%s",
					src.how, c38Meta(m), a.id, a.addr, a.label, a.def, a.scheme, a.pub)
			}
		}
		if a.label != "" {
			m := c2.GetAccountMetadataByLabel(a.label)
			if m == nil || m.Address != a.addr {
				w.fail("after reload, label %q resolves to %s, the model has account #%d (%s)", a.label, c38Meta(m), a.id, a.addr)
			}
		}
		if a.def {
			defaults++
			if m := c2.GetDefaultAccountMetadata(); m == nil || m.Address != a.addr {
				w.fail("after reload, the default account is %s, the model has #%d (%s)", c38Meta(m), a.id, a.addr)
			}
		}
	}
	if len(w.accts) > 0 && defaults != 1 {
		w.fail("harness: model has %d default accounts", defaults)
	}
	if c2.GetAccountMetadataByIndex(0) != nil || c2.GetAccountMetadataByIndex(len(w.accts)+1) != nil {
		w.fail("after reload, an account is listed outside index 1..%d", len(w.accts))
	}
	for _, l := range w.labelUniverse() {
		if l != "" && !w.hasLabel(l) {
			if m := c2.GetAccountMetadataByLabel(l); m != nil {
				w.fail("after reload, label %q resolves to %s but no account of the model carries it", l, c38Meta(m))
			}
		}
	}
	for _, k := range w.known {
		if w.find(k) == nil {
			if m := c2.GetAccountMetadataByAddress(k); m != nil {
				w.fail("after reload, deleted address %s is listed again: %s", k, c38Meta(m))
			}
		}
	}
	// keys and passwords
	for i, a := range w.accts {
		if final || a.dirty {
			w.checkKey(c2, i, a, final)
		}
	}
	w.cli = c2
}

// ---------------------------------------------------------------------------------------------
// operations

// armFault makes, for a drawn quarter of the calls, the next WalletData.Save fail: Save writes
// "<path>~" and renames it over the wallet file, so a directory of that name fails the write before
// anything on disk changes. (The very first save writes the file directly and is never failed.)
func (w *c38World) armFault() string {
	oneIn := w.p.faults
	if oneIn == 0 {
		oneIn = 4
	}
	if uniform(w.t, oneIn, "save-fails") != 0 {
		return ""
	}
	if _, err := os.Stat(w.path); err != nil {
		return ""
	}
	if err := os.Mkdir(w.path+"~", 0o755); err != nil {
		w.t.Fatalf("harness: cannot arm the save fault: %v", err)
	}
	w.fault = true
	w.ev.Class("fault:injected")
	return "!savefails "
}

// disarm removes the fault and records what the operation did with it.
func (w *c38World) disarm(op string, err error) {
	if !w.fault {
		return
	}
	w.fault = false
	if e := os.Remove(w.path + "~"); e != nil {
		w.t.Fatalf("harness: cannot remove the save fault: %v", e)
	}
	switch {
	case err != nil && strings.Contains(err.Error(), filepath.Base(w.path)+"~"):
		w.ev.Class("fault:" + op + ":save-failed")
	case err != nil:
		w.ev.Class("fault:" + op + ":refused-before-save")
	default:
		w.ev.Class("fault:" + op + ":returned-ok")
	}
}

func (w *c38World) pick(label string) *c38Acct {
	if len(w.accts) == 0 {
		return nil
	}
	return w.accts[uniform(w.t, len(w.accts), label)]
}

func (w *c38World) unknownAddr() string {
	var gone []string
	for _, k := range w.known {
		if w.find(k) == nil {
			gone = append(gone, k)
		}
	}
	if len(gone) > 0 && uniform(w.t, 2, "gone") == 0 {
		return gone[uniform(w.t, len(gone), "which-gone")]
	}
	return "AQf4Mzu1YJrhz9f3aRkkwSm9n3qhXGSh4p" // a well-formed address no history creates
}

func (w *c38World) opNew() {
	specs := 3
	if w.p.allK {
		specs = len(c38Specs)
	}
	sp := c38Specs[uniform(w.t, specs, "key-spec")]
	label := w.renameTarget(c38Labels[uniform(w.t, len(c38Labels), "label")])
	if w.hasLabel(label) && label != "" && uniform(w.t, 3, "keep-duplicate") != 0 {
		// a refused NewAccount still pays for the encryption: keep a third of the duplicate labels
		for _, l := range c38Labels {
			if !w.hasLabel(l) {
				label = l
				break
			}
		}
	}
	scheme := sp.scheme
	kind := "natural"
	switch k := uniform(w.t, 10, "scheme-kind"); {
	case k < 1:
		inv := c38Invalid(sp.family)
		scheme = inv[uniform(w.t, len(inv), "invalid-scheme")]
		kind = "invalid"
	case k < 5:
		l := c38FamilySchemes[sp.family]
		scheme = l[uniform(w.t, len(l), "family-scheme")]
		kind = "family"
	}
	pw := c38DrawPw(w.t)
	if uniform(w.t, 25, "empty-pw") == 0 {
		pw = []byte{}
	}
	f := w.armFault()
	acc, err := w.cli.NewAccount(label, sp.kt, sp.curve, scheme, pw)
	w.disarm("NewAccount", err)
	ok := err == nil
	w.class("NewAccount", ok)
	if !ok {
		w.logf("%snew(%s,%q,%s:%s,pw%d)=ERR", f, sp.name, label, kind, scheme.Name(), len(pw))
		return
	}
	if acc == nil {
		w.fail("NewAccount returned neither an account nor an error")
	}
	a := &c38Acct{id: w.nextID, addr: acc.Address.ToBase58(), label: label, def: len(w.accts) == 0, scheme: scheme.Name(), pw: pw,
		priv: keypair.SerializePrivateKey(acc.PrivateKey), pub: hex.EncodeToString(keypair.SerializePublicKey(acc.PublicKey)),
		family: sp.family, dirty: true}
	w.nextID++
	w.accts = append(w.accts, a)
	w.remember(a.addr)
	w.everAccts++
	w.logf("new(%s,%q,%s:%s,pw=%q)=#%d", sp.name, label, kind, scheme.Name(), pw, a.id)
}

// renameTarget biases label draws towards the state ImportAccount's renaming rule needs: an importable
// label L and its renamed form L_1 both carried by accounts of the wallet.
func (w *c38World) renameTarget(label string) string {
	if uniform(w.t, 2, "toward-rename") != 0 {
		return label
	}
	for _, l := range []string{"t1", "main"} {
		if !w.hasLabel(l) {
			return l
		}
		if !w.hasLabel(l + "_1") {
			return l + "_1"
		}
	}
	return label
}

func (w *c38World) opImport() {
	var cands []*c38Export
	for _, e := range w.exports {
		if w.find(e.meta.Address) == nil { // what the CLI guarantees: it skips addresses the wallet already holds
			cands = append(cands, e)
		}
	}
	if len(cands) == 0 {
		w.opNew()
		return
	}
	e := cands[uniform(w.t, len(cands), "export")]
	// prefer an export whose label AND renamed label are taken (the import must then be refused)
	if uniform(w.t, 4, "prefer-collision") != 0 {
		for _, c := range cands {
			if l := c.meta.Label; l != "" && w.hasLabel(l) && w.hasLabel(l+"_1") {
				e = c
				break
			}
		}
	}
	m := e.meta // copy
	want := m.Label
	renamedTaken := false
	if want != "" && w.hasLabel(want) {
		want += "_1" // documented in ImportAccount: "rename"
		renamedTaken = w.hasLabel(want)
	}
	f := w.armFault()
	err := w.cli.ImportAccount(&m)
	w.disarm("ImportAccount", err)
	ok := err == nil
	w.class("ImportAccount", ok)
	if renamedTaken {
		w.ev.Class("import:renamed-label-also-taken")
		if ok {
			w.fail("ImportAccount(%s, label %q) succeeded although both %q and the renamed %q are carried by other accounts: two accounts now share a label", e.origin, e.meta.Label, e.meta.Label, want)
		}
	}
	if !ok {
		w.logf("%simport(%s,%q)=ERR", f, e.origin, e.meta.Label)
		return
	}
	if want != e.meta.Label {
		w.ev.Class("import:renamed")
	}
	a := &c38Acct{id: w.nextID, addr: m.Address, label: want, def: len(w.accts) == 0, scheme: m.SigSch, pw: e.pw, priv: e.priv,
		pub: m.PubKey, family: c38Family(m.KeyType), dirty: true}
	w.nextID++
	w.accts = append(w.accts, a)
	w.remember(a.addr)
	w.everAccts++
	w.mutations++
	w.logf("import(%s,%q)=#%d as %q", e.origin, e.meta.Label, a.id, want)
}

func (w *c38World) opDelete() {
	var nondef []*c38Acct
	var def *c38Acct
	for _, a := range w.accts {
		if a.def {
			def = a
		} else {
			nondef = append(nondef, a)
		}
	}
	kind := uniform(w.t, 20, "delete-kind")
	var addr, what string
	var pw []byte
	var target *c38Acct
	switch {
	case kind < 13 && len(nondef) > 0:
		target = nondef[uniform(w.t, len(nondef), "victim")]
		addr, pw, what = target.addr, target.pw, fmt.Sprintf("#%d", target.id)
	case kind < 16 && len(nondef) > 0:
		target = nondef[uniform(w.t, len(nondef), "victim")]
		addr, pw, what = target.addr, append(append([]byte{}, target.pw...), '!'), fmt.Sprintf("#%d wrong-pw", target.id)
	case kind < 18 && def != nil:
		target = def
		addr, pw, what = def.addr, def.pw, fmt.Sprintf("#%d default", def.id)
	default:
		addr, pw, what = w.unknownAddr(), []byte("123456"), "unknown"
	}
	var before *account.AccountMetadata
	if target != nil {
		before = w.cli.GetAccountMetadataByAddress(addr)
	}
	f := w.armFault()
	acc, err := w.cli.DeleteAccount(addr, pw)
	w.disarm("DeleteAccount", err)
	ok := err == nil && acc != nil
	w.class("DeleteAccount", ok)
	w.logf("%sdelete(%s)=%v", f, what, ok)
	if !ok {
		return
	}
	if target == nil {
		w.fail("DeleteAccount(%s) reports a deleted account for an address the wallet never listed", addr)
	}
	for i, a := range w.accts {
		if a == target {
			w.accts = append(w.accts[:i:i], w.accts[i+1:]...)
			break
		}
	}
	w.mutations++
	if before != nil {
		// the metadata as exported just before the deletion can be imported again later
		w.exports = append(w.exports, &c38Export{meta: *before, pw: target.pw, priv: target.priv, origin: fmt.Sprintf("ex#%d", target.id)})
	}
}

func (w *c38World) opSetDefault() {
	a := w.pick("new-default")
	if a != nil && a.def && len(w.accts) > 1 && uniform(w.t, 4, "keep-default") != 0 {
		// re-selecting the default is a documented no-op that saves nothing: mostly pick another account
		for _, b := range w.accts {
			if !b.def {
				a = b
				break
			}
		}
	}
	addr, what := "", ""
	if a == nil || uniform(w.t, 5, "unknown") == 0 {
		addr, what, a = w.unknownAddr(), "unknown", nil
	} else {
		addr, what = a.addr, fmt.Sprintf("#%d", a.id)
	}
	f := w.armFault()
	err := w.cli.SetDefaultAccount(addr)
	w.disarm("SetDefaultAccount", err)
	ok := err == nil
	w.class("SetDefaultAccount", ok)
	w.logf("%ssetdefault(%s)=%v", f, what, ok)
	if !ok {
		return
	}
	if a == nil {
		w.fail("SetDefaultAccount(%s) succeeded for an address the wallet does not list", addr)
	}
	for _, b := range w.accts {
		b.def = b == a
	}
	w.mutations++
}

func (w *c38World) opSetLabel() {
	a := w.pick("relabel")
	label := c38Labels[uniform(w.t, len(c38Labels), "label")]
	addr, what := "", ""
	if a == nil || uniform(w.t, 8, "unknown") == 0 {
		addr, what, a = w.unknownAddr(), "unknown", nil
	} else {
		addr, what = a.addr, fmt.Sprintf("#%d", a.id)
	}
	f := w.armFault()
	err := w.cli.SetLabel(addr, label)
	w.disarm("SetLabel", err)
	ok := err == nil
	w.class("SetLabel", ok)
	w.logf("%ssetlabel(%s,%q)=%v", f, what, label, ok)
	if !ok {
		return
	}
	if a == nil {
		w.fail("SetLabel(%s) succeeded for an address the wallet does not list", addr)
	}
	if a.label != label {
		w.mutations++
	}
	a.label = label
}

func (w *c38World) opChangePw() {
	a := w.pick("pw-account")
	if a == nil {
		w.opNew()
		return
	}
	old := a.pw
	kind := "ok"
	if uniform(w.t, 4, "wrong-old") == 0 {
		old = append(append([]byte{}, a.pw...), '?')
		kind = "wrong-old"
	}
	var neu []byte
	switch k := uniform(w.t, 10, "new-kind"); {
	case k == 0 && len(a.prev) > 0:
		neu = a.prev[len(a.prev)-1] // back to the previous one
	case k == 1:
		neu = append([]byte{}, old...) // same as the old one: documented no-op
	default:
		neu = c38DrawPw(w.t)
	}
	f := w.armFault()
	err := w.cli.ChangePassword(a.addr, old, neu)
	w.disarm("ChangePassword", err)
	ok := err == nil
	if !ok && !bytes.Equal(neu, a.pw) {
		// reported as failed: the current password stays current, the refused new one must not open the account
		a.failed = append(a.failed, neu)
		a.dirty = true
	}
	if ok && bytes.Equal(old, neu) {
		w.ev.Class("op")
		w.ev.Class("op:ChangePassword:unchanged")
	} else {
		w.class("ChangePassword", ok)
	}
	w.logf("%schangepw(#%d,%s,%q->%q)=%v", f, a.id, kind, old, neu, ok)
	if !ok || bytes.Equal(old, neu) {
		return
	}
	a.prev = append(a.prev, a.pw)
	a.pw = neu
	a.dirty = true
	w.mutations++
}

func (w *c38World) opChangeScheme() {
	a := w.pick("scheme-account")
	if a == nil {
		w.opNew()
		return
	}
	var scheme s.SignatureScheme
	kind := "valid"
	if uniform(w.t, 3, "invalid") == 0 {
		inv := c38Invalid(a.family)
		scheme = inv[uniform(w.t, len(inv), "invalid-scheme")]
		kind = "invalid"
	} else {
		l := c38FamilySchemes[a.family]
		scheme = l[uniform(w.t, len(l), "family-scheme")]
	}
	f := w.armFault()
	err := w.cli.ChangeSigScheme(a.addr, scheme)
	w.disarm("ChangeSigScheme", err)
	ok := err == nil
	w.class("ChangeSigScheme", ok)
	w.logf("%sscheme(#%d,%s:%s)=%v", f, a.id, kind, scheme.Name(), ok)
	if !ok {
		return
	}
	if !strings.EqualFold(a.scheme, scheme.Name()) {
		w.mutations++
	}
	a.scheme = scheme.Name()
}

func (w *c38World) step() {
	ops := []func(){w.opNew, w.opImport, w.opDelete, w.opSetDefault, w.opSetLabel, w.opChangePw, w.opChangeScheme,
		func() { w.ev.Class("op"); w.ev.Class("op:reopen"); w.logf("REOPEN"); w.reopen(false) }}
	total := 0
	for _, x := range w.p.w {
		total += x
	}
	r := uniform(w.t, total, "op")
	for i, x := range w.p.w {
		if r < x {
			if i <= 1 && len(w.accts) >= 4 { // keep the wallet small: every account costs scrypt time at each check
				w.opDelete()
				return
			}
			ops[i]()
			return
		}
		r -= x
	}
}

func c38Run(t *testing.T, p c38Profile, quick, thorough int) {
	ev := harn.For("C38").
		Rule("histories (avg 8 operations after a first NewAccount; 10 in profile 'savefaults', 20 mostly scrypt-free ones in profile 'metadata') on a wallet file with default scrypt parameters: NewAccount (P-256/SM2/Ed25519, profile 'schemes' also P-224/384/521; natural, other valid, or (10%) invalid scheme; label from {\"\",t1,t2,main,λ-wallet,a b\"<&>,t1_1,main_1} (the _1 forms are what ImportAccount renames a taken label to); 4% empty password), ImportAccount (metadata exported from another wallet file or from this wallet before a deletion; only addresses the wallet does not hold), DeleteAccount (65% a non-default account with its password, else wrong password / default account / unknown address), SetDefaultAccount, SetLabel, ChangePassword (25% wrong old password; 10% back to the previous one; 10% unchanged), ChangeSigScheme (1/3 invalid), reopen; before a quarter (profile 'savefaults': half) of the saving operations the next save is made to fail (the operation must report it and leave the wallet as it was). Non-trivial = >=2 accounts ever listed, >=1 successful mutation after creation (import, delete, default, label, password, scheme) and a reopen after it; distinct by the operation log (account numbers, not addresses)").
		Assume("key pairs and salts come from crypto/rand inside NewAccount/EncryptPrivateKey; addresses therefore differ between runs and are never part of a draw or of the case description").
		Assume("AES-GCM authentication makes decryption with a wrong scrypt key fail; wrong passwords are sampled (2 + the empty one per checked account), not enumerated").
		Assume("passwords are non-empty byte strings without NUL bytes and shorter than 64 bytes (what a terminal or a command line can deliver): scrypt's PBKDF2-HMAC-SHA256 zero-pads keys to the 64-byte block and hashes longer ones, so p and p||0x00 (and a >64-byte p and sha256(p)) are the same key by construction of HMAC, not by a choice of the wallet")
	// Floors are evaluated per process (one profile, one shard) and only from 200 operations on, so they are
	// tied to the profile's weights: an operation the profile rarely draws is not expected here.
	okScale := 1.0
	if p.faults == 2 {
		okScale = 0.25 // half of the saving operations fail there by construction
	}
	if p.w[5] >= 10 {
		ev.Floor("op:ChangePassword:ok", "op", 0.04*okScale)
	}
	if p.w[2] >= 10 {
		ev.Floor("op:DeleteAccount:ok", "op", 0.016*okScale)
	}
	{
		// tied to the profile's own weight of the reopen step (the floor is enforced from 200 operations
		// on, where a fixed 6% was within the noise of the profiles that draw reopen 7-8% of the time)
		sum := 0
		for _, x := range p.w {
			sum += x
		}
		ev.Floor("op:reopen", "op", 0.4*float64(p.w[7])/float64(sum))
	}
	ev.Floor("fault:injected", "op", 0.08)
	if p.faults == 2 {
		// the fault profile draws every saving operation often enough, and its thorough shards are sized to
		// pass 200 operations: each operation must have met at least one failing save per process
		// (DeleteAccount needs a second account, the right password and an armed fault at once: about 7 per
		// thorough shard, and a shard without any was observed; its count is reported, not floored)
		for _, op := range []string{"NewAccount", "ImportAccount", "SetDefaultAccount", "SetLabel", "ChangePassword", "ChangeSigScheme"} {
			ev.Floor("fault:"+op+":save-failed", "op", 0.004)
		}
	}

	steps := p.steps
	if steps == 0 {
		steps = 8
	}
	harn.CheckSteps(t, steps, quick, thorough, func(t *rapid.T) {
		dir, err := os.MkdirTemp("", "c38-")
		if err != nil {
			t.Fatal(err)
		}
		defer os.RemoveAll(dir)
		src, err := c38Source()
		if err != nil {
			t.Fatalf("harness: source wallet: %v", err)
		}
		w := &c38World{t: t, ev: ev, p: p, path: filepath.Join(dir, "wallet.dat")}
		w.exports = append(w.exports, src...)
		w.cli, err = account.Open(w.path)
		if err != nil {
			t.Fatalf("harness: open new wallet: %v", err)
		}
		for len(w.accts) == 0 {
			w.opNew()
		}
		t.Repeat(map[string]func(*rapid.T){"step": func(*rapid.T) { w.step() }})
		mutBefore := w.mutations
		w.logf("REOPEN(final)")
		w.reopen(true)
		nontrivial := w.everAccts >= 2 && mutBefore >= 1
		ev.Class("history")
		if nontrivial {
			ev.Class("history:nontrivial")
		}
		ev.Case(nontrivial, p.name+": "+strings.Join(w.log, " | "))
	})
}

func TestC38_Mixed(t *testing.T) {
	c38Run(t, c38Profile{name: "mixed", w: [8]int{16, 10, 12, 10, 12, 16, 8, 16}}, 5, 60)
}

func TestC38_Passwords(t *testing.T) {
	c38Run(t, c38Profile{name: "passwords", w: [8]int{12, 6, 8, 4, 4, 40, 4, 22}}, 5, 60)
}

func TestC38_LabelsDefaultDelete(t *testing.T) {
	c38Run(t, c38Profile{name: "labels", w: [8]int{16, 8, 18, 14, 24, 4, 2, 14}}, 5, 60)
}

func TestC38_ImportExport(t *testing.T) {
	c38Run(t, c38Profile{name: "import", w: [8]int{8, 30, 22, 6, 8, 8, 2, 16}}, 4, 60)
}

// labels and imports only: the renaming rule of ImportAccount (label taken -> label_1; that one taken
// too -> refused) is reached in most histories
func TestC38_ImportRename(t *testing.T) {
	c38Run(t, c38Profile{name: "rename", w: [8]int{22, 34, 4, 2, 26, 0, 0, 12}, steps: 10}, 6, 90)
}

func TestC38_Schemes(t *testing.T) {
	c38Run(t, c38Profile{name: "schemes", w: [8]int{24, 6, 8, 4, 4, 8, 28, 18}, allK: true}, 5, 60)
}

// every second saving operation meets a failing save; all seven saving operations are drawn often
// (thorough: 20 histories per shard so that the per-operation floors are enforced)
func TestC38_SaveFaults(t *testing.T) {
	c38Run(t, c38Profile{name: "savefaults", w: [8]int{12, 10, 16, 12, 14, 20, 12, 8}, steps: 10, faults: 2}, 5, 120)
}

// long histories of the operations that cost no scrypt time (default, label, scheme; valid, invalid, unknown address)
func TestC38_Metadata(t *testing.T) {
	c38Run(t, c38Profile{name: "metadata", w: [8]int{3, 3, 3, 27, 27, 2, 21, 14}, steps: 20}, 5, 60)
}
